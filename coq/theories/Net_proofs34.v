(* Net_proofs34.v — package J, part 12: a round of a net in which nothing is in flight lowers HH + AA. *)
From BS Require Import Server_lemmas Server_inv Wantlist_proofs Client_proofs Client_proofs2 Client_proofs3 Client_proofs4
  Client_proofs8 Net Net_proofs2 Net_proofs3 Net_proofs4 Net_proofs5 Net_proofs6 Net_proofs7 Net_proofs9 Net_proofs10 Net_proofs11
  Net_proofs17 Net_proofs23 Net_proofs24 Net_proofs25 Net_proofs26 Net_proofs27 Net_proofs28 Net_proofs29 Net_proofs30 Net_proofs31
  Net_proofs33.
From Coq Require Import ZArith ZifyBool ZifyN ZifyNat Lia.
Open Scope nat_scope.

Definition AllN (X : node -> Prop) (s : net) : Prop := forall k n, get_node s k = Some n -> X n.

Lemma AA_le s m : AllN (fun n => a_node n <= m) s -> AA s <= m.
Proof.
  intros H. unfold AA. assert (Hn : forall n, In n (nodes s) -> a_node n <= m).
  { intros n Hin. apply In_nth_error in Hin. destruct Hin as (idx & Hidx). apply (H (N.of_nat idx)). unfold get_node. rewrite Nat2N.id. exact Hidx. }
  clear H. induction (nodes s) as [|n l IH]; cbn [fold_right]; [lia|].
  pose proof (Hn n (or_introl eq_refl)). specialize (IH (fun x Hx => Hn x (or_intror Hx))). lia.
Qed.

Lemma AA_ge s k n : get_node s k = Some n -> a_node n <= AA s.
Proof.
  intros Hg. apply nth_error_In in Hg. unfold AA. induction (nodes s) as [|x l IH]; [destruct Hg|]. cbn [fold_right].
  destruct Hg as [->|Hin]; [lia|]. specialize (IH Hin). lia.
Qed.

Lemma a_node_le2 n : a_node n <= 2.
Proof. unfold a_node, a_client, a_server. repeat match goal with |- context [if ?b then _ else _] => destruct b end; lia. Qed.

Lemma AA_le2 s : AA s <= 2.
Proof. apply AA_le. intros k n _. apply a_node_le2. Qed.

Section CleanRound.
  Variables (Sz : N) (Hh : hash_fn).
  Hypothesis HSz : (32 <= Sz)%N.
  Local Notation RI := (RI Sz Hh).

  (* ---------- every node is polled once, in its state at the start of the round ---------- *)
  Lemma poll_now s i : now (fst (nstep Sz Hh s (NPoll i))) = now s /\ length (nodes (fst (nstep Sz Hh s (NPoll i)))) = length (nodes s).
  Proof.
    cbn [nstep]. unfold do_poll. destruct (get_node s i) as [n|]; [|auto].
    destruct (node_poll Sz n) as [n1 o]. destruct (fold_left (hand_over s i) (o_wants o) (n1, [])) as [n2 ws]. cbn [fst now nodes].
    rewrite set_nth_length. auto.
  Qed.

  Lemma polls_all (X : N -> node -> Prop) ks : NoDup ks -> forall s, RI s ->
    (forall sa k n, In k ks -> RI sa -> now sa = now s -> get_node sa k = Some n -> get_node s k = Some n ->
       forall n1, get_node (fst (nstep Sz Hh sa (NPoll k))) k = Some n1 -> X k n1) ->
    forall k n1, In k ks -> get_node (fst (nrun Sz Hh s (map NPoll ks))) k = Some n1 -> X k n1.
  Proof.
    induction 1 as [|k0 ks Hn0 Hnd IH]; intros s HR Hstep k n1 Hin Hg; [destruct Hin|]. cbn [map] in Hg. rewrite (nrun_cons Sz Hh) in Hg. cbn [fst] in Hg.
    destruct Hin as [->|Hin].
    - rewrite (polls_other Sz Hh HSz ks k Hn0) in Hg.
      destruct (get_node s k) as [n|] eqn:Hgk.
      + apply (Hstep s k n (or_introl eq_refl) HR eq_refl Hgk Hgk n1 Hg).
      + exfalso. cbn [nstep] in Hg. unfold do_poll in Hg. rewrite Hgk in Hg. cbn [fst] in Hg. congruence.
    - apply (IH (fst (nstep Sz Hh s (NPoll k0))) (RI_step Sz Hh HSz s (NPoll k0) I HR)); [|exact Hin | exact Hg].
      intros sa k' n Hin' HRa Hnow Hga Hgs n1' Hg1. assert (Hne : k0 <> k') by (intros ->; contradiction).
      apply (Hstep sa k' n (or_intror Hin') HRa); [rewrite Hnow; apply poll_now | exact Hga | rewrite <- (poll_other Sz Hh HSz s k0 k' Hne); exact Hgs | exact Hg1].
  Qed.

  Lemma seqN_NoDup from n : NoDup (seqN from n).
  Proof.
    revert from. induction n as [|n IH]; intros from; cbn [seqN]; constructor; [|apply IH]. intros H. apply (seqN_In Sz HSz) in H. lia.
  Qed.

  Lemma polls_length ks : forall s, length (nodes (fst (nrun Sz Hh s (map NPoll ks)))) = length (nodes s).
  Proof.
    induction ks as [|k ks IH]; intros s; [reflexivity|]. cbn [map]. rewrite (nrun_cons Sz Hh). cbn [fst]. rewrite IH. apply poll_now.
  Qed.

  Lemma polls_nodes (X : node -> Prop) s : RI s ->
    (forall sa k n, RI sa -> now sa = now s -> get_node sa k = Some n -> get_node s k = Some n ->
       forall n1, get_node (fst (nstep Sz Hh sa (NPoll k))) k = Some n1 -> X n1) ->
    AllN X (fst (nrun Sz Hh s (polls_of s))).
  Proof.
    intros HR Hstep k n1 Hg. unfold polls_of in *.
    apply (polls_all (fun _ n => X n) (seqN 0 (length (nodes s))) (seqN_NoDup _ _) s HR (fun sa k0 n _ => Hstep sa k0 n) k n1); [|exact Hg].
    apply (seqN_In Sz HSz). pose proof (get_node_lt _ k n1 Hg) as Hlt. rewrite polls_length in Hlt. lia.
  Qed.

  (* the node a poll leaves behind, in the terms of the normal form *)
  Lemma poll_node_eq sa k n sC outsC : poll_nf Sz Hh sa k n sC outsC -> get_node sa k = Some n ->
    get_node (fst (nstep Sz Hh sa (NPoll k))) k =
    Some (MkNode (set_peers (set_new_blocks (set_queue sC []) []) (map (fin1 (now sa) (cs_wl sC)) (cs_peers sC)))
                 (fst (srv_poll (n_server n) (cs_new_blocks sC))) (n_store n)
                 (n_calls n ++ cl_calls outsC ++ sv_calls (snd (srv_poll (n_server n) (cs_new_blocks sC))))) /\
    wire_w (fst (nstep Sz Hh sa (NPoll k))) = wire_w sa ++ map (w_of k) (flat_map (sends1 (cs_wl sC)) (cs_peers sC)).
  Proof.
    intros [_ _ _ Heq] Hg. cbn zeta in Heq. cbn [nstep]. rewrite Heq. cbn [fst wire_w]. split; [|reflexivity].
    unfold get_node. cbn [nodes]. apply nth_set_nth_eq. eapply get_node_lt. exact Hg.
  Qed.

  Lemma clean_no_busy s k n : RI s -> wire_w s = [] -> get_node s k = Some n -> forall p, ~ busy (n_client n) p.
  Proof. intros [_ [_ HWL]] Hw Hg p Hb. destruct (HWL k n p Hg Hb) as (m & Hm & _). rewrite Hw in Hm. destruct Hm. Qed.

  Lemma RI_NL s k n : RI s -> get_node s k = Some n -> NL n.
  Proof. intros [_ [Hnl _]] Hg. apply (Hnl k n Hg). Qed.

  Definition PCn (n : node) : Prop := PCc (n_client n).

  Lemma polls_PC s : RI s -> wire_w s = [] -> AllN PCn (fst (nrun Sz Hh s (polls_of s))).
  Proof.
    intros HR Hw. apply (polls_nodes PCn s HR). intros sa k n HRa Hnow Hga Hgs n1 Hg1.
    destruct (do_poll_nf Sz Hh sa k n (proj1 HRa) Hga) as (sC & outsC & Hnf).
    destruct (poll_node_eq sa k n sC outsC Hnf Hga) as [E _]. rewrite E in Hg1. injection Hg1 as <-. unfold PCn. cbn [n_client].
    apply (poll_PC Sz Hh sa k n sC outsC (RI_NL s k n HR Hgs) (clean_no_busy s k n HR Hw Hgs) Hnf).
  Qed.

  (* the round of a net whose light work is all of level 1, without get results and lookups *)
  Definition calm1 (n : node) : Prop :=
    n_calls n = [] /\ a_client (n_client n) <= 1 /\ (forall e, In e (cs_tasks (n_client n)) -> rgb (snd e) = false) /\ lookups (n_server n) = 0.

  Lemma polls_PC0 s : RI s -> wire_w s = [] -> AllN calm1 s ->
    let s1 := fst (nrun Sz Hh s (polls_of s)) in
    AllN (fun n => PC0n n /\ n_calls n = []) s1 /\ wire_w s1 = [].
  Proof.
    intros HR Hw Hcalm. cbn zeta. split.
    - apply (polls_nodes (fun n => PC0n n /\ n_calls n = []) s HR). intros sa k n HRa Hnow Hga Hgs n1 Hg1.
      destruct (do_poll_nf Sz Hh sa k n (proj1 HRa) Hga) as (sC & outsC & Hnf).
      destruct (poll_node_eq sa k n sC outsC Hnf Hga) as [E _]. rewrite E in Hg1. injection Hg1 as <-.
      destruct (Hcalm k n Hgs) as (Hc & Hl & Hr & Hk).
      destruct (poll_PC0 Sz Hh HSz sa k n sC outsC (proj1 HRa) (RI_NL s k n HR Hgs) Hga (clean_no_busy s k n HR Hw Hgs) Hc Hl Hr Hk Hnf) as (H1 & H2 & _).
      split; [exact H1 | exact H2].
    - unfold polls_of. assert (Hgen : forall ks, NoDup ks -> forall s0, RI s0 -> wire_w s0 = [] ->
                (forall k n, In k ks -> get_node s0 k = Some n -> get_node s k = Some n) ->
                wire_w (fst (nrun Sz Hh s0 (map NPoll ks))) = []).
      { induction 1 as [|k0 ks Hn0 Hnd IH]; intros s0 HR0 Hw0 Hsame; [exact Hw0|]. cbn [map]. rewrite (nrun_cons Sz Hh). cbn [fst].
        apply IH.
        - apply (RI_step Sz Hh HSz s0 (NPoll k0) I HR0).
        - destruct (get_node s0 k0) as [n|] eqn:Hg0; [|cbn [nstep]; unfold do_poll; rewrite Hg0; exact Hw0].
          pose proof (Hsame k0 n (or_introl eq_refl) Hg0) as Hgs.
          destruct (do_poll_nf Sz Hh s0 k0 n (proj1 HR0) Hg0) as (sC & outsC & Hnf).
          destruct (poll_node_eq s0 k0 n sC outsC Hnf Hg0) as [_ E]. rewrite E, Hw0.
          destruct (Hcalm k0 n Hgs) as (Hc & Hl & Hr & Hk).
          destruct (poll_PC0 Sz Hh HSz s0 k0 n sC outsC (proj1 HR0) (RI_NL s k0 n HR Hgs) Hg0 (clean_no_busy s k0 n HR Hw Hgs) Hc Hl Hr Hk Hnf) as (_ & _ & EL).
          rewrite EL. reflexivity.
        - intros k n Hin Hg. assert (Hne : k0 <> k) by (intros ->; contradiction). rewrite (poll_other Sz Hh HSz s0 k0 k Hne) in Hg. apply (Hsame k n (or_intror Hin) Hg). }
      apply (Hgen _ (seqN_NoDup _ _) s HR Hw). intros k n _ Hg. exact Hg.
  Qed.
End CleanRound.

Section CleanRound2.
  Variables (Sz : N) (Hh : hash_fn).
  Hypothesis HSz : (32 <= Sz)%N.
  Local Notation RI := (RI Sz Hh).
  Local Notation G := (good Sz Hh).

  (* ---------- predicates on nodes that only look at what a batch without an accepted block leaves alone ---------- *)
  Definition view_inv (X : node -> Prop) : Prop :=
    forall n n', n_server n' = n_server n -> n_calls n' = n_calls n ->
      cs_tasks (n_client n') = cs_tasks (n_client n) -> cs_queue (n_client n') = cs_queue (n_client n) ->
      cs_wl (n_client n') = cs_wl (n_client n) -> cs_peers (n_client n') = cs_peers (n_client n) ->
      cs_new_blocks (n_client n') = cs_new_blocks (n_client n) -> cs_now (n_client n') = cs_now (n_client n) ->
      cs_deadline (n_client n') = cs_deadline (n_client n) -> X n -> X n'.

  Lemma PCn_view : view_inv PCn.
  Proof. intros n n' _ _ E1 E2 E3 E4 E5 E6 E7. apply PCc_fields; assumption. Qed.

  Lemma PC0n_view : view_inv (fun n => PC0n n /\ n_calls n = []).
  Proof.
    intros n n' Es Ec E1 E2 E3 E4 E5 E6 E7 [H Hc]. split; [|congruence]. unfold PC0n, timer_ready in *. cbn zeta in *.
    rewrite Es, E1, E2, E3, E4, E5, E6, E7. exact H.
  Qed.

  (* a block batch is delivered: an accepted block lowers HH by 3, otherwise the nodes look the same *)
  Lemma deliver_b_keep (X : node -> Prop) s j i : view_inv X -> RI s -> AllN X s ->
    HH (fst (nstep Sz Hh s (NDeliverB j i))) + 3 <= HH s \/ AllN X (fst (nstep Sz Hh s (NDeliverB j i))).
  Proof.
    intros HX HR Hall. cbn [nstep fst]. unfold do_deliver_b. destruct (take_first (b_between j i) (wire_b s)) as [[m rest]|] eqn:Et; [|right; exact Hall].
    destruct (take_first_spec _ _ _ _ Et) as (Hm & _). pose proof (no_wire_b Sz Hh s (proj1 HR) m Hm) as Hg.
    destruct (get_node s i) as [ni|] eqn:Ei; [|right; exact Hall].
    destruct (H_node_incoming_b Sz Hh HSz ni j (bm_blocks m) Hg (ck_keys _ _ (nk_ck _ _ _ _ _ (no_nodes Sz Hh s (proj1 HR) i ni Ei)))) as (Hi & Hs & Hc & _ & Hcase).
    cbn zeta in *. destruct (node_incoming Sz Hh ni j (blocks_message (bm_blocks m))) as [ni1 evs]. cbn [fst] in *.
    destruct Hcase as [(E1 & E2 & E3 & E4 & E5 & E6 & E7)|Hlt].
    - right. intros k n Hk. unfold get_node in Hk. cbn [nodes] in Hk. destruct (N.eq_dec i k) as [<-|Hne].
      + rewrite nth_set_nth_eq in Hk by (eapply get_node_lt; exact Ei). injection Hk as <-. apply (HX ni ni1); try assumption. apply (Hall i ni Ei).
      + rewrite nth_set_nth_neq in Hk by lia. apply (Hall k n Hk).
    - left. rewrite !HH_eq. cbn [nodes wire_w]. pose proof (sum_by_set_nth node_H (N.to_nat i) ni1 ni (nodes s) Ei). lia.
  Qed.

  Lemma deliveries_b_keep (X : node -> Prop) : view_inv X -> forall l s, RI s -> AllN X s ->
    let s' := fst (nrun Sz Hh s (map (fun m => NDeliverB (bm_src m) (bm_dst m)) l)) in
    HH s' + 3 <= HH s \/ AllN X s'.
  Proof.
    intros HX. induction l as [|m l IH]; intros s HR Hall; cbn zeta; cbn [map]; [right; exact Hall|].
    rewrite (nrun_cons Sz Hh). cbn [fst].
    pose proof (RI_step Sz Hh HSz s (NDeliverB (bm_src m) (bm_dst m)) I HR) as HR1.
    assert (Hs : Forall sched (map (fun m => NDeliverB (bm_src m) (bm_dst m)) l)) by (apply Forall_forall; intros o Ho; apply in_map_iff in Ho; destruct Ho as (x & <- & _); exact I).
    destruct (deliver_b_keep X s (bm_src m) (bm_dst m) HX HR Hall) as [Hd|Hk].
    - left. pose proof (HH_run Sz Hh HSz _ Hs _ HR1). lia.
    - destruct (IH _ HR1 Hk) as [Hd|Hk2]; [|right; exact Hk2]. left. pose proof (HH_step Sz Hh HSz s (NDeliverB (bm_src m) (bm_dst m)) I HR). cbn zeta in Hd. lia.
  Qed.

  (* ---------- the store phase and the wantlist deliveries keep a polled client polled ---------- *)
  Lemma on_node_AllN (X : node -> Prop) s i f : (forall n, X n -> X (f n)) -> AllN X s -> AllN X (on_node s i f).
  Proof.
    intros Hf Hall k n Hk. unfold on_node in Hk. destruct (get_node s i) as [ni|] eqn:Ei; [|apply (Hall k n Hk)].
    destruct (N.eq_dec i k) as [<-|Hne]; [rewrite (get_set_eq _ _ _ _ Ei) in Hk; injection Hk as <-; apply Hf, (Hall i ni Ei) | rewrite get_set_neq in Hk by exact Hne; apply (Hall k n Hk)].
  Qed.

  Lemma PCn_store n k : PCn n -> PCn (node_store Sz n k).
  Proof.
    unfold PCn, node_store. intros H. destruct (nth_error (n_calls n) (N.to_nat k)) as [[m c|m bl|m c]|]; cbn [n_client cstep fst]; try exact H; apply PCc_release, H.
  Qed.

  Lemma stores_PC ops : (forall o, In o ops -> exists i k, o = NStore i k) -> forall s, AllN PCn s -> AllN PCn (fst (nrun Sz Hh s ops)).
  Proof.
    induction ops as [|o ops IH]; intros Ho s Hall; [exact Hall|]. rewrite (nrun_cons Sz Hh). cbn [fst].
    destruct (Ho o (or_introl eq_refl)) as (i & k & ->). apply IH; [intros o' H'; apply Ho; right; exact H'|].
    cbn [nstep fst]. apply on_node_AllN; [|exact Hall]. intros n. apply PCn_store.
  Qed.

  Lemma PCn_incoming_w n p sdh full es : PCn n -> PCn (fst (node_incoming Sz Hh n p (wantlist_message sdh full es))).
  Proof.
    unfold PCn, node_incoming. rewrite process_wantlist_message. cbn [in_client in_server]. destruct (full || negb (is_nil es)); cbn [fst n_client]; auto.
  Qed.

  Lemma deliver_w_PC s i j : AllN PCn s -> AllN PCn (fst (nstep Sz Hh s (NDeliverW i j))).
  Proof.
    intros Hall. cbn [nstep fst]. unfold do_deliver_w. destruct (take_first (w_between i j) (wire_w s)) as [[m rest]|]; [|exact Hall].
    set (s0 := MkNet (nodes s) (conns s) rest (wire_b s) (now s)). assert (H0 : AllN PCn s0) by exact Hall.
    destruct (get_node s0 i) as [ni|] eqn:Ei; [|exact H0]. destruct (get_node s0 j) as [nj|] eqn:Ej; [|exact H0].
    pose proof (PCn_incoming_w nj i (wl_sdh (cs_wl (n_client ni))) (wm_full m) (wm_entries m) (H0 j nj Ej)) as Hj.
    destruct (node_incoming Sz Hh nj i (wantlist_message (wl_sdh (cs_wl (n_client ni))) (wm_full m) (wm_entries m))) as [nj1 evs]. cbn [fst] in *.
    apply on_node_AllN; [intros n Hn; unfold PCn, node_report; cbn [n_client cstep fst]; apply PCc_report, Hn|].
    intros k n Hk. destruct (N.eq_dec j k) as [<-|Hne]; [rewrite (get_set_eq _ _ _ _ Ej) in Hk; injection Hk as <-; exact Hj | rewrite get_set_neq in Hk by exact Hne; apply (H0 k n Hk)].
  Qed.

  Lemma deliveries_w_PC l : forall s, AllN PCn s -> AllN PCn (fst (nrun Sz Hh s (map (fun m => NDeliverW (wm_src m) (wm_dst m)) l))).
  Proof.
    induction l as [|m l IH]; intros s Hall; [exact Hall|]. cbn [map]. rewrite (nrun_cons Sz Hh). cbn [fst]. apply IH, deliver_w_PC, Hall.
  Qed.

  (* ---------- levels ---------- *)
  Lemma PCn_AA s : AllN PCn s -> AA s <= 1.
  Proof.
    intros H. apply AA_le. intros k n Hg. unfold a_node. pose proof (PCc_level _ (H k n Hg)). unfold a_server. destruct (_ || _); lia.
  Qed.

  Lemma PC0n_AA s : AllN (fun n => PC0n n /\ n_calls n = []) s -> AA s = 0.
  Proof.
    intros H. assert (AA s <= 0); [|lia]. apply AA_le. intros k n Hg. rewrite (PC0n_level n (proj1 (H k n Hg))). lia.
  Qed.

  Lemma a_client_pos c :
    cs_tasks c <> [] \/ cs_queue c <> [] \/ cs_new_blocks c <> [] \/ timer_ready c = true \/
    forallb (peer_idle (cs_wl c)) (cs_peers c) = false -> 1 <= a_client c.
  Proof.
    intros H. unfold a_client. destruct (existsb unstarted (cs_tasks c) || timer_ready c || existsb _ (cs_peers c)) eqn:E1; [lia|].
    apply orb_false_iff in E1. destruct E1 as [E1 _]. apply orb_false_iff in E1. destruct E1 as [_ Et].
    assert (E2 : negb (is_nil (cs_tasks c)) || negb (is_nil (cs_queue c)) || negb (is_nil (cs_new_blocks c))
                 || negb (forallb (peer_idle (cs_wl c)) (cs_peers c)) = true).
    { destruct H as [H|[H|[H|[H|H]]]].
      - destruct (cs_tasks c); [congruence | reflexivity].
      - destruct (cs_queue c); [congruence|]. cbn [is_nil negb]. rewrite orb_true_r. reflexivity.
      - destruct (cs_new_blocks c); [congruence|]. cbn [is_nil negb]. rewrite !orb_true_r. reflexivity.
      - congruence.
      - rewrite H. cbn [negb]. apply orb_true_r. }
    rewrite E2. lia.
  Qed.

  (* a net with nothing in flight that is not quiet has light work *)
  Lemma clean_level s : RI s -> cleanb s = true -> quietb s = false -> 1 <= AA s.
  Proof.
    intros HR Hc Hq. apply cleanb_spec in Hc. destruct Hc as (Hw & Hb & Hcalls).
    unfold quietb in Hq. rewrite Hw, Hb in Hq. cbn [is_nil andb] in Hq.
    assert (Hex : exists n, In n (nodes s) /\ node_idle n = false).
    { clear -Hq. induction (nodes s) as [|n l IH]; [discriminate|]. cbn [forallb] in Hq. destruct (node_idle n) eqn:E.
      - destruct (IH Hq) as (n' & Hin & Hn'). exists n'. split; [right; exact Hin | exact Hn'].
      - exists n. split; [left; reflexivity | exact E]. }
    destruct Hex as (n & Hin & Hidle). apply In_nth_error in Hin. destruct Hin as (idx & Hidx).
    assert (Hg : get_node s (N.of_nat idx) = Some n) by (unfold get_node; rewrite Nat2N.id; exact Hidx).
    pose proof (AA_ge s _ n Hg) as Hge. assert (1 <= a_node n); [|lia].
    pose proof (RI_NL Sz Hh s _ n HR Hg) as (HQ & HC & HT & HS). pose proof (Hcalls _ _ Hg) as Hcn.
    pose proof (no_nodes Sz Hh s (proj1 HR) _ n Hg) as Hn. destruct (nk_sv _ _ _ _ _ Hn) as (_ & _ & Hp & _).
    unfold node_idle, client_idle, server_idle in Hidle. rewrite Hcn in Hidle. cbn [is_nil] in Hidle. rewrite andb_true_r in Hidle.
    destruct (cs_queue (n_client n)) as [|ev q] eqn:Eq; [|pose proof (a_client_pos (n_client n)) as Hp1; rewrite Eq in Hp1; unfold a_node; specialize (Hp1 ltac:(right; left; discriminate)); lia].
    destruct (cs_tasks (n_client n)) as [|t ts] eqn:Et; [|pose proof (a_client_pos (n_client n)) as Hp1; rewrite Et in Hp1; unfold a_node; specialize (Hp1 ltac:(left; discriminate)); lia].
    destruct (cs_new_blocks (n_client n)) as [|b nb] eqn:Enb; [|pose proof (a_client_pos (n_client n)) as Hp1; rewrite Enb in Hp1; unfold a_node; specialize (Hp1 ltac:(right; right; left; discriminate)); lia].
    destruct (timer_ready (n_client n)) eqn:Etr; [pose proof (a_client_pos (n_client n)) as Hp1; unfold a_node; specialize (Hp1 ltac:(right; right; right; left; exact Etr)); lia|].
    destruct (forallb (peer_idle (cs_wl (n_client n))) (cs_peers (n_client n))) eqn:Ep; [|pose proof (a_client_pos (n_client n)) as Hp1; unfold a_node; specialize (Hp1 ltac:(right; right; right; right; exact Ep)); lia].
    destruct (s_ready (n_server n)) as [|t ts] eqn:Er; [|unfold a_node, a_server; rewrite Er; cbn [is_nil negb orb]; lia].
    destruct (s_outq (n_server n)) as [|b ob] eqn:Eo; [|unfold a_node, a_server; rewrite Eo; cbn [is_nil negb orb]; rewrite orb_true_r; lia].
    exfalso. cbn [is_nil negb andb] in Hidle.
    assert (Erd : cs_ready (n_client n) = []).
    { destruct (cs_ready (n_client n)) as [|x r] eqn:Erd; [reflexivity|]. exfalso. destruct HQ as (_ & _ & _ & _ & Q5 & _). rewrite Et in Q5.
      specialize (Q5 x). rewrite Erd in Q5. exact (Q5 (or_introl eq_refl)). }
    assert (Ebl : s_blocked (n_server n) = []).
    { destruct (s_blocked (n_server n)) as [|[k0 x] bl] eqn:Eb; [reflexivity|]. exfalso.
      destruct (HS Hp k0 x) as (c0 & Hc0); [rewrite Eb; left; reflexivity|]. rewrite Hcn in Hc0. destruct Hc0. }
    rewrite Erd, Ebl in Hidle. cbn [is_nil andb] in Hidle. discriminate.
  Qed.
End CleanRound2.

Section CleanRound3.
  Variables (Sz : N) (Hh : hash_fn).
  Hypothesis HSz : (32 <= Sz)%N.
  Local Notation RI := (RI Sz Hh).

  (* ---------- one node's poll lowers HH by d: so does the poll phase ---------- *)
  Lemma polls_drop s k n d :
    RI s -> get_node s k = Some n ->
    (forall sa, RI sa -> get_node sa k = Some n -> HH (fst (nstep Sz Hh sa (NPoll k))) + d <= HH sa) ->
    HH (fst (nrun Sz Hh s (polls_of s))) + d <= HH s.
  Proof.
    intros HR Hg Hdrop. pose proof (get_node_lt s k n Hg) as Hlt.
    unfold polls_of. rewrite (seqN_split Sz HSz 0%N (length (nodes s)) (N.to_nat k) Hlt).
    replace (0 + N.of_nat (N.to_nat k))%N with k by lia. rewrite map_app. cbn [map]. rewrite (nrun_app Sz Hh). cbn [fst].
    assert (S1 : Forall sched (map NPoll (seqN 0 (N.to_nat k)))) by (apply Forall_forall; intros o Ho; apply in_map_iff in Ho; destruct Ho as (i & <- & _); exact I).
    pose proof (RI_run Sz Hh HSz _ S1 s HR) as HRa. pose proof (HH_run Sz Hh HSz _ S1 s HR) as Ha.
    set (sa := fst (nrun Sz Hh s (map NPoll (seqN 0 (N.to_nat k))))) in *.
    assert (Hga : get_node sa k = Some n).
    { unfold sa. rewrite (polls_other Sz Hh HSz); [exact Hg|]. intros Hin. apply (seqN_In Sz HSz) in Hin. lia. }
    rewrite (nrun_cons Sz Hh). cbn [fst].
    assert (S2 : Forall sched (map NPoll (seqN (k + 1) (length (nodes s) - N.to_nat k - 1)))) by (apply Forall_forall; intros o Ho; apply in_map_iff in Ho; destruct Ho as (i & <- & _); exact I).
    pose proof (HH_run Sz Hh HSz _ S2 _ (RI_step Sz Hh HSz sa (NPoll k) I HRa)) as Hb.
    specialize (Hdrop sa HRa Hga). lia.
  Qed.

  Definition hgn (n : node) : bool := existsb (fun e => rgb (snd e)) (cs_tasks (n_client n)).
  Definition lkn (n : node) : bool := negb (Nat.eqb (lookups (n_server n)) 0).

  Lemma hgn_has_rg n : NL n -> hgn n = true -> has_rg (after_timer (n_client n)).
  Proof.
    intros (HQ & _) H. unfold hgn in H. apply existsb_exists in H. destruct H as ([tid t] & Hin & Hrg). cbn [snd] in Hrg.
    destruct HQ as (Q1 & _ & Q3 & _).
    assert (Hn : needy t = true) by (unfold needy; destruct (poll_task_rg 0%N t Hrg) as (q & c & r & ->); reflexivity).
    assert (Hr : In tid (cs_ready (n_client n))) by (apply (Q3 tid t Hin Hn)).
    assert (Hf : al_find N.eqb tid (cs_tasks (n_client n)) = Some t) by (apply (al_in_find _ Neqb_spec); assumption).
    exists tid, t. unfold after_timer. destruct (timer_ready (set_queue (n_client n) [])); cbn [fire_timer set_queue cs_ready cs_tasks]; auto.
  Qed.

  Lemma existsb_node (f : node -> bool) s : existsb f (nodes s) = true -> exists k n, get_node s k = Some n /\ f n = true.
  Proof.
    intros H. apply existsb_exists in H. destruct H as (n & Hin & Hf). apply In_nth_error in Hin. destruct Hin as (idx & Hidx).
    exists (N.of_nat idx), n. split; [unfold get_node; rewrite Nat2N.id; exact Hidx | exact Hf].
  Qed.

  Lemma existsb_node_false (f : node -> bool) s k n : existsb f (nodes s) = false -> get_node s k = Some n -> f n = false.
  Proof.
    intros H Hg. destruct (f n) eqn:E; [|reflexivity]. assert (existsb f (nodes s) = true); [|congruence].
    apply existsb_exists. exists n. split; [eapply nth_error_In; exact Hg | exact E].
  Qed.

  (* ---------- the round of a net in which nothing is in flight ---------- *)
  Theorem clean_round_decreases s :
    RI s -> cleanb s = true -> quietb s = false ->
    RI (fst (round Sz Hh s)) /\ cleanb (fst (round Sz Hh s)) = true /\
    HH (fst (round Sz Hh s)) + AA (fst (round Sz Hh s)) < HH s + AA s.
  Proof.
    intros HR Hc Hq. split; [apply (round_decreases Sz Hh HSz s HR Hq)|]. split; [apply (round_clean Sz Hh HSz)|].
    pose proof (clean_level Sz Hh HSz s HR Hc Hq) as HA1. apply cleanb_spec in Hc. destruct Hc as (Hw & Hb & Hcalls).
    rewrite (round_fst Sz Hh).
    set (s1 := fst (nrun Sz Hh s (polls_of s))). set (s2 := fst (nrun Sz Hh s1 (stores_of s1))). set (s3 := fst (nrun Sz Hh s2 (deliveries_of s2))).
    pose proof (RI_run Sz Hh HSz _ (polls_sched s) s HR) as HR1. fold s1 in HR1.
    pose proof (RI_run Sz Hh HSz _ (stores_sched s1) s1 HR1) as HR2. fold s2 in HR2.
    pose proof (HH_run Sz Hh HSz _ (polls_sched s) s HR) as H1. fold s1 in H1.
    pose proof (HH_run Sz Hh HSz _ (stores_sched s1) s1 HR1) as H2. fold s2 in H2.
    pose proof (HH_run Sz Hh HSz _ (deliveries_sched s2) s2 HR2) as H3. fold s3 in H3.
    pose proof (AA_le2 s3) as HA3.
    (* a get result is handled *)
    destruct (existsb hgn (nodes s)) eqn:Ehg.
    { destruct (existsb_node hgn s Ehg) as (k & n & Hg & Hh0).
      assert (Hd : HH s1 + 3 <= HH s).
      { apply (polls_drop s k n 3 HR Hg). intros sa HRa Hga. cbn [nstep].
        destruct (HH_poll Sz Hh HSz sa k n (proj1 HRa) (RI_INVT Sz Hh sa k n HRa Hga) Hga) as (sC & outsC & _ & _ & Hrg).
        apply Hrg, hgn_has_rg; [apply (RI_NL Sz Hh s k n HR Hg) | exact Hh0]. }
      lia. }
    (* the clients after the round, unless a block is accepted *)
    pose proof (polls_PC Sz Hh HSz s HR Hw) as P1. fold s1 in P1.
    pose proof (stores_PC Sz Hh (stores_of s1) (stores_of_shape s1) s1 P1) as P2. fold s2 in P2.
    assert (Hsplit : s3 = fst (nrun Sz Hh (fst (nrun Sz Hh s2 (map (fun m => NDeliverW (wm_src m) (wm_dst m)) (wire_w s2))))
                                 (map (fun m => NDeliverB (bm_src m) (bm_dst m)) (wire_b s2)))).
    { unfold s3, deliveries_of. rewrite (nrun_app Sz Hh). reflexivity. }
    pose proof (deliveries_w_PC Sz Hh (wire_w s2) s2 P2) as P2w.
    assert (Sw : Forall sched (map (fun m => NDeliverW (wm_src m) (wm_dst m)) (wire_w s2))) by (apply Forall_forall; intros o Ho; apply in_map_iff in Ho; destruct Ho as (x & <- & _); exact I).
    pose proof (RI_run Sz Hh HSz _ Sw s2 HR2) as HR2w. pose proof (HH_run Sz Hh HSz _ Sw s2 HR2) as H2w.
    set (s2w := fst (nrun Sz Hh s2 (map (fun m => NDeliverW (wm_src m) (wm_dst m)) (wire_w s2)))) in *.
    destruct (deliveries_b_keep Sz Hh HSz PCn PCn_view (wire_b s2) s2w HR2w P2w) as [Hd|P3]; cbn zeta in *; rewrite <- Hsplit in *; [lia|].
    pose proof (PCn_AA Sz HSz s3 P3) as HA31.
    destruct (Nat.eq_dec (AA s) 2) as [E2|Hne2]; [lia|]. assert (EA : AA s = 1) by (pose proof (AA_le2 s); lia).
    (* a lookup is under way *)
    destruct (existsb lkn (nodes s)) eqn:Elk.
    { destruct (existsb_node lkn s Elk) as (k & n & Hg & Hl0). unfold lkn in Hl0. apply negb_true_iff, Nat.eqb_neq in Hl0.
      assert (Hd : HH s1 + 1 <= HH s).
      { apply (polls_drop s k n 1 HR Hg). intros sa HRa Hga. cbn [nstep].
        destruct (HH_poll Sz Hh HSz sa k n (proj1 HRa) (RI_INVT Sz Hh sa k n HRa Hga) Hga) as (sC & outsC & _ & Hlk & _). lia. }
      lia. }
    (* only light work of level 1: after the round nothing is left *)
    assert (Hcalm : AllN calm1 s).
    { intros k n Hg. split; [apply (Hcalls k n Hg)|]. split; [|split].
      - pose proof (AA_ge s k n Hg) as Hge. unfold a_node in Hge. lia.
      - pose proof (existsb_node_false hgn s k n Ehg Hg) as Hh0. unfold hgn in Hh0. intros e He. destruct (rgb (snd e)) eqn:E; [|reflexivity].
        assert (existsb (fun e => rgb (snd e)) (cs_tasks (n_client n)) = true); [apply existsb_exists; eauto | congruence].
      - pose proof (existsb_node_false lkn s k n Elk Hg) as Hl0. unfold lkn in Hl0. apply negb_false_iff, Nat.eqb_eq in Hl0. exact Hl0. }
    destruct (polls_PC0 Sz Hh HSz s HR Hw Hcalm) as [Q1 W1]. cbn zeta in Q1, W1. fold s1 in Q1, W1.
    assert (Es2 : s2 = s1).
    { unfold s2. rewrite (stores_of_nil s1); [reflexivity|]. intros k n Hg. apply (Q1 k n Hg). }
    assert (Hs3 : s3 = fst (nrun Sz Hh s1 (map (fun m => NDeliverB (bm_src m) (bm_dst m)) (wire_b s1)))).
    { unfold s3, deliveries_of. rewrite Es2, W1. reflexivity. }
    destruct (deliveries_b_keep Sz Hh HSz _ PC0n_view (wire_b s1) s1 HR1 Q1) as [Hd|Q3]; cbn zeta in *; rewrite <- Hs3 in *; [lia|].
    rewrite (PC0n_AA Sz HSz s3 Q3). lia.
  Qed.
End CleanRound3.
