(* NetF_proofs9.v — package P, part 9: the WINDOW between a fault and the close of its connection.
   `mark j c` = the client state c with the sending state of its entry for j overwritten by `SsFailed CONN`.  Every client
   operation other than a poll, a report about j and a new connection to j commutes with `mark j` (`cstep_mark`): until the
   client polls, the mark is invisible.  At network level (`nstep_markN`): every step of Net.v other than `NPoll i`,
   `NDeliverW i j` and a connect / disconnect of the pair commutes with marking node i.  The close of the connection removes
   the marked entry.  Hence `windowed_true`: a wantlist that was delivered but reported Failed, followed by ANY such steps
   and then by the close of the connection, leaves exactly the net and the events of the fault-free run in which it was
   delivered and reported Ready. *)
From BS Require Import Server_lemmas Server_inv Wantlist_proofs Client_proofs Client_proofs2 Client_proofs3 Client_proofs4
  Net Net_proofs2 Net_proofs3 Net_proofs4 Net_proofs5 Net_proofs6 Net_proofs7 Net_proofs9 Net_proofs10
  NetF NetF_proofs NetF_proofs2 NetF_proofs4 NetF_proofs5.
From Coq Require Import ZArith ZifyBool ZifyN ZifyNat Lia.
Open Scope N_scope.

(* ---------- association lists ---------- *)
Lemma al_modify_comm {V} (k k' : N) (f g : V -> V) (l : list (N * V)) :
  (k = k' -> forall v, f (g v) = g (f v)) ->
  al_modify N.eqb k f (al_modify N.eqb k' g l) = al_modify N.eqb k' g (al_modify N.eqb k f l).
Proof.
  intros H. unfold al_modify. rewrite !map_map. apply map_ext. intros [a v]. cbn [fst snd].
  destruct (k' =? a) eqn:E1; destruct (k =? a) eqn:E2; cbn [fst snd]; rewrite ?E1, ?E2; try reflexivity.
  apply N.eqb_eq in E1, E2. subst. rewrite H by reflexivity. reflexivity.
Qed.

Lemma al_mem_modify {V} (k k' : N) (g : V -> V) (l : list (N * V)) : al_mem N.eqb k (al_modify N.eqb k' g l) = al_mem N.eqb k l.
Proof.
  unfold al_mem, al_modify. induction l as [|[a v] l IH]; [reflexivity|]. cbn [map existsb fst]. rewrite IH.
  destruct (k' =? a); reflexivity.
Qed.

Lemma peers_ins_modify p x j g l : p <> j -> peers_ins p x (al_modify N.eqb j g l) = al_modify N.eqb j g (peers_ins p x l).
Proof.
  intros Hpj. unfold al_modify. induction l as [|[a v] l IH]; cbn [map peers_ins fst snd].
  - replace (j =? p) with false by (symmetry; apply N.eqb_neq; congruence). reflexivity.
  - destruct (j =? a) eqn:E; cbn [fst snd].
    + destruct (p <? a); cbn [map fst snd]; rewrite ?E.
      * replace (j =? p) with false by (symmetry; apply N.eqb_neq; congruence). reflexivity.
      * rewrite IH. reflexivity.
    + destruct (p <? a); cbn [map fst snd]; rewrite ?E.
      * replace (j =? p) with false by (symmetry; apply N.eqb_neq; congruence). reflexivity.
      * rewrite IH. reflexivity.
Qed.

Lemma al_remove_modify {V} (p j : N) (g : V -> V) (l : list (N * V)) :
  al_remove N.eqb p (al_modify N.eqb j g l) = al_modify N.eqb j g (al_remove N.eqb p l).
Proof.
  unfold al_remove, al_modify. induction l as [|[a v] l IH]; [reflexivity|]. cbn [map filter fst snd].
  destruct (j =? a) eqn:E; cbn [fst]; destruct (p =? a); cbn [negb map fst snd]; rewrite ?E, IH; reflexivity.
Qed.

(* ---------- the mark ---------- *)
Definition mark_ps (ps : peer_state) : peer_state := MkPeer (p_conns ps) (SsFailed CONN) (p_wl ps) (p_send_full ps).
Definition markl (j : N) (l : list (peer * peer_state)) : list (peer * peer_state) := al_modify N.eqb j mark_ps l.
Definition mark (j : N) (c : cstate) : cstate := set_peers c (markl j (cs_peers c)).

Lemma mark_set_peers j c L : mark j (set_peers c L) = set_peers c (markl j L).
Proof. reflexivity. Qed.

Lemma set_peers_twice c A B : set_peers (set_peers c A) B = set_peers c B.
Proof. reflexivity. Qed.

(* operations that do not look at the peers *)
Lemma cstep_set_peers c L o :
  match o with CGet _ | CCancel _ | CRelease _ _ | CAdvance _ | CTakeNewBlocks => True | _ => False end ->
  cstep (set_peers c L) o = (set_peers (fst (cstep c o)) L, snd (cstep c o)).
Proof.
  destruct o; cbn [cstep]; intros Ho; try contradiction.
  - unfold c_get. destruct c0; destruct c; reflexivity.
  - cbn [fst snd]. f_equal. unfold c_cancel. destruct c as [qu w peers c2q tasks rdy nt ab nq dl nb nw nc]. cbn.
    destruct (al_find N.eqb q ab) as [tid|]; cbn.
    + unfold abort_task. cbn. match goal with |- context [existsb ?f tasks] => destruct (existsb f tasks) end; cbn;
        (destruct (find_query q c2q) as [[x qs]|]; [destruct (swap_remove_q q qs)|]; reflexivity).
    + destruct (find_query q c2q) as [[x qs]|]; [destruct (swap_remove_q q qs)|]; reflexivity.
  - cbn [fst snd]. f_equal. unfold c_release. destruct c as [qu w peers c2q tasks rdy nt ab nq dl nb nw nc].
    cbn [set_peers cs_tasks cs_ready]. destruct (find (call_is call) tasks) as [[tid t]|]; reflexivity.
  - destruct c; reflexivity.
  - destruct c; reflexivity.
Qed.

Lemma mark_ps_upd w ps : mark_ps (MkPeer (p_conns ps) (p_ss ps) w (p_send_full ps)) = MkPeer (p_conns (mark_ps ps)) (p_ss (mark_ps ps)) w (p_send_full (mark_ps ps)).
Proof. reflexivity. Qed.

Lemma al_find_markl j p l : al_find N.eqb p (markl j l) = if j =? p then option_map mark_ps (al_find N.eqb p l) else al_find N.eqb p l.
Proof. unfold markl. apply (al_find_modify _ Neqb_spec). Qed.

Lemma set_peers_eq c A B : A = B -> set_peers c A = set_peers c B.
Proof. intros ->. reflexivity. Qed.

Lemma cstep_mark j c o :
  (forall ch, o <> CPoll ch) -> (forall c0 r, o <> CReport j c0 r) -> (forall c0, o <> CNewConn j c0) ->
  cstep (mark j c) o = (mark j (fst (cstep c o)), snd (cstep c o)).
Proof.
  intros Hp Hr Hn.
  assert (Hsame : match o with CGet _ | CCancel _ | CRelease _ _ | CAdvance _ | CTakeNewBlocks => True | _ => False end ->
                  cstep (mark j c) o = (mark j (fst (cstep c o)), snd (cstep c o))).
  { intros Ho. unfold mark at 1. rewrite (cstep_set_peers c _ o Ho). f_equal. unfold mark. rewrite (cstep_peers_same c o Ho). reflexivity. }
  destruct o; try (apply Hsame; exact I).
  - (* new connection to another peer *)
    assert (Hpj : p <> j) by (intros ->; eapply Hn; reflexivity).
    cbn [cstep fst snd]. f_equal. unfold c_new_conn. change (cs_peers (mark j c)) with (markl j (cs_peers c)).
    unfold markl at 1. rewrite al_mem_modify. destruct (al_mem N.eqb p (cs_peers c)).
    + change (set_peers c (al_modify N.eqb p (add_conn c0) (markl j (cs_peers c))) = set_peers c (markl j (al_modify N.eqb p (add_conn c0) (cs_peers c)))).
      apply set_peers_eq. unfold markl. apply al_modify_comm. intros E. congruence.
    + change (set_peers c (peers_ins p (add_conn c0 new_peer_state) (markl j (cs_peers c))) =
              set_peers c (markl j (peers_ins p (add_conn c0 new_peer_state) (cs_peers c)))).
      apply set_peers_eq. unfold markl. apply peers_ins_modify, Hpj.
  - (* connection closed *)
    cbn [cstep fst snd]. f_equal. unfold c_conn_closed. change (cs_peers (mark j c)) with (markl j (cs_peers c)).
    rewrite al_find_markl. destruct (al_find N.eqb p (cs_peers c)) as [ps|] eqn:Ef.
    2:{ destruct (j =? p); reflexivity. }
    set (ps' := if j =? p then mark_ps ps else ps).
    assert (E1 : (if j =? p then option_map mark_ps (Some ps) else Some ps) = Some ps') by (unfold ps'; destruct (j =? p); reflexivity).
    rewrite E1. assert (E2 : p_conns (remove_conn c0 ps') = p_conns (remove_conn c0 ps)) by (unfold ps'; destruct (j =? p); reflexivity).
    rewrite E2. destruct (p_conns (remove_conn c0 ps)).
    + change (set_peers c (al_remove N.eqb p (markl j (cs_peers c))) = set_peers c (markl j (al_remove N.eqb p (cs_peers c)))).
      apply set_peers_eq. unfold markl. apply al_remove_modify.
    + change (set_peers c (al_modify N.eqb p (remove_conn c0) (markl j (cs_peers c))) = set_peers c (markl j (al_modify N.eqb p (remove_conn c0) (cs_peers c)))).
      apply set_peers_eq. unfold markl. apply al_modify_comm. intros _ v. reflexivity.
  - (* incoming *)
    destruct c as [qu w peers c2q tasks rdy nt ab nq dl nb nw nc]. unfold mark, set_peers. cbn [cs_peers cs_queue cs_wl cs_c2q cs_tasks cs_ready cs_next_task
      cs_abort cs_next_qid cs_deadline cs_new_blocks cs_now cs_next_call]. cbn [cstep]. unfold c_incoming.
    cbn [cs_peers cs_queue cs_wl cs_c2q cs_tasks cs_ready cs_next_task cs_abort cs_next_qid cs_deadline cs_new_blocks cs_now cs_next_call].
    rewrite al_find_markl. destruct (al_find N.eqb p peers) as [ps|] eqn:Ef.
    2:{ destruct (j =? p); reflexivity. }
    set (ps' := if j =? p then mark_ps ps else ps).
    assert (E1 : (if j =? p then option_map mark_ps (Some ps) else Some ps) = Some ps') by (unfold ps'; destruct (j =? p); reflexivity).
    rewrite E1. assert (E2 : p_wl ps' = p_wl ps) by (unfold ps'; destruct (j =? p); reflexivity). rewrite E2.
    set (a := fold_left inc_block blocks (MkInc w (fold_left apply_presence pres (p_wl ps)) c2q qu [] false)).
    assert (E3 : al_modify N.eqb p (fun ps0 => MkPeer (p_conns ps0) (p_ss ps0) (ia_pwl a) (p_send_full ps0)) (markl j peers) =
                 markl j (al_modify N.eqb p (fun ps0 => MkPeer (p_conns ps0) (p_ss ps0) (ia_pwl a) (p_send_full ps0)) peers)).
    { unfold markl. apply al_modify_comm. intros _ v. reflexivity. }
    rewrite E3. destruct (ia_panic a); [reflexivity|]. destruct (ia_new a); reflexivity.
  - (* report about another peer *)
    assert (Hpj : p <> j) by (intros ->; eapply Hr; reflexivity).
    cbn [cstep fst snd]. f_equal. unfold c_report.
    change (set_peers c (al_modify N.eqb p (fun ps => if report_accepted ps c0 then MkPeer (p_conns ps) (state_of_report (cs_now c) r) (p_wl ps) (p_send_full ps) else ps) (markl j (cs_peers c))) =
            set_peers c (markl j (al_modify N.eqb p (fun ps => if report_accepted ps c0 then MkPeer (p_conns ps) (state_of_report (cs_now c) r) (p_wl ps) (p_send_full ps) else ps) (cs_peers c)))).
    apply set_peers_eq. unfold markl. apply al_modify_comm. intros E. congruence.
  - exfalso. eapply Hp. reflexivity.
Qed.

(* ---------- nodes ---------- *)
Definition markn (j : N) (n : node) : node := MkNode (mark j (n_client n)) (n_server n) (n_store n) (n_calls n).

Lemma set_nth_out {A} k (x : A) l : nth_error l k = None -> set_nth k x l = l.
Proof. revert k; induction l as [|y l IH]; intros [|k]; cbn; try discriminate; auto. intros H. f_equal. auto. Qed.

Lemma set_nth_comm {A} k k' (x y : A) l : k <> k' -> set_nth k x (set_nth k' y l) = set_nth k' y (set_nth k x l).
Proof. revert k k'; induction l as [|z l IH]; intros [|k] [|k'] H; cbn; try reflexivity; try congruence. f_equal. apply IH. congruence. Qed.

Section Twin.
  Variables (Sz : N) (Hh : hash_fn).
  Variables (i j : N).

  Definition gm (k : N) (n : node) : node := if k =? i then markn j n else n.

  Definition marknodes (l : list node) : list node :=
    match nth_error l (N.to_nat i) with Some n => set_nth (N.to_nat i) (markn j n) l | None => l end.

  Definition markN (s : net) : net := MkNet (marknodes (nodes s)) (conns s) (wire_w s) (wire_b s) (now s).

  Lemma marknodes_nth l k : nth_error (marknodes l) (N.to_nat k) = option_map (gm k) (nth_error l (N.to_nat k)).
  Proof.
    unfold marknodes, gm. destruct (k =? i) eqn:E.
    - apply N.eqb_eq in E. subst k. destruct (nth_error l (N.to_nat i)) as [n|] eqn:En; [|rewrite En; reflexivity].
      rewrite nth_set_nth_eq by (eapply nth_error_lt; exact En). reflexivity.
    - apply N.eqb_neq in E. destruct (nth_error l (N.to_nat i)) as [n|] eqn:En.
      + rewrite nth_set_nth_neq by lia. destruct (nth_error l (N.to_nat k)); reflexivity.
      + destruct (nth_error l (N.to_nat k)); reflexivity.
  Qed.

  Lemma get_markN s k : get_node (markN s) k = option_map (gm k) (get_node s k).
  Proof. unfold get_node, markN. cbn [nodes]. apply marknodes_nth. Qed.

  Lemma marknodes_set l k x : marknodes (set_nth (N.to_nat k) x l) = set_nth (N.to_nat k) (gm k x) (marknodes l).
  Proof.
    unfold marknodes, gm. destruct (k =? i) eqn:E.
    - apply N.eqb_eq in E. subst k. destruct (nth_error l (N.to_nat i)) as [n|] eqn:En.
      + rewrite nth_set_nth_eq by (eapply nth_error_lt; exact En). rewrite !set_nth_set_nth. reflexivity.
      + rewrite (set_nth_out _ x l En), En. rewrite (set_nth_out _ _ l En). reflexivity.
    - apply N.eqb_neq in E. rewrite nth_set_nth_neq by lia. destruct (nth_error l (N.to_nat i)) as [n|] eqn:En; [|reflexivity].
      apply set_nth_comm. lia.
  Qed.

  Lemma markN_set_node s k x : markN (set_node s k x) = set_node (markN s) k (gm k x).
  Proof. unfold markN, set_node. cbn [nodes conns wire_w wire_b now]. rewrite marknodes_set. reflexivity. Qed.

  Lemma on_node_markN s k f :
    (forall n, get_node s k = Some n -> f (gm k n) = gm k (f n)) -> on_node (markN s) k f = markN (on_node s k f).
  Proof.
    intros Hf. unfold on_node. rewrite get_markN. destruct (get_node s k) as [n|] eqn:E; cbn [option_map]; [|reflexivity].
    rewrite markN_set_node, (Hf n eq_refl). reflexivity.
  Qed.

  (* node operations and the mark *)
  Lemma gm_other k n : k <> i -> gm k n = n.
  Proof. intros H. unfold gm. replace (k =? i) with false by (symmetry; apply N.eqb_neq; exact H). reflexivity. Qed.

  Lemma gm_fields k n : n_server (gm k n) = n_server n /\ n_store (gm k n) = n_store n /\ n_calls (gm k n) = n_calls n /\
                        cs_wl (n_client (gm k n)) = cs_wl (n_client n).
  Proof. unfold gm. destruct (k =? i); repeat split; reflexivity. Qed.

  Lemma gm_step k n o sv st cl :
    (forall ch, o <> CPoll ch) -> (k = i -> (forall c0 r, o <> CReport j c0 r) /\ (forall c0, o <> CNewConn j c0)) ->
    MkNode (fst (cstep (n_client (gm k n)) o)) sv st cl = gm k (MkNode (fst (cstep (n_client n) o)) sv st cl) /\
    snd (cstep (n_client (gm k n)) o) = snd (cstep (n_client n) o).
  Proof.
    intros Hp Hk. unfold gm. destruct (k =? i) eqn:E; [|split; reflexivity]. apply N.eqb_eq in E. destruct (Hk E) as [Hr Hn].
    cbn [markn n_client]. rewrite (cstep_mark j (n_client n) o Hp Hr Hn). split; reflexivity.
  Qed.

  Ltac fields k n := let E1 := fresh "E1" in let E2 := fresh "E2" in let E3 := fresh "E3" in let E4 := fresh "E4" in
    destruct (gm_fields k n) as (E1 & E2 & E3 & E4); rewrite ?E1, ?E2, ?E3, ?E4.

  Lemma node_get_gm k n c : node_get Sz (gm k n) c = gm k (node_get Sz n c).
  Proof. unfold node_get. fields k n. apply gm_step; [discriminate | intros _; split; discriminate]. Qed.
  Lemma node_cancel_gm k n q : node_cancel (gm k n) q = gm k (node_cancel n q).
  Proof. unfold node_cancel. fields k n. apply gm_step; [discriminate | intros _; split; discriminate]. Qed.
  Lemma node_advance_gm k n ms : node_advance (gm k n) ms = gm k (node_advance n ms).
  Proof. unfold node_advance. fields k n. apply gm_step; [discriminate | intros _; split; discriminate]. Qed.
  Lemma node_put_gm k n c d : node_put (gm k n) c d = gm k (node_put n c d).
  Proof. unfold node_put, gm. destruct (k =? i); reflexivity. Qed.
  Lemma node_evict_gm k n c : node_evict (gm k n) c = gm k (node_evict n c).
  Proof. unfold node_evict, gm. destruct (k =? i); reflexivity. Qed.
  Lemma node_report_gm k n p c r : (k = i -> p <> j) -> node_report (gm k n) p c r = gm k (node_report n p c r).
  Proof.
    intros H. unfold node_report. fields k n. apply gm_step; [discriminate|]. intros Ek. split; [|discriminate].
    intros c0 r0 [= -> _ _]. exact (H Ek eq_refl).
  Qed.
  Lemma node_connected_gm k n p c : (k = i -> p <> j) -> node_connected Sz (gm k n) p c = gm k (node_connected Sz n p c).
  Proof.
    intros H. unfold node_connected. fields k n. apply gm_step; [discriminate|]. intros Ek. split; [discriminate|].
    intros c0 [= -> _]. exact (H Ek eq_refl).
  Qed.
  Lemma node_disconnected_gm k n p c : node_disconnected Sz (gm k n) p c = gm k (node_disconnected Sz n p c).
  Proof. unfold node_disconnected. fields k n. apply gm_step; [discriminate | intros _; split; discriminate]. Qed.

  Lemma node_store_gm k n x : node_store Sz (gm k n) x = gm k (node_store Sz n x).
  Proof.
    unfold node_store. fields k n. destruct (nth_error (n_calls n) (N.to_nat x)) as [[m c|m bl|m c]|]; try reflexivity.
    - apply gm_step; [discriminate | intros _; split; discriminate].
    - apply gm_step; [discriminate | intros _; split; discriminate].
    - unfold gm. destruct (k =? i); reflexivity.
  Qed.

  Lemma node_incoming_gm k n p m :
    node_incoming Sz Hh (gm k n) p m = (gm k (fst (node_incoming Sz Hh n p m)), snd (node_incoming Sz Hh n p m)).
  Proof.
    unfold node_incoming. destruct (process_message Sz Hh m) as [inc| |]; try reflexivity. fields k n.
    destruct (in_client inc) as [cm|].
    - destruct (gm_step k n (CIncoming p (map to_pres (cm_presences cm)) (cm_blocks cm))
                  match in_server inc with
                  | Some w => fst (srv Sz (n_server n) (SMsg p w match full_collect Sz (w_entries w) [] with Some l => l | None => [] end))
                  | None => n_server n end (n_store n) (n_calls n)) as [A B]; [discriminate | intros _; split; discriminate|].
      destruct (cstep (n_client (gm k n)) (CIncoming p (map to_pres (cm_presences cm)) (cm_blocks cm))) as [c1' o1'].
      destruct (cstep (n_client n) (CIncoming p (map to_pres (cm_presences cm)) (cm_blocks cm))) as [c1 o1].
      cbn [fst snd] in *. rewrite A, B. reflexivity.
    - cbn [fst snd]. f_equal. unfold gm. destruct (k =? i); reflexivity.
  Qed.

  (* ---------- the steps of the window ---------- *)
  Definition win (o : nop) : Prop :=
    match o with
    | NPoll k => k <> i
    | NDeliverW a b => ~ (a = i /\ b = j)
    | NConnect a b | NDisconnect a b => ~ (a = i /\ b = j) /\ ~ (a = j /\ b = i)
    | _ => True
    end.

  Lemma markN_fields nd cc ww wb nw : markN (MkNet nd cc ww wb nw) = MkNet (marknodes nd) cc ww wb nw.
  Proof. reflexivity. Qed.

  Theorem nstep_markN s o : win o -> nstep Sz Hh (markN s) o = (markN (fst (nstep Sz Hh s o)), snd (nstep Sz Hh s o)).
  Proof.
    intros Hw. destruct o; cbn [nstep fst snd win] in *.
    - (* connect *)
      destruct Hw as [W1 W2]. f_equal. unfold do_connect. rewrite !get_markN.
      destruct (get_node s i0) as [na|] eqn:Ea; cbn [option_map]; [|reflexivity].
      destruct (get_node s j0) as [nb|] eqn:Eb; cbn [option_map]; [|reflexivity].
      change (Net.connected (markN s) i0 j0) with (Net.connected s i0 j0). destruct ((i0 =? j0) || Net.connected s i0 j0); [reflexivity|].
      rewrite (node_connected_gm i0 na j0 CONN) by (intros -> ->; apply W1; auto).
      rewrite (node_connected_gm j0 nb i0 CONN) by (intros -> ->; apply W2; auto).
      rewrite <- !markN_set_node. reflexivity.
    - (* disconnect *)
      f_equal. unfold do_disconnect. rewrite !get_markN.
      destruct (get_node s i0) as [na|] eqn:Ea; cbn [option_map]; [|reflexivity].
      destruct (get_node s j0) as [nb|] eqn:Eb; cbn [option_map]; [|reflexivity].
      change (Net.connected (markN s) i0 j0) with (Net.connected s i0 j0). destruct (Net.connected s i0 j0); [|reflexivity].
      rewrite !node_disconnected_gm. rewrite <- !markN_set_node. reflexivity.
    - f_equal. apply on_node_markN. intros n _. apply node_get_gm.
    - f_equal. apply on_node_markN. intros n _. apply node_cancel_gm.
    - f_equal. apply on_node_markN. intros n _. apply node_put_gm.
    - f_equal. apply on_node_markN. intros n _. apply node_evict_gm.
    - (* advance *)
      f_equal. unfold markN. cbn [nodes conns wire_w wire_b now]. f_equal. unfold marknodes. rewrite nth_error_map.
      destruct (nth_error (nodes s) (N.to_nat i)) as [n|] eqn:En; cbn [option_map]; [|reflexivity].
      pose proof (node_advance_gm i n ms) as H. unfold gm in H. rewrite N.eqb_refl in H. rewrite <- H.
      clear H. revert En. generalize (N.to_nat i). generalize (nodes s). induction l as [|y l IH]; intros [|k]; cbn; try discriminate.
      + intros [= ->]. reflexivity.
      + intros H. f_equal. apply IH, H.
    - (* poll elsewhere *)
      unfold do_poll. rewrite get_markN. destruct (get_node s i0) as [n|] eqn:En; cbn [option_map]; [|reflexivity].
      rewrite (gm_other i0 n Hw). destruct (node_poll Sz n) as [n1 o].
      change (hand_over (markN s) i0) with (hand_over s i0). change (queue_blocks (markN s) i0) with (queue_blocks s i0).
      destruct (fold_left (hand_over s i0) (o_wants o) (n1, [])) as [n2 ws]. cbn [fst snd]. f_equal.
      unfold markN. cbn [nodes conns wire_w wire_b now]. rewrite marknodes_set, (gm_other i0 n2 Hw). reflexivity.
    - f_equal. apply on_node_markN. intros n _. apply node_store_gm.
    - (* deliver a wantlist of another directed pair *)
      unfold do_deliver_w. change (wire_w (markN s)) with (wire_w s).
      destruct (take_first (w_between i0 j0) (wire_w s)) as [[m rest]|]; [|reflexivity].
      change (MkNet (nodes (markN s)) (conns (markN s)) rest (wire_b (markN s)) (now (markN s)))
        with (markN (MkNet (nodes s) (conns s) rest (wire_b s) (now s))).
      set (s0 := MkNet (nodes s) (conns s) rest (wire_b s) (now s)). rewrite !get_markN.
      destruct (get_node s0 i0) as [na|] eqn:Ea; cbn [option_map]; [|reflexivity].
      destruct (get_node s0 j0) as [nb|] eqn:Eb; cbn [option_map]; [|reflexivity].
      destruct (gm_fields i0 na) as (_ & _ & _ & Ewl). rewrite Ewl. rewrite node_incoming_gm.
      destruct (node_incoming Sz Hh nb i0 (wantlist_message (wl_sdh (cs_wl (n_client na))) (wm_full m) (wm_entries m))) as [nb1 evs].
      cbn [fst snd]. f_equal. rewrite <- markN_set_node. apply on_node_markN. intros n _. apply node_report_gm. intros -> ->. apply Hw; auto.
    - (* deliver blocks *)
      unfold do_deliver_b. change (wire_b (markN s)) with (wire_b s).
      destruct (take_first (b_between j0 i0) (wire_b s)) as [[m rest]|]; [|reflexivity]. rewrite get_markN.
      destruct (get_node s i0) as [na|] eqn:Ea; cbn [option_map]; [|reflexivity].
      rewrite node_incoming_gm. destruct (node_incoming Sz Hh na j0 (blocks_message (bm_blocks m))) as [na1 evs]. cbn [fst snd]. f_equal.
      unfold markN. cbn [nodes conns wire_w wire_b now]. rewrite marknodes_set. reflexivity.
  Qed.
End Twin.

(* ---------- the fault and its twin ---------- *)
Lemma al_modify_twice {V} (k : N) (f g : V -> V) (l : list (N * V)) :
  al_modify N.eqb k f (al_modify N.eqb k g l) = al_modify N.eqb k (fun v => f (g v)) l.
Proof.
  unfold al_modify. rewrite map_map. apply map_ext. intros [a v]. cbn [fst snd]. destruct (k =? a) eqn:E; cbn [fst snd]; rewrite E; reflexivity.
Qed.

Lemma al_modify_ext_in {V} (k : N) (f g : V -> V) (l : list (N * V)) :
  (forall v, In (k, v) l -> f v = g v) -> al_modify N.eqb k f l = al_modify N.eqb k g l.
Proof.
  intros H. unfold al_modify. apply map_ext_in. intros [a v] Hin. cbn [fst snd]. destruct (k =? a) eqn:E; [|reflexivity].
  apply N.eqb_eq in E. subst a. rewrite (H v Hin). reflexivity.
Qed.

Lemma c_report_twin j c :
  NoDup (map fst (cs_peers c)) ->
  c_report c j CONN (RpFailed CONN) = mark j (c_report c j CONN RpReady) \/
  c_report c j CONN (RpFailed CONN) = c_report c j CONN RpReady.
Proof.
  intros Hnd. unfold c_report.
  set (fF := fun ps => if report_accepted ps CONN then MkPeer (p_conns ps) (state_of_report (cs_now c) (RpFailed CONN)) (p_wl ps) (p_send_full ps) else ps).
  set (fR := fun ps => if report_accepted ps CONN then MkPeer (p_conns ps) (state_of_report (cs_now c) RpReady) (p_wl ps) (p_send_full ps) else ps).
  destruct (al_find N.eqb j (cs_peers c)) as [ps|] eqn:Ef.
  - pose proof (al_find_some_in _ Neqb_spec _ _ _ Ef) as Hin.
    assert (Hu : forall v, In (j, v) (cs_peers c) -> v = ps) by (intros v Hv; eapply NoDup_keys_in_eq; eassumption).
    destruct (report_accepted ps CONN) eqn:Ea.
    + left. change (set_peers c (al_modify N.eqb j fF (cs_peers c)) = set_peers c (markl j (al_modify N.eqb j fR (cs_peers c)))).
      apply set_peers_eq. unfold markl. rewrite al_modify_twice. apply al_modify_ext_in. intros v Hv. rewrite (Hu v Hv).
      unfold fF, fR. rewrite Ea. reflexivity.
    + right. apply set_peers_eq. apply al_modify_ext_in. intros v Hv. rewrite (Hu v Hv). unfold fF, fR. rewrite Ea. reflexivity.
  - right. apply set_peers_eq. apply al_modify_ext_in. intros v Hv. exfalso. apply (al_find_none _ Neqb_spec) in Ef. apply Ef.
    apply in_map_iff. exists (j, v). split; [reflexivity | exact Hv].
Qed.

Lemma c_conn_closed_mark j c :
  (forall ps, al_find N.eqb j (cs_peers c) = Some ps -> p_conns ps = [CONN]) ->
  c_conn_closed (mark j c) j CONN = c_conn_closed c j CONN.
Proof.
  intros Hc. unfold c_conn_closed. change (cs_peers (mark j c)) with (markl j (cs_peers c)). rewrite al_find_markl, N.eqb_refl.
  destruct (al_find N.eqb j (cs_peers c)) as [ps|] eqn:E; cbn [option_map].
  - specialize (Hc ps eq_refl).
    assert (E1 : p_conns (remove_conn CONN (mark_ps ps)) = []) by (cbn [remove_conn mark_ps p_conns]; rewrite Hc; reflexivity).
    assert (E2 : p_conns (remove_conn CONN ps) = []) by (cbn [remove_conn p_conns]; rewrite Hc; reflexivity).
    rewrite E1, E2. change (set_peers c (al_remove N.eqb j (markl j (cs_peers c))) = set_peers c (al_remove N.eqb j (cs_peers c))).
    apply set_peers_eq. unfold markl. apply al_remove_modify_same.
  - unfold mark, markl. rewrite (al_modify_absent _ Neqb_spec) by (apply (al_find_none _ Neqb_spec); exact E). destruct c; reflexivity.
Qed.

Section Window.
  Variables (Sz : N) (Hh : hash_fn).
  Hypothesis HSz : 32 <= Sz.
  Variables (i j : N).
  Local Notation markN := (markN i j).
  Local Notation win := (win i j).

  (* the failed-but-delivered wantlist: the net is the marked twin of the net after the delivery (or that net itself, when
     the sender's client was not waiting for the report) *)
  Lemma fail_true_twin s :
    net_ok Sz Hh s -> wire_conn s ->
    ((Net.connected s i j = true /\ fst (do_fail_w Sz Hh s i j true) = markN (fst (do_deliver_w Sz Hh s i j))) \/
     fst (do_fail_w Sz Hh s i j true) = fst (do_deliver_w Sz Hh s i j)).
  Proof.
    intros Hok Hwc. unfold do_fail_w, do_deliver_w.
    destruct (take_first (w_between i j) (wire_w s)) as [[m rest]|] eqn:Et; [|right; reflexivity].
    destruct (inflight_ends Sz Hh HSz s i j m rest Hok Hwc Et) as (Hij & Hc & (ni & Hi) & (nj & Hj)).
    change (get_node {| nodes := nodes s; conns := conns s; wire_w := rest; wire_b := wire_b s; now := now s |}) with (get_node s).
    rewrite Hi, Hj.
    match goal with |- context [node_incoming Sz Hh nj i ?M] => destruct (node_incoming Sz Hh nj i M) as [nj1 evs] end. cbn [fst].
    set (s1 := set_node {| nodes := nodes s; conns := conns s; wire_w := rest; wire_b := wire_b s; now := now s |} j nj1).
    assert (Hi1 : get_node s1 i = Some ni) by (unfold s1; rewrite get_set_neq by congruence; exact Hi).
    unfold on_node. rewrite Hi1.
    pose proof (ck_keys _ _ (nk_ck _ _ _ _ _ (no_nodes Sz Hh s Hok i ni Hi))) as Hnd.
    destruct (c_report_twin j (n_client ni) Hnd) as [E|E].
    - left. split; [exact Hc|]. unfold NetF_proofs9.markN, set_node. cbn [nodes conns wire_w wire_b now]. f_equal.
      unfold marknodes. rewrite nth_set_nth_eq by (eapply get_node_lt; exact Hi1). rewrite set_nth_set_nth.
      unfold node_report, markn. cbn [n_client n_server n_store n_calls cstep fst]. rewrite E. reflexivity.
    - right. unfold node_report. cbn [cstep fst]. rewrite E. reflexivity.
  Qed.

  Lemma nrun_markN W : Forall win W -> forall s,
    nrun Sz Hh (markN s) W = (markN (fst (nrun Sz Hh s W)), snd (nrun Sz Hh s W)).
  Proof.
    induction 1 as [|o W Ho _ IH]; intros s; [reflexivity|]. rewrite !(nrun_cons Sz Hh). rewrite (nstep_markN Sz Hh i j s o Ho).
    cbn [fst snd]. rewrite IH. reflexivity.
  Qed.

  (* the pair stays connected through the window *)
  Lemma connected_win_step s o : conns_lt s -> win o -> Net.connected s i j = true -> Net.connected (fst (nstep Sz Hh s o)) i j = true.
  Proof.
    intros Hlt Hw Hc. destruct o; try (rewrite (connected_conns s) by (apply nstep_conns; exact I); exact Hc); cbn [nstep fst].
    - unfold do_connect. destruct (get_node s i0); [|exact Hc]. destruct (get_node s j0); [|exact Hc].
      destruct ((i0 =? j0) || Net.connected s i0 j0); [exact Hc|]. unfold Net.connected in *. cbn [conns]. rewrite existsb_app, Hc. reflexivity.
    - unfold do_disconnect. destruct (get_node s i0); [|exact Hc]. destruct (get_node s j0); [|exact Hc].
      destruct (Net.connected s i0 j0) eqn:Ec0; [|exact Hc]. pose proof (conns_lt_neq s i j Hlt Hc) as Hij.
      apply connected_In. cbn [conns]. apply filter_In. split; [apply connected_In, Hc|].
      rewrite (pair_norm_eqb i j i0 j0 Hij). destruct Hw as [W1 W2].
      destruct ((i0 =? i) && (j0 =? j)) eqn:A; [apply andb_true_iff in A; destruct A as [A B]; apply N.eqb_eq in A, B; exfalso; apply W1; auto|].
      destruct ((i0 =? j) && (j0 =? i)) eqn:B; [apply andb_true_iff in B; destruct B as [A' B]; apply N.eqb_eq in A', B; exfalso; apply W2; auto|].
      reflexivity.
  Qed.

  Lemma connected_win_run W : Forall win W -> Forall (nop_good Sz Hh) W -> forall s,
    net_ok Sz Hh s -> Net.connected s i j = true -> Net.connected (fst (nrun Sz Hh s W)) i j = true.
  Proof.
    induction 1 as [|o W Ho _ IH]; intros Hg s Hok Hc; [exact Hc|]. inversion Hg; subst. rewrite (nrun_cons Sz Hh). cbn [fst].
    apply IH; [assumption | apply net_ok_step; assumption | apply connected_win_step; [apply (net_ok_conns_lt Sz Hh), Hok | exact Ho | exact Hc]].
  Qed.

  (* the close of the connection removes the mark *)
  Lemma disconnect_markN s :
    net_ok Sz Hh s -> Net.connected s i j = true -> do_disconnect Sz (markN s) i j = do_disconnect Sz s i j.
  Proof.
    intros Hok Hc. destruct (connected_neq Sz Hh HSz s i j Hok Hc) as (Hij & Hie & Hje).
    destruct (get_node s i) as [ni|] eqn:Hi; [|contradiction]. destruct (get_node s j) as [nj|] eqn:Hj; [|contradiction].
    unfold do_disconnect. rewrite !get_markN, Hi, Hj. cbn [option_map].
    change (Net.connected (markN s) i j) with (Net.connected s i j). rewrite Hc.
    unfold gm. rewrite N.eqb_refl. replace (j =? i) with false by (symmetry; apply N.eqb_neq; congruence).
    assert (E : node_disconnected Sz (markn j ni) j CONN = node_disconnected Sz ni j CONN).
    { unfold node_disconnected, markn. cbn [n_client n_server n_store n_calls cstep fst]. rewrite c_conn_closed_mark; [reflexivity|].
      intros ps Hps. apply (peer_conns_ok Sz Hh s i ni j ps Hok Hi Hps). }
    rewrite E. unfold NetF_proofs9.markN, set_node. cbn [nodes conns wire_w wire_b now]. unfold marknodes.
    change (nth_error (nodes s) (N.to_nat i)) with (get_node s i). rewrite Hi, set_nth_set_nth. reflexivity.
  Qed.

  (* a wantlist that was delivered but reported Failed, any steps of the window, the close of the connection *)
  Theorem windowed_true s W :
    net_ok Sz Hh s -> wire_conn s -> Forall win W -> Forall (nop_good Sz Hh) W ->
    let sF := fst (do_fail_w Sz Hh s i j true) in
    let sD := fst (do_deliver_w Sz Hh s i j) in
    do_disconnect Sz (fst (nrun Sz Hh sF W)) i j = do_disconnect Sz (fst (nrun Sz Hh sD W)) i j /\
    snd (nrun Sz Hh sF W) = snd (nrun Sz Hh sD W).
  Proof.
    intros Hok Hwc HW Hg. cbn zeta. destruct (fail_true_twin s Hok Hwc) as [[Hc E]|E]; rewrite E; [|split; reflexivity].
    rewrite (nrun_markN W HW). cbn [fst snd]. split; [|reflexivity].
    assert (HokD : net_ok Sz Hh (fst (do_deliver_w Sz Hh s i j))) by (apply (net_ok_step Sz Hh HSz s (NDeliverW i j) I Hok)).
    assert (HcD : Net.connected (fst (do_deliver_w Sz Hh s i j)) i j = true).
    { rewrite (connected_conns s); [exact Hc|]. apply (nstep_conns Sz Hh s (NDeliverW i j) I). }
    apply disconnect_markN; [apply net_ok_run; assumption | apply connected_win_run; assumption].
  Qed.

  (* … as runs: the fault, the window, the close  =  the delivery, the window, the close *)
  Theorem windowed_true_run s W (closer : bool) :
    net_ok Sz Hh s -> wire_conn s -> Forall win W -> Forall (nop_good Sz Hh) W ->
    frun Sz Hh s (FFailW i j true :: map FOp W ++ [if closer then FReconnect i j else FOp (NDisconnect i j)]) =
    nrun Sz Hh s (NDeliverW i j :: W ++ (if closer then [NDisconnect i j; NConnect i j] else [NDisconnect i j])).
  Proof.
    intros Hok Hwc HW Hg. destruct (windowed_true s W Hok Hwc HW Hg) as [K1 K2]. cbn zeta in K1, K2.
    rewrite frun_cons, (nrun_cons Sz Hh). cbn [fstep nstep]. rewrite (fail_w_events_true Sz Hh s i j).
    rewrite frun_app, (nrun_app Sz Hh), !frun_FOp. rewrite K2.
    destruct closer.
    - rewrite frun_cons, !(nrun_cons Sz Hh). cbn [frun nrun fstep nstep fst snd]. unfold do_reconnect. rewrite K1. reflexivity.
    - rewrite frun_cons, !(nrun_cons Sz Hh). cbn [frun nrun fstep nstep fst snd]. rewrite K1. reflexivity.
  Qed.
End Window.
