(* Net_proofs46.v — package K, item 3 completed: the wire ties the two ghosts together.
   * every wantlist message node i ever put on the wire for j is `OSendWantlist j CONN full es` of its client's outputs;
   * the `set_send_dont_have` flag of every node is `true` for ever, so the bytes written at delivery are
     `wantlist_message true full es`, i.e. the protobuf wantlist is `proto_of true full es`;
   * hence every `SMsg a w order` in package G's server ghost of node j (`sops_run`, Net_proofs21) is `proto_of true full es`
     of an `OSendWantlist j CONN full es` that Client.v, run on node a's client ghost, emitted. *)
From BS Require Import Types Wantlist Client Wantlist_proofs Wantlist_proofs2 Client_proofs Client_proofs2 Client_proofs3 Client_proofs4
  Net Net_proofs2 Net_proofs3 Net_proofs5 Net_proofs6 Net_proofs9 Net_proofs10 Net_proofs21 Net_proofs40 Net_proofs42 Net_proofs43 Net_proofs44 Net_proofs45.
From Coq Require Import ZArith ZifyBool ZifyN ZifyNat Lia.
Open Scope N_scope.

(* ---------- set_send_dont_have never changes ---------- *)
Lemma hrun_sdh h : forall st, wl_sdh (fst (hrun_from st h)) = wl_sdh (fst st).
Proof.
  induction h as [|e h IH]; intros [w x]; [reflexivity|]. cbn [hrun_from]. rewrite IH. clear IH.
  destruct e; cbn [hstep fst]; try reflexivity.
  - unfold wl_insert. destruct (cid_mem c (wl_cids w)); reflexivity.
  - unfold wl_remove. destruct (cid_mem c (wl_cids w)); reflexivity.
  - unfold wl_remove. destruct (cid_mem c (wl_cids w)); reflexivity.
  - destruct (wls_generate_update x w). reflexivity.
Qed.

Theorem client_sdh_constant sdh ops : wl_sdh (cs_wl (st_after sdh ops)) = sdh.
Proof.
  destruct (client_hist_link sdh ops) as [(h0 & _ & E) _].
  pose proof (hrun_sdh h0 (hinit sdh)) as H. rewrite E in H. exact H.
Qed.

Section WireTies.
  Variables (Sz : N) (Hh : hash_fn).
  Local Notation cops_run := (cops_run Sz Hh).
  Local Notation wsent_run := (wsent_run Sz Hh).

  Theorem net_sdh_true n ops i ni :
    get_node (fst (nrun Sz Hh (net_init n) ops)) i = Some ni -> wl_sdh (cs_wl (n_client ni)) = true.
  Proof. intros Hni. rewrite (net_client_ghost Sz Hh n ops i ni Hni). apply client_sdh_constant. Qed.

  (* outputs of a prefix of the run are outputs of the run *)
  Lemma outs_prefix n ops1 ops2 i o :
    In o (outs_after true (cops_run (net_init n) ops1 i)) -> In o (outs_after true (cops_run (net_init n) (ops1 ++ ops2) i)).
  Proof. intros H. rewrite cops_run_app, outs_after_cl, cl_outs_app, <- outs_after_cl. apply in_app_iff. left. exact H. Qed.

  (* the outputs of the poll of an NPoll step are outputs of the run *)
  Lemma poll_outs_in_run n ops1 ops2 i ni o :
    get_node (fst (nrun Sz Hh (net_init n) ops1)) i = Some ni ->
    In o (snd (c_poll (n_client ni) [])) ->
    In o (outs_after true (cops_run (net_init n) (ops1 ++ NPoll i :: ops2) i)).
  Proof.
    intros Hni Ho. rewrite cops_run_app, outs_after_cl, cl_outs_app, <- st_after_cl, <- (net_client_ghost Sz Hh n ops1 i ni Hni).
    apply in_app_iff. right. cbn [Net_proofs40.cops_run cl_ops]. rewrite N.eqb_refl, Hni.
    rewrite <- !app_comm_cons, cl_outs_cons. apply in_app_iff. left. exact Ho.
  Qed.

  (* every wantlist message node i handed to a connection is an OSendWantlist output of its client, on connection CONN *)
  Theorem wire_is_client_output n ops i m :
    In m (wsent_run (net_init n) ops i) ->
    wm_src m = i /\
    In (OSendWantlist (wm_dst m) CONN (wm_full m) (wm_entries m)) (outs_after true (cops_run (net_init n) ops i)).
  Proof.
    intros Hm. split; [eapply wsent_run_src; exact Hm|].
    destruct (wsent_decomp Sz Hh ops _ _ _ Hm) as (ops1 & ops2 & ni & -> & Hni & Hin).
    apply in_map_iff in Hin. destruct Hin as ([[[p cn] f] es] & <- & Hx). unfold poll_wants in Hx. apply cl_wants_In in Hx.
    cbn [w_of x_peer fst snd wm_dst wm_full wm_entries]. cbn [cstep] in Hx.
    assert (Ecn : cn = CONN).
    { pose proof Hx as Hx'. rewrite (net_client_ghost Sz Hh n ops1 i ni Hni) in Hx'.
      destruct (C14_one_outstanding true _ [] p cn f es Hx') as ((ps & Hf & _ & Hc) & _).
      rewrite <- (net_client_ghost Sz Hh n ops1 i ni Hni) in Hf. apply (al_find_some_in _ Neqb_spec) in Hf.
      destruct (C13_net_peers_connected Sz Hh n ops1 i p ni ps Hni Hf) as [_ E]. rewrite E in Hc. destruct Hc as [<-|[]]. reflexivity. }
    subst cn. eapply poll_outs_in_run; eassumption.
  Qed.

  (* ---------- the server ghost of package G receives what the client ghost emitted ---------- *)
  Lemma sops_run_decomp ops : forall s j op,
    In op (sops_run Sz Hh s ops j) ->
    exists ops1 o ops2, ops = ops1 ++ o :: ops2 /\ In op (srv_ops Sz (fst (nrun Sz Hh s ops1)) o j).
  Proof.
    induction ops as [|o ops IH]; intros s j op; [intros []|]. cbn [sops_run]. rewrite in_app_iff. intros [H|H].
    - exists [], o, ops. split; [reflexivity | exact H].
    - destruct (IH _ _ _ H) as (ops1 & o' & ops2 & -> & Hin). exists (o :: ops1), o', ops2. split; [reflexivity|].
      rewrite (nrun_cons Sz Hh). cbn [fst]. exact Hin.
  Qed.

  Theorem server_receives_client_output n ops j a w ord :
    In (SMsg a w ord) (sops_run Sz Hh (net_init n) ops j) ->
    exists full es, w = proto_of true full es /\ ord = order_of Sz w /\
                    In (OSendWantlist j CONN full es) (outs_after true (cops_run (net_init n) ops a)).
  Proof.
    intros H. destruct (sops_run_decomp ops _ _ _ H) as (ops1 & o & ops2 & -> & Hin).
    destruct (srv_ops_msg Sz _ _ _ _ _ _ Hin) as (-> & m & rest & na & Et & Hna & -> & ->).
    destruct (take_first_spec _ _ _ _ Et) as (Hm & Hb & _). unfold w_between in Hb. apply andb_true_iff in Hb. destruct Hb as [Hs Hd].
    apply N.eqb_eq in Hs, Hd.
    exists (wm_full m), (wm_entries m). unfold msg_of. rewrite (net_sdh_true n ops1 a na Hna). split; [reflexivity|]. split; [reflexivity|].
    destruct (wire_w_sent Sz Hh ops1 _ _ Hm) as [[]|Hsent]. rewrite Hs in Hsent.
    destruct (wire_is_client_output n ops1 a m Hsent) as [_ Ho]. rewrite Hd in Ho. apply outs_prefix. exact Ho.
  Qed.
End WireTies.
