(* Corr_server.v — engine `server`: the server half of beetswap::Behaviour driven through the public
   NetworkBehaviour interface (harness/src/e_server.rs) against Server.v, op by op, comparing the
   outputs of every op and a snapshot of the server state after every op.  Oracles for C06, C07, C13
   are folds over the op history and the IMPLEMENTATION's outputs/snapshots only. *)
From BS Require Export Bytes Varint Cid Prefix Proto Types Server.
Open Scope N_scope.

(* state snapshot after an op (order of association-list entries and of want sets is meaningless) *)
Inductive snap := Snap (wants : list (peer * list cid)) (waiting : list (cid * list peer)) (outq : N) (tasks : N).

Definition sin := (N * list sop)%type.                   (* capacity S, ops *)
Definition step_obs := (list sout * snap)%type.
Definition case := (sin * list step_obs)%type.

Definition snap_of (st : sstate) : snap :=
  Snap (s_wants st) (s_waiting st) (len (s_outq st)) (tasks_len st).

Fixpoint run_obs (cap : N) (st : sstate) (ops : list sop) : list step_obs :=
  match ops with
  | [] => []
  | op :: ops' => let '(st', out) := sstep cap st op in (out, snap_of st') :: run_obs cap st' ops'
  end.

Definition model (x : sin) : list step_obs := run_obs (fst x) sinit (snd x).

Definition incl_b {A} (eqb : A -> A -> bool) (a b : list A) : bool := forallb (fun x => existsb (eqb x) b) a.
Definition set_eqb {A} (eqb : A -> A -> bool) (a b : list A) : bool :=
  Nat.eqb (length a) (length b) && incl_b eqb a b && incl_b eqb b a.

Definition blocks_eqb (a b : list (bytes * bytes)) : bool :=
  list_eqb (fun x y => bytes_eqb (fst x) (fst y) && bytes_eqb (snd x) (snd y)) a b.

Definition sout_eqb (a b : sout) : bool :=
  match a, b with
  | OGet k1 c1, OGet k2 c2 => (k1 =? k2) && cid_eqb c1 c2
  | OSend p1 b1, OSend p2 b2 => (p1 =? p2) && blocks_eqb b1 b2
  | _, _ => false
  end.

Definition snap_eqb (a b : snap) : bool :=
  match a, b with
  | Snap w1 t1 o1 k1, Snap w2 t2 o2 k2 =>
      set_eqb (fun x y => (fst x =? fst y) && set_eqb cid_eqb (snd x) (snd y)) w1 w2
      && set_eqb (fun x y => cid_eqb (fst x) (fst y) && list_eqb N.eqb (snd x) (snd y)) t1 t2
      && (o1 =? o2) && (k1 =? k2)
  end.

Definition step_eqb (a b : step_obs) : bool := list_eqb sout_eqb (fst a) (fst b) && snap_eqb (snd a) (snd b).

Definition corr (x : case) : bool := list_eqb step_eqb (model (fst x)) (snd x).

(* first step where model and implementation differ (for diagnosis) *)
Fixpoint first_diff (i : N) (a b : list step_obs) : option N :=
  match a, b with
  | [], [] => None
  | x :: a', y :: b' => if step_eqb x y then first_diff (i + 1) a' b' else Some i
  | _, _ => Some i
  end.
Definition where_diff (x : case) : option N := first_diff 0 (model (fst x)) (snd x).

(* ---------------------------------------------------------------------------------------------- *)
(* oracles over the op history and the implementation's observations                               *)

(* reference views of all peers, kept as an association list peer -> option set (ghost, Server.sview_op) *)
Definition views := list (peer * list cid).

Definition view_get (v : views) (p : peer) : option (list cid) := alookup N.eqb p v.

Definition view_op (cap : N) (v : views) (op : sop) : views :=
  match op with
  | SNewConn p => match view_get v p with Some _ => v | None => v ++ [(p, [])] end
  | SDisconnected p => adel N.eqb p v
  | SMsg p w _ => match view_get v p with Some s => aset N.eqb p (view_msg cap w s) v | None => v end
  | _ => v
  end.

(* what the environment has made available: (cid, data) pairs from released hits and new blocks *)
Definition avail := list (cid * bytes).

(* calls the implementation started: call number -> cid *)
Definition calls := list (N * cid).

Record ost := MkO {
  o_views : views;
  o_avail : avail;         (* every (cid, data) the store returned or that arrived as a new block *)
  o_calls : calls;         (* started calls (from the implementation's OGet outputs) *)
  o_open : list N;         (* started and not yet released *)
  o_due : list (peer * cid);  (* (p, c): c became available while p wanted it; must be sent at the next quiescent poll *)
  o_ok7 : bool;            (* C07 so far *)
  o_ok6 : bool;            (* C06 so far *)
  o_ok13 : bool            (* C13 so far *)
}.

Definition wanters (v : views) (c : cid) : list peer :=
  map fst (filter (fun pv => cmem c (snd pv)) v).

(* a sent block (prefix bytes, data) is legitimate for p iff some c in p's view has this prefix and this
   data was made available for c; it then leaves the view (at most one copy per expressed want) *)
Definition find_owed (s : list cid) (av : avail) (b : bytes * bytes) : option cid :=
  find (fun c => bytes_eqb (prefix_to_bytes (prefix_of_cid c)) (fst b)
                 && existsb (fun cd => cid_eqb (fst cd) c && bytes_eqb (snd cd) (snd b)) av) s.

Fixpoint send_blocks (s : list cid) (av : avail) (bl : list (bytes * bytes)) : option (list cid) :=
  match bl with
  | [] => Some s
  | b :: bl' => match find_owed s av b with
                | Some c => send_blocks (cremove c s) av bl'
                | None => None
                end
  end.

Definition pair_eqb (a b : peer * cid) : bool := (fst a =? fst b) && cid_eqb (snd a) (snd b).

Definition o_out (o : ost) (out : sout) : ost :=
  match out with
  | OGet k c => MkO (o_views o) (o_avail o) (o_calls o ++ [(k, c)]) (o_open o ++ [k]) (o_due o) (o_ok7 o) (o_ok6 o) (o_ok13 o)
  | OSend p bl =>
      match view_get (o_views o) p with
      | None => MkO (o_views o) (o_avail o) (o_calls o) (o_open o) (o_due o) false (o_ok6 o) (o_ok13 o)   (* sent to a peer without a view *)
      | Some s =>
          match send_blocks s (o_avail o) bl with
          | None => MkO (o_views o) (o_avail o) (o_calls o) (o_open o) (o_due o) false (o_ok6 o) (o_ok13 o)
          | Some s' =>
              MkO (aset N.eqb p s' (o_views o)) (o_avail o) (o_calls o) (o_open o)
                  (filter (fun pc => negb ((fst pc =? p) && negb (cmem (snd pc) s'))) (o_due o))
                  (o_ok7 o) (o_ok6 o) (o_ok13 o)
          end
      end
  end.

Definition mark_due (o : ost) (c : cid) : list (peer * cid) :=
  fold_left (fun due p => if existsb (pair_eqb (p, c)) due then due else due ++ [(p, c)])
            (wanters (o_views o) c) (o_due o).

Definition o_op (cap : N) (o : ost) (op : sop) : ost :=
  let v' := view_op cap (o_views o) op in
  (* wants that disappeared from the views are no longer due *)
  let due' := filter (fun pc => match view_get v' (fst pc) with Some s => cmem (snd pc) s | None => false end) (o_due o) in
  let o1 := MkO v' (o_avail o) (o_calls o) (o_open o) due' (o_ok7 o) (o_ok6 o) (o_ok13 o) in
  match op with
  | SNewBlocks bl =>
      fold_left (fun o cd => MkO (o_views o) (o_avail o ++ [cd]) (o_calls o) (o_open o) (mark_due o (fst cd)) (o_ok7 o) (o_ok6 o) (o_ok13 o)) bl o1
  | SRelease k r =>
      if existsb (N.eqb k) (o_open o1) then
        let open' := filter (fun j => negb (j =? k)) (o_open o1) in
        match r, alookup N.eqb k (o_calls o1) with
        | SHit d, Some c => MkO (o_views o1) (o_avail o1 ++ [(c, d)]) (o_calls o1) open' (mark_due o1 c) (o_ok7 o1) (o_ok6 o1) (o_ok13 o1)
        | _, _ => MkO (o_views o1) (o_avail o1) (o_calls o1) open' (o_due o1) (o_ok7 o1) (o_ok6 o1) (o_ok13 o1)
        end
      else o1
  | _ => o1
  end.

Fixpoint nodup_b {A} (eqb : A -> A -> bool) (l : list A) : bool :=
  match l with [] => true | x :: r => negb (existsb (eqb x) r) && nodup_b eqb r end.

(* C13 on a snapshot: every want set within the cap; only peers with a view (= connected) have state *)
Definition snap_ok13 (v : views) (s : snap) : bool :=
  match s with
  | Snap wants waiting _ _ =>
      forallb (fun pw => (len (snd pw) <=? MAX_WANTLIST_ENTRIES_PER_PEER)
                         && match view_get v (fst pw) with Some _ => true | None => false end) wants
      && forallb (fun cw => forallb (fun p => match view_get v p with Some _ => true | None => false end) (snd cw)) waiting
      && (len wants <=? len v)
      (* state proportional to the live wants (Srv_inv): a registration (c, p) exists exactly when c is in p's want set,
         once — no second copy that a single cancel would leave behind, no registration without a want *)
      && forallb (fun cw => nodup_b N.eqb (snd cw) && negb (match snd cw with [] => true | _ => false end)
                            && forallb (fun p => existsb (fun pw => (fst pw =? p) && existsb (cid_eqb (fst cw)) (snd pw)) wants) (snd cw)) waiting
      && forallb (fun pw => nodup_b cid_eqb (snd pw)
                            && forallb (fun c => existsb (fun cw => cid_eqb (fst cw) c && existsb (N.eqb (fst pw)) (snd cw)) waiting) (snd pw)) wants
  end.

Definition o_step (cap : N) (o : ost) (op : sop) (obs : step_obs) : ost :=
  let o1 := o_op cap o op in
  let o2 := fold_left o_out (fst obs) o1 in
  (* C06: after a poll that leaves no call open and no task pending, nothing may still be due *)
  let quiescent := match op, snd obs with
                   | SPoll, Snap _ _ outq tasks => (outq =? 0) && (tasks =? 0) && match o_open o2 with [] => true | _ => false end
                   | _, _ => false
                   end in
  let ok6 := o_ok6 o2 && (if quiescent then match o_due o2 with [] => true | _ => false end else true) in
  MkO (o_views o2) (o_avail o2) (o_calls o2) (o_open o2) (o_due o2) (o_ok7 o2) ok6
      (o_ok13 o2 && snap_ok13 (o_views o2) (snd obs)).

Fixpoint o_run (cap : N) (o : ost) (ops : list sop) (obs : list step_obs) : ost :=
  match ops, obs with
  | op :: ops', ob :: obs' => o_run cap (o_step cap o op ob) ops' obs'
  | _, _ => o
  end.

Definition o_final (x : case) : ost :=
  o_run (fst (fst x)) (MkO [] [] [] [] [] true true true) (snd (fst x)) (snd x).

Definition oracle_C07 (x : case) : bool := o_ok7 (o_final x).
Definition oracle_C06 (x : case) : bool := o_ok6 (o_final x).
Definition oracle_C13 (x : case) : bool := o_ok13 (o_final x).
Definition oracle (x : case) : bool := oracle_C06 x && oracle_C07 x && oracle_C13 x.
