(* Corr_conn.v — engine `conn`: the inbound side of ONE real ConnHandler (lib.rs `incoming_streams:
   SelectAll<IncomingStream>`, real FramedRead + Codec + process_message) fed by several scripted inbound streams opened
   at different times (harness/src/e_conn.rs), against Streams.v.  The harness polls the handler until nothing moves,
   so every stream is "polled enough": by Streams_proofs.C16_streams_independent the messages of stream k among the
   IncomingMessage events must then be exactly `fst (stream_out … (events of k))`, whatever the other streams carry
   and in whatever order SelectAll serves them; the streams still alive at the end are those the model leaves
   SfPending.  Each stream's messages name only that stream's own CIDs, which is how the harness attributes an event
   to its stream (999 = could not be attributed). *)
From BS Require Export Bytes Varint Cid Prefix Hasher Proto Incoming Qp ProtoCodec Frame Framed Codec Streams.
From BS Require Corr_incoming.
Open Scope N_scope.

Definition iout := Corr_incoming.iout.
Definition IoOk := Corr_incoming.IoOk.

Inductive cnin := CnIn (cap : N) (chk : bool) (streams : list (list read_ev)) (answers : list (N * bytes * hash_result)).
Definition cnout := (list (N * iout) * N * bool)%type.     (* (stream, message) events in order; alive at the end; panicked *)
Definition case := (cnin * cnout)%type.

Definition flat_inc (inc : incoming) : iout := Corr_incoming.flat (PmOk inc).

(* per stream: messages and final state predicted by the model *)
Definition model_streams (x : cnin) : list (list iout * sfinal) :=
  match x with
  | CnIn cap chk streams answers =>
      map (fun evs => let (ms, fin) := stream_out cap (Corr_incoming.lookup_answer answers) chk evs in (map flat_inc ms, fin)) streams
  end.

Fixpoint of_stream_o (k : N) (out : list (N * iout)) : list iout :=
  match out with [] => [] | (j, m) :: r => if j =? k then m :: of_stream_o k r else of_stream_o k r end.

Fixpoint indexed {A} (i : N) (l : list A) : list (N * A) := match l with [] => [] | x :: r => (i, x) :: indexed (i + 1) r end.

Definition any_fatal (ms : list (list iout * sfinal)) : bool := existsb (fun p => sfinal_fatal (snd p)) ms.

Definition corr (x : case) : bool :=
  let ms := model_streams (fst x) in
  let '(obs, alive, panicked) := snd x in
  if any_fatal ms then true      (* class F2 inside a frame: the run is cut short at an unpredictable point (never generated) *)
  else
    negb panicked
    && forallb (fun km => list_eqb Corr_incoming.iout_eqb (fst (snd km)) (of_stream_o (fst km) obs)) (indexed 0 ms)
    && forallb (fun e => fst e <? len ms) obs
    && (alive =? len (filter (fun p => sfinal_eqb (snd p) SfPending) ms)).

(* C16 on the implementation's observations and the per-message model only: a stream whose k-th frame is bad still
   delivered its first k-1 messages, and every OTHER stream delivered everything it carries: same statement as corr
   here, plus: nothing panicked *)
Definition oracle_C16 (x : case) : bool :=
  let '(obs, alive, panicked) := snd x in negb panicked && corr x.

Definition n_bad_streams (x : case) : N :=
  len (filter (fun p => match snd p with SfErr | SfClosed => true | _ => false end) (model_streams (fst x))).
Definition has_bad_and_good (x : case) : bool :=
  let ms := model_streams (fst x) in
  (1 <=? n_bad_streams x) && existsb (fun p => match snd p with SfErr | SfClosed => false | _ => negb (match fst p with [] => true | _ => false end) end) ms.
