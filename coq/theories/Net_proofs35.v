(* Net_proofs35.v — package J, part 13: `settle_terminates`.  HH + 3 is within the fuel of `settle`; one round makes the net
   clean, from then on every round lowers HH + AA: the fuel of Net.v always suffices. *)
From BS Require Import Server_lemmas Server_inv Wantlist_proofs Client_proofs Client_proofs2 Client_proofs3 Client_proofs4
  Client_proofs8 Net Net_proofs2 Net_proofs3 Net_proofs4 Net_proofs5 Net_proofs6 Net_proofs7 Net_proofs9 Net_proofs10 Net_proofs11
  Net_proofs17 Net_proofs23 Net_proofs24 Net_proofs25 Net_proofs26 Net_proofs27 Net_proofs28 Net_proofs29 Net_proofs30 Net_proofs31
  Net_proofs33 Net_proofs34.
From Coq Require Import ZArith ZifyBool ZifyN ZifyNat Lia.
Open Scope nat_scope.

(* ---------- HH against the work that `settle_fuel` counts ---------- *)
Lemma sum_by_le_const {A} (f : A -> nat) k l : (forall x, In x l -> f x <= k) -> sum_by f l <= length l * k.
Proof. intros H. rewrite <- (sum_by_const l k). apply sum_by_le. exact H. Qed.

Lemma hw_le P t : hw P t <= P + 6.
Proof. unfold hw. destruct (t_kind t); [destruct (t_aborted t)|]; lia. Qed.

Lemma debtH_le w tf ps : debtH w tf ps <= length (wl_cids w).
Proof. unfold debtH. destruct (p_send_full ps || tf); [lia|]. unfold vacant_cids. apply filter_length_le. Qed.

Lemma client_H_le c n :
  length (cs_peers c) <= n -> client_H c <= (n + 6) * (length (wl_cids (cs_wl c)) + length (cs_tasks c)).
Proof.
  intros HP. rewrite client_H_eq.
  assert (H1 : thw (length (cs_peers c)) (cs_tasks c) <= length (cs_tasks c) * (length (cs_peers c) + 6)).
  { unfold thw. apply sum_by_le_const. intros e _. apply hw_le. }
  assert (H2 : debtsH (cs_wl c) (timer_ready c) (cs_peers c) <= length (cs_peers c) * length (wl_cids (cs_wl c))).
  { unfold debtsH. apply sum_by_le_const. intros e _. apply debtH_le. }
  nia.
Qed.

Lemma ready_fold_le l : sum_by todo_w l <= fold_right (fun t a => length (Server.t_todo t) + 1 + a) 0 l.
Proof. induction l as [|t l IH]; cbn [fold_right]; [cbn; lia|]. rewrite sum_by_cons. unfold todo_w at 1. lia. Qed.

Lemma blocked_fold_le (l : list (N * (cid * Server.task))) :
  sum_by (fun x => todo_w (snd (snd x))) l <= fold_right (fun x a => length (Server.t_todo (snd (snd x))) + 1 + a) 0 l.
Proof. induction l as [|x l IH]; cbn [fold_right]; [cbn; lia|]. rewrite sum_by_cons. unfold todo_w at 1. lia. Qed.

Lemma node_H_le nd n : length (cs_peers (n_client nd)) <= n -> node_H nd <= (n + 6) * node_work nd.
Proof.
  intros HP. unfold node_H, server_H, node_work. pose proof (client_H_le (n_client nd) n HP) as H1.
  pose proof (ready_fold_le (s_ready (n_server nd))) as H2. pose proof (blocked_fold_le (s_blocked (n_server nd))) as H3.
  set (A := fold_right (fun t a => length (Server.t_todo t) + 1 + a) 0 (s_ready (n_server nd))) in *.
  set (B := fold_right (fun x a => length (Server.t_todo (snd (snd x))) + 1 + a) 0 (s_blocked (n_server nd))) in *.
  set (C := fold_right (fun (x : peer * list cid) a => length (snd x) + a) 0 (s_wants (n_server nd))).
  nia.
Qed.

Lemma wire_fold_le (l : list wmsg) : sum_by wmsg_H l <= fold_right (fun m a => length (wm_entries m) + 1 + a) 0 l.
Proof.
  induction l as [|m l IH]; cbn [fold_right]; [cbn; lia|]. rewrite sum_by_cons. unfold wmsg_H at 1, count_wants.
  pose proof (filter_length_le is_want (wm_entries m)). lia.
Qed.

Lemma seqN_length from n : length (seqN from n) = n.
Proof. revert from. induction n as [|n IH]; intros from; cbn [seqN length]; [reflexivity|]. rewrite IH. reflexivity. Qed.

Section Fuel.
  Variables (Sz : N) (Hh : hash_fn).
  Hypothesis HSz : (32 <= Sz)%N.
  Local Notation RI := (RI Sz Hh).

  (* a node has at most one record per node of the net *)
  Lemma peers_le_nodes s k nd : net_ok Sz Hh s -> get_node s k = Some nd -> length (cs_peers (n_client nd)) <= length (nodes s).
  Proof.
    intros Hok Hg. pose proof (no_nodes Sz Hh s Hok k nd Hg) as Hn.
    rewrite <- (map_length fst (cs_peers (n_client nd))). rewrite <- (seqN_length 0%N (length (nodes s))).
    apply NoDup_incl_length; [apply (ck_keys _ _ (nk_ck _ _ _ _ _ Hn))|].
    intros j Hj. apply (nk_peers _ _ _ _ _ Hn) in Hj. destruct (connected_neq Sz Hh HSz s k j Hok Hj) as (_ & _ & Hej).
    apply (seqN_In Sz HSz). destruct (get_node s j) as [nj|] eqn:Ej; [|contradiction]. apply get_node_lt in Ej. lia.
  Qed.

  Lemma HH_fuel s : net_ok Sz Hh s -> HH s + 3 <= settle_fuel s.
  Proof.
    intros Hok. unfold settle_fuel, net_work, HH.
    assert (H1 : sum_by node_H (nodes s) <= (length (nodes s) + 6) * fold_right (fun n a => node_work n + a) 0 (nodes s)).
    { assert (Hall : forall nd, In nd (nodes s) -> node_H nd <= (length (nodes s) + 6) * node_work nd).
      { intros nd Hin. apply In_nth_error in Hin. destruct Hin as (idx & Hidx). apply node_H_le.
        apply (peers_le_nodes s (N.of_nat idx) nd Hok). unfold get_node. rewrite Nat2N.id. exact Hidx. }
      generalize (length (nodes s) + 6) as K, Hall. clear. intros K. induction (nodes s) as [|nd l IH]; intros Hall; cbn [fold_right]; [cbn; lia|].
      rewrite sum_by_cons. pose proof (Hall nd (or_introl eq_refl)). specialize (IH (fun x Hx => Hall x (or_intror Hx))). nia. }
    pose proof (wire_fold_le (wire_w s)) as H2.
    set (A := fold_right (fun n a => node_work n + a) 0 (nodes s)) in *.
    set (B := fold_right (fun m a => length (wm_entries m) + 1 + a) 0 (wire_w s)) in *.
    set (C := fold_right (fun m a => length (bm_blocks m) + 1 + a) 0 (wire_b s)).
    destruct (nodes s) as [|nd l] eqn:En.
    - cbn [length] in *. assert (A = 0) by (unfold A; reflexivity). nia.
    - cbn [length] in *. nia.
  Qed.

  (* ---------- settle ---------- *)
  Lemma clean_settle_enough : forall f s, RI s -> cleanb s = true -> HH s + AA s <= f -> quietb (fst (settle_loop Sz Hh f s)) = true.
  Proof.
    induction f as [|f IH]; intros s HR Hc Hle; cbn [settle_loop]; destruct (quietb s) eqn:Hq; try exact Hq.
    - destruct (clean_round_decreases Sz Hh HSz s HR Hc Hq) as (_ & _ & H). lia.
    - destruct (clean_round_decreases Sz Hh HSz s HR Hc Hq) as (HR1 & Hc1 & H). destruct (round Sz Hh s) as [s1 e1]. cbn [fst] in *.
      specialize (IH s1 HR1 Hc1 ltac:(lia)). destruct (settle_loop Sz Hh f s1) as [s2 e2]. exact IH.
  Qed.

  Lemma HH_round s : RI s -> HH (fst (round Sz Hh s)) <= HH s.
  Proof. intros HR. destruct (round_run Sz Hh s) as (ops & Hs & E). rewrite E. apply (HH_run Sz Hh HSz ops Hs s HR). Qed.

  Lemma RI_round s : RI s -> RI (fst (round Sz Hh s)).
  Proof. intros HR. destruct (round_run Sz Hh s) as (ops & Hs & E). rewrite E. apply (RI_run Sz Hh HSz ops Hs s HR). Qed.

  (* the fuel of Net.v suffices, for every net that satisfies the invariants of reachable nets *)
  Theorem settle_terminates_RI s : RI s -> quietb (fst (settle Sz Hh s)) = true.
  Proof.
    intros HR. unfold settle. pose proof (HH_fuel s (proj1 HR)) as Hf. destruct (settle_fuel s) as [|f]; [lia|].
    cbn [settle_loop]. destruct (quietb s) eqn:Hq; [exact Hq|].
    pose proof (HH_round s HR) as H1. pose proof (RI_round s HR) as HR1. pose proof (round_clean Sz Hh HSz s) as Hc1.
    destruct (round Sz Hh s) as [s1 e1]. cbn [fst] in *. pose proof (AA_le2 s1) as HA.
    pose proof (clean_settle_enough f s1 HR1 Hc1 ltac:(lia)) as H. destruct (settle_loop Sz Hh f s1) as [s2 e2]. exact H.
  Qed.
End Fuel.
