(* Tie_names.v — protocol names and prefix validation in /repo now = what ProtocolName.v uses. *)
From BS Require Import Bytes ProtocolName Extracted.

(* client behaviour, server behaviour and builder (listen protocol) all use the model's suffix *)
Lemma tie_protocol_suffixes : Extracted.protocol_suffixes = [SUFFIX; SUFFIX; SUFFIX].  Proof. reflexivity. Qed.
(* `if !prefix.starts_with('/') { return Err(..) }` *)
Lemma tie_prefix_first_char : Extracted.prefix_must_start_with = SLASH.  Proof. reflexivity. Qed.
Lemma tie_prefix_check_negated : Extracted.prefix_check_negated = true.   Proof. reflexivity. Qed.
