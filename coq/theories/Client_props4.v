(* Client_props4.v — package R: trace-level C05 for Client.v (and C15's corollary), restated verbatim from
   Client_proofs21/22/23 and closed by `exact`; nothing else is proved here.
   (The task named this file Client_props3.v; that name is taken by package N, whose file must not be modified.)
   Definitions: c5f_run, no_faults, faults_of_payload, c5_ok, c5c_ok, c5p_ok, env_ok, rep_ok (Client_proofs20.v); quiet, stuck_on, close_ex, tamper_* (Client_proofs22.v);
   acked_on, no_report_alive (Client_proofs23.v).  `c5_ok sdh ops` is `Corr_client.c5_run` (the harness oracle
   `oracle_C05_faults`) evaluated on the model's own observations `Corr_client.model (sdh, ops)`. *)
From BS Require Import Types Wantlist Wantlist_proofs Client Client_proofs Client_proofs4 Corr_client
                       Client_proofs20 Client_proofs21 Client_proofs22 Client_proofs23.
From Coq Require Import ZArith List. Import ListNotations.
Open Scope N_scope.

Theorem c5_ok_is_the_oracle sdh ops : c5_ok sdh ops = oracle_C05_faults ((sdh, ops), model (sdh, ops)).
Proof. reflexivity. Qed.

Theorem c5f_run_faults_of_is_c5_run prev now faults cfaults inflight ops obs :
  c5_run prev now faults cfaults inflight ops obs = c5f_run faults_of prev now faults cfaults inflight ops obs.
Proof. exact (Client_proofs20.c5_run_eq prev now faults cfaults inflight ops obs). Qed.

Theorem C05_trace_closed_unacked sdh ops : c5c_ok sdh ops = true.
Proof. exact (Client_proofs21.C05_trace_closed_unacked sdh ops). Qed.

Theorem C05_trace_closed_unacked_explicit sdh a ch b p c f es d ch' c' f' es' :
  In (OSendWantlist p c f es) (snd (c_poll (st_after sdh a) ch)) ->
  quiet p c (st_after sdh (a ++ [CPoll ch])) (b ++ [CConnClosed p c] ++ d) ->
  In (OSendWantlist p c' f' es') (snd (c_poll (st_after sdh ((a ++ [CPoll ch]) ++ b ++ [CConnClosed p c] ++ d)) ch')) ->
  f' = true /\ c' <> c.
Proof. exact (Client_proofs22.C05_trace_closed_unacked_explicit sdh a ch b p c f es d ch' c' f' es'). Qed.

Theorem C05_trace_closed_unacked_refuted :
  let a := [CNewConn 7 1; CNewConn 7 2; CGet (Some ex_c1)] in
  let b := [CRelease 0 SMiss] in
  let d := [CReport 7 1 RpReady] in
  In (OSendWantlist 7 1 true []) (snd (c_poll (st_after true a) [(7, 1)])) /\
  quiet 7 1 (st_after true (a ++ [CPoll [(7, 1)]])) (b ++ [CConnClosed 7 1]) /\
  snd (c_poll (st_after true ((a ++ [CPoll [(7, 1)]]) ++ b ++ [CConnClosed 7 1] ++ d)) [(7, 2)]) =
    [OSendWantlist 7 2 false [(KWantHave, ex_c1)]] /\
  c5_ok true ((a ++ [CPoll [(7, 1)]]) ++ b ++ [CConnClosed 7 1] ++ d ++ [CPoll [(7, 2)]]) = true.
Proof. exact (Client_proofs22.C05_trace_closed_unacked_refuted). Qed.

Theorem C05_trace_faults sdh ops : env_ok ops = true -> c5_ok sdh ops = true.
Proof. exact (Client_proofs21.C05_trace_faults sdh ops). Qed.

Theorem C05_trace_faults_corrected sdh ops : c5p_ok sdh ops = true.
Proof. exact (Client_proofs21.C05_trace_faults_corrected sdh ops). Qed.

Theorem c5p_ok_agrees sdh ops : env_ok ops = true -> c5p_ok sdh ops = c5_ok sdh ops.
Proof. exact (Client_proofs21.c5p_ok_agrees sdh ops). Qed.

Theorem C05_trace_faults_refuted :
  exists sdh ops,
    env_ok ops = false /\ c5_ok sdh ops = false /\ c5c_ok sdh ops = true /\ c5p_ok sdh ops = true /\
    outs_after sdh ops = [OSendWantlist 7 1 true []; OSendWantlist 7 1 true []].
Proof. exact (Client_proofs22.C05_trace_faults_refuted). Qed.

Theorem C15_trace_close_keeps_exchange sdh ops p c ps c2 :
  let s := st_after sdh ops in
  let s' := st_after sdh (ops ++ [CConnClosed p c]) in
  al_find N.eqb p (cs_peers s) = Some ps -> In c2 (p_conns ps) -> c2 <> c ->
  al_find N.eqb p (cs_peers s') = Some (MkPeer (n_remove c (p_conns ps)) (p_ss ps) (p_wl ps) (p_send_full ps)) /\
  snd (cstep s (CConnClosed p c)) = [] /\
  (forall t, p_ss ps = SsRequested t c ->
     (forall d ch' c' f' es',
        quiet p c s' d ->
        In (OSendWantlist p c' f' es') (snd (c_poll (st_after sdh ((ops ++ [CConnClosed p c]) ++ d)) ch')) ->
        f' = true /\ c' <> c) /\
     (forall ms ch', (cs_now s + ms - t <? RECEIVE_REQUEST_TIMEOUT) = false ->
        exists c' es', In (OSendWantlist p c' true es') (snd (c_poll (st_after sdh ((ops ++ [CConnClosed p c]) ++ [CAdvance ms])) ch')) /\
                       c' <> c /\ In c' (p_conns ps))) /\
  (p_ss ps = SsFailed c ->
     forall ch', exists c' es', In (OSendWantlist p c' true es') (snd (c_poll s' ch')) /\ c' <> c /\ In c' (p_conns ps)).
Proof. exact (Client_proofs23.C15_trace_close_keeps_exchange sdh ops p c ps c2). Qed.

Theorem C15_trace_close_acked_starves sdh p c d : forall pre ch' c' f' es',
  acked_on p c (st_after sdh pre) -> no_report_alive p c (st_after sdh pre) d ->
  ~ In (OSendWantlist p c' f' es') (snd (c_poll (st_after sdh (pre ++ d)) ch')).
Proof. exact (Client_proofs23.C15_trace_close_acked_starves sdh p c d). Qed.

Example C05_trace_closed_unacked_example :
  outs_after true close_ex =
    [OQuery 0; OGet 0 ex_c1; OSendWantlist 7 1 true []; OSendWantlist 7 2 true [(KWantHave, ex_c1)]] /\
  al_find N.eqb 7 (cs_peers (st_after true (firstn 6 close_ex))) =
    Some (MkPeer [2] (SsRequested 0 1) wls_new false) /\
  env_ok close_ex = true /\ c5c_ok true close_ex = true /\ c5_ok true close_ex = true /\
  c5f_run no_faults csnap0 0 [] [] [] close_ex (tamper_last_send (model (true, close_ex))) = false /\
  c5f_run no_faults csnap0 0 [] [] [] close_ex (tamper_conn (model (true, close_ex))) = false.
Proof. exact (Client_proofs22.C05_trace_closed_unacked_example). Qed.

Example C05_trace_closed_unacked_explicit_example :
  let a := [CNewConn 7 1; CNewConn 7 2; CGet (Some ex_c1)] in
  let b := [CRelease 0 SMiss] in
  let d := [CAdvance 1000] in
  In (OSendWantlist 7 1 true []) (snd (c_poll (st_after true a) [(7, 1)])) /\
  quiet 7 1 (st_after true (a ++ [CPoll [(7, 1)]])) (b ++ [CConnClosed 7 1] ++ d) /\
  In (OSendWantlist 7 2 true [(KWantHave, ex_c1)])
     (snd (c_poll (st_after true ((a ++ [CPoll [(7, 1)]]) ++ b ++ [CConnClosed 7 1] ++ d)) [(7, 2)])).
Proof. exact (Client_proofs22.C05_trace_closed_unacked_explicit_example). Qed.

Example C15_trace_close_keeps_exchange_example :
  let ops := [CNewConn 7 1; CNewConn 7 2; CGet (Some ex_c1); CPoll [(7, 1)]; CRelease 0 SMiss] in
  al_find N.eqb 7 (cs_peers (st_after true ops)) = Some (MkPeer [1; 2] (SsRequested 0 1) wls_new false) /\
  In 2 [1; 2] /\ 2 <> 1 /\
  quiet 7 1 (st_after true (ops ++ [CConnClosed 7 1])) [CPoll [(7, 2)]; CAdvance 1000] /\
  snd (c_poll (st_after true ((ops ++ [CConnClosed 7 1]) ++ [CPoll [(7, 2)]; CAdvance 1000])) [(7, 2)]) =
    [OSendWantlist 7 2 true [(KWantHave, ex_c1)]] /\
  (cs_now (st_after true ops) + 1000 - 0 <? RECEIVE_REQUEST_TIMEOUT) = false.
Proof. exact (Client_proofs23.C15_trace_close_keeps_exchange_example). Qed.

Example C15_trace_close_acked_starves_example :
  let pre := [CNewConn 7 1; CNewConn 7 2; CGet (Some ex_c1); CPoll [(7, 1)]; CRelease 0 SMiss;
              CReport 7 1 (RpRequestReceived 1); CConnClosed 7 1] in
  let d := [CPoll [(7, 2)]; CAdvance 60000; CPoll [(7, 2)]] in
  al_find N.eqb 7 (cs_peers (st_after true pre)) = Some (MkPeer [2] (SsRequestReceived 0 1) wls_new false) /\
  no_report_alive 7 1 (st_after true pre) d /\
  outs_after true (pre ++ d ++ [CPoll [(7, 2)]]) = [OQuery 0; OGet 0 ex_c1; OSendWantlist 7 1 true []] /\
  c5_ok true (pre ++ d ++ [CPoll [(7, 2)]]) = true.
Proof. exact (Client_proofs23.C15_trace_close_acked_starves_example). Qed.

Print Assumptions c5_ok_is_the_oracle.
Print Assumptions c5f_run_faults_of_is_c5_run.
Print Assumptions C05_trace_closed_unacked.
Print Assumptions C05_trace_closed_unacked_explicit.
Print Assumptions C05_trace_closed_unacked_refuted.
Print Assumptions C05_trace_faults.
Print Assumptions C05_trace_faults_refuted.
Print Assumptions C05_trace_faults_corrected.
Print Assumptions c5p_ok_agrees.
Print Assumptions C15_trace_close_keeps_exchange.
Print Assumptions C15_trace_close_acked_starves.
Print Assumptions C05_trace_closed_unacked_example.
Print Assumptions C05_trace_closed_unacked_explicit_example.
Print Assumptions C15_trace_close_keeps_exchange_example.
Print Assumptions C15_trace_close_acked_starves_example.
