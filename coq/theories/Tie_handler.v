(* Tie_handler.v — the body of `ClientConnectionHandler::poll` (/repo/src/client.rs) as regenerated into Extracted.v on every
   run (the timeout block and the five arms of the match on (msg, sink_state), each a list of coded statements) against
   Handler.v: the model's `poll_iter` IS the interpretation of the extracted tables (`tie_hpoll`).  An edit of an arm — a report
   dropped or added, a close that is no longer issued, a different order, a `continue` that becomes a `return` — changes the table
   and the lemma no longer holds by computation. *)
From BS Require Import Bytes Types FramedWrite Handler Extracted.
From Coq Require Import List NArith Bool.
Import ListNotations.
Open Scope N_scope.

Section Interp.
Variable encode : message -> bytes.

Inductive flow := FNext | FStop (r : iter_res).

(* interpretation state: handler state, what is left of the script, the binding `msg` of `let msg = msg.take()` *)
Definition ist : Type := hstate * list io * option message.
Definition ires : Type := flow * ist * list hout.

Definition junk (x : ist) : ires :=
  let '(st, s, tk) := x in (FStop IrPending, (set_exhausted st, s, tk), []).

Definition exec_stmt (c : N) (x : ist) : ires :=
  let '(st, s, tk) := x in
  match c with
  | 1 | 5 => let '(st1, o) := drop_sink st in (FNext, (st1, s, tk), o)
  | 2 => (FNext, (change_sending_state st (SsFailed (h_conn st)), s, tk), [])
  | 3 => (FStop IrContinue, x, [])
  | 4 => match h_sink st with
         | SkReady id buf =>
             let c := fw_poll_close buf s in
             (FNext, (set_sink st (SkReady id (fr_buf c)), fr_script c, tk), map (hout_of_sev id) (fr_evs c))
         | _ => junk x
         end
  | 6 => (FNext, (change_sending_state st SsReady, s, tk), [])
  | 7 => (FNext, (set_msg st None, s, h_msg st), [])
  | 8 => (FNext, (set_msg st tk, s, tk), [])
  | 9 | 13 => (FNext, (set_timeout st None, s, tk), [])
  | 10 => (FNext, (change_sending_state st (SsSending (h_now st) (h_conn st)), s, tk), [])
  | 11 => (FStop IrPending, x, [])
  | 12 => let '(st1, o) := drop_sink st in (FStop (IrReady HOpenStream), (set_sink st1 SkRequested, s, tk), o)
  | 14 => (FNext, (set_msg st None, s, tk), [])
  | 15 => (FNext, (set_halted st true, s, tk), [])
  | _ => junk x
  end.

Fixpoint run_stmts (cs : list N) (x : ist) : ires :=
  match cs with
  | [] => (FNext, x, [])
  | c :: cs' =>
      let '(fl, x1, o1) := exec_stmt c x in
      match fl with
      | FStop _ => (fl, x1, o1)
      | FNext => let '(fl2, x2, o2) := run_stmts cs' x1 in (fl2, x2, o1 ++ o2)
      end
  end.

(* `if ready!(sink.<call>(cx)).is_err() { cs }`: Pending returns from `poll`, Err runs cs, Ok falls through *)
Definition exec_ready (call : bytes -> list io -> fw_res) (cs : list N) (x : ist) : ires :=
  let '(st, s, tk) := x in
  match h_sink st with
  | SkReady id buf =>
      let f := call buf s in
      let x1 := (set_sink st (SkReady id (fr_buf f)), fr_script f, tk) in
      let o := map (hout_of_sev id) (fr_evs f) in
      match fr_res f with
      | PrPending => (FStop IrPending, x1, o)
      | PrErr => let '(fl, x2, o2) := run_stmts cs x1 in (fl, x2, o ++ o2)
      | PrOk => (FNext, x1, o)
      end
  | _ => junk x
  end.

Definition exec_item (it : N * list N) (x : ist) : ires :=
  let '(st, s, tk) := x in
  match it with
  | (0, [c]) => exec_stmt c x
  | (20, cs) => exec_ready fw_poll_flush cs x
  | (21, cs) => exec_ready fw_poll_ready cs x
  | (22, _) =>                                        (* Codec::encode never fails: the Err block is dead code *)
      match h_sink st, tk with
      | SkReady id buf, Some m =>
          (FNext, (add_frame (set_sink st (SkReady id (fw_start_send buf (encode m)))) (id, m), s, tk), [])
      | _, _ => junk x
      end
  | (23, cs) => if timeout_fired st then run_stmts cs x else (FNext, x, [])
  | _ => junk x
  end.

Fixpoint run_items (its : list (N * list N)) (x : ist) : ires :=
  match its with
  | [] => (FNext, x, [])
  | it :: its' =>
      let '(fl, x1, o1) := exec_item it x in
      match fl with
      | FStop _ => (fl, x1, o1)
      | FNext => let '(fl2, x2, o2) := run_items its' x1 in (fl2, x2, o1 ++ o2)
      end
  end.

Definition msg_matches (p : N) (m : option message) : bool :=
  match p, m with 0, None => true | 1, Some _ => true | 9, _ => true | _, _ => false end.
Definition sink_matches (p : N) (k : sink_state) : bool :=
  match p, k with 0, SkNone => true | 1, SkRequested => true | 2, SkReady _ _ => true | 9, _ => true | _, _ => false end.

Fixpoint find_arm (arms : list (N * N * list (N * list N))) (m : option message) (k : sink_state) : option (list (N * list N)) :=
  match arms with
  | [] => None
  | (pm, pk, body) :: r => if msg_matches pm m && sink_matches pk k then Some body else find_arm r m k
  end.

(* falling off the end of the loop body = the next iteration *)
Definition res_of (fl : flow) : iter_res := match fl with FStop r => r | FNext => IrContinue end.

Definition interp_iter (prelude : N) (tmo : list (N * list N)) (arms : list (N * N * list (N * list N)))
  (st : hstate) (script : list io) : iter_res * hstate * list io * list hout :=
  match prelude with
  | 0 =>
    match h_queue st with
    | ev :: q => (IrReady (hout_of_ev ev), set_queue st q, script, [])
    | [] =>
      if h_halted st then (IrPending, st, script, []) else
      match h_timeout st with
      | Some _ =>
          let '(fl, x1, o1) := run_items tmo (st, script, None) in
          match fl with
          | FStop r => let '(st1, s1, _) := x1 in (r, st1, s1, o1)
          | FNext =>
              let '(st1, s1, _) := x1 in
              match find_arm arms (h_msg st1) (h_sink st1) with
              | Some body => let '(fl2, (st2, s2, _), o2) := run_items body (st1, s1, None) in (res_of fl2, st2, s2, o1 ++ o2)
              | None => (IrPending, set_exhausted st1, s1, o1)
              end
          end
      | None =>
          match find_arm arms (h_msg st) (h_sink st) with
          | Some body => let '(fl2, (st2, s2, _), o2) := run_items body (st, script, None) in (res_of fl2, st2, s2, o2)
          | None => (IrPending, set_exhausted st, script, [])
          end
      end
    end
  | _ => (IrPending, set_exhausted st, script, [])
  end.
End Interp.

Ltac hnorm := cbv -[N.leb N.eqb N.add ss_eqb fw_poll_flush fw_poll_ready fw_poll_close fw_start_send app map].

Lemma tie_arms : forall encode c m k ss cl tmo now nx pn ex fr script,
  let st := MkH c [] m k ss cl false tmo now nx pn ex fr in
  match m, k with
    | None, SkNone => (IrPending, st, script, [])
    | Some _, SkNone => (IrReady HOpenStream, set_sink st SkRequested, script, [])
    | _, SkRequested => (IrPending, st, script, [])
    | None, SkReady id buf =>
        let f := fw_poll_flush buf script in
        let ofl := map (hout_of_sev id) (fr_evs f) in
        match fr_res f with
        | PrPending => (IrPending, set_sink st (SkReady id (fr_buf f)), fr_script f, ofl)
        | PrErr =>
            let st1 := set_sink st SkNone in
            (IrContinue, change_sending_state st1 (SsFailed (h_conn st)), fr_script f, ofl ++ [HDropped id])
        | PrOk =>
            let c := fw_poll_close (fr_buf f) (fr_script f) in
            let ocl := map (hout_of_sev id) (fr_evs c) in
            let st1 := set_sink st SkNone in
            (IrContinue, change_sending_state st1 SsReady, fr_script c, ofl ++ ocl ++ [HDropped id])
        end
    | Some m, SkReady id buf =>
        let r := fw_poll_ready buf script in
        let ord := map (hout_of_sev id) (fr_evs r) in
        match fr_res r with
        | PrPending => (IrPending, set_sink st (SkReady id (fr_buf r)), fr_script r, ord)
        | PrErr => (IrContinue, set_sink st SkNone, fr_script r, ord ++ [HDropped id])
        | PrOk =>
            let st1 := set_msg st None in
            let st2 := set_sink st1 (SkReady id (fw_start_send (fr_buf r) (encode m))) in
            let st3 := add_frame st2 (id, m) in
            let st4 := set_timeout st3 None in
            (IrContinue, change_sending_state st4 (SsSending (h_now st) (h_conn st)), fr_script r, ord)
        end
    end
  = match find_arm Extracted.hpoll_arms m k with
    | Some body => let '(fl2, (st2, s2, _), o2) := run_items encode body (st, script, None) in (res_of fl2, st2, s2, o2)
    | None => (IrPending, set_exhausted st, script, [])
    end.
Proof.
  intros encode c m k ss cl tmo now nx pn ex fr script st. subst st.
  destruct m as [m|], k as [| |id buf]; try reflexivity.
  - cbn [find_arm Extracted.hpoll_arms msg_matches sink_matches andb run_items exec_item exec_ready h_sink].
    destruct (fw_poll_ready buf script) as [r b s' e]. destruct r; hnorm; rewrite ?app_nil_r; try reflexivity.
  - cbn [find_arm Extracted.hpoll_arms msg_matches sink_matches andb run_items exec_item exec_ready h_sink].
    destruct (fw_poll_flush buf script) as [r b s' e]. destruct r; hnorm; rewrite ?app_nil_r; try reflexivity.
Qed.

Lemma tie_hpoll : forall encode st script,
  poll_iter encode st script = interp_iter encode Extracted.hpoll_prelude Extracted.hpoll_timeout Extracted.hpoll_arms st script.
Proof.
  intros encode st script.
  destruct st as [c q m k ss cl hl tmo now nx pn ex fr].
  unfold poll_iter, interp_iter, Extracted.hpoll_prelude.
  destruct q as [|ev q]; [|reflexivity].
  cbn [h_queue h_halted].
  destruct hl; [reflexivity|].
  destruct tmo as [d|].
  - cbn [h_timeout]. unfold Extracted.hpoll_timeout. cbn [run_items exec_item]. unfold timeout_fired. cbn [h_timeout h_now].
    destruct (d <=? now) eqn:Ed.
    + destruct k as [| |id buf]; hnorm; reflexivity.
    + pose proof (tie_arms encode c m k ss cl (Some d) now nx pn ex fr script) as T. cbv zeta in T.
      etransitivity; [exact T|]. cbn [h_msg h_sink app].
      destruct (find_arm hpoll_arms m k) as [body|]; [|reflexivity].
      destruct (run_items encode body _) as [[fl2 [[st2 s2] tk2]] o2]. reflexivity.
  - cbn [h_timeout h_msg h_sink]. exact (tie_arms encode c m k ss cl None now nx pn ex fr script).
Qed.

(* the interpretation is not vacuous: no reachable case of the extracted tables ends in the junk outcome *)
Lemma tie_hpoll_tables :
  Extracted.hpoll_prelude = 0 /\
  Extracted.hpoll_timeout = [(23, [13; 14; 1; 2; 15; 3])] /\
  map (fun a => (fst (fst a), snd (fst a))) Extracted.hpoll_arms = [(0, 0); (1, 0); (9, 1); (0, 2); (1, 2)].
Proof. repeat split. Qed.
