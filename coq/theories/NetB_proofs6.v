(* NetB_proofs6.v — package S, part 6: WHO sends the lost reply again.  A batch enters `wire_b` only for a peer its source is
   connected to (`queue_blocks`); schedule steps keep `conns`.  Hence, when j is the only node i is connected to, the batch
   that `C06_lost_reply_reserved` finds is a batch from j: `C06_lost_reply_reserved_by_j`. *)
From BS Require Import Server_lemmas Server_inv Wantlist_proofs Client_proofs Client_proofs2 Client_proofs3 Client_proofs4
  Net Net_proofs2 Net_proofs3 Net_proofs4 Net_proofs5 Net_proofs6 Net_proofs7 Net_proofs9 Net_proofs10 Net_proofs24 Net_proofs28
  Net_proofs32 NetB NetB_proofs NetB_proofs2 NetB_proofs4 NetB_proofs5.
From Coq Require Import ZArith ZifyBool ZifyN ZifyNat Lia.
Open Scope N_scope.

Section Who.
  Variables (Sz : N) (Hh : hash_fn).
  Hypothesis HSz : 32 <= Sz.

  Lemma entered_step_connected s o m :
    In m (bh_entered (bhist_of Sz Hh s (BOp o))) -> Net.connected s (bm_src m) (bm_dst m) = true.
  Proof.
    destruct o as [a b|a b|a x|a x|a x d|a x|ms|k|k m0|a b|a b]; cbn [bhist_of bh_entered bhist_nil]; try (intros []).
    cbn [nstep]. unfold do_poll. destruct (get_node s k) as [n|] eqn:Ek.
    - destruct (node_poll Sz n) as [n1 o]. destruct (fold_left (hand_over s k) (o_wants o) (n1, [])) as [n2 ws]. cbn [fst wire_b].
      rewrite queue_blocks_fold. cbn [app]. rewrite skipn_length_app. intros H. apply in_map_iff in H. destruct H as ([p bl] & <- & Hx).
      apply filter_In in Hx. cbn [b_of bm_src bm_dst fst snd] in *. apply Hx.
    - cbn [fst]. rewrite skipn_all. intros [].
  Qed.

  Lemma entered_run_connected ops : forall s m,
    Forall sched ops -> In m (entered_b Sz Hh s ops) -> Net.connected s (bm_src m) (bm_dst m) = true.
  Proof.
    induction ops as [|o ops IH]; intros s m Hs Hm; [destruct Hm|].
    inversion Hs as [|? ? Ho Hs']; subst. rewrite (entered_b_cons Sz Hh) in Hm. apply in_app_iff in Hm. destruct Hm as [Hm|Hm].
    - apply entered_step_connected with (o := o). exact Hm.
    - specialize (IH _ m Hs' Hm). unfold Net.connected in *. rewrite (sched_conns Sz Hh s o Ho) in IH. exact IH.
  Qed.

  Theorem C06_lost_reply_reserved_by_j (i j : N) (q : qid) (c : cid) n ops m :
    Forall (nop_good Sz Hh) (base_ops ops) -> Forall (nop_wf Sz) (base_ops ops) ->
    let s0 := fst (brun Sz Hh (net_init n) ops) in
    next_batch s0 j i = Some m -> In c (map fst (bm_blocks m)) ->
    let s := fst (bstep Sz Hh s0 (BLoseB j i)) in
    live_query i q c s -> Net.connected s i j = true ->
    (exists st d, store_of s j = Some st /\ store_get st c = SHit d) ->
    let r1 := settle Sz Hh s in
    let r2 := refresh Sz Hh (fst r1) in
    (length (wl_i i (fst r1)) <= 1024)%nat ->
    (forall k, Net.connected (fst r1) i k = true -> k = j) ->      (* j is i's only peer *)
    ~ answered i q (snd r1) ->                                     (* the query still waits after settle *)
    answered i q (snd r1 ++ snd r2) /\
    exists ops2, Forall sched ops2 /\ r2 = nrun Sz Hh (advance Sz Hh SEND_FULL_INTERVAL (fst r1)) ops2 /\
      exists m', In m' (entered_b Sz Hh (advance Sz Hh SEND_FULL_INTERVAL (fst r1)) ops2) /\ carries j i c m' = true.
  Proof.
    intros Hg Hw s0 Hnb Hc s Hlive Hconn Hst r1 r2 Hsz Honly Hna.
    destruct (C06_lost_reply_reserved Sz Hh HSz i j q c n ops m Hg Hw Hnb Hc Hlive Hconn Hst Hsz) as (Hans & Hre).
    split; [exact Hans|]. destruct (Hre Hna) as (ops2 & Hs2 & E2 & a & m' & Hin & Hcar).
    exists ops2. split; [exact Hs2|]. split; [exact E2|]. exists m'. split; [exact Hin|].
    pose proof (entered_run_connected ops2 _ m' Hs2 Hin) as Hcn.
    unfold carries in Hcar. apply andb_true_iff in Hcar. destruct Hcar as [Hbt Hex].
    unfold b_between in Hbt. apply andb_true_iff in Hbt. destruct Hbt as [Hsrc Hdst]. apply N.eqb_eq in Hsrc, Hdst.
    rewrite Hsrc, Hdst in Hcn.
    change (Net.connected (fst r1) a i = true) in Hcn. rewrite connected_sym in Hcn. apply Honly in Hcn. rewrite Hcn in Hsrc.
    unfold carries, b_between. rewrite Hsrc, Hdst, !N.eqb_refl, Hex. reflexivity.
  Qed.
End Who.
