(* NetF_proofs4.v — package P, part 4: what holds in EVERY net reachable with faults (no shape condition on the run).
   `RI` does not (NetF_proofs3), these do:
   * `conns_lt`, `wire_conn` : the pairs of `conns` are ordered; a wantlist in flight travels on an established connection;
   * every step moves every client by client steps whose connection events carry CONN (`fmoved`), hence every invariant of
     the client under such steps holds of every client of every reachable net (`all_clients_frun`), in particular
     `INVS` (no stale SendWantlist between polls, peer keys duplicate-free) and `conns_one` (every peer entry that exists has
     exactly the connection CONN: the entry of a failed connection is not kept, it is dropped whole). *)
From BS Require Import Server_lemmas Server_inv Wantlist_proofs Client_proofs Client_proofs2 Client_proofs3 Client_proofs4
  Net Net_proofs2 Net_proofs3 Net_proofs4 Net_proofs5 Net_proofs6 Net_proofs7 NetF NetF_proofs.
From Coq Require Import ZArith ZifyBool ZifyN ZifyNat Lia.
Open Scope N_scope.

Section Light.
  Variables (Sz : N) (Hh : hash_fn).

  (* ---------- conns ---------- *)
  Lemma nstep_conns s o :
    match o with NConnect _ _ | NDisconnect _ _ => False | _ => True end -> conns (fst (nstep Sz Hh s o)) = conns s.
  Proof.
    destruct o; cbn [nstep fst]; intros Ho; try contradiction; try apply on_node_conns; try reflexivity.
    - unfold do_poll. destruct (get_node s i) as [n|]; [|reflexivity]. destruct (node_poll Sz n) as [n1 o].
      destruct (fold_left (hand_over s i) (o_wants o) (n1, [])) as [n2 ws]. reflexivity.
    - unfold do_deliver_w. destruct (take_first (w_between i j) (wire_w s)) as [[m rest]|]; [|reflexivity].
      match goal with |- context [get_node ?S0 i] => destruct (get_node S0 i) as [ni|]; [destruct (get_node S0 j) as [nj|]|] end; try reflexivity.
      match goal with |- context [node_incoming Sz Hh nj i ?M] => destruct (node_incoming Sz Hh nj i M) as [nj1 evs] end.
      cbn [fst]. rewrite on_node_conns. reflexivity.
    - unfold do_deliver_b. destruct (take_first (b_between j i) (wire_b s)) as [[m rest]|]; [|reflexivity].
      destruct (get_node s i) as [ni|]; [|reflexivity].
      match goal with |- context [node_incoming Sz Hh ni j ?M] => destruct (node_incoming Sz Hh ni j M) as [ni1 evs] end. reflexivity.
  Qed.

  Lemma do_fail_w_conns s i j d : conns (fst (do_fail_w Sz Hh s i j d)) = conns s.
  Proof.
    unfold do_fail_w. destruct (take_first (w_between i j) (wire_w s)) as [[m rest]|]; [|reflexivity].
    match goal with |- context [get_node ?S0 i] => destruct (get_node S0 i) as [ni|]; [destruct (get_node S0 j) as [nj|]|] end; try reflexivity.
    destruct d.
    - match goal with |- context [node_incoming Sz Hh nj i ?M] => destruct (node_incoming Sz Hh nj i M) as [nj1 evs] end.
      cbn [fst]. rewrite on_node_conns. reflexivity.
    - cbn [fst]. rewrite on_node_conns. reflexivity.
  Qed.

  Lemma do_fail_w_wire s i j d m : In m (wire_w (fst (do_fail_w Sz Hh s i j d))) -> In m (wire_w s).
  Proof.
    unfold do_fail_w. destruct (take_first (w_between i j) (wire_w s)) as [[m0 rest]|] eqn:Et; [|auto].
    destruct (take_first_spec _ _ _ _ Et) as (_ & _ & Hsub & _).
    match goal with |- context [get_node ?S0 i] => destruct (get_node S0 i) as [ni|]; [destruct (get_node S0 j) as [nj|]|] end;
      try (cbn [fst wire_w]; apply Hsub).
    destruct d.
    - match goal with |- context [node_incoming Sz Hh nj i ?M] => destruct (node_incoming Sz Hh nj i M) as [nj1 evs] end.
      cbn [fst]. rewrite on_node_wire_w. cbn [set_node wire_w]. apply Hsub.
    - cbn [fst]. rewrite on_node_wire_w. cbn [wire_w]. apply Hsub.
  Qed.

  Lemma conns_lt_step s o : conns_lt s -> conns_lt (fst (nstep Sz Hh s o)).
  Proof.
    intros H. destruct o; try (intros a b Hab; rewrite nstep_conns in Hab by exact I; apply H, Hab).
    - cbn [nstep fst]. unfold do_connect. destruct (get_node s i) as [ni|]; [|exact H]. destruct (get_node s j) as [nj|]; [|exact H].
      destruct ((i =? j) || Net.connected s i j) eqn:E; [exact H|]. apply orb_false_iff in E. destruct E as [E _]. apply N.eqb_neq in E.
      intros a b Hab. cbn [conns] in Hab. apply in_app_iff in Hab. destruct Hab as [Hab|[Hab|[]]]; [apply H, Hab|].
      pose proof (norm_lt i j E) as Hlt. rewrite Hab in Hlt. exact Hlt.
    - cbn [nstep fst]. unfold do_disconnect. destruct (get_node s i) as [ni|]; [|exact H]. destruct (get_node s j) as [nj|]; [|exact H].
      destruct (Net.connected s i j); [|exact H]. intros a b Hab. cbn [conns] in Hab. apply filter_In in Hab. apply H, Hab.
  Qed.

  Lemma do_reconnect_steps s i j :
    do_reconnect Sz s i j = fst (nstep Sz Hh (fst (nstep Sz Hh s (NDisconnect i j))) (NConnect i j)).
  Proof. reflexivity. Qed.

  Definition linv (s : net) : Prop := conns_lt s /\ wire_conn s.

  Lemma linv_init n : linv (net_init n).
  Proof. split; [intros a b [] | intros m []]. Qed.

  Lemma linv_nstep s o : linv s -> linv (fst (nstep Sz Hh s o)).
  Proof. intros [H1 H2]. split; [apply conns_lt_step, H1 | apply wire_conn_step; assumption]. Qed.

  Lemma linv_fstep s o : linv s -> linv (fst (fstep Sz Hh s o)).
  Proof.
    intros Hl. destruct o as [o|i j d|i j]; cbn [fstep fst].
    - apply linv_nstep, Hl.
    - destruct Hl as [H1 H2]. split.
      + intros a b Hab. rewrite do_fail_w_conns in Hab. apply H1, Hab.
      + apply (wire_conn_same s); [apply do_fail_w_conns | apply do_fail_w_wire | exact H2].
    - rewrite do_reconnect_steps. apply linv_nstep, linv_nstep, Hl.
  Qed.

  Lemma linv_frun ops : forall s, linv s -> linv (fst (frun Sz Hh s ops)).
  Proof. induction ops as [|o ops IH]; intros s Hl; [exact Hl|]. rewrite frun_cons. cbn [fst]. apply IH, linv_fstep, Hl. Qed.

  (* ---------- every step moves every client by client steps ---------- *)
  (* connection events carry CONN; `P k o` is a further condition on the steps of node k's client that every step other than
     a new connection meets (instances: nothing; "node i's client never hears of a new connection to j") *)
  Definition cop_net (o : cop) : Prop :=
    match o with CNewConn _ c | CConnClosed _ c => c = CONN | _ => True end.

  Section Moved.
  Variable P : N -> cop -> Prop.
  Hypothesis P_nc : forall k o, (forall p c, o <> CNewConn p c) -> P k o.

  Inductive fsteps (k : N) : cstate -> cstate -> Prop :=
  | fs_refl c : fsteps k c c
  | fs_step c o c' : cop_net o -> P k o -> fsteps k (fst (cstep c o)) c' -> fsteps k c c'.

  Lemma fsteps_one k c o : cop_net o -> P k o -> fsteps k c (fst (cstep c o)).
  Proof. intros Ho Hp. eapply fs_step; [exact Ho | exact Hp | apply fs_refl]. Qed.

  Lemma fsteps_nc k c o : cop_net o -> (forall p c0, o <> CNewConn p c0) -> fsteps k c (fst (cstep c o)).
  Proof. intros Ho Hn. apply fsteps_one; [exact Ho | apply P_nc, Hn]. Qed.

  Lemma fsteps_trans k a b c : fsteps k a b -> fsteps k b c -> fsteps k a c.
  Proof. induction 1 as [a|a o b Ho Hp _ IH]; intros H; [exact H|]. eapply fs_step; [exact Ho | exact Hp | apply IH, H]. Qed.

  Lemma fsteps_inv k (I : cstate -> Prop) :
    (forall c o, cop_net o -> P k o -> I c -> I (fst (cstep c o))) -> forall c c', fsteps k c c' -> I c -> I c'.
  Proof. intros HI c c' H. induction H as [c|c o c' Ho Hp _ IH]; intros Hc; [exact Hc|]. apply IH, HI; assumption. Qed.

  Definition fmoved (s s' : net) : Prop :=
    forall k n', get_node s' k = Some n' -> exists n, get_node s k = Some n /\ fsteps k (n_client n) (n_client n').

  Lemma fmoved_refl s : fmoved s s.
  Proof. intros k n' H. exists n'. split; [exact H | apply fs_refl]. Qed.

  Lemma fmoved_trans a b c : fmoved a b -> fmoved b c -> fmoved a c.
  Proof.
    intros H1 H2 k n'' Hk. destruct (H2 _ _ Hk) as (n' & Hk' & S2). destruct (H1 _ _ Hk') as (n & Hk0 & S1).
    exists n. split; [exact Hk0 | eapply fsteps_trans; eassumption].
  Qed.

  Lemma fmoved_set_node s i n n' : get_node s i = Some n -> fsteps i (n_client n) (n_client n') -> fmoved s (set_node s i n').
  Proof.
    intros Hg Hs k nk Hk. destruct (N.eq_dec i k) as [<-|Hne].
    - rewrite (get_set_eq _ _ _ _ Hg) in Hk. injection Hk as <-. eauto.
    - rewrite get_set_neq in Hk by assumption. exists nk. split; [exact Hk | apply fs_refl].
  Qed.

  Lemma fmoved_on_node s i f : (forall n, fsteps i (n_client n) (n_client (f n))) -> fmoved s (on_node s i f).
  Proof.
    intros Hf. unfold on_node. destruct (get_node s i) as [n|] eqn:E; [|apply fmoved_refl]. eapply fmoved_set_node; [exact E | apply Hf].
  Qed.

  Lemma fmoved_wires s ww wb : fmoved s (MkNet (nodes s) (conns s) ww wb (now s)).
  Proof. intros k n' H. exists n'. split; [exact H | apply fs_refl]. Qed.

  Lemma fmoved_nodes s s2 s' : nodes s' = nodes s2 -> fmoved s s2 -> fmoved s s'.
  Proof. intros E H k n' Hk. apply H. unfold get_node in *. rewrite <- E. exact Hk. Qed.

  Lemma fmoved_two s i j ni nj ni' nj' :
    i <> j -> get_node s i = Some ni -> get_node s j = Some nj ->
    fsteps i (n_client ni) (n_client ni') -> fsteps j (n_client nj) (n_client nj') ->
    fmoved s (set_node (set_node s i ni') j nj').
  Proof.
    intros Hij Ei Ej Si Sj. eapply fmoved_trans; [exact (fmoved_set_node s i ni ni' Ei Si)|].
    apply (fmoved_set_node (set_node s i ni') j nj nj'); [rewrite get_set_neq by exact Hij; exact Ej | exact Sj].
  Qed.

  Lemma hand_over_fmoved s i L : forall acc, fsteps i (n_client (fst acc)) (n_client (fst (fold_left (hand_over s i) L acc))).
  Proof.
    induction L as [|x L IH]; intros acc; cbn [fold_left]; [apply fs_refl|].
    eapply fsteps_trans; [|apply IH]. destruct x as [[[p c] f] es]. unfold hand_over. destruct (Net.connected s i p); cbn [fst]; [|apply fs_refl].
    unfold node_report. cbn [n_client]. apply fsteps_nc; [exact I | discriminate].
  Qed.

  Lemma node_incoming_fmoved k n p m : fsteps k (n_client n) (n_client (fst (node_incoming Sz Hh n p m))).
  Proof.
    unfold node_incoming. destruct (process_message Sz Hh m) as [inc| |]; cbn [fst]; try apply fs_refl.
    destruct (in_client inc) as [cm|].
    - destruct (cstep (n_client n) (CIncoming p (map to_pres (cm_presences cm)) (cm_blocks cm))) as [c1 o1] eqn:E. cbn [fst n_client].
      replace c1 with (fst (cstep (n_client n) (CIncoming p (map to_pres (cm_presences cm)) (cm_blocks cm)))) by (rewrite E; reflexivity).
      apply fsteps_nc; [exact I | discriminate].
    - cbn [fst n_client]. apply fs_refl.
  Qed.

  Lemma node_report_fmoved k n p c r : fsteps k (n_client n) (n_client (node_report n p c r)).
  Proof. unfold node_report. cbn [n_client]. apply fsteps_nc; [exact I | discriminate]. Qed.

  Theorem nstep_fmoved s o :
    conns_lt s -> (forall a b, a <> b -> Net.connected s a b = false -> P a (CNewConn b CONN)) -> fmoved s (fst (nstep Sz Hh s o)).
  Proof.
    intros Hlt Hnew. destruct o; cbn [nstep fst].
    - unfold do_connect. destruct (get_node s i) as [ni|] eqn:Ei; [|apply fmoved_refl]. destruct (get_node s j) as [nj|] eqn:Ej; [|apply fmoved_refl].
      destruct ((i =? j) || Net.connected s i j) eqn:E; [apply fmoved_refl|]. apply orb_false_iff in E. destruct E as [E Ec]. apply N.eqb_neq in E.
      eapply fmoved_nodes; [reflexivity|]. apply (fmoved_two s i j ni nj); try assumption;
        unfold node_connected; cbn [n_client]; apply fsteps_one; try reflexivity.
      + apply Hnew; assumption.
      + apply Hnew; [congruence | rewrite connected_sym; exact Ec].
    - unfold do_disconnect. destruct (get_node s i) as [ni|] eqn:Ei; [|apply fmoved_refl]. destruct (get_node s j) as [nj|] eqn:Ej; [|apply fmoved_refl].
      destruct (Net.connected s i j) eqn:E; [|apply fmoved_refl]. pose proof (conns_lt_neq s i j Hlt E) as Hij.
      eapply fmoved_nodes; [reflexivity|]. apply (fmoved_two s i j ni nj); try assumption;
        unfold node_disconnected; cbn [n_client]; (apply fsteps_nc; [reflexivity | discriminate]).
    - apply fmoved_on_node. intros n. unfold node_get. cbn [n_client]. apply fsteps_nc; [exact I | discriminate].
    - apply fmoved_on_node. intros n. unfold node_cancel. cbn [n_client]. apply fsteps_nc; [exact I | discriminate].
    - apply fmoved_on_node. intros n. cbn [node_put n_client]. apply fs_refl.
    - apply fmoved_on_node. intros n. cbn [node_evict n_client]. apply fs_refl.
    - intros k n' Hk. unfold get_node in Hk. cbn [nodes] in Hk. rewrite nth_error_map in Hk.
      destruct (nth_error (nodes s) (N.to_nat k)) as [n|] eqn:E; [|discriminate]. injection Hk as <-. exists n. split; [exact E|].
      unfold node_advance. cbn [n_client]. apply fsteps_nc; [exact I | discriminate].
    - unfold do_poll. destruct (get_node s i) as [n|] eqn:Ei; [|apply fmoved_refl].
      destruct (node_poll Sz n) as [n1 o] eqn:En.
      pose proof (hand_over_fmoved s i (o_wants o) (n1, [])) as Hh1.
      destruct (fold_left (hand_over s i) (o_wants o) (n1, [])) as [n2 ws]. cbn [fst snd] in *.
      eapply fmoved_nodes with (s2 := set_node s i n2); [reflexivity|]. apply (fmoved_set_node s i n n2 Ei).
      eapply fsteps_trans; [|exact Hh1]. unfold node_poll in En.
      destruct (cstep (n_client n) (CPoll [])) as [c1 o1] eqn:E1. destruct (cstep c1 CTakeNewBlocks) as [c2 o2] eqn:E2.
      destruct (srv Sz match cl_new_blocks o2 with [] => n_server n | _ :: _ => fst (srv Sz (n_server n) (SNewBlocks (cl_new_blocks o2))) end SPoll) as [s2 o3].
      injection En as <- _. cbn [n_client].
      replace c2 with (fst (cstep c1 CTakeNewBlocks)) by (rewrite E2; reflexivity).
      replace c1 with (fst (cstep (n_client n) (CPoll []))) by (rewrite E1; reflexivity).
      apply (fsteps_trans i _ (fst (cstep (n_client n) (CPoll [])))); (apply fsteps_nc; [exact I | discriminate]).
    - apply fmoved_on_node. intros n. unfold node_store. destruct (nth_error (n_calls n) (N.to_nat k)) as [[m c|m bl|m c]|]; cbn [n_client];
        try apply fs_refl; (apply fsteps_nc; [exact I | discriminate]).
    - unfold do_deliver_w. destruct (take_first (w_between i j) (wire_w s)) as [[m rest]|]; [|apply fmoved_refl].
      set (s0 := MkNet (nodes s) (conns s) rest (wire_b s) (now s)).
      destruct (get_node s0 i) as [ni|] eqn:Ei; [|apply fmoved_wires]. destruct (get_node s0 j) as [nj|] eqn:Ej; [|apply fmoved_wires].
      pose proof (node_incoming_fmoved j nj i (wantlist_message (wl_sdh (cs_wl (n_client ni))) (wm_full m) (wm_entries m))) as Hm.
      destruct (node_incoming Sz Hh nj i (wantlist_message (wl_sdh (cs_wl (n_client ni))) (wm_full m) (wm_entries m))) as [nj1 evs].
      cbn [fst] in *. eapply fmoved_trans; [apply (fmoved_wires s rest (wire_b s))|]. fold s0.
      eapply fmoved_trans; [exact (fmoved_set_node s0 j nj nj1 Ej Hm)|].
      apply fmoved_on_node. intros n. apply node_report_fmoved.
    - unfold do_deliver_b. destruct (take_first (b_between j i) (wire_b s)) as [[m rest]|]; [|apply fmoved_refl].
      destruct (get_node s i) as [ni|] eqn:Ei; [|apply fmoved_wires].
      pose proof (node_incoming_fmoved i ni j (blocks_message (bm_blocks m))) as Hm.
      destruct (node_incoming Sz Hh ni j (blocks_message (bm_blocks m))) as [ni1 evs]. cbn [fst] in *.
      eapply fmoved_nodes with (s2 := set_node s i ni1); [reflexivity|]. exact (fmoved_set_node s i ni ni1 Ei Hm).
  Qed.

  Theorem fail_w_fmoved s i j d : fmoved s (fst (do_fail_w Sz Hh s i j d)).
  Proof.
    unfold do_fail_w. destruct (take_first (w_between i j) (wire_w s)) as [[m rest]|]; [|apply fmoved_refl].
    set (s0 := MkNet (nodes s) (conns s) rest (wire_b s) (now s)).
    destruct (get_node s0 i) as [ni|] eqn:Ei; [|apply fmoved_wires]. destruct (get_node s0 j) as [nj|] eqn:Ej; [|apply fmoved_wires].
    destruct d.
    + pose proof (node_incoming_fmoved j nj i (wantlist_message (wl_sdh (cs_wl (n_client ni))) (wm_full m) (wm_entries m))) as Hm.
      destruct (node_incoming Sz Hh nj i (wantlist_message (wl_sdh (cs_wl (n_client ni))) (wm_full m) (wm_entries m))) as [nj1 evs].
      cbn [fst] in *. eapply fmoved_trans; [apply (fmoved_wires s rest (wire_b s))|]. fold s0.
      eapply fmoved_trans; [exact (fmoved_set_node s0 j nj nj1 Ej Hm)|].
      apply fmoved_on_node. intros n. apply node_report_fmoved.
    + cbn [fst]. eapply fmoved_trans; [apply (fmoved_wires s rest (wire_b s))|]. fold s0.
      apply fmoved_on_node. intros n. apply node_report_fmoved.
  Qed.
  End Moved.

  (* the instance without a further condition *)
  Definition PT (k : N) (o : cop) : Prop := True.

  Theorem fstep_fmoved s o : conns_lt s -> fmoved PT s (fst (fstep Sz Hh s o)).
  Proof.
    intros Hlt. assert (Hnc : forall k o', (forall p c, o' <> CNewConn p c) -> PT k o') by (intros; exact I).
    destruct o as [o|i j d|i j]; cbn [fstep fst].
    - apply (nstep_fmoved PT Hnc); [exact Hlt | intros; exact I].
    - apply (fail_w_fmoved PT Hnc).
    - rewrite do_reconnect_steps. eapply fmoved_trans; [apply (nstep_fmoved PT Hnc); [exact Hlt | intros; exact I]|].
      apply (nstep_fmoved PT Hnc); [apply conns_lt_step, Hlt | intros; exact I].
  Qed.

  (* ---------- client invariants lift to every net reachable with faults ---------- *)
  Definition all_clients (I : cstate -> Prop) (s : net) : Prop := forall k n, get_node s k = Some n -> I (n_client n).

  Lemma all_clients_fstep (I : cstate -> Prop) s o :
    (forall c o', cop_net o' -> I c -> I (fst (cstep c o'))) -> conns_lt s -> all_clients I s -> all_clients I (fst (fstep Sz Hh s o)).
  Proof.
    intros HI Hlt Ha k n' Hk. destruct (fstep_fmoved s o Hlt k n' Hk) as (n & Hn & Hs).
    exact (fsteps_inv PT k I (fun c o' Ho _ => HI c o' Ho) _ _ Hs (Ha k n Hn)).
  Qed.

  Lemma all_clients_frun (I : cstate -> Prop) ops :
    (forall c o', cop_net o' -> I c -> I (fst (cstep c o'))) ->
    forall s, linv s -> all_clients I s -> all_clients I (fst (frun Sz Hh s ops)).
  Proof.
    intros HI. induction ops as [|o ops IH]; intros s Hl Ha; [exact Ha|]. rewrite frun_cons. cbn [fst].
    apply IH; [apply linv_fstep, Hl | apply all_clients_fstep; [exact HI | apply Hl | exact Ha]].
  Qed.

  Lemma all_clients_init (I : cstate -> Prop) n : I (cinit true) -> all_clients I (net_init n).
  Proof. intros HI k nd Hg. unfold get_node in Hg. cbn [nodes net_init] in Hg. apply nth_error_In, repeat_spec in Hg. subst nd. exact HI. Qed.
End Light.

(* ---------- two client invariants that survive faults ---------- *)
Definition conns_one (c : cstate) : Prop := forall p ps, In (p, ps) (cs_peers c) -> p_conns ps = [CONN].

Lemma cstep_peers_same c o :
  match o with CGet _ | CCancel _ | CRelease _ _ | CAdvance _ | CTakeNewBlocks => True | _ => False end ->
  cs_peers (fst (cstep c o)) = cs_peers c.
Proof.
  destruct o; cbn [cstep fst]; intros Ho; try contradiction.
  - unfold c_get. destruct c0; reflexivity.
  - rewrite c_cancel_unfold. cbv zeta. destruct (cancel_abort_frame c q) as (_ & _ & _ & _ & Ep & _).
    destruct (find_query q (cs_c2q (cancel_abort c q))) as [[x qs]|]; [destruct (swap_remove_q q qs)|]; cbn; rewrite Ep; reflexivity.
  - unfold c_release. destruct (find (call_is call) (cs_tasks c)) as [[tid t]|]; reflexivity.
  - reflexivity.
  - reflexivity.
Qed.

Lemma n_remove_one c : n_remove c [CONN] = [] \/ n_remove c [CONN] = [CONN].
Proof. unfold n_remove. cbn [filter]. destruct (c =? CONN); cbn [negb]; auto. Qed.

Lemma uh_gate_conns_one now ps ps1 : uh_gate now ps = Some ps1 -> p_conns ps = [CONN] -> p_conns ps1 = [] \/ p_conns ps1 = [CONN].
Proof.
  unfold uh_gate. intros Hg Hc. destruct (p_ss ps) as [|t c0|t c0|t c0|c0]; try discriminate.
  - injection Hg as <-. auto.
  - destruct (now - t <? RECEIVE_REQUEST_TIMEOUT); [discriminate|]. injection Hg as <-. cbn [p_conns]. rewrite Hc. apply n_remove_one.
  - injection Hg as <-. cbn [p_conns]. rewrite Hc. apply n_remove_one.
Qed.

Lemma conns_one_step c o : cop_net o -> conns_one c -> conns_one (fst (cstep c o)).
Proof.
  intros Ho H. destruct o; try (intros p0 ps0 Hin; rewrite cstep_peers_same in Hin by exact I; apply (H _ _ Hin)); cbn [cstep fst].
  - (* new connection *)
    cbn in Ho. subst c0. unfold c_new_conn. destruct (al_mem N.eqb p (cs_peers c)); intros k ps' Hin; cbn [set_peers cs_peers] in Hin.
    + apply in_al_modify in Hin. destruct Hin as (ps & Hin & ->). pose proof (H _ _ Hin) as Hc. destruct (p =? k); [|exact Hc].
      unfold add_conn. cbn [p_conns]. rewrite Hc. reflexivity.
    + apply in_peers_ins in Hin. destruct Hin as [[= -> ->]|Hin]; [reflexivity | apply (H _ _ Hin)].
  - (* connection closed *)
    cbn in Ho. subst c0. unfold c_conn_closed. destruct (al_find N.eqb p (cs_peers c)) as [ps|] eqn:E; [|exact H].
    apply (al_find_some_in _ Neqb_spec) in E. pose proof (H _ _ E) as Hc.
    assert (E1 : p_conns (remove_conn CONN ps) = []) by (cbn [remove_conn p_conns]; rewrite Hc; reflexivity). rewrite E1.
    intros k ps' Hin. cbn [set_peers cs_peers] in Hin. unfold al_remove in Hin. apply filter_In in Hin. apply (H _ _ (proj1 Hin)).
  - (* incoming *)
    unfold c_incoming. destruct (al_find N.eqb p (cs_peers c)) as [ps|]; [|exact H].
    assert (Hm : forall w k ps', In (k, ps') (al_modify N.eqb p (fun ps0 => MkPeer (p_conns ps0) (p_ss ps0) w (p_send_full ps0)) (cs_peers c)) ->
                 p_conns ps' = [CONN]).
    { intros w k ps' Hin. apply in_al_modify in Hin. destruct Hin as (ps0 & Hin & ->). pose proof (H _ _ Hin) as Hc. destruct (p =? k); exact Hc. }
    match goal with |- context [ia_panic ?a] => destruct (ia_panic a); [|destruct (ia_new a)] end; cbn [fst]; intros k ps' Hin;
      cbn [push_task cs_peers] in Hin; eapply Hm; exact Hin.
  - (* report *)
    intros k ps' Hin. cbn [c_report set_peers cs_peers] in Hin. apply in_al_modify in Hin. destruct Hin as (ps0 & Hin & ->).
    pose proof (H _ _ Hin) as Hc. destruct (p =? k); [|exact Hc]. destruct (report_accepted ps0 c0); exact Hc.
  - (* poll *)
    destruct (c_poll_summary c choice) as (l1 & w & outsC & [Hl _ _ _ Hp _ _ _]). intros k ps' Hin. rewrite Hp in Hin.
    apply in_flat_map in Hin. destruct Hin as ([k0 psl] & He & Hin).
    destruct (peers_link_in _ _ _ _ Hl He) as (ps0 & Hin0 & (_ & Hcl & _)). pose proof (H _ _ Hin0) as Hc. rewrite <- Hcl in Hc.
    unfold uh_keep in Hin. cbn [fst snd] in Hin. pose proof (uh_peer_case (cs_now c) w choice k0 psl) as Hcase.
    destruct (uh_peer (cs_now c) w choice k0 psl) as [[[ps'' evs] outs] dead].
    inversion Hcase as [Hg | ps1 Hg Hcn | ps1 wls' cn Hg Hcn Hne Hsf Hgen | ps1 es wls' cx bad cn sf Hg Hcn Hsf Hgen Hsend Hinc Hbad Hch]; subst.
    + destruct Hin as [[= <- <-]|[]]. exact Hc.
    + destruct Hin.
    + destruct Hin as [[= <- <-]|[]]. cbn [p_conns]. destruct (uh_gate_conns_one _ _ _ Hg Hc) as [E|E]; [contradiction | exact E].
    + destruct Hin as [[= <- <-]|[]]. cbn [p_conns]. destruct (uh_gate_conns_one _ _ _ Hg Hc) as [E|E]; [rewrite E in Hinc; destruct Hinc | exact E].
Qed.

Lemma INVS_init : INVS (cinit true).
Proof. split; [constructor | intros p c f es []]. Qed.

Section Lifted.
  Variables (Sz : N) (Hh : hash_fn).

  Theorem reachableF_light n fops :
    let s := fst (frun Sz Hh (net_init n) fops) in
    linv s /\ all_clients INVS s /\ all_clients conns_one s.
  Proof.
    cbn zeta. split; [apply linv_frun, linv_init|]. split.
    - apply all_clients_frun; [intros c o _; apply INVS_step | apply linv_init | apply all_clients_init, INVS_init].
    - apply all_clients_frun; [intros c o; apply conns_one_step | apply linv_init | apply all_clients_init]. intros p ps [].
  Qed.
End Lifted.
