(* NetB_props.v — package S: the registered statements about Net.v WITH LOST REPLIES (NetB.v: a block batch leaves `wire_b`
   undelivered while the connection stays up — server handler.rs, stream error after `start_send`), their non-vacuity
   examples, and `Print Assumptions`.

   Summary
   * `RI` (Net_proofs28) IS an invariant of the net with lost replies: its only clause about `wire_b` (`no_wire_b`, every
     block in flight is good) is monotone under removal; so are `net_wf` and `net_rv`: `S_RI_bstep`, `S_reachableB_RI`,
     `S_reachableB_BI`.
   * Hence `settle` / `refresh` end quiet (`S_settle_terminates_B`), and the statements of `C02_direct_unconditional` and
     `C14_records_equal_unconditional` hold with `brun` in place of `nrun`: `S_C02_direct_with_block_loss`,
     `S_C14_records_equal_with_block_loss` (state-based forms: `S_C02_direct_BI`, `S_C14_records_equal_BI`).
   * The scenario as a theorem: `S_C06_lost_reply_reserved` (answered; and when the query still waits after `settle`, a batch
     carrying c for i ENTERS `wire_b` during the refresh — the reply is sent again, by j or by another holder of c),
     `S_C06_lost_reply_reserved_by_j` (when j is i's only peer the second batch is j's: j has sent c to i AGAIN),
     `S_C06_lost_reply_reserved_partial` (quiet ends, records equal); the lemmas under it: `S_wl_leaves_run` (a CID leaves the
     requester's wantlist during a refresh only by a delivered batch that carries it), `S_wire_b_entered_prefix` (ghost);
     concretely, with the second copy observed in the ghost history: `S_loss_scenario`.
   * Without the refresh the loss is not repaired: `S_C02_block_loss_needs_refresh_refuted`. *)
From BS Require Import Server_lemmas Server_inv Wantlist_proofs Client_proofs Client_proofs2 Client_proofs3 Client_proofs4
  Net Net_proofs Net_proofs2 Net_proofs3 Net_proofs4 Net_proofs5 Net_proofs6 Net_proofs7 Net_proofs9 Net_proofs10 Net_proofs14
  Net_proofs24 Net_proofs28 Net_proofs32 Net_proofs35 Net_proofs36
  NetB NetB_proofs NetB_proofs2 NetB_proofs3 NetB_proofs4 NetB_proofs5 NetB_proofs6.
From Coq Require Import ZArith ZifyBool ZifyN ZifyNat Lia.
Open Scope N_scope.

Section Statements.
  Variables (Sz : N) (Hh : hash_fn).
  Hypothesis HSz : 32 <= Sz.

  (* a step of Net.v is a step of NetB.v, by conversion *)
  Theorem S_bstep_BOp s o : bstep Sz Hh s (BOp o) = nstep Sz Hh s o.
  Proof. reflexivity. Qed.

  Theorem S_brun_BOp ops s : brun Sz Hh s (map BOp ops) = nrun Sz Hh s ops.
  Proof. apply brun_BOp. Qed.

  (* 1. the invariants *)
  Theorem S_RI_bstep s o : bop_good Sz Hh o -> bop_wf Sz o -> RI Sz Hh s -> RI Sz Hh (fst (bstep Sz Hh s o)).
  Proof. apply RI_bstep, HSz. Qed.

  Theorem S_reachableB_RI n ops :
    Forall (nop_good Sz Hh) (base_ops ops) -> Forall (nop_wf Sz) (base_ops ops) -> RI Sz Hh (fst (brun Sz Hh (net_init n) ops)).
  Proof. apply reachableB_RI, HSz. Qed.

  Theorem S_reachableB_BI n ops :
    Forall (nop_good Sz Hh) (base_ops ops) -> Forall (nop_wf Sz) (base_ops ops) -> BI Sz Hh (fst (brun Sz Hh (net_init n) ops)).
  Proof. apply reachableB_BI, HSz. Qed.

  (* 2. settle / refresh terminate; C02_direct and C14_records_equal with lost replies *)
  Theorem S_settle_terminates_B n ops :
    Forall (nop_good Sz Hh) (base_ops ops) -> Forall (nop_wf Sz) (base_ops ops) ->
    let s := fst (brun Sz Hh (net_init n) ops) in
    let r1 := settle Sz Hh s in
    quietb (fst r1) = true /\ quietb (fst (refresh Sz Hh (fst r1))) = true.
  Proof. apply settle_terminates_B, HSz. Qed.

  Theorem S_C02_direct_BI (i j : N) (q : qid) (c : cid) s :
    BI Sz Hh s ->
    live_query i q c s -> Net.connected s i j = true ->
    (exists st d, store_of s j = Some st /\ store_get st c = SHit d) ->
    let r1 := settle Sz Hh s in
    let r2 := refresh Sz Hh (fst r1) in
    (length (wl_i i (fst r1)) <= 1024)%nat ->
    answered i q (snd r1 ++ snd r2).
  Proof. apply C02_direct_BI, HSz. Qed.

  Theorem S_C14_records_equal_BI (i j : N) s :
    BI Sz Hh s ->
    Net.connected s i j = true ->
    let r1 := settle Sz Hh s in
    let r2 := refresh Sz Hh (fst r1) in
    (length (wl_i i (fst r1)) <= 1024)%nat ->
    forall c, In c (wl_i i (fst r2)) <-> (exists st, server_of (fst r2) j = Some st /\ wantsP (s_wants st) i c).
  Proof. apply C14_records_equal_BI, HSz. Qed.

  Theorem S_C02_direct_with_block_loss (i j : N) (q : qid) (c : cid) n ops :
    Forall (nop_good Sz Hh) (base_ops ops) -> Forall (nop_wf Sz) (base_ops ops) ->
    let s := fst (brun Sz Hh (net_init n) ops) in
    live_query i q c s -> Net.connected s i j = true ->
    (exists st d, store_of s j = Some st /\ store_get st c = SHit d) ->
    let r1 := settle Sz Hh s in
    let r2 := refresh Sz Hh (fst r1) in
    (length (wl_i i (fst r1)) <= 1024)%nat ->
    answered i q (snd r1 ++ snd r2).
  Proof. apply C02_direct_with_block_loss, HSz. Qed.

  Theorem S_C14_records_equal_with_block_loss (i j : N) n ops :
    Forall (nop_good Sz Hh) (base_ops ops) -> Forall (nop_wf Sz) (base_ops ops) ->
    let s := fst (brun Sz Hh (net_init n) ops) in
    Net.connected s i j = true ->
    let r1 := settle Sz Hh s in
    let r2 := refresh Sz Hh (fst r1) in
    (length (wl_i i (fst r1)) <= 1024)%nat ->
    forall c, In c (wl_i i (fst r2)) <-> (exists st, server_of (fst r2) j = Some st /\ wantsP (s_wants st) i c).
  Proof. apply C14_records_equal_with_block_loss, HSz. Qed.

  (* 3. the lost reply heals *)
  Theorem S_C06_lost_reply_reserved_partial (i j : N) (q : qid) (c : cid) n ops m :
    Forall (nop_good Sz Hh) (base_ops ops) -> Forall (nop_wf Sz) (base_ops ops) ->
    let s0 := fst (brun Sz Hh (net_init n) ops) in
    next_batch s0 j i = Some m -> In c (map fst (bm_blocks m)) ->
    let s := fst (bstep Sz Hh s0 (BLoseB j i)) in
    live_query i q c s -> Net.connected s i j = true ->
    (exists st d, store_of s j = Some st /\ store_get st c = SHit d) ->
    let r1 := settle Sz Hh s in
    let r2 := refresh Sz Hh (fst r1) in
    (length (wl_i i (fst r1)) <= 1024)%nat ->
    (exists rest, take_first (b_between j i) (wire_b s0) = Some (m, rest) /\ wire_b s = rest /\ nodes s = nodes s0) /\
    quietb (fst r1) = true /\ quietb (fst r2) = true /\
    answered i q (snd r1 ++ snd r2) /\
    (forall c', In c' (wl_i i (fst r2)) <-> (exists st, server_of (fst r2) j = Some st /\ wantsP (s_wants st) i c')).
  Proof. apply C06_lost_reply_reserved_partial, HSz. Qed.
  (* during a refresh c leaves i's wantlist only when a batch carrying c is delivered to i *)
  Theorem S_wl_leaves_run (i j : N) (c : cid) (strict : bool) ops s :
    i <> j -> Forall sched ops -> P2 Sz Hh i j c strict s -> In c (wl_i i s) -> ~ In c (wl_i i (fst (nrun Sz Hh s ops))) ->
    exists ops1 a ops2 m rest,
      ops = ops1 ++ NDeliverB a i :: ops2 /\
      take_first (b_between a i) (wire_b (fst (nrun Sz Hh s ops1))) = Some (m, rest) /\ In c (map fst (bm_blocks m)).
  Proof. intros Hij. apply (wl_leaves_run Sz Hh HSz i j c strict Hij). Qed.

  (* every batch on the wire was there at the start or entered during the run *)
  Theorem S_wire_b_entered_prefix ops1 s ops2 m :
    In m (wire_b (fst (nrun Sz Hh s ops1))) -> In m (wire_b s) \/ In m (entered_b Sz Hh s (ops1 ++ ops2)).
  Proof. apply wire_b_entered_prefix, HSz. Qed.

  Theorem S_refresh_resends (i j : N) (c : cid) s1 :
    i <> j -> BI Sz Hh s1 -> quietb s1 = true -> Net.connected s1 i j = true ->
    (exists st d, store_of s1 j = Some st /\ store_get st c = SHit d) -> (length (wl_i i s1) <= 1024)%nat ->
    In c (wl_i i s1) ->
    exists ops2, Forall sched ops2 /\ refresh Sz Hh s1 = nrun Sz Hh (advance Sz Hh SEND_FULL_INTERVAL s1) ops2 /\
      exists a m, In m (entered_b Sz Hh (advance Sz Hh SEND_FULL_INTERVAL s1) ops2) /\ carries a i c m = true.
  Proof. apply refresh_resends, HSz. Qed.

  Theorem S_C06_lost_reply_reserved (i j : N) (q : qid) (c : cid) n ops m :
    Forall (nop_good Sz Hh) (base_ops ops) -> Forall (nop_wf Sz) (base_ops ops) ->
    let s0 := fst (brun Sz Hh (net_init n) ops) in
    next_batch s0 j i = Some m -> In c (map fst (bm_blocks m)) ->
    let s := fst (bstep Sz Hh s0 (BLoseB j i)) in
    live_query i q c s -> Net.connected s i j = true ->
    (exists st d, store_of s j = Some st /\ store_get st c = SHit d) ->
    let r1 := settle Sz Hh s in
    let r2 := refresh Sz Hh (fst r1) in
    (length (wl_i i (fst r1)) <= 1024)%nat ->
    answered i q (snd r1 ++ snd r2) /\
    (~ answered i q (snd r1) ->
     exists ops2, Forall sched ops2 /\ r2 = nrun Sz Hh (advance Sz Hh SEND_FULL_INTERVAL (fst r1)) ops2 /\
       exists a m', In m' (entered_b Sz Hh (advance Sz Hh SEND_FULL_INTERVAL (fst r1)) ops2) /\ carries a i c m' = true).
  Proof. apply C06_lost_reply_reserved, HSz. Qed.
  (* a batch enters `wire_b` only for a peer its source is connected to *)
  Theorem S_entered_run_connected ops s m :
    Forall sched ops -> In m (entered_b Sz Hh s ops) -> Net.connected s (bm_src m) (bm_dst m) = true.
  Proof. apply entered_run_connected. Qed.

  Theorem S_C06_lost_reply_reserved_by_j (i j : N) (q : qid) (c : cid) n ops m :
    Forall (nop_good Sz Hh) (base_ops ops) -> Forall (nop_wf Sz) (base_ops ops) ->
    let s0 := fst (brun Sz Hh (net_init n) ops) in
    next_batch s0 j i = Some m -> In c (map fst (bm_blocks m)) ->
    let s := fst (bstep Sz Hh s0 (BLoseB j i)) in
    live_query i q c s -> Net.connected s i j = true ->
    (exists st d, store_of s j = Some st /\ store_get st c = SHit d) ->
    let r1 := settle Sz Hh s in
    let r2 := refresh Sz Hh (fst r1) in
    (length (wl_i i (fst r1)) <= 1024)%nat ->
    (forall k, Net.connected (fst r1) i k = true -> k = j) ->
    ~ answered i q (snd r1) ->
    answered i q (snd r1 ++ snd r2) /\
    exists ops2, Forall sched ops2 /\ r2 = nrun Sz Hh (advance Sz Hh SEND_FULL_INTERVAL (fst r1)) ops2 /\
      exists m', In m' (entered_b Sz Hh (advance Sz Hh SEND_FULL_INTERVAL (fst r1)) ops2) /\ carries j i c m' = true.
  Proof. apply C06_lost_reply_reserved_by_j, HSz. Qed.
End Statements.

(* 4. without the refresh the lost reply is not repaired *)
Theorem S_C02_block_loss_needs_refresh_refuted :
  exists n ops i j q c,
    Forall (nop_good SZ toyH) (base_ops ops) /\ Forall (nop_wf SZ) (base_ops ops) /\
    let s := fst (brun SZ toyH (net_init n) ops) in
    live_query i q c s /\ Net.connected s i j = true /\
    (exists st d, store_of s j = Some st /\ store_get st c = SHit d) /\
    let r1 := settle SZ toyH s in
    quietb (fst r1) = true /\ ~ answered i q (snd r1) /\ live_query i q c (fst r1).
Proof. exact C02_block_loss_needs_refresh_refuted. Qed.

(* 5. non-vacuity *)
Example S_loss_scenario :
  (next_batch loss_s0 1 0, wire_b loss_s, Net.connected loss_s 0 1) = (Some (MkB 1 0 [(c1, d1)]), [], true) /\
  (option_map (fun n => cs_c2q (n_client n)) (get_node loss_s 0),
   option_map (fun n => store_get (n_store n) c1) (get_node loss_s 1),
   option_map (fun n => s_wants (n_server n)) (get_node loss_s 1)) = (Some [(c1, [0])], Some (SHit d1), Some [(0, [])]) /\
  (snd loss_r1, quietb (fst loss_r1), option_map (fun n => cs_c2q (n_client n)) (get_node (fst loss_r1) 0))
    = ([], true, Some [(c1, [0])]) /\
  (snd loss_r2, quietb (fst loss_r2)) = ([EResponse 0 0 d1], true) /\
  (entered_b SZ toyH (fst loss_r1) resend_ops, snd (nrun SZ toyH (fst loss_r1) resend_ops))
    = ([MkB 1 0 [(c1, d1)]], [EResponse 0 0 d1]).
Proof. exact loss_scenario. Qed.

Example S_reachableB_RI_nonvacuous :
  Forall (nop_good SZ toyH) (base_ops loss_ops) /\ Forall (nop_wf SZ) (base_ops loss_ops) /\
  In (BLoseB 1 0) loss_ops /\ wire_b loss_s0 <> [] /\ wire_b loss_s = [] /\ RI SZ toyH loss_s.
Proof.
  split; [apply loss_ops_good|]. split; [apply loss_ops_good|]. split; [apply in_app_iff; right; left; reflexivity|].
  split; [vm_compute; discriminate|]. split; [vm_compute; reflexivity|].
  assert (HSZ : 32 <= SZ) by (unfold SZ; lia). apply (reachableB_RI SZ toyH HSZ 2 loss_ops); apply loss_ops_good.
Qed.

Example S_C02_direct_with_block_loss_nonvacuous :
  let s := fst (brun SZ toyH (net_init 2) loss_ops) in
  Forall (nop_good SZ toyH) (base_ops loss_ops) /\ Forall (nop_wf SZ) (base_ops loss_ops) /\
  live_query 0 0 c1 s /\ Net.connected s 0 1 = true /\
  (exists st d, store_of s 1 = Some st /\ store_get st c1 = SHit d) /\
  (length (wl_i 0 (fst (settle SZ toyH s))) <= 1024)%nat /\
  snd (settle SZ toyH s) ++ snd (refresh SZ toyH (fst (settle SZ toyH s))) = [EResponse 0 0 d1].
Proof. exact C02_direct_with_block_loss_nonvacuous. Qed.

(* the hypotheses of S_C06_lost_reply_reserved_partial are met by the scenario: the lost batch is B's reply with c1 *)
Example S_C06_lost_reply_reserved_nonvacuous :
  let s0 := fst (brun SZ toyH (net_init 2) loss_pre) in
  let s := fst (bstep SZ toyH s0 (BLoseB 1 0)) in
  next_batch s0 1 0 = Some (MkB 1 0 [(c1, d1)]) /\ In c1 (map fst (bm_blocks (MkB 1 0 [(c1, d1)]))) /\
  live_query 0 0 c1 s /\ Net.connected s 0 1 = true /\
  (exists st d, store_of s 1 = Some st /\ store_get st c1 = SHit d) /\
  (length (wl_i 0 (fst (settle SZ toyH s))) <= 1024)%nat.
Proof.
  cbv zeta. split; [vm_compute; reflexivity|]. split; [left; reflexivity|]. split; [|split; [|split]].
  - eexists _, _. split; [vm_compute; reflexivity|]. split; [left; reflexivity | left; reflexivity].
  - vm_compute. reflexivity.
  - eexists _, _. split; vm_compute; reflexivity.
  - vm_compute. lia.
Qed.

(* ... and the two extra hypotheses of S_C06_lost_reply_reserved_by_j: B is A's only peer, the query still waits after settle *)
Example S_C06_lost_reply_reserved_by_j_nonvacuous :
  let s := fst (bstep SZ toyH (fst (brun SZ toyH (net_init 2) loss_pre)) (BLoseB 1 0)) in
  (forall k, Net.connected (fst (settle SZ toyH s)) 0 k = true -> k = 1) /\ ~ answered 0 0 (snd (settle SZ toyH s)).
Proof.
  cbv zeta. split.
  - intros k Hk. apply connected_In in Hk.
    assert (E : conns (fst (settle SZ toyH (fst (bstep SZ toyH (fst (brun SZ toyH (net_init 2) loss_pre)) (BLoseB 1 0))))) = [(0, 1)])
      by (vm_compute; reflexivity).
    rewrite E in Hk. destruct Hk as [Hk|[]]. unfold norm in Hk. destruct (0 <? k) eqn:E0; injection Hk; intros; subst; try reflexivity; lia.
  - intros (d & Hd). revert Hd.
    assert (E : snd (settle SZ toyH (fst (bstep SZ toyH (fst (brun SZ toyH (net_init 2) loss_pre)) (BLoseB 1 0)))) = [])
      by (vm_compute; reflexivity).
    rewrite E. intros [].
Qed.

Print Assumptions S_bstep_BOp.
Print Assumptions S_brun_BOp.
Print Assumptions S_RI_bstep.
Print Assumptions S_reachableB_RI.
Print Assumptions S_reachableB_BI.
Print Assumptions S_settle_terminates_B.
Print Assumptions S_C02_direct_BI.
Print Assumptions S_C14_records_equal_BI.
Print Assumptions S_C02_direct_with_block_loss.
Print Assumptions S_C14_records_equal_with_block_loss.
Print Assumptions S_C06_lost_reply_reserved_partial.
Print Assumptions S_wl_leaves_run.
Print Assumptions S_wire_b_entered_prefix.
Print Assumptions S_refresh_resends.
Print Assumptions S_C06_lost_reply_reserved.
Print Assumptions S_entered_run_connected.
Print Assumptions S_C06_lost_reply_reserved_by_j.
Print Assumptions S_C06_lost_reply_reserved_by_j_nonvacuous.
Print Assumptions S_C02_block_loss_needs_refresh_refuted.
Print Assumptions S_loss_scenario.
Print Assumptions S_reachableB_RI_nonvacuous.
Print Assumptions S_C02_direct_with_block_loss_nonvacuous.
Print Assumptions S_C06_lost_reply_reserved_nonvacuous.
