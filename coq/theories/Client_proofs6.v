(* Client_proofs6.v — C03_cancel_silences, C03_errors, C03_local_hit_no_want. *)
From BS Require Import Types Wantlist Wantlist_proofs Client Client_proofs Client_proofs2 Client_proofs3 Client_proofs4 Client_proofs5.
From Coq Require Import ZArith ZifyBool ZifyN ZifyNat Lia Permutation.
Open Scope N_scope.

Lemma cnt_zero_not_in x l : cnt x l = 0%nat <-> ~ In x l.
Proof. unfold cnt. symmetry. apply (count_occ_not_In N.eq_dec). Qed.

(* ---------- the state of a cancelled query ---------- *)
Definition silenced (q : qid) (s : cstate) : Prop :=
  cnt q (queue_qids (cs_queue s)) = 0%nat /\ cnt q (c2q_qids (cs_c2q s)) = 0%nat /\
  (forall tid t c, In (tid, t) (cs_tasks s) -> t_kind t = TGet q c -> t_aborted t = true) /\
  q < cs_next_qid s /\ NoDup (map fst (cs_c2q s)).

(* tasks of s' are tasks of s whose abort flag may have been set, or new tasks that are not lookups of q *)
Definition tasks_mono (q : qid) (ts ts' : list (N * task)) : Prop :=
  forall tid t', In (tid, t') ts' ->
    (exists t, In (tid, t) ts /\ t_kind t' = t_kind t /\ (t_aborted t = true -> t_aborted t' = true)) \/
    (forall c, t_kind t' <> TGet q c).

Lemma tasks_mono_refl q ts : tasks_mono q ts ts.
Proof. intros tid t H. left. exists t. auto. Qed.

Lemma tasks_mono_modify q ts tid f :
  (forall t, t_kind (f t) = t_kind t /\ (t_aborted t = true -> t_aborted (f t) = true)) ->
  tasks_mono q ts (al_modify N.eqb tid f ts).
Proof.
  intros Hf k t' Hin. apply in_al_modify in Hin. destruct Hin as (t & Hin & ->). left. exists t. split; [assumption|].
  destruct (tid =? k); [apply Hf | auto].
Qed.

(* a step that does not poll: by the accounting relation nothing about q can appear *)
Lemma silenced_nonpoll q s o :
  (forall ch, o <> CPoll ch) -> silenced q s ->
  tasks_mono q (cs_tasks s) (cs_tasks (fst (cstep s o))) ->
  (cnt q (task_qids (cs_tasks s)) <= cnt q (task_qids (cs_tasks (fst (cstep s o)))))%nat ->
  silenced q (fst (cstep s o)) /\ ~ In q (out_qids (snd (cstep s o))).
Proof.
  intros Hnp (Hq & Hc & Ht & Hlt & Hnd) Hmono Hcnt.
  destruct (RA_step s o Hnd) as (Hnd' & Hle & Hacc). specialize (Hacc q).
  unfold live, issued_between in Hacc.
  replace (cs_next_qid s <=? q) with false in Hacc by (symmetry; apply N.leb_gt; lia). cbn [andb] in Hacc.
  split; [|apply cnt_zero_not_in; lia]. split; [lia|]. split; [lia|]. split; [|split; [lia | exact Hnd']].
  intros tid t' c Hin Hk. destruct (Hmono _ _ Hin) as [(t & Hin0 & Ek & Ha) | Hno]; [|exfalso; eapply Hno; exact Hk].
  apply Ha. apply (Ht tid t c Hin0). congruence.
Qed.

Lemma task_qids_snoc ts tid t : task_qids (ts ++ [(tid, t)]) = task_qids ts ++ task_qid (tid, t).
Proof. rewrite task_qids_app. cbn. rewrite app_nil_r. reflexivity. Qed.

Lemma silenced_step_nonpoll q s o :
  (forall ch, o <> CPoll ch) -> silenced q s ->
  silenced q (fst (cstep s o)) /\ ~ In q (out_qids (snd (cstep s o))).
Proof.
  intros Hnp HZ. apply silenced_nonpoll; auto; destruct o; cbn [cstep fst].
  - unfold c_new_conn. destruct (al_mem N.eqb p (cs_peers s)); apply tasks_mono_refl.
  - unfold c_conn_closed. destruct (al_find N.eqb p (cs_peers s)); [destruct (p_conns (remove_conn c p0))|]; apply tasks_mono_refl.
  - unfold c_get. destruct c as [c|]; cbn [fst]; [|apply tasks_mono_refl].
    cbn [set_abort push_task bump_qid cs_tasks]. intros tid t' Hin. apply in_app_iff in Hin.
    destruct Hin as [Hin | [[= <- <-] | []]]; [left; exists t'; auto|].
    right. intros c0 Hk. cbn in Hk. injection Hk as E _. destruct HZ as (_ & _ & _ & Hlt & _). rewrite E in Hlt. lia'.
  - rewrite c_cancel_unfold. cbv zeta.
    assert (Hm : tasks_mono q (cs_tasks s) (cs_tasks (cancel_abort s q0))).
    { unfold cancel_abort. destruct (al_find N.eqb q0 (cs_abort s)) as [tid|]; [|apply tasks_mono_refl].
      unfold abort_task. cbn [set_abort cs_tasks]. destruct (al_mem N.eqb tid (cs_tasks s)); [|apply tasks_mono_refl].
      cbn [set_tasks cs_tasks]. apply tasks_mono_modify. intros t. split; auto. }
    destruct (find_query q0 (cs_c2q (cancel_abort s q0))) as [[c1 qs]|]; [destruct (swap_remove_q q0 qs)|]; exact Hm.
  - unfold c_incoming. destruct (al_find N.eqb p (cs_peers s)); [|apply tasks_mono_refl].
    match goal with |- context [ia_panic ?a] => destruct (ia_panic a); [|destruct (ia_new a)] end; cbn [fst]; try apply tasks_mono_refl.
    unfold push_task. cbn [cs_tasks]. intros tid t' Hin. apply in_app_iff in Hin.
    destruct Hin as [Hin | [[= <- <-] | []]]; [left; exists t'; auto | right; intros c0; discriminate].
  - apply tasks_mono_refl.
  - unfold c_release. destruct (find (call_is call) (cs_tasks s)) as [[tid t]|]; [|apply tasks_mono_refl].
    cbn [set_tasks cs_tasks]. apply tasks_mono_modify. intros t0. split; auto.
  - apply tasks_mono_refl.
  - exfalso. eapply Hnp. reflexivity.
  - apply tasks_mono_refl.
  - unfold c_new_conn. destruct (al_mem N.eqb p (cs_peers s)); apply le_n.
  - unfold c_conn_closed. destruct (al_find N.eqb p (cs_peers s)); [destruct (p_conns (remove_conn c p0))|]; apply le_n.
  - unfold c_get. destruct c as [c|]; cbn [fst]; [|apply le_n].
    cbn [set_abort push_task bump_qid cs_tasks]. rewrite task_qids_app, cnt_app. lia.
  - rewrite c_cancel_unfold. cbv zeta. destruct (cancel_abort_frame s q0) as (_ & _ & _ & _ & _ & E6).
    destruct (find_query q0 (cs_c2q (cancel_abort s q0))) as [[c1 qs]|]; [destruct (swap_remove_q q0 qs)|];
      cbn [set_wl set_c2q cs_tasks]; rewrite E6; lia.
  - unfold c_incoming. destruct (al_find N.eqb p (cs_peers s)); [|apply le_n].
    match goal with |- context [ia_panic ?a] => destruct (ia_panic a); [|destruct (ia_new a)] end; cbn [fst]; try apply le_n.
    rewrite push_task_put_qids. apply le_n.
  - apply le_n.
  - unfold c_release. destruct (find (call_is call) (cs_tasks s)) as [[tid t]|]; [|apply le_n].
    cbn [set_tasks cs_tasks]. rewrite task_qids_modify by reflexivity. apply le_n.
  - apply le_n.
  - exfalso. eapply Hnp. reflexivity.
  - apply le_n.
Qed.

Lemma silenced_after_tasks q s : silenced q s -> silenced q (after_tasks s).
Proof.
  intros (Hq & Hc & Ht & Hlt & Hnd). destruct (after_tasks_frame s) as (F1 & _ & _ & F4 & _ & F6 & _).
  destruct (after_tasks_tasks s) as [Hfrom _]. unfold silenced. rewrite F1, F4, F6. repeat split; auto.
  intros tid t c Hin Hk. destruct (Hfrom _ _ Hin) as (t0 & Hin0 & (K & _ & A)). rewrite A. apply (Ht tid t0 c Hin0). congruence.
Qed.

Lemma silenced_poll_iter q ch s :
  silenced q s -> silenced q (fst (fst (poll_iter ch s))) /\ ~ In q (out_qids (snd (fst (poll_iter ch s)))).
Proof.
  intros HZ. pose proof HZ as (Hq & Hc & Ht & Hlt & Hnd).
  destruct (poll_iter_cases ch s) as [(ev & q0 & Hq0 & ->) | [(Hq0 & Htm & ->) | [(r & Hq0 & Htm & Hr & ->) | (Hq0 & Htm & Hr & ->)]]];
    cbn [fst snd].
  - rewrite Hq0 in Hq. unfold queue_qids in Hq. cbn [flat_map] in Hq. fold (queue_qids q0) in Hq. rewrite cnt_app in Hq.
    split.
    + unfold silenced. cbn [set_queue cs_queue cs_c2q cs_tasks cs_next_qid]. repeat split; auto. lia.
    + unfold out_qids. cbn [flat_map]. rewrite app_nil_r, out_of_event_qid. apply cnt_zero_not_in. lia.
  - split; [|intros []]. unfold silenced. cbn [fire_timer cs_queue cs_c2q cs_tasks cs_next_qid]. repeat split; auto.
  - pose proof (silenced_after_tasks q s HZ) as (Hq1 & Hc1 & Ht1 & Hlt1 & Hnd1).
    destruct (after_tasks_tasks s) as [_ Hres]. rewrite Hr in Hres. destruct Hres as (tid & t & t0 & Hin0 & (K & R & A) & Hro).
    destruct (after_tasks_qids q s) as [_ Hto].
    assert (Hmain : silenced q (fst (handle_task_result (after_tasks s) r)) /\ ~ In q (out_qids (snd (handle_task_result (after_tasks s) r)))).
    { destruct r as [q' c r0|ok bl|]; cbn [handle_task_result].
      - destruct Hro as (Hk & _ & Ha).
        assert (Hne : q' <> q).
        { intros ->. assert (t_aborted t0 = true) by (apply (Ht tid t0 c Hin0); congruence). congruence. }
        destruct r0 as [d| |]; cbn [fst snd].
        + split; [unfold silenced; cbn [set_abort cs_queue cs_c2q cs_tasks cs_next_qid]; repeat split; auto|].
          cbn. intros [H | []]. congruence.
        + destruct (wl_insert (cs_wl (set_abort (after_tasks s) (al_remove N.eqb q' (cs_abort (after_tasks s))))) c) as [w' ins].
          assert (Hcnt : cnt q (c2q_qids (c2q_push c q' (cs_c2q (after_tasks s)))) = 0%nat).
          { rewrite cnt_c2q_push by exact Hnd1. apply N.eqb_neq in Hne. rewrite Hne. lia. }
          split; [|destruct ins; intros []].
          destruct ins; cbn [fst]; unfold silenced; cbn [set_c2q set_peers set_wl set_abort cs_queue cs_c2q cs_tasks cs_next_qid];
            (repeat split; auto; apply c2q_push_keys; exact Hnd1).
        + split; [unfold silenced; cbn [set_abort cs_queue cs_c2q cs_tasks cs_next_qid]; repeat split; auto|].
          cbn. intros [H | []]. congruence.
      - destruct ok; cbn [fst snd]; (split; [|intros []]); unfold silenced; cbn [set_new_blocks cs_queue cs_c2q cs_tasks cs_next_qid]; repeat split; auto.
      - cbn [fst snd]. split; [|intros []]. unfold silenced. repeat split; auto. }
    destruct Hmain as [H1 H2]. split; [exact H1|]. rewrite out_qids_app, Hto. exact H2.
  - pose proof (silenced_after_tasks q s HZ) as (Hq1 & Hc1 & Ht1 & Hlt1 & Hnd1).
    destruct (after_tasks_qids q s) as [_ Hto].
    destruct (update_handlers_frame (after_tasks s) ch) as (E1 & E2 & E3 & _).
    pose proof (uh_loop_events (cs_now (after_tasks s)) (cs_wl (after_tasks s)) ch (cs_peers (after_tasks s))) as Hev.
    split.
    + unfold silenced. rewrite E1, E2, E3. repeat split; auto.
      unfold update_handlers. destruct (uh_loop (cs_now (after_tasks s)) (cs_wl (after_tasks s)) ch (cs_peers (after_tasks s))) as [[peers' evs] outs].
      cbn [fst set_queue set_peers cs_queue]. rewrite queue_qids_app, cnt_app. destruct Hev as [-> _]. rewrite cnt_nil. lia.
    + rewrite out_qids_app, Hto. cbn [app]. unfold update_handlers.
      destruct (uh_loop (cs_now (after_tasks s)) (cs_wl (after_tasks s)) ch (cs_peers (after_tasks s))) as [[peers' evs] outs].
      cbn [fst snd]. destruct Hev as [_ ->]. intros [].
Qed.

Lemma silenced_poll q s ch :
  silenced q s -> silenced q (fst (c_poll s ch)) /\ ~ In q (out_qids (snd (c_poll s ch))).
Proof.
  unfold c_poll. apply (poll_loop_rel (fun s o s' => silenced q s -> silenced q s' /\ ~ In q (out_qids o))).
  - intros s0 o1 s1 o2 s2 A B HZ. destruct (A HZ) as [HZ1 N1]. destruct (B HZ1) as [HZ2 N2]. split; [exact HZ2|].
    rewrite out_qids_app, in_app_iff. tauto.
  - intros s0 HZ. split; [exact HZ | intros []].
  - intros ch0 s0. apply silenced_poll_iter.
Qed.

Lemma silenced_step q s o : silenced q s -> silenced q (fst (cstep s o)) /\ ~ In q (out_qids (snd (cstep s o))).
Proof.
  intros HZ. destruct o; try (apply silenced_step_nonpoll; [intros ch; discriminate | exact HZ]).
  cbn [cstep]. apply silenced_poll, HZ.
Qed.

Lemma silenced_run q ops : forall s,
  silenced q s -> ~ In q (out_qids (all_outs (fst (crun_from s ops)))).
Proof.
  induction ops as [|o ops IH]; intros s HZ; [intros []|].
  rewrite crun_from_cons. cbn [fst all_outs concat]. destruct (silenced_step q s o HZ) as [HZ1 N1].
  rewrite out_qids_app, in_app_iff. intros [H | H]; [exact (N1 H) | exact (IH _ HZ1 H)].
Qed.

(* ---------- cancelling establishes it ---------- *)
Lemma find_query_none q m : find_query q m = None -> cnt q (c2q_qids m) = 0%nat.
Proof.
  induction m as [|[c l] m IH]; cbn [find_query]; [reflexivity|].
  destruct (n_mem q l) eqn:E; [discriminate|]. intros H. unfold c2q_qids. cbn [flat_map snd]. rewrite cnt_app.
  fold (c2q_qids m). rewrite (IH H). apply n_mem_false, cnt_zero_not_in in E. lia.
Qed.

Lemma cnt_c2q_modify_swap q c qs m :
  NoDup (map fst m) -> In (c, qs) m -> In q qs ->
  (cnt q (c2q_qids (al_modify cid_eqb c (swap_remove_q q) m)) + 1 = cnt q (c2q_qids m))%nat.
Proof.
  induction m as [|[k l] m IH]; cbn [map fst]; [intros _ []|].
  intros Hnd Hin Hq. inversion Hnd as [|? ? Hn Hnd']; subst. unfold al_modify, c2q_qids. cbn [map flat_map fst snd].
  fold (al_modify cid_eqb c (swap_remove_q q) m). fold (c2q_qids (al_modify cid_eqb c (swap_remove_q q) m)). fold (c2q_qids m).
  rewrite !cnt_app. destruct Hin as [[= -> ->] | Hin].
  - rewrite cid_eqb_refl. cbn [snd]. rewrite (al_modify_absent _ cid_eqb_spec) by assumption.
    pose proof (cnt_swap_remove_in q q qs Hq) as H. rewrite N.eqb_refl in H. lia.
  - assert (Hne : cid_eqb c k = false).
    { apply cid_eqb_neq. intros ->. apply Hn. apply (in_map fst) in Hin. exact Hin. }
    rewrite Hne. cbn [snd]. specialize (IH Hnd' Hin Hq). lia.
Qed.

Lemma cancel_silences_state sdh ops q :
  let s := st_after sdh ops in
  q < count_gets ops -> ~ In q (out_qids (outs_after sdh ops)) -> ~ In q (queue_qids (cs_queue s)) ->
  silenced q (c_cancel s q).
Proof.
  intros s Hlt Hno Hnq.
  pose proof (INVH_run sdh ops) as ((HndT & _) & HndA & Hh & _). pose proof (INVB_run sdh ops) as (_ & Hm & _).
  fold (st_after sdh ops) in Hm. fold s in HndT, HndA, Hh, Hm.
  pose proof (run_accounting sdh ops q) as Hacc. fold (st_after sdh ops) in Hacc. fold s in Hacc. unfold live in Hacc.
  assert (Hltb : N.ltb q (count_gets ops) = true) by (apply N.ltb_lt; exact Hlt). rewrite Hltb in Hacc.
  rewrite c_cancel_unfold. cbv zeta. destruct (cancel_abort_frame s q) as (E1 & E2 & E3 & _).
  (* all lookups of q are aborted now *)
  assert (Htasks : forall tid t c, In (tid, t) (cs_tasks (cancel_abort s q)) -> t_kind t = TGet q c -> t_aborted t = true).
  { intros tid t' c Hin Hk. unfold cancel_abort in Hin.
    destruct (al_find N.eqb q (cs_abort s)) as [tid0|] eqn:Ef.
    - apply (al_find_some_in _ Neqb_spec) in Ef. unfold abort_task in Hin. cbn [set_abort cs_tasks] in Hin.
      destruct (al_mem N.eqb tid0 (cs_tasks s)) eqn:M.
      + cbn [set_tasks cs_tasks] in Hin. apply in_al_modify in Hin. destruct Hin as (t & Hin & ->).
        destruct (tid0 =? tid) eqn:E; [reflexivity|]. apply N.eqb_neq in E.
        destruct (t_aborted t) eqn:Ea; [reflexivity|]. exfalso.
        assert (Hq : In (q, tid) (cs_abort s)) by (apply Hh; eauto). apply E. eapply NoDup_keys_in_eq; eassumption.
      + destruct (t_aborted t') eqn:Ea; [reflexivity|]. exfalso.
        assert (Hq : In (q, tid) (cs_abort s)) by (apply Hh; eauto).
        assert (tid = tid0) by (eapply NoDup_keys_in_eq; eassumption). subst tid0.
        apply Hh in Ef. destruct Ef as (c0 & t0 & Hin0 & _). apply (in_map fst) in Hin0. apply (al_mem_In _ Neqb_spec) in Hin0.
        cbn [fst] in Hin0. congruence.
    - destruct (t_aborted t') eqn:Ea; [reflexivity|]. exfalso.
      assert (Hq : In (q, tid) (cs_abort s)) by (apply Hh; eauto).
      apply (al_find_none _ Neqb_spec) in Ef. apply Ef. apply (in_map fst) in Hq. exact Hq. }
  assert (Hqz : cnt q (queue_qids (cs_queue s)) = 0%nat) by (apply cnt_zero_not_in; exact Hnq).
  assert (Hnq' : cs_next_qid s = count_gets ops) by apply st_after_next_qid.
  destruct (find_query q (cs_c2q (cancel_abort s q))) as [[c qs]|] eqn:Efq.
  - rewrite E1 in Efq. pose proof (find_query_some _ _ _ _ Efq) as [Hin Hq].
    destruct (swap_remove_q q qs) as [|y l] eqn:Es.
    + unfold silenced. cbn [set_wl set_c2q cs_queue cs_c2q cs_tasks cs_next_qid]. rewrite E1, E2, E3.
      split; [exact Hqz|]. split; [|split; [exact Htasks|]; split; [lia'|]; apply al_remove_NoDup; exact Hm].
      pose proof (cnt_c2q_remove_find q c (cs_c2q s) qs ((al_in_find _ cid_eqb_spec) _ _ _ Hm Hin)) as H.
      assert (cnt q qs >= 1)%nat by (apply (count_occ_In N.eq_dec); exact Hq). lia'.
    + unfold silenced. cbn [set_c2q cs_queue cs_c2q cs_tasks cs_next_qid]. rewrite E1, E2, E3.
      split; [exact Hqz|]. split; [|split; [exact Htasks|]; split; [lia'|]; rewrite al_modify_keys; exact Hm].
      pose proof (cnt_c2q_modify_swap q c qs (cs_c2q s) Hm Hin Hq). lia'.
  - rewrite E1 in Efq. unfold silenced. rewrite E1, E2, E3.
    split; [exact Hqz|]. split; [apply find_query_none; exact Efq|]. split; [exact Htasks|]. split; [lia' | exact Hm].
Qed.

(* after `cancel(q)` of a query whose outcome is not yet determined (no event emitted or queued for it)
   no GetQueryResponse / GetQueryError for q is ever produced *)
Theorem C03_cancel_silences sdh ops1 q ops2 :
  q < count_gets ops1 ->
  ~ In q (out_qids (outs_after sdh ops1)) ->
  ~ In q (queue_qids (cs_queue (st_after sdh ops1))) ->
  ~ In q (out_qids (outs_after sdh (ops1 ++ [CCancel q] ++ ops2))).
Proof.
  intros Hlt Hno Hnq. unfold outs_after, crun_sdh. rewrite crun_from_app. cbn [fst]. unfold all_outs. rewrite concat_app.
  fold (all_outs (fst (crun_from (cinit sdh) ops1))). rewrite out_qids_app, in_app_iff. intros [H | H]; [exact (Hno H)|].
  change ([CCancel q] ++ ops2) with (CCancel q :: ops2) in H. rewrite crun_from_cons in H. cbn [fst cstep snd concat app] in H.
  fold (st_after sdh ops1) in H.
  apply (silenced_run q ops2 (c_cancel (st_after sdh ops1) q)); [|exact H].
  apply cancel_silences_state; assumption.
Qed.

Example C03_cancel_example :
  let ops1 := [CNewConn 7 1; CGet (Some ex_c1); CGet (Some ex_c1); CPoll [(7, 1)]; CRelease 0 SMiss; CRelease 1 SMiss; CPoll []] in
  let ops2 := [CIncoming 7 [] [(ex_c1, [5])]; CPoll []] in
  0 < count_gets ops1 /\ ~ In 0 (out_qids (outs_after true ops1)) /\ ~ In 0 (queue_qids (cs_queue (st_after true ops1))) /\
  out_qids (outs_after true (ops1 ++ [CCancel 0] ++ ops2)) = [1].
Proof. vm_compute. repeat split; try reflexivity; intros []. Qed.

(* ---------- a completed lookup is reported by the next CPoll ---------- *)
Definition done_lookup (q : qid) (c : cid) (r : store_result) (t : task) : Prop :=
  t_kind t = TGet q c /\ t_aborted t = false /\ t_call t <> None /\ t_result t = Some r.

Lemma done_lookup_poll q c r t nc : done_lookup q c r t -> poll_task nc t = TpReady (TrGet q c r).
Proof.
  intros (Hk & Ha & Hc & Hr). unfold poll_task. rewrite Hk, Ha. destruct (t_call t); [|congruence]. rewrite Hr. reflexivity.
Qed.

Lemma poll_next_done q c r rq ts nc :
  let '(ts', rq', nc', outs, res) := poll_next rq ts nc in
  forall tid t, In tid rq -> al_find N.eqb tid ts = Some t -> done_lookup q c r t ->
    res = Some (TrGet q c r) \/
    (exists r', res = Some r' /\ In tid rq' /\ exists t', al_find N.eqb tid ts' = Some t' /\ done_lookup q c r t').
Proof.
  apply (poll_next_ind (fun rq ts nc ts' rq' nc' outs res =>
    forall tid t, In tid rq -> al_find N.eqb tid ts = Some t -> done_lookup q c r t ->
      res = Some (TrGet q c r) \/
      (exists r', res = Some r' /\ In tid rq' /\ exists t', al_find N.eqb tid ts' = Some t' /\ done_lookup q c r t'))).
  - intros ts0 nc0 tid t [].
  - intros tid0 rq0 ts0 nc0 ts' rq' nc' outs res Hskip IH tid t Hin Hf Hd.
    destruct Hin as [<- | Hin]; [|eapply IH; eassumption]. exfalso.
    destruct Hskip as [Hn | (t1 & Hf1 & Hp)]; [congruence|]. rewrite Hf in Hf1. injection Hf1 as <-.
    rewrite (done_lookup_poll _ _ _ _ nc0 Hd) in Hp. discriminate.
  - intros tid0 rq0 ts0 nc0 t0 r0 Hf0 Hp tid t Hin Hf Hd. destruct Hin as [<- | Hin].
    + rewrite Hf in Hf0. injection Hf0 as <-. rewrite (done_lookup_poll _ _ _ _ nc0 Hd) in Hp. injection Hp as <-. left; reflexivity.
    + destruct (N.eq_dec tid tid0) as [->|Hne].
      * rewrite Hf in Hf0. injection Hf0 as <-. rewrite (done_lookup_poll _ _ _ _ nc0 Hd) in Hp. injection Hp as <-. left; reflexivity.
      * right. exists r0. split; [reflexivity|]. split; [exact Hin|]. exists t. split; [|exact Hd].
        rewrite (al_find_remove _ Neqb_spec). destruct (tid0 =? tid) eqn:E; [apply N.eqb_eq in E; congruence | exact Hf].
  - intros tid0 rq0 ts0 nc0 t0 o ts' rq' nc' outs res Hf0 Hp IH tid t Hin Hf Hd.
    assert (Hne : tid <> tid0).
    { intros ->. rewrite Hf in Hf0. injection Hf0 as <-. rewrite (done_lookup_poll _ _ _ _ nc0 Hd) in Hp. discriminate. }
    destruct Hin as [E | Hin]; [congruence|].
    apply (IH tid t Hin); [|exact Hd].
    rewrite (al_find_modify _ Neqb_spec). destruct (tid0 =? tid) eqn:E; [apply N.eqb_eq in E; congruence | exact Hf].
Qed.

Lemma tasks_run_done q c r s outs s' : tasks_run s outs s' ->
  forall tid t, In tid (cs_ready s) -> al_find N.eqb tid (cs_tasks s) = Some t -> done_lookup q c r t ->
  exists s1, incl (snd (handle_task_result s1 (TrGet q c r))) outs.
Proof.
  induction 1 as [s Hr | s r0 outs s' Hr Hrun IH]; intros tid t Hin Hf Hd.
  - exfalso. pose proof (poll_next_done q c r (cs_ready s) (cs_tasks s) (cs_next_call s)) as H.
    unfold tasks_res in Hr. destruct (poll_next (cs_ready s) (cs_tasks s) (cs_next_call s)) as [[[[ts rq] nc] o] res].
    destruct (H tid t Hin Hf Hd) as [E | (r' & E & _)]; congruence.
  - pose proof (poll_next_done q c r (cs_ready s) (cs_tasks s) (cs_next_call s)) as H.
    assert (Hat : cs_tasks (after_tasks s) = let '(ts, _, _, _, _) := poll_next (cs_ready s) (cs_tasks s) (cs_next_call s) in ts)
      by (unfold after_tasks; destruct (poll_next (cs_ready s) (cs_tasks s) (cs_next_call s)) as [[[[ts rq] nc] o] res]; reflexivity).
    assert (Har : cs_ready (after_tasks s) = let '(_, rq, _, _, _) := poll_next (cs_ready s) (cs_tasks s) (cs_next_call s) in rq)
      by (unfold after_tasks; destruct (poll_next (cs_ready s) (cs_tasks s) (cs_next_call s)) as [[[[ts rq] nc] o] res]; reflexivity).
    unfold tasks_res in Hr. destruct (poll_next (cs_ready s) (cs_tasks s) (cs_next_call s)) as [[[[ts rq] nc] o] res].
    destruct (H tid t Hin Hf Hd) as [E | (r' & E & Hin' & t' & Hf' & Hd')].
    + assert (r0 = TrGet q c r) by congruence. subst r0. exists (after_tasks s).
      intros x Hx. apply in_app_iff. right. apply in_app_iff. left. exact Hx.
    + destruct (handle_result_frame (after_tasks s) r0) as (E1 & _ & E3 & _).
      destruct (IH tid t') as (s1 & Hincl); [rewrite E3, Har; exact Hin' | rewrite E1, Hat; exact Hf' | exact Hd'|].
      exists s1. intros x Hx. apply in_app_iff. right. apply in_app_iff. right. apply Hincl, Hx.
Qed.

Lemma done_lookup_reported sdh ops ch q c r tid t :
  let s := st_after sdh ops in
  In tid (cs_ready s) -> al_find N.eqb tid (cs_tasks s) = Some t -> done_lookup q c r t ->
  exists s1, incl (snd (handle_task_result s1 (TrGet q c r))) (snd (c_poll s ch)).
Proof.
  intros s Hin Hf Hd. destruct (c_poll_phases s ch) as (outsC & sC & Hrun & Hpoll).
  assert (Hs : cs_ready (after_timer s) = cs_ready s /\ cs_tasks (after_timer s) = cs_tasks s).
  { unfold after_timer. destruct (timer_ready (set_queue s [])); split; reflexivity. }
  destruct Hs as [Er Et].
  destruct (tasks_run_done q c r _ _ _ Hrun tid t) as (s1 & Hincl); [rewrite Er; exact Hin | rewrite Et; exact Hf | exact Hd|].
  exists s1. destruct (uh_loop (cs_now sC) (cs_wl sC) ch (cs_peers sC)) as [[peersD evs] outsD]. rewrite Hpoll. cbn [snd].
  intros x Hx. apply in_app_iff. right. apply in_app_iff. left. apply Hincl, Hx.
Qed.

Lemma NoDup_flat_map_unique {A} (f : A -> list N) l a b x :
  NoDup (flat_map f l) -> In a l -> In b l -> In x (f a) -> In x (f b) -> a = b.
Proof.
  induction l as [|e l IH]; cbn [flat_map]; [intros _ []|].
  intros Hnd Ha Hb Hxa Hxb. apply NoDup_app_iff in Hnd. destruct Hnd as (N1 & N2 & N3).
  destruct Ha as [<- | Ha], Hb as [<- | Hb]; auto.
  - exfalso. apply (N3 x Hxa). apply in_flat_map. eauto.
  - exfalso. apply (N3 x Hxb). apply in_flat_map. eauto.
Qed.

(* at most one event per query, as a statement about outputs *)
Lemma event_unique sdh ops o1 o2 q :
  In o1 (outs_after sdh ops) -> In o2 (outs_after sdh ops) -> In q (out_qid o1) -> In q (out_qid o2) -> o1 = o2.
Proof. intros. eapply (NoDup_flat_map_unique out_qid); try eassumption. apply (C03_at_most_one_event sdh ops). Qed.

(* C03_local_hit_no_want: a lookup completed with Some(data) and not cancelled is answered by the next
   CPoll with exactly GetQueryResponse(data); it is the only event of the query, and the query is never
   listed in cid_to_queries afterwards *)
Theorem C03_local_hit_no_want sdh ops ch q c d tid t ops' :
  let s := st_after sdh ops in
  In tid (cs_ready s) -> al_find N.eqb tid (cs_tasks s) = Some t -> done_lookup q c (SHit d) t ->
  In (OResponse q d) (snd (c_poll s ch)) /\
  (forall o, In o (outs_after sdh (ops ++ [CPoll ch] ++ ops')) -> In q (out_qid o) -> o = OResponse q d) /\
  ~ In q (c2q_qids (cs_c2q (st_after sdh (ops ++ [CPoll ch] ++ ops')))).
Proof.
  intros s Hin Hf Hd. destruct (done_lookup_reported sdh ops ch q c (SHit d) tid t Hin Hf Hd) as (s1 & Hincl).
  assert (Hresp : In (OResponse q d) (snd (c_poll s ch))) by (apply Hincl; left; reflexivity).
  split; [exact Hresp|].
  assert (Hall : In (OResponse q d) (outs_after sdh (ops ++ [CPoll ch] ++ ops'))).
  { unfold outs_after, crun_sdh. rewrite crun_from_app. cbn [fst]. unfold all_outs. rewrite concat_app. apply in_app_iff. right.
    change ([CPoll ch] ++ ops') with (CPoll ch :: ops'). rewrite crun_from_cons. cbn [fst concat]. apply in_app_iff. left. exact Hresp. }
  split.
  - intros o Ho Hq. eapply event_unique; [exact Ho | exact Hall | exact Hq | left; reflexivity].
  - intros Hc2q. pose proof (run_accounting sdh (ops ++ [CPoll ch] ++ ops') q) as Hacc. unfold live in Hacc.
    apply (count_occ_In N.eq_dec) in Hc2q.
    assert (Ho : In q (out_qids (outs_after sdh (ops ++ [CPoll ch] ++ ops')))) by (apply out_qids_In; left; eauto).
    apply (count_occ_In N.eq_dec) in Ho. unfold cnt, outs_after, st_after in *.
    destruct (N.ltb q (count_gets (ops ++ [CPoll ch] ++ ops'))); lia.
Qed.

(* C03_errors, blockstore part: a lookup completed with an error and not cancelled yields exactly
   GetQueryError(Blockstore) *)
Theorem C03_errors_store sdh ops ch q c tid t ops' :
  let s := st_after sdh ops in
  In tid (cs_ready s) -> al_find N.eqb tid (cs_tasks s) = Some t -> done_lookup q c SFail t ->
  In (OError q 1) (snd (c_poll s ch)) /\
  (forall o, In o (outs_after sdh (ops ++ [CPoll ch] ++ ops')) -> In q (out_qid o) -> o = OError q 1).
Proof.
  intros s Hin Hf Hd. destruct (done_lookup_reported sdh ops ch q c SFail tid t Hin Hf Hd) as (s1 & Hincl).
  assert (Hresp : In (OError q 1) (snd (c_poll s ch))) by (apply Hincl; left; reflexivity).
  split; [exact Hresp|].
  assert (Hall : In (OError q 1) (outs_after sdh (ops ++ [CPoll ch] ++ ops'))).
  { unfold outs_after, crun_sdh. rewrite crun_from_app. cbn [fst]. unfold all_outs. rewrite concat_app. apply in_app_iff. right.
    change ([CPoll ch] ++ ops') with (CPoll ch :: ops'). rewrite crun_from_cons. cbn [fst concat]. apply in_app_iff. left. exact Hresp. }
  intros o Ho Hq. eapply event_unique; [exact Ho | exact Hall | exact Hq | left; reflexivity].
Qed.

(* ---------- C03_errors, conversion part ---------- *)
Lemma inc_block_queue_mono a b e : In e (ia_queue a) -> In e (ia_queue (inc_block a b)).
Proof.
  intros H. unfold inc_block. destruct (ia_panic a); [exact H|]. destruct b as [c data].
  destruct (wl_remove (ia_wl a) c) as [w' removed]. destruct removed; cbn [negb].
  - cbn [ia_queue]. apply in_app_iff. left. exact H.
  - destruct (al_mem cid_eqb c (ia_c2q a)); exact H.
Qed.

Lemma inc_blocks_queue_mono bl : forall a e, In e (ia_queue a) -> In e (ia_queue (fold_left inc_block bl a)).
Proof. induction bl as [|b bl IH]; intros a e H; cbn [fold_left]; [exact H | apply IH, inc_block_queue_mono, H]. Qed.

Lemma queue_persist s o ev :
  In ev (cs_queue s) -> In ev (cs_queue (fst (cstep s o))) \/ In (out_of_event ev) (snd (cstep s o)).
Proof.
  intros Hin. destruct o; cbn [cstep fst snd].
  - left. unfold c_new_conn. destruct (al_mem N.eqb p (cs_peers s)); exact Hin.
  - left. unfold c_conn_closed. destruct (al_find N.eqb p (cs_peers s)); [destruct (p_conns (remove_conn c p0))|]; exact Hin.
  - left. unfold c_get. destruct c; cbn [fst]; [exact Hin|]. cbn. apply in_app_iff. left. exact Hin.
  - left. rewrite c_cancel_unfold. cbv zeta. destruct (cancel_abort_frame s q) as (_ & E2 & _).
    destruct (find_query q (cs_c2q (cancel_abort s q))) as [[c1 qs]|]; [destruct (swap_remove_q q qs)|];
      cbn [set_wl set_c2q cs_queue]; rewrite E2; exact Hin.
  - left. unfold c_incoming. destruct (al_find N.eqb p (cs_peers s)) as [ps|]; [|exact Hin].
    set (a0 := MkInc (cs_wl s) (fold_left apply_presence pres (p_wl ps)) (cs_c2q s) (cs_queue s) [] false).
    pose proof (inc_blocks_queue_mono blocks a0 ev Hin) as H.
    destruct (ia_panic (fold_left inc_block blocks a0)); [|destruct (ia_new (fold_left inc_block blocks a0))]; exact H.
  - left. exact Hin.
  - left. unfold c_release. destruct (find (call_is call) (cs_tasks s)) as [[tid t]|]; exact Hin.
  - left. exact Hin.
  - right. destruct (c_poll_summary s choice) as (l1 & w & outsC & [_ _ _ _ _ _ _ Ho]). rewrite Ho.
    apply in_app_iff. left. apply in_map. exact Hin.
  - left. exact Hin.
Qed.

(* get() of a CID that cannot be converted: the next CPoll (if any) reports InvalidMultihashSize, and that
   is the only event of the query *)
Theorem C03_errors_invalid sdh ops1 ops2 ch :
  let q := count_gets ops1 in
  let ops := ops1 ++ [CGet None] ++ ops2 ++ [CPoll ch] in
  In (OError q 0) (outs_after sdh ops) /\
  forall o, In o (outs_after sdh ops) -> In q (out_qid o) -> o = OError q 0.
Proof.
  intros q ops.
  assert (H : forall ops2, In (EvError q 0) (cs_queue (st_after sdh (ops1 ++ [CGet None] ++ ops2))) \/
                           In (OError q 0) (outs_after sdh (ops1 ++ [CGet None] ++ ops2))).
  { clear ops2 ops. intros ops2. induction ops2 as [|o ops2 IH] using rev_ind.
    - left. rewrite app_nil_r, st_after_snoc. cbn [cstep fst]. unfold c_get. cbn [fst set_queue bump_qid cs_queue].
      apply in_app_iff. right. left. unfold q. rewrite st_after_next_qid. reflexivity.
    - replace (ops1 ++ [CGet None] ++ ops2 ++ [o]) with ((ops1 ++ [CGet None] ++ ops2) ++ [o]) by (rewrite <- !app_assoc; reflexivity).
      rewrite st_after_snoc, outs_after_snoc. destruct IH as [IH | IH]; [|right; apply in_app_iff; left; exact IH].
      destruct (queue_persist _ o _ IH) as [H | H]; [left; exact H | right; apply in_app_iff; right; exact H]. }
  assert (Hin : In (OError q 0) (outs_after sdh ops)).
  { unfold ops. replace (ops1 ++ [CGet None] ++ ops2 ++ [CPoll ch]) with ((ops1 ++ [CGet None] ++ ops2) ++ [CPoll ch]) by (rewrite <- !app_assoc; reflexivity).
    rewrite outs_after_snoc. destruct (H ops2) as [Hq | Ho]; [|apply in_app_iff; left; exact Ho].
    apply in_app_iff. right. destruct (queue_persist _ (CPoll ch) _ Hq) as [H' | H']; [|exact H'].
    exfalso. cbn [cstep fst] in H'. rewrite (proj2 (cpoll_fuel_enough _ _)) in H'. destruct H'. }
  split; [exact Hin|]. intros o Ho Hq. eapply event_unique; [exact Ho | exact Hin | exact Hq | left; reflexivity].
Qed.

Example C03_errors_example :
  let ops := [CGet None; CGet (Some ex_c1); CPoll []; CRelease 0 SFail; CGet (Some ex_c2); CPoll []; CRelease 1 (SHit [3]); CPoll []] in
  outs_after true ops = [OQuery 0; OQuery 1; OError 0 0; OGet 0 ex_c1; OQuery 2; OError 1 1; OGet 1 ex_c2; OResponse 2 [3]] /\
  cs_c2q (st_after true ops) = [] /\ wl_cids (cs_wl (st_after true ops)) = [].
Proof. vm_compute. repeat split; reflexivity. Qed.

Example C03_ids_example :
  let ops := [CGet (Some ex_c1); CCancel 5; CGet None; CNewConn 1 1; CGet (Some ex_c2)] in
  fst (crun ops) = [[OQuery 0]; []; [OQuery 1]; []; [OQuery 2]] /\ count_gets ops = 3.
Proof. vm_compute. split; reflexivity. Qed.

(* the hypotheses of C03_local_hit_no_want / C03_errors_store hold right after the environment completes
   the store call of a lookup that was not cancelled *)
Lemma release_makes_done sdh ops call r tid t0 q c :
  let s := st_after sdh ops in
  find (call_is call) (cs_tasks s) = Some (tid, t0) -> t_kind t0 = TGet q c -> t_aborted t0 = false ->
  let s' := st_after sdh (ops ++ [CRelease call r]) in
  In tid (cs_ready s') /\
  exists t, al_find N.eqb tid (cs_tasks s') = Some t /\ done_lookup q c r t.
Proof.
  intros s Hf Hk Ha s'. subst s'. rewrite st_after_snoc. fold s. cbn [cstep fst]. unfold c_release. rewrite Hf.
  cbn [set_tasks cs_ready cs_tasks]. split.
  - destruct (n_mem tid (cs_ready s)) eqn:M; [apply n_mem_In; exact M | apply in_app_iff; right; left; reflexivity].
  - apply find_some in Hf. destruct Hf as [Hin Hc]. unfold call_is in Hc. cbn [snd] in Hc.
    destruct (t_call t0) as [n|] eqn:Ec; [|discriminate].
    pose proof (INVT_run sdh ops) as [Hnd _]. fold s in Hnd.
    rewrite (al_find_modify _ Neqb_spec), N.eqb_refl, (al_in_find _ Neqb_spec _ _ _ Hnd Hin). cbn [option_map].
    eexists. split; [reflexivity|]. repeat split; cbn; auto. congruence.
Qed.
