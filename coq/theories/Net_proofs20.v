(* Net_proofs20.v — package G: C01 at the network level.  For every reachable net: every block in a node's store, and every
   block of a write to the store that is under way, hashes to its CID; every GetQueryResponse event of node i for query
   q carries data that hashes to the CID of the q-th `get` of node i (`gets_of i ops`). *)
From BS Require Import Server_lemmas Server_inv Wantlist_proofs Client_proofs Client_proofs2 Client_proofs3 Client_proofs4
  Net Net_proofs2 Net_proofs3 Net_proofs4 Net_proofs5 Net_proofs6 Net_proofs7 Net_proofs9 Net_proofs10 Net_proofs11 Net_proofs19.
From Coq Require Import ZArith ZifyBool ZifyN ZifyNat Lia.
Open Scope N_scope.

Local Notation cid_eqb_spec := Wantlist_proofs.cid_eqb_spec.

(* the CIDs node i asked for, in the order of its query numbers *)
Fixpoint gets_of (i : N) (ops : list nop) : list cid :=
  match ops with
  | [] => []
  | NGet k c :: r => if k =? i then c :: gets_of i r else gets_of i r
  | _ :: r => gets_of i r
  end.

Lemma gets_of_app i a b : gets_of i (a ++ b) = gets_of i a ++ gets_of i b.
Proof. induction a as [|o a IH]; [reflexivity|]. destruct o; cbn [app gets_of]; try exact IH. destruct (i0 =? i); [cbn; f_equal|]; exact IH. Qed.

Lemma cl_events_resp l q d : In (LResponse q d) (cl_events l) -> In (OResponse q d) l.
Proof.
  induction l as [|o l IH]; [intros []|]. destruct o; cbn [cl_events]; try (intros H; right; apply IH, H);
    intros [H|H]; try discriminate; try (right; apply IH, H). injection H as <- <-. left. reflexivity.
Qed.

Section NetQ.
  Variables (Sz : N) (Hh : hash_fn).
  Hypothesis HSz : 32 <= Sz.
  Local Notation G := (good Sz Hh).

  Definition NQ (Q : list cid) (n : node) : Prop := PQ G Q (n_calls n) (n_client n).
  Definition ev_good (Q : list cid) (evs : list lev) : Prop :=
    forall q d, In (LResponse q d) evs -> exists c, asked Q q c /\ G (c, d).

  Lemma NQ_client Q n c' s' st' : PQ G Q (n_calls n) c' -> NQ Q (MkNode c' s' st' (n_calls n)).
  Proof. intros H. exact H. Qed.

  (* client steps that touch neither tasks nor queries *)
  Lemma plain_fields c o :
    match o with CNewConn _ _ | CConnClosed _ _ | CReport _ _ _ | CAdvance _ => True | _ => False end ->
    let c' := fst (cstep c o) in
    cs_tasks c' = cs_tasks c /\ cs_next_task c' = cs_next_task c /\ cs_next_qid c' = cs_next_qid c /\
    cs_next_call c' = cs_next_call c /\ cs_c2q c' = cs_c2q c /\ cs_queue c' = cs_queue c.
  Proof.
    destruct o; cbn [cstep fst]; intros Ho; try contradiction.
    - unfold c_new_conn. destruct (al_mem N.eqb p (cs_peers c)); repeat split; reflexivity.
    - unfold c_conn_closed. destruct (al_find N.eqb p (cs_peers c)); [destruct (p_conns (remove_conn c0 p0))|]; repeat split; reflexivity.
    - repeat split; reflexivity.
    - repeat split; reflexivity.
  Qed.

  Lemma NQ_plain Q n o s' st' :
    match o with CNewConn _ _ | CConnClosed _ _ | CReport _ _ _ | CAdvance _ => True | _ => False end ->
    NQ Q n -> NQ Q (MkNode (fst (cstep (n_client n) o)) s' st' (n_calls n)).
  Proof.
    intros Ho HP. destruct (plain_fields (n_client n) o Ho) as (E1 & E2 & E3 & E4 & E5 & E6). unfold NQ. cbn [n_client n_calls].
    eapply PQ_same; eassumption.
  Qed.

  (* ---------- NPoll ---------- *)
  Lemma NQ_poll Q n : NQ Q n -> NQ Q (fst (node_poll Sz n)) /\ ev_good Q (o_events (snd (node_poll Sz n))).
  Proof.
    intros HP. unfold node_poll. destruct (cstep (n_client n) (CPoll [])) as [c1 o1] eqn:E1.
    pose proof (RQ_poll G Q (n_client n) [] (n_calls n) HP) as HR. cbn [cstep] in E1. rewrite E1 in HR. cbn [fst snd] in HR. destruct HR as [HP1 HR1].
    destruct (cstep c1 CTakeNewBlocks) as [c2 o2] eqn:E2. cbn [cstep c_take_new_blocks] in E2. injection E2 as <- <-.
    destruct (srv Sz match cl_new_blocks [ONewBlocks (cs_new_blocks c1)] with [] => n_server n
                      | _ :: _ => fst (srv Sz (n_server n) (SNewBlocks (cl_new_blocks [ONewBlocks (cs_new_blocks c1)]))) end SPoll) as [s2 o3].
    cbn [fst snd]. split.
    - unfold NQ. cbn [n_client n_calls]. apply (PQ_calls G Q (n_calls n ++ cl_calls o1)).
      + intros x Hx. rewrite app_assoc in Hx. apply in_app_iff in Hx. destruct Hx as [Hx|Hx]; [left; exact Hx | right]. apply sv_calls_shape in Hx. exact Hx.
      + eapply PQ_same; [..|exact HP1]; reflexivity.
    - intros q d Hin. cbn [o_events] in Hin. apply in_app_iff in Hin. destruct Hin as [Hin|Hin]; [apply HR1, cl_events_resp, Hin|].
      destruct (s_panic s2); [destruct Hin as [[=]|[]] | destruct Hin].
  Qed.

  Lemma hand_over_NQ Q s i L : forall acc, NQ Q (fst acc) -> NQ Q (fst (fold_left (hand_over s i) L acc)).
  Proof.
    induction L as [|x L IH]; intros acc H; cbn [fold_left]; [exact H|]. apply IH. destruct x as [[[p c] f] es]. unfold hand_over.
    destruct (Net.connected s i p); cbn [fst]; [|exact H]. unfold node_report. apply NQ_plain; [exact I | exact H].
  Qed.

  (* ---------- NStore ---------- *)
  Lemma NQ_store Q n k : Forall G (n_store n) -> NQ Q n -> NQ Q (node_store Sz n k).
  Proof.
    intros Hst HP. unfold node_store. destruct (nth_error (n_calls n) (N.to_nat k)) as [call|] eqn:Ec; [|exact HP].
    pose proof (nth_error_In _ _ Ec) as Hcall.
    assert (Hsub : forall x, In x (remove_nth (N.to_nat k) (n_calls n)) -> In x (n_calls n) \/ exists k0 c0, x = KSGet k0 c0)
      by (intros x Hx; left; eapply remove_nth_In, Hx).
    pose proof HP as (_ & _ & _ & HL & _).
    destruct call as [m c|m bl|m c]; unfold NQ; cbn [n_client n_calls cstep fst].
    - apply (PQ_calls G Q (n_calls n)); [exact Hsub|]. apply PQ_release; [|exact HP].
      intros tid t q c' d Hin Hc Hk Hr. destruct (HL tid t m Hin Hc) as [A _]. destruct (A c Hcall) as (q' & Hk'). rewrite Hk in Hk'. injection Hk' as _ ->.
      eapply store_get_good; eassumption.
    - apply (PQ_calls G Q (n_calls n)); [exact Hsub|]. apply PQ_release; [|exact HP].
      intros tid t q c' d Hin Hc Hk Hr. destruct (HL tid t m Hin Hc) as [_ B]. destruct (B bl Hcall) as (bl' & Hk'). congruence.
    - apply (PQ_calls G Q (n_calls n)); [exact Hsub | exact HP].
  Qed.

  (* ---------- incoming messages ---------- *)
  Lemma NQ_incoming_w Q n p sdh full es : NQ Q n -> NQ Q (fst (node_incoming Sz Hh n p (wantlist_message sdh full es))).
  Proof.
    intros HP. unfold node_incoming. rewrite process_wantlist_message. cbn [in_client in_server fst]. exact HP.
  Qed.

  Lemma NQ_incoming_b Q n p bl :
    Forall G bl -> NQ Q n ->
    NQ Q (fst (node_incoming Sz Hh n p (blocks_message bl))) /\ ev_good Q (snd (node_incoming Sz Hh n p (blocks_message bl))).
  Proof.
    intros Hg HP. unfold node_incoming. rewrite (process_blocks_message Sz Hh _ Hg). cbn [in_client in_server].
    destruct bl as [|b bl']; cbn [fst snd].
    - split; [exact HP|]. intros q d Hin. destruct (s_panic (n_server n)); [destruct Hin as [[=]|[]] | destruct Hin].
    - cbn [cm_presences cm_blocks map cstep].
      pose proof (PQ_incoming G Q (n_calls n) (n_client n) p [] (ins_all (b :: bl') []) (ins_all_good Sz Hh _ Hg) HP) as H.
      assert (Hout : forall q d, ~ In (OResponse q d) (snd (c_incoming (n_client n) p [] (ins_all (b :: bl') [])))).
      { intros q d. unfold c_incoming. destruct (al_find N.eqb p (cs_peers (n_client n))); [|intros []].
        match goal with |- context [ia_panic ?a] => destruct (ia_panic a); [|destruct (ia_new a)] end; cbn [snd]; intros Hin; [destruct Hin as [[=]|[]] | destruct Hin | destruct Hin]. }
      destruct (c_incoming (n_client n) p [] (ins_all (b :: bl') [])) as [c1 o1]. cbn [fst snd] in *. split; [exact H|].
      intros q d Hin. apply in_app_iff in Hin. destruct Hin as [Hin|Hin]; [exfalso; eapply Hout, cl_events_resp, Hin|].
      destruct (s_panic (n_server n)); [destruct Hin as [[=]|[]] | destruct Hin].
  Qed.

  (* ---------- the net ---------- *)
  Definition netq (ops : list nop) (s : net) : Prop := forall k n, get_node s k = Some n -> NQ (gets_of k ops) n.

  Lemma netq_nodes ops s s' : nodes s' = nodes s -> netq ops s -> netq ops s'.
  Proof. intros E H k n Hk. apply H. unfold get_node in *. rewrite <- E. exact Hk. Qed.

  Lemma netq_set_node ops s i n n' : netq ops s -> get_node s i = Some n -> NQ (gets_of i ops) n' -> netq ops (set_node s i n').
  Proof.
    intros H Hg Hn k nk Hk. destruct (N.eq_dec i k) as [<-|Hne].
    - rewrite (get_set_eq _ _ _ _ Hg) in Hk. injection Hk as <-. exact Hn.
    - rewrite get_set_neq in Hk by assumption. apply H, Hk.
  Qed.

  Lemma netq_on_node ops s i f :
    netq ops s -> (forall n, get_node s i = Some n -> NQ (gets_of i ops) n -> NQ (gets_of i ops) (f n)) -> netq ops (on_node s i f).
  Proof.
    intros H Hf. unfold on_node. destruct (get_node s i) as [n|] eqn:E; [|exact H].
    eapply netq_set_node; [exact H | exact E | apply Hf; [reflexivity | apply H, E]].
  Qed.

  Definition evs_good (ops : list nop) (evs : list nevent) : Prop :=
    forall i q d, In (EResponse i q d) evs -> exists c, asked (gets_of i ops) q c /\ G (c, d).

  Lemma evs_of_good ops i levs : ev_good (gets_of i ops) levs -> evs_good ops (map (ev_of i) levs).
  Proof.
    intros H k q d Hin. apply in_map_iff in Hin. destruct Hin as (e & E & He). destruct e; cbn in E; try discriminate. injection E as <- <- <-. apply H, He.
  Qed.

  Lemma netq_step_plain ops s o :
    net_ok Sz Hh s -> (forall i c, o <> NGet i c) -> netq ops s ->
    netq ops (fst (nstep Sz Hh s o)) /\ evs_good ops (snd (nstep Sz Hh s o)).
  Proof.
    intros Hok Hng Hq. assert (Hnil : evs_good ops []) by (intros i q d []).
    destruct o; cbn [nstep fst snd].
    - split; [|exact Hnil]. unfold do_connect. destruct (get_node s i) as [ni|] eqn:Ei; [|exact Hq]. destruct (get_node s j) as [nj|] eqn:Ej; [|exact Hq].
      destruct ((i =? j) || Net.connected s i j) eqn:E; [exact Hq|]. apply orb_false_iff in E. destruct E as [E _]. apply N.eqb_neq in E.
      eapply netq_nodes; [reflexivity|]. eapply netq_set_node.
      + eapply netq_set_node; [exact Hq | exact Ei|]. unfold node_connected. apply NQ_plain; [exact I | apply Hq, Ei].
      + rewrite get_set_neq by exact E. exact Ej.
      + unfold node_connected. apply NQ_plain; [exact I | apply Hq, Ej].
    - split; [|exact Hnil]. unfold do_disconnect. destruct (get_node s i) as [ni|] eqn:Ei; [|exact Hq]. destruct (get_node s j) as [nj|] eqn:Ej; [|exact Hq].
      destruct (Net.connected s i j) eqn:E; [|exact Hq]. destruct (connected_neq Sz Hh HSz s i j Hok E) as (Hij & _).
      eapply netq_nodes; [reflexivity|]. eapply netq_set_node.
      + eapply netq_set_node; [exact Hq | exact Ei|]. unfold node_disconnected. apply NQ_plain; [exact I | apply Hq, Ei].
      + rewrite get_set_neq by exact Hij. exact Ej.
      + unfold node_disconnected. apply NQ_plain; [exact I | apply Hq, Ej].
    - exfalso. eapply Hng. reflexivity.
    - split; [|exact Hnil]. apply netq_on_node; [exact Hq|]. intros n _ HP. unfold node_cancel, NQ. cbn [n_client n_calls cstep fst]. apply PQ_cancel, HP.
    - split; [|exact Hnil]. apply netq_on_node; [exact Hq|]. intros n _ HP. exact HP.
    - split; [|exact Hnil]. apply netq_on_node; [exact Hq|]. intros n _ HP. exact HP.
    - split; [|exact Hnil]. intros k n' Hk. unfold get_node in Hk. cbn [nodes] in Hk. rewrite nth_error_map in Hk.
      destruct (nth_error (nodes s) (N.to_nat k)) as [n|] eqn:E; [|discriminate]. injection Hk as <-.
      unfold node_advance. apply NQ_plain; [exact I | apply Hq, E].
    - unfold do_poll. destruct (get_node s i) as [n|] eqn:Ei; [|split; [exact Hq | exact Hnil]].
      destruct (NQ_poll _ n (Hq _ _ Ei)) as [HP1 HE1]. destruct (node_poll Sz n) as [n1 o]. cbn [fst snd] in *.
      pose proof (hand_over_NQ (gets_of i ops) s i (o_wants o) (n1, []) HP1) as HP2.
      destruct (fold_left (hand_over s i) (o_wants o) (n1, [])) as [n2 ws]. cbn [fst snd] in *. split.
      + eapply netq_nodes with (s := set_node s i n2); [reflexivity|]. eapply netq_set_node; eassumption.
      + apply evs_of_good, HE1.
    - split; [|exact Hnil]. apply netq_on_node; [exact Hq|]. intros n Hg HP. apply NQ_store; [|exact HP].
      apply (nk_store _ _ _ _ _ (no_nodes _ _ _ Hok _ _ Hg)).
    - unfold do_deliver_w. destruct (take_first (w_between i j) (wire_w s)) as [[m rest]|]; [|split; [exact Hq | exact Hnil]].
      set (s0 := MkNet (nodes s) (conns s) rest (wire_b s) (now s)).
      assert (Hq0 : netq ops s0) by (eapply netq_nodes; [reflexivity | exact Hq]).
      destruct (get_node s0 i) as [ni|] eqn:Ei; [|split; [exact Hq0 | exact Hnil]]. destruct (get_node s0 j) as [nj|] eqn:Ej; [|split; [exact Hq0 | exact Hnil]].
      pose proof (NQ_incoming_w _ nj i (wl_sdh (cs_wl (n_client ni))) (wm_full m) (wm_entries m) (Hq0 _ _ Ej)) as HPj.
      assert (Hev : snd (node_incoming Sz Hh nj i (wantlist_message (wl_sdh (cs_wl (n_client ni))) (wm_full m) (wm_entries m))) = [] \/
                    snd (node_incoming Sz Hh nj i (wantlist_message (wl_sdh (cs_wl (n_client ni))) (wm_full m) (wm_entries m))) = [LFault]).
      { unfold node_incoming. rewrite process_wantlist_message. cbn [in_client in_server snd app].
        match goal with |- context [if ?b then [LFault] else []] => destruct b end; auto. }
      destruct (node_incoming Sz Hh nj i (wantlist_message (wl_sdh (cs_wl (n_client ni))) (wm_full m) (wm_entries m))) as [nj1 evs]. cbn [fst snd] in *. split.
      + apply netq_on_node; [eapply netq_set_node; eassumption|]. intros n _ HP. unfold node_report. apply NQ_plain; [exact I | exact HP].
      + intros k q d Hin. apply in_map_iff in Hin. destruct Hin as (e & E & He). destruct Hev as [-> | ->]; [destruct He|]. destruct He as [<-|[]]. discriminate.
    - unfold do_deliver_b. destruct (take_first (b_between j i) (wire_b s)) as [[m rest]|] eqn:Et; [|split; [exact Hq | exact Hnil]].
      destruct (take_first_spec _ _ _ _ Et) as (Hm & _). pose proof (no_wire_b _ _ _ Hok m Hm) as Hg.
      destruct (get_node s i) as [ni|] eqn:Ei; [|split; [eapply netq_nodes; [reflexivity | exact Hq] | exact Hnil]].
      destruct (NQ_incoming_b _ ni j (bm_blocks m) Hg (Hq _ _ Ei)) as [HP1 HE1].
      destruct (node_incoming Sz Hh ni j (blocks_message (bm_blocks m))) as [ni1 evs]. cbn [fst snd] in *. split.
      + eapply netq_nodes with (s := set_node s i ni1); [reflexivity|]. eapply netq_set_node; eassumption.
      + apply evs_of_good, HE1.
  Qed.

  Lemma gets_of_snoc_other k ops o : (forall i c, o <> NGet i c) -> gets_of k (ops ++ [o]) = gets_of k ops.
  Proof. intros H. rewrite gets_of_app. destruct o; cbn [gets_of]; try apply app_nil_r. exfalso. eapply H. reflexivity. Qed.

  Lemma netq_step ops s o :
    net_ok Sz Hh s -> nop_wf Sz o -> netq ops s ->
    netq (ops ++ [o]) (fst (nstep Sz Hh s o)) /\ evs_good ops (snd (nstep Sz Hh s o)).
  Proof.
    intros Hok Hwf Hq. destruct o as [i j|i j|i c|i q|i c d|i c|ms|i|i k|i j|j i];
      try (match goal with |- context [nstep Sz Hh s ?op] =>
             assert (Hng : forall i0 c0, op <> NGet i0 c0) by (intros; discriminate);
             destruct (netq_step_plain ops s op Hok Hng Hq) as [H1 H2]; split; [|exact H2];
             intros k0 n0 Hk0; rewrite (gets_of_snoc_other k0 ops op Hng); apply H1, Hk0 end).
    cbn [nstep fst snd]. split; [|intros k q d []].
    intros k n' Hk. unfold on_node in Hk. destruct (get_node s i) as [n|] eqn:Ei.
    - destruct (N.eq_dec i k) as [<-|Hne].
      + rewrite (get_set_eq _ _ _ _ Ei) in Hk. injection Hk as <-. rewrite gets_of_app. cbn [gets_of]. rewrite N.eqb_refl.
        unfold node_get, NQ. cbn [n_client n_calls cstep]. apply PQ_get; [|apply Hq, Ei].
        cbn [nop_wf] in Hwf. destruct (convert_cid Sz c) as [c'|] eqn:Ecv; [|left; reflexivity]. right.
        destruct (Convert_proofs.convert_cid_iff Sz Sz c Hwf) as (_ & H2 & _). rewrite (H2 _ Ecv). reflexivity.
      + rewrite get_set_neq in Hk by assumption. rewrite gets_of_app. cbn [gets_of].
        replace (i =? k) with false by (symmetry; apply N.eqb_neq; exact Hne). rewrite app_nil_r. apply Hq, Hk.
    - rewrite gets_of_app. cbn [gets_of]. destruct (i =? k) eqn:E; [|rewrite app_nil_r; apply Hq, Hk].
      apply N.eqb_eq in E. subst k. congruence.
  Qed.

  Lemma evs_good_app_ops ops ops' evs : evs_good ops evs -> evs_good (ops ++ ops') evs.
  Proof. intros H i q d Hin. destruct (H _ _ _ Hin) as (c & A & B). exists c. split; [rewrite gets_of_app; apply asked_app, A | exact B]. Qed.

  Lemma netq_run ops : forall ops0 s0,
    net_ok Sz Hh s0 -> Forall (nop_good Sz Hh) ops -> Forall (nop_wf Sz) ops -> netq ops0 s0 ->
    netq (ops0 ++ ops) (fst (nrun Sz Hh s0 ops)) /\ evs_good (ops0 ++ ops) (snd (nrun Sz Hh s0 ops)).
  Proof.
    induction ops as [|o ops IH]; intros ops0 s0 Hok Hg Hw Hq.
    - rewrite app_nil_r. cbn. split; [exact Hq | intros i q d []].
    - rewrite (nrun_cons Sz Hh). cbn [fst snd]. inversion Hg; subst. inversion Hw; subst.
      destruct (netq_step ops0 s0 o Hok ltac:(assumption) Hq) as [Hq1 He1].
      assert (Hok1 : net_ok Sz Hh (fst (nstep Sz Hh s0 o))) by (apply net_ok_step; assumption).
      destruct (IH (ops0 ++ [o]) _ Hok1 ltac:(assumption) ltac:(assumption) Hq1) as [Hq2 He2].
      rewrite <- app_assoc in Hq2, He2. cbn [app] in Hq2, He2. split; [exact Hq2|].
      intros i q d Hin. apply in_app_iff in Hin. destruct Hin as [Hin|Hin]; [|apply He2, Hin].
      apply (evs_good_app_ops ops0 (o :: ops) _ He1), Hin.
  Qed.

  Lemma netq_init n : netq [] (net_init n).
  Proof.
    intros i nd Hg. unfold get_node in Hg. cbn [nodes net_init] in Hg. apply nth_error_In, repeat_spec in Hg. subst nd.
    unfold NQ. cbn [node_init n_calls n_client gets_of]. apply PQ_init. reflexivity.
  Qed.

  Lemma good_valid c d : G (c, d) -> wf_cid Sz c /\ valid_block Sz Hh c d = true.
  Proof.
    intros [Hwf Hok]. cbn [fst snd] in *. split; [exact Hwf|]. unfold valid_block. rewrite Hok. apply Wantlist_proofs.cid_eqb_refl.
  Qed.

  Theorem C01_net_store_integrity n ops :
    Forall (nop_good Sz Hh) ops -> Forall (nop_wf Sz) ops ->
    let r := nrun Sz Hh (net_init n) ops in
    (forall i nd c d, get_node (fst r) i = Some nd -> In (c, d) (n_store nd) -> wf_cid Sz c /\ valid_block Sz Hh c d = true) /\
    (forall i nd m bl c d, get_node (fst r) i = Some nd -> In (KCPut m bl) (n_calls nd) -> In (c, d) bl ->
                           wf_cid Sz c /\ valid_block Sz Hh c d = true) /\
    (forall i q d, In (EResponse i q d) (snd r) ->
       exists c, nth_error (gets_of i ops) (N.to_nat q) = Some c /\ wf_cid Sz c /\ valid_block Sz Hh c d = true).
  Proof.
    intros Hg Hw r. pose proof (reachable_ok Sz Hh HSz n ops Hg) as Hok. fold r in Hok. split; [|split].
    - intros i nd c d Hn Hin. pose proof (nk_store _ _ _ _ _ (no_nodes _ _ _ Hok _ _ Hn)) as Hst. rewrite Forall_forall in Hst. apply good_valid, (Hst _ Hin).
    - intros i nd m bl c d Hn Hc Hin. pose proof (nk_calls _ _ _ _ _ (no_nodes _ _ _ Hok _ _ Hn)) as Hcs. rewrite Forall_forall in Hcs.
      specialize (Hcs _ Hc). cbn in Hcs. rewrite Forall_forall in Hcs. apply good_valid, (Hcs _ Hin).
    - intros i q d Hin. destruct (netq_run ops [] (net_init n) (net_ok_init Sz Hh HSz n) Hg Hw (netq_init n)) as [_ He]. cbn [app] in He.
      destruct (He _ _ _ Hin) as (c & A & B). exists c. split; [exact A | apply good_valid, B].
  Qed.
End NetQ.
