(* Client_proofs2.v — C01 (client part). *)
From BS Require Import Types Wantlist Wantlist_proofs Client Client_proofs.
From Coq Require Import ZArith ZifyBool ZifyN ZifyNat Lia Permutation.
Open Scope N_scope.

(* ---------- C01_unwanted_ignored ---------- *)
Lemma inc_block_unwanted a c data :
  wlq_ok (ia_wl a) (ia_c2q a) -> cid_mem c (wl_cids (ia_wl a)) = false -> inc_block a (c, data) = a.
Proof.
  intros (Hw & Hm & Hk & Hne) M. unfold inc_block. destruct (ia_panic a); [reflexivity|].
  unfold wl_remove. rewrite M. cbn [negb].
  destruct (al_mem cid_eqb c (ia_c2q a)) eqn:M2; [|reflexivity].
  apply (al_mem_In _ cid_eqb_spec), Hk, cid_mem_In in M2. congruence.
Qed.

Lemma inc_block_wl_shrinks a b c :
  cid_mem c (wl_cids (ia_wl a)) = false -> cid_mem c (wl_cids (ia_wl (inc_block a b))) = false.
Proof.
  intros M. unfold inc_block. destruct (ia_panic a); [exact M|]. destruct b as [c0 d].
  unfold wl_remove. destruct (cid_mem c0 (wl_cids (ia_wl a))); cbn [negb].
  - cbn [ia_wl wl_cids]. apply cid_mem_false. intros H. apply cid_remove_In in H. apply cid_mem_false in M. tauto.
  - destruct (al_mem cid_eqb c0 (ia_c2q a)); exact M.
Qed.

Lemma inc_blocks_wl_shrinks bl : forall a c,
  cid_mem c (wl_cids (ia_wl a)) = false -> cid_mem c (wl_cids (ia_wl (fold_left inc_block bl a))) = false.
Proof. induction bl as [|b bl IH]; intros a c M; cbn [fold_left]; [exact M | apply IH, inc_block_wl_shrinks, M]. Qed.

(* a block for a CID that is not in the wantlist changes nothing: the whole step (state AND outputs) is
   the step of the message without that block, so it can appear in no output now or later *)
Theorem C01_unwanted_ignored sdh ops p pres b1 c data b2 :
  let s := st_after sdh ops in
  cid_mem c (wl_cids (cs_wl s)) = false ->
  cstep s (CIncoming p pres (b1 ++ (c, data) :: b2)) = cstep s (CIncoming p pres (b1 ++ b2)).
Proof.
  intros s M. cbn [cstep]. unfold c_incoming. destruct (al_find N.eqb p (cs_peers s)) as [ps|]; [|reflexivity].
  set (a0 := MkInc (cs_wl s) (fold_left apply_presence pres (p_wl ps)) (cs_c2q s) (cs_queue s) [] false).
  rewrite !fold_left_app. cbn [fold_left].
  rewrite (inc_block_unwanted (fold_left inc_block b1 a0) c data); [reflexivity | |].
  - apply inc_blocks_wlq. apply (INVB_run sdh ops).
  - apply inc_blocks_wl_shrinks. exact M.
Qed.

Example C01_unwanted_example :
  let ops := [CNewConn 7 1; CGet (Some ex_c1); CPoll [(7, 1)]; CRelease 0 SMiss; CPoll []] in
  cid_mem ex_c2 (wl_cids (cs_wl (st_after true ops))) = false /\
  wl_cids (cs_wl (st_after true ops)) = [ex_c1] /\
  snd (cstep (st_after true ops) (CIncoming 7 [] [(ex_c2, [9]); (ex_c1, [7])])) = [] /\
  cs_queue (fst (cstep (st_after true ops) (CIncoming 7 [] [(ex_c2, [9]); (ex_c1, [7])]))) = [EvResponse 0 [7]].
Proof. vm_compute. repeat split; reflexivity. Qed.

(* ---------- C01_response_is_wanted_block ---------- *)
Definition net_ok (h : list cop) (q : qid) (d : bytes) : Prop :=
  exists p pres blocks c, In (CIncoming p pres blocks) h /\ In (c, d) blocks /\ qcid h q = Some c.
Definition store_hit (h : list cop) (d : bytes) : Prop := exists call, In (CRelease call (SHit d)) h.

Record K (h : list cop) (s : cstate) : Prop := MkK {
  k_task : forall tid t q c, In (tid, t) (cs_tasks s) -> t_kind t = TGet q c -> qcid h q = Some c;
  k_c2q : forall c qs q, In (c, qs) (cs_c2q s) -> In q qs -> qcid h q = Some c;
  k_queue : forall q d, In (EvResponse q d) (cs_queue s) -> net_ok h q d;
  k_hit : forall tid t d, In (tid, t) (cs_tasks s) -> t_result t = Some (SHit d) -> store_hit h d
}.

Definition resp_ok (h : list cop) (outs : list cout) : Prop :=
  forall q d, In (OResponse q d) outs -> net_ok h q d \/ store_hit h d.

Lemma net_ok_mono h o q d : net_ok h q d -> net_ok (h ++ [o]) q d.
Proof.
  intros (p & pres & bl & c & H1 & H2 & H3). exists p, pres, bl, c. repeat split; auto.
  - apply in_app_iff; auto.
  - apply qcid_mono; assumption.
Qed.

Lemma store_hit_mono h o d : store_hit h d -> store_hit (h ++ [o]) d.
Proof. intros (call & H). exists call. apply in_app_iff; auto. Qed.

Lemma K_mono h o s : K h s -> K (h ++ [o]) s.
Proof.
  intros [H1 H2 H3 H4]. constructor.
  - intros. apply qcid_mono. eapply H1; eassumption.
  - intros. apply qcid_mono. eapply H2; eassumption.
  - intros. apply net_ok_mono. eapply H3; eassumption.
  - intros. apply store_hit_mono. eapply H4; eassumption.
Qed.

Lemma In_swap_remove x q l : In x (swap_remove_q q l) -> In x l.
Proof.
  intros H. apply (count_occ_In N.eq_dec) in H. apply (count_occ_In N.eq_dec).
  pose proof (cnt_swap_remove x q l). unfold cnt in *. lia.
Qed.

Lemma K_same h s s' :
  cs_tasks s' = cs_tasks s -> cs_c2q s' = cs_c2q s -> cs_queue s' = cs_queue s -> K h s -> K h s'.
Proof. intros E1 E2 E3 [H1 H2 H3 H4]. constructor; rewrite ?E1, ?E2, ?E3; assumption. Qed.

(* kinds and results of the tasks of ts' come from tasks of ts *)
Definition kr_from (ts ts' : list (N * task)) : Prop :=
  forall tid t', In (tid, t') ts' -> exists t, In (tid, t) ts /\ t_kind t' = t_kind t /\ t_result t' = t_result t.

Lemma tasks_from_kr ts ts' : tasks_from ts ts' -> kr_from ts ts'.
Proof. intros H tid t' Hin. destruct (H _ _ Hin) as (t & Hin0 & (E1 & E2 & _)). eauto. Qed.

Lemma kr_from_modify tid f ts :
  (forall t, t_kind (f t) = t_kind t /\ t_result (f t) = t_result t) -> kr_from ts (al_modify N.eqb tid f ts).
Proof.
  intros Hf k t' H. apply in_al_modify in H. destruct H as (t & Hin & ->). exists t. split; [assumption|].
  destruct (tid =? k); [apply Hf | split; reflexivity].
Qed.

Lemma kr_from_refl ts : kr_from ts ts.
Proof. intros tid t H. eauto. Qed.

Lemma K_kr_from h s s' :
  kr_from (cs_tasks s) (cs_tasks s') -> cs_c2q s' = cs_c2q s -> cs_queue s' = cs_queue s -> K h s -> K h s'.
Proof.
  intros Hf E2 E3 [H1 H2 H3 H4]. constructor; rewrite ?E2, ?E3; try assumption.
  - intros tid t q c Hin Hk. destruct (Hf _ _ Hin) as (t0 & Hin0 & Ek & _). eapply H1; [exact Hin0 | congruence].
  - intros tid t d Hin Hr. destruct (Hf _ _ Hin) as (t0 & Hin0 & _ & Er). eapply H4; [exact Hin0 | congruence].
Qed.

Lemma abort_task_kr s tid : kr_from (cs_tasks s) (cs_tasks (abort_task s tid)).
Proof.
  unfold abort_task. destruct (al_mem N.eqb tid (cs_tasks s)); [|apply kr_from_refl].
  cbn [set_tasks cs_tasks]. apply kr_from_modify. intros t; split; reflexivity.
Qed.

Lemma cancel_abort_kr s q : kr_from (cs_tasks s) (cs_tasks (cancel_abort s q)).
Proof.
  unfold cancel_abort. destruct (al_find N.eqb q (cs_abort s)) as [tid|]; [|apply kr_from_refl].
  apply (abort_task_kr (set_abort s (al_remove N.eqb q (cs_abort s))) tid).
Qed.

Lemma K_cancel h s q : K h s -> K h (c_cancel s q).
Proof.
  intros HK. rewrite c_cancel_unfold. cbv zeta.
  destruct (cancel_abort_frame s q) as (E1 & E2 & _).
  assert (HK1 : K h (cancel_abort s q)) by (apply (K_kr_from h s); auto using cancel_abort_kr).
  destruct (find_query q (cs_c2q (cancel_abort s q))) as [[c qs]|]; [|exact HK1].
  destruct HK1 as [H1 H2 H3 H4].
  destruct (swap_remove_q q qs) as [|y l].
  - constructor; cbn [set_wl set_c2q cs_tasks cs_c2q cs_queue]; auto.
    intros c' qs' q' Hin. unfold al_remove in Hin. apply filter_In in Hin. apply H2, Hin.
  - constructor; cbn [set_c2q cs_tasks cs_c2q cs_queue]; auto.
    intros c' qs' q' Hin Hq. apply in_al_modify in Hin. destruct Hin as (v & Hv & ->).
    destruct (cid_eqb c c'); [apply In_swap_remove in Hq|]; eapply H2; eassumption.
Qed.

(* the fold of process_incoming_message *)
Lemma inc_block_K (m0 : list (cid * list qid)) q0 blocks a b :
  In b blocks ->
  (forall c qs, In (c, qs) (ia_c2q a) -> In (c, qs) m0) ->
  (forall e, In e (ia_queue a) -> In e q0 \/ exists q d c qs, e = EvResponse q d /\ In (c, d) blocks /\ In (c, qs) m0 /\ In q qs) ->
  (forall c qs, In (c, qs) (ia_c2q (inc_block a b)) -> In (c, qs) m0) /\
  (forall e, In e (ia_queue (inc_block a b)) ->
     In e q0 \/ exists q d c qs, e = EvResponse q d /\ In (c, d) blocks /\ In (c, qs) m0 /\ In q qs).
Proof.
  intros Hb Hm Hq. unfold inc_block. destruct (ia_panic a); [split; assumption|]. destruct b as [c data].
  destruct (wl_remove (ia_wl a) c) as [w' removed]. destruct removed; cbn [negb].
  - cbn [ia_c2q ia_queue]. split.
    + intros c' qs' Hin. unfold al_remove in Hin. apply filter_In in Hin. apply Hm, Hin.
    + intros e Hin. apply in_app_iff in Hin. destruct Hin as [Hin | Hin]; [apply Hq, Hin|].
      apply in_map_iff in Hin. destruct Hin as (q & <- & Hin). right.
      destruct (al_find cid_eqb c (ia_c2q a)) as [qs|] eqn:Ef; [|destruct Hin].
      apply (al_find_some_in _ cid_eqb_spec) in Ef. exists q, data, c, qs. repeat split; auto.
  - destruct (al_mem cid_eqb c (ia_c2q a)); cbn [ia_c2q ia_queue]; split; assumption.
Qed.

Lemma inc_blocks_K (m0 : list (cid * list qid)) q0 blocks : forall bl a,
  incl bl blocks ->
  (forall c qs, In (c, qs) (ia_c2q a) -> In (c, qs) m0) ->
  (forall e, In e (ia_queue a) -> In e q0 \/ exists q d c qs, e = EvResponse q d /\ In (c, d) blocks /\ In (c, qs) m0 /\ In q qs) ->
  (forall c qs, In (c, qs) (ia_c2q (fold_left inc_block bl a)) -> In (c, qs) m0) /\
  (forall e, In e (ia_queue (fold_left inc_block bl a)) ->
     In e q0 \/ exists q d c qs, e = EvResponse q d /\ In (c, d) blocks /\ In (c, qs) m0 /\ In q qs).
Proof.
  induction bl as [|b bl IH]; intros a Hincl Hm Hq; cbn [fold_left]; [split; assumption|].
  destruct (inc_block_K m0 q0 blocks a b (Hincl b (or_introl eq_refl)) Hm Hq) as [Hm1 Hq1].
  apply IH; auto. intros x Hx. apply Hincl. right; exact Hx.
Qed.

Lemma K_incoming h s p pres blocks :
  In (CIncoming p pres blocks) h -> K h s -> K h (fst (c_incoming s p pres blocks)).
Proof.
  intros Hh [H1 H2 H3 H4]. unfold c_incoming. destruct (al_find N.eqb p (cs_peers s)) as [ps|]; [|constructor; assumption].
  set (a0 := MkInc (cs_wl s) (fold_left apply_presence pres (p_wl ps)) (cs_c2q s) (cs_queue s) [] false).
  destruct (inc_blocks_K (cs_c2q s) (cs_queue s) blocks blocks a0 (incl_refl _)) as [Hm Hq];
    [intros c qs H; exact H | intros e H; left; exact H |].
  set (a := fold_left inc_block blocks a0) in *.
  assert (Hc2q : forall c qs q, In (c, qs) (ia_c2q a) -> In q qs -> qcid h q = Some c).
  { intros c qs q Hin Hq'. eapply H2; [apply Hm, Hin | exact Hq']. }
  assert (Hqueue : forall q d, In (EvResponse q d) (ia_queue a) -> net_ok h q d).
  { intros q d Hin. destruct (Hq _ Hin) as [Hold | (q' & d' & c & qs & [= <- <-] & Hb & Hc & Hq')]; [apply H3, Hold|].
    exists p, pres, blocks, c. repeat split; auto. eapply H2; eassumption. }
  destruct (ia_panic a); [constructor; cbn [fst cs_tasks cs_c2q cs_queue]; assumption|].
  destruct (ia_new a) as [|b nb]; [constructor; cbn [fst cs_tasks cs_c2q cs_queue]; assumption|].
  cbn [fst]. unfold push_task. constructor; cbn [cs_tasks cs_c2q cs_queue]; auto.
  - intros tid t q c Hin Hk. apply in_app_iff in Hin. destruct Hin as [Hin | [[= <- <-] | []]]; [eapply H1; eassumption | discriminate].
  - intros tid t d Hin Hr. apply in_app_iff in Hin. destruct Hin as [Hin | [[= <- <-] | []]]; [eapply H4; eassumption | discriminate].
Qed.

Lemma K_release h s call r : In (CRelease call r) h -> K h s -> K h (c_release s call r).
Proof.
  intros Hh [H1 H2 H3 H4]. unfold c_release. destruct (find (call_is call) (cs_tasks s)) as [[tid t0]|]; [|constructor; assumption].
  constructor; cbn [set_tasks cs_tasks cs_c2q cs_queue]; auto.
  - intros k t q c Hin Hk. apply in_al_modify in Hin. destruct Hin as (t1 & Hin & ->).
    eapply H1; [exact Hin|]. destruct (tid =? k); exact Hk.
  - intros k t d Hin Hr. apply in_al_modify in Hin. destruct Hin as (t1 & Hin & ->).
    destruct (tid =? k); [|eapply H4; eassumption]. cbn in Hr. injection Hr as ->. exists call. exact Hh.
Qed.

Lemma K_get_some h s c :
  qcid h (cs_next_qid s) = Some c -> K h s -> K h (fst (c_get s (Some c))).
Proof.
  intros Hq [H1 H2 H3 H4]. unfold c_get. cbn [fst]. unfold set_abort, push_task, bump_qid.
  constructor; cbn [cs_tasks cs_c2q cs_queue]; auto.
  - intros tid t q c' Hin Hk. apply in_app_iff in Hin. destruct Hin as [Hin | [[= <- <-] | []]]; [eapply H1; eassumption|].
    cbn in Hk. injection Hk as <- <-. exact Hq.
  - intros tid t d Hin Hr. apply in_app_iff in Hin. destruct Hin as [Hin | [[= <- <-] | []]]; [eapply H4; eassumption | discriminate].
Qed.

Lemma K_get_none h s : K h s -> K h (fst (c_get s None)).
Proof.
  intros [H1 H2 H3 H4]. unfold c_get. cbn [fst]. unfold set_queue, bump_qid.
  constructor; cbn [cs_tasks cs_c2q cs_queue]; auto.
  intros q d Hin. apply in_app_iff in Hin. destruct Hin as [Hin | [[=] | []]]. apply H3, Hin.
Qed.

Lemma in_c2q_push c q m c' qs' :
  In (c', qs') (c2q_push c q m) ->
  In (c', qs') m \/ (c' = c /\ exists qs, (In (c, qs) m \/ qs = []) /\ qs' = qs ++ [q]).
Proof.
  unfold c2q_push. destruct (al_mem cid_eqb c m).
  - intros H. apply in_al_modify in H. destruct H as (v & Hv & ->). cid_cases c c'; [|left; exact Hv].
    right. split; [reflexivity|]. exists v. split; [left; exact Hv | reflexivity].
  - intros H. apply in_app_iff in H. destruct H as [H | [[= <- <-] | []]]; [left; exact H|].
    right. split; [reflexivity|]. exists []. split; [right; reflexivity | reflexivity].
Qed.

Lemma K_handle_result h s r t :
  (exists tid t0, In (tid, t0) (cs_tasks s) /\ t_kind t0 = t_kind t /\ t_result t0 = t_result t) ->
  result_of t r -> K h s ->
  K h (fst (handle_task_result s r)) /\ resp_ok h (snd (handle_task_result s r)).
Proof.
  intros (tid & t0 & Hin & Ek & Er) Hr [H1 H2 H3 H4].
  destruct r as [q c res|ok bl|]; cbn [handle_task_result].
  - destruct Hr as (Hk & Hres & _). destruct res as [d| |]; cbn [fst snd].
    + split; [constructor; assumption|]. intros q' d' [[= <- <-] | []]. right. eapply H4; [exact Hin | congruence].
    + destruct (wl_insert (cs_wl (set_abort s (al_remove N.eqb q (cs_abort s)))) c) as [w' ins].
      assert (Hq : qcid h q = Some c) by (eapply H1; [exact Hin | congruence]).
      split; [|destruct ins; intros q' d' []].
      assert (HK' : forall s0, cs_tasks s0 = cs_tasks s -> cs_queue s0 = cs_queue s -> cs_c2q s0 = cs_c2q s ->
                               K h (set_c2q s0 (c2q_push c q (cs_c2q s0)))).
      { intros s0 E1 E2 E3. constructor; cbn [set_c2q cs_tasks cs_c2q cs_queue]; rewrite ?E1, ?E2, ?E3; auto.
        intros c' qs' q' Hin' Hq'. apply in_c2q_push in Hin'.
        destruct Hin' as [Hin' | (-> & qs & Hqs & ->)]; [eapply H2; eassumption|].
        apply in_app_iff in Hq'. destruct Hq' as [Hq' | [<- | []]]; [|exact Hq].
        destruct Hqs as [Hqs | ->]; [eapply H2; eassumption | destruct Hq']. }
      destruct ins; cbn [fst]; apply HK'; reflexivity.
    + split; [constructor; assumption|]. intros q' d' [[=] | []].
  - destruct ok; cbn [fst snd]; (split; [constructor; assumption | intros q' d' []]).
  - cbn [fst snd]. split; [constructor; assumption | intros q' d' []].
Qed.

Lemma no_resp_in_sends evs q d : queue_qids evs = [] -> ~ In (EvResponse q d) evs.
Proof.
  intros H Hin. assert (Hq : In q (queue_qids evs)).
  { unfold queue_qids. apply in_flat_map. exists (EvResponse q d). split; [assumption | left; reflexivity]. }
  rewrite H in Hq. destruct Hq.
Qed.

Lemma K_update_handlers h s ch : K h s -> K h (fst (fst (update_handlers s ch))).
Proof.
  intros [H1 H2 H3 H4]. unfold update_handlers.
  pose proof (uh_loop_events (cs_now s) (cs_wl s) ch (cs_peers s)) as He.
  destruct (uh_loop (cs_now s) (cs_wl s) ch (cs_peers s)) as [[peers' evs] outs]. destruct He as [He _].
  cbn [fst]. constructor; cbn [set_queue set_peers cs_tasks cs_c2q cs_queue]; auto.
  intros q d Hin. apply in_app_iff in Hin. destruct Hin as [Hin | Hin]; [apply H3, Hin|].
  exfalso. eapply no_resp_in_sends; eassumption.
Qed.

Lemma resp_ok_app h o1 o2 : resp_ok h o1 -> resp_ok h o2 -> resp_ok h (o1 ++ o2).
Proof. intros A B q d Hin. apply in_app_iff in Hin. destruct Hin; [apply A | apply B]; assumption. Qed.

Lemma resp_ok_no_resp h o : (forall q d, ~ In (OResponse q d) o) -> resp_ok h o.
Proof. intros H q d Hin. exfalso. eapply H; eassumption. Qed.

Lemma tasks_outs_no_resp s q d : ~ In (OResponse q d) (tasks_outs s).
Proof.
  intros Hin. destruct (after_tasks_qids q s) as [_ H].
  assert (Hq : In q (out_qids (tasks_outs s))) by (apply out_qids_In; left; eauto).
  rewrite H in Hq. destruct Hq.
Qed.

Lemma update_handlers_no_resp s ch q d : ~ In (OResponse q d) (snd (fst (update_handlers s ch))).
Proof.
  unfold update_handlers. pose proof (uh_loop_events (cs_now s) (cs_wl s) ch (cs_peers s)) as He.
  destruct (uh_loop (cs_now s) (cs_wl s) ch (cs_peers s)) as [[peers' evs] outs]. destruct He as [_ He]. cbn [fst snd].
  intros Hin. assert (Hq : In q (out_qids outs)) by (apply out_qids_In; left; eauto). rewrite He in Hq. destruct Hq.
Qed.

Lemma K_poll_iter h ch s :
  K h s -> K h (fst (fst (poll_iter ch s))) /\ resp_ok h (snd (fst (poll_iter ch s))).
Proof.
  intros HK.
  destruct (poll_iter_cases ch s) as [(ev & q & Hq & ->) | [(Hq & Ht & ->) | [(r & Hq & Ht & Hr & ->) | (Hq & Ht & Hr & ->)]]];
    cbn [fst snd].
  - destruct HK as [H1 H2 H3 H4]. split.
    + constructor; cbn [set_queue cs_tasks cs_c2q cs_queue]; auto. intros q' d Hin. apply H3. rewrite Hq. right; exact Hin.
    + intros q' d [Hin | []]. left. apply H3. rewrite Hq. left. destruct ev; cbn in Hin; try discriminate. congruence.
  - split; [apply (K_same h s); auto | intros q d []].
  - destruct (after_tasks_frame s) as (F1 & _ & _ & F4 & _).
    destruct (after_tasks_tasks s) as [Hfrom Hres]. rewrite Hr in Hres. destruct Hres as (tid & t & t0 & Hin0 & (Ek & Er & _) & Hro).
    assert (HK1 : K h (after_tasks s)) by (apply (K_kr_from h s); auto using tasks_from_kr).
    (* the finished task is gone from after_tasks, but its kind/result facts are all that is used *)
    assert (HK2 : K h (fst (handle_task_result (after_tasks s) r)) /\ resp_ok h (snd (handle_task_result (after_tasks s) r))).
    { destruct HK as [H1 H2 H3 H4]. destruct HK1 as [G1 G2 G3 G4].
      (* re-run the argument of K_handle_result with the facts of the original task set *)
      destruct r as [q c res|ok bl|]; cbn [handle_task_result].
      - destruct Hro as (Hk & Hres & _). destruct res as [d| |]; cbn [fst snd].
        + split; [constructor; assumption|]. intros q' d' [[= <- <-] | []]. right. eapply H4; [exact Hin0 | congruence].
        + destruct (wl_insert (cs_wl (set_abort (after_tasks s) (al_remove N.eqb q (cs_abort (after_tasks s))))) c) as [w' ins].
          assert (Hqc : qcid h q = Some c) by (eapply H1; [exact Hin0 | congruence]).
          split; [|destruct ins; intros q' d' []].
          assert (HK' : forall s0, cs_tasks s0 = cs_tasks (after_tasks s) -> cs_queue s0 = cs_queue (after_tasks s) ->
                                   cs_c2q s0 = cs_c2q (after_tasks s) -> K h (set_c2q s0 (c2q_push c q (cs_c2q s0)))).
          { intros s0 E1 E2 E3. constructor; cbn [set_c2q cs_tasks cs_c2q cs_queue]; rewrite ?E1, ?E2, ?E3; auto.
            intros c' qs' q' Hin' Hq'. apply in_c2q_push in Hin'.
            destruct Hin' as [Hin' | (-> & qs & Hqs & ->)]; [eapply G2; eassumption|].
            apply in_app_iff in Hq'. destruct Hq' as [Hq' | [<- | []]]; [|exact Hqc].
            destruct Hqs as [Hqs | ->]; [eapply G2; eassumption | destruct Hq']. }
          destruct ins; cbn [fst]; apply HK'; reflexivity.
        + split; [constructor; assumption|]. intros q' d' [[=] | []].
      - destruct ok; cbn [fst snd]; (split; [constructor; assumption | intros q' d' []]).
      - cbn [fst snd]. split; [constructor; assumption | intros q' d' []]. }
    destruct HK2 as [HK2 Hresp]. split; [exact HK2|].
    apply resp_ok_app; [apply resp_ok_no_resp; intros; apply tasks_outs_no_resp | exact Hresp].
  - destruct (after_tasks_frame s) as (F1 & _ & _ & F4 & _).
    destruct (after_tasks_tasks s) as [Hfrom _].
    assert (HK1 : K h (after_tasks s)) by (apply (K_kr_from h s); auto using tasks_from_kr).
    split; [apply K_update_handlers, HK1|].
    apply resp_ok_app; apply resp_ok_no_resp; intros; [apply tasks_outs_no_resp | apply update_handlers_no_resp].
Qed.

Lemma K_poll h s ch : K h s -> K h (fst (c_poll s ch)) /\ resp_ok h (snd (c_poll s ch)).
Proof.
  unfold c_poll. apply (poll_loop_rel (fun s o s' => K h s -> K h s' /\ resp_ok h o)).
  - intros s0 o1 s1 o2 s2 A B HK. destruct (A HK) as [HK1 R1]. destruct (B HK1) as [HK2 R2].
    split; [exact HK2 | apply resp_ok_app; assumption].
  - intros s0 HK. split; [exact HK | intros q d [[=] | []]].
  - intros ch0 s0. apply K_poll_iter.
Qed.

Lemma K_step sdh ops o :
  K ops (st_after sdh ops) ->
  K (ops ++ [o]) (st_after sdh (ops ++ [o])) /\ resp_ok (ops ++ [o]) (snd (cstep (st_after sdh ops) o)).
Proof.
  intros HK0. rewrite st_after_snoc. pose proof (K_mono ops o _ HK0) as HK.
  assert (Hlast : In o (ops ++ [o])) by (apply in_app_iff; right; left; reflexivity).
  set (s := st_after sdh ops) in *. set (h := ops ++ [o]) in *.
  destruct o; cbn [cstep fst snd].
  - split; [|intros q d []]. apply (K_same h s); auto; unfold c_new_conn; destruct (al_mem N.eqb p (cs_peers s)); reflexivity.
  - split; [|intros q d []]. apply (K_same h s); auto; unfold c_conn_closed; destruct (al_find N.eqb p (cs_peers s)); try reflexivity;
      destruct (p_conns (remove_conn c p0)); reflexivity.
  - destruct c as [c|].
    + split; [|intros q d [[=] | []]]. apply K_get_some; [|exact HK].
      subst s h. rewrite st_after_next_qid. apply qcid_new.
    + split; [|intros q d [[=] | []]]. apply K_get_none, HK.
  - split; [apply K_cancel, HK | intros q0 d []].
  - split; [apply K_incoming; assumption|].
    intros q d Hin. exfalso. unfold c_incoming in Hin. destruct (al_find N.eqb p (cs_peers s)); [|destruct Hin].
    match type of Hin with context [ia_panic ?a] => destruct (ia_panic a); [destruct Hin as [[=] | []]|]; destruct (ia_new a); destruct Hin end.
  - split; [apply (K_same h s); auto | intros q d []].
  - split; [apply K_release; assumption | intros q d []].
  - split; [apply (K_same h s); auto | intros q d []].
  - apply K_poll, HK.
  - split; [apply (K_same h s); auto | intros q d [[=] | []]].
Qed.

Lemma K_init sdh : K [] (cinit sdh).
Proof. constructor; cbn; intros; contradiction. Qed.

Lemma K_run sdh ops : K ops (st_after sdh ops) /\ resp_ok ops (outs_after sdh ops).
Proof.
  induction ops as [|o ops IH] using rev_ind.
  - split; [apply K_init | intros q d []].
  - destruct IH as [HK HR]. destruct (K_step sdh ops o HK) as [HK' HR']. split; [exact HK'|].
    rewrite outs_after_snoc. apply resp_ok_app; [|exact HR'].
    intros q d Hin. destruct (HR q d Hin) as [H | H]; [left; apply net_ok_mono | right; apply store_hit_mono]; exact H.
Qed.

(* every GetQueryResponse carries either data that the local store returned for a get (local hit), or the
   data of a block of some incoming message whose CID is the CID the query asked for *)
Theorem C01_response_is_wanted_block sdh ops q data :
  In (OResponse q data) (outs_after sdh ops) ->
  (exists p pres blocks c, In (CIncoming p pres blocks) ops /\ In (c, data) blocks /\ qcid ops q = Some c) \/
  (exists call, In (CRelease call (SHit data)) ops).
Proof. intros H. destruct (K_run sdh ops) as [_ HR]. exact (HR q data H). Qed.

Example C01_response_example :
  let ops := [CNewConn 7 1; CGet (Some ex_c1); CPoll [(7, 1)]; CRelease 0 SMiss; CPoll [];
              CIncoming 7 [] [(ex_c1, [7; 7])]; CPoll []] in
  In (OResponse 0 [7; 7]) (outs_after true ops) /\ qcid ops 0 = Some ex_c1.
Proof. vm_compute. split; [|reflexivity]. repeat (first [left; reflexivity | right]). Qed.

(* ---------- task numbers are distinct ---------- *)
Definition INVT (s : cstate) : Prop :=
  NoDup (map fst (cs_tasks s)) /\ forall tid, In tid (map fst (cs_tasks s)) -> tid < cs_next_task s.

Lemma poll_next_keys rq ts nc :
  let '(ts', rq', nc', outs, res) := poll_next rq ts nc in
  NoDup (map fst ts) -> NoDup (map fst ts') /\ forall k, In k (map fst ts') -> In k (map fst ts).
Proof.
  apply (poll_next_ind (fun rq ts nc ts' rq' nc' outs res =>
    NoDup (map fst ts) -> NoDup (map fst ts') /\ forall k, In k (map fst ts') -> In k (map fst ts))).
  - intros; split; auto.
  - intros tid rq0 ts0 nc0 ts' rq' nc' outs res _ H. exact H.
  - intros tid rq0 ts0 nc0 t r _ _ Hnd. split; [apply al_remove_NoDup; assumption|].
    intros k Hk. apply (al_remove_keys _ Neqb_spec) in Hk. apply Hk.
  - intros tid rq0 ts0 nc0 t o ts' rq' nc' outs res _ _ IH Hnd. rewrite al_modify_keys in IH. apply IH, Hnd.
Qed.

Lemma INVT_after_tasks s : INVT s -> INVT (after_tasks s).
Proof.
  intros [Hnd Hlt]. unfold INVT, after_tasks.
  pose proof (poll_next_keys (cs_ready s) (cs_tasks s) (cs_next_call s)) as H.
  destruct (poll_next (cs_ready s) (cs_tasks s) (cs_next_call s)) as [[[[ts rq] nc] outs] res].
  destruct (H Hnd) as [Hnd' Hsub]. cbn [set_tasks_calls cs_tasks cs_next_task]. split; [exact Hnd' | auto].
Qed.

Lemma INVT_same s s' : cs_tasks s' = cs_tasks s -> cs_next_task s' = cs_next_task s -> INVT s -> INVT s'.
Proof. intros E1 E2 H. unfold INVT. rewrite E1, E2. exact H. Qed.

Lemma INVT_push s k : INVT s -> INVT (push_task s k).
Proof.
  intros [Hnd Hlt]. unfold INVT, push_task. cbn [cs_tasks cs_next_task]. rewrite map_app. cbn [map fst]. split.
  - apply NoDup_snoc; [assumption|]. intros H. apply Hlt in H. lia.
  - intros tid H. apply in_app_iff in H. destruct H as [H | [<- | []]]; [apply Hlt in H|]; lia.
Qed.

Lemma INVT_modify s tid f rq : INVT s -> INVT (set_tasks s (al_modify N.eqb tid f (cs_tasks s)) rq).
Proof. intros H. unfold INVT. cbn [set_tasks cs_tasks cs_next_task]. rewrite al_modify_keys. exact H. Qed.

Lemma INVT_poll_iter ch s : INVT s -> INVT (fst (fst (poll_iter ch s))).
Proof.
  intros HT.
  destruct (poll_iter_cases ch s) as [(ev & q & Hq & ->) | [(Hq & Ht & ->) | [(r & Hq & Ht & Hr & ->) | (Hq & Ht & Hr & ->)]]];
    cbn [fst snd]; try exact HT.
  - destruct (handle_result_frame (after_tasks s) r) as (E1 & _ & _ & _ & _ & E2 & _).
    apply (INVT_same (after_tasks s)); auto. apply INVT_after_tasks, HT.
  - destruct (update_handlers_frame (after_tasks s) ch) as (E1 & _ & _ & _ & _ & _ & _ & _ & _ & E2 & _).
    apply (INVT_same (after_tasks s)); auto. apply INVT_after_tasks, HT.
Qed.

Lemma INVT_step s o : INVT s -> INVT (fst (cstep s o)).
Proof.
  intros HT. destruct o; cbn [cstep fst].
  - unfold c_new_conn. destruct (al_mem N.eqb p (cs_peers s)); exact HT.
  - unfold c_conn_closed. destruct (al_find N.eqb p (cs_peers s)); [destruct (p_conns (remove_conn c p0))|]; exact HT.
  - unfold c_get. destruct c; cbn [fst]; [|exact HT]. apply (INVT_same (push_task (bump_qid s) (TGet (cs_next_qid s) c))); auto.
    apply INVT_push. exact HT.
  - rewrite c_cancel_unfold. cbv zeta.
    assert (H1 : INVT (cancel_abort s q)).
    { unfold cancel_abort. destruct (al_find N.eqb q (cs_abort s)) as [tid|]; [|exact HT].
      unfold abort_task. cbn [set_abort cs_tasks]. destruct (al_mem N.eqb tid (cs_tasks s)); [|exact HT].
      apply (INVT_modify (set_abort s (al_remove N.eqb q (cs_abort s)))). exact HT. }
    destruct (find_query q (cs_c2q (cancel_abort s q))) as [[c qs]|]; [destruct (swap_remove_q q qs)|]; exact H1.
  - unfold c_incoming. destruct (al_find N.eqb p (cs_peers s)); [|exact HT].
    match goal with |- context [ia_panic ?a] => destruct (ia_panic a); [exact HT|]; destruct (ia_new a); [exact HT|] end.
    cbn [fst]. apply INVT_push. exact HT.
  - exact HT.
  - unfold c_release. destruct (find (call_is call) (cs_tasks s)) as [[tid t]|]; [|exact HT]. apply INVT_modify, HT.
  - exact HT.
  - unfold c_poll. apply poll_loop_inv; [apply INVT_poll_iter | exact HT].
  - exact HT.
Qed.

Lemma INVT_run sdh ops : INVT (st_after sdh ops).
Proof. unfold st_after, crun_sdh. apply crun_inv; [apply INVT_step|]. split; cbn; [constructor | intros tid []]. Qed.

(* ---------- C01_put_only_accepted, C01_new_blocks_only_stored ---------- *)
Section Puts.
  Variable sdh : bool.

  (* bl is a sub-list of the blocks of one incoming message, all for CIDs wanted when it arrived *)
  Definition accepted (h : list cop) (bl : list (cid * bytes)) : Prop :=
    exists ops1 p pres blocks ops2,
      h = ops1 ++ CIncoming p pres blocks :: ops2 /\ incl bl blocks /\
      forall c d, In (c, d) bl -> In c (wl_cids (cs_wl (st_after sdh ops1))).

  (* b is a block of a put_many call that the store completed successfully *)
  Definition stored (h : list cop) (acc : list cout) (b : cid * bytes) : Prop :=
    exists n bl r, In (OPut n bl) acc /\ In (CRelease n r) h /\ r <> SFail /\ In b bl.

  Definition put_ok (h : list cop) (acc : list cout) (t : task) : Prop :=
    forall bl, t_kind t = TPut bl ->
      accepted h bl /\ (forall n, t_call t = Some n -> In (OPut n bl) acc) /\
      (forall r, t_result t = Some r -> exists n, t_call t = Some n /\ In (CRelease n r) h).

  Definition tasks_ok (h : list cop) (acc : list cout) (ts : list (N * task)) : Prop :=
    NoDup (map fst ts) /\ forall tid t, In (tid, t) ts -> put_ok h acc t.

  Definition outs_ok (h : list cop) (acc : list cout) : Prop :=
    (forall n bl, In (OPut n bl) acc -> accepted h bl) /\
    (forall nb, In (ONewBlocks nb) acc -> forall b, In b nb -> stored h acc b).

  Definition PI (h : list cop) (acc : list cout) (s : cstate) : Prop :=
    tasks_ok h acc (cs_tasks s) /\ (forall b, In b (cs_new_blocks s) -> stored h acc b) /\ outs_ok h acc.

  Lemma accepted_mono h o bl : accepted h bl -> accepted (h ++ [o]) bl.
  Proof.
    intros (ops1 & p & pres & blocks & ops2 & -> & H2 & H3). exists ops1, p, pres, blocks, (ops2 ++ [o]).
    split; [rewrite <- app_assoc; reflexivity | auto].
  Qed.

  Lemma stored_mono h o acc o2 b : stored h acc b -> stored (h ++ [o]) (acc ++ o2) b.
  Proof.
    intros (n & bl & r & H1 & H2 & H3 & H4). exists n, bl, r. repeat split; auto; apply in_app_iff; auto.
  Qed.

  Lemma stored_acc h acc o2 b : stored h acc b -> stored h (acc ++ o2) b.
  Proof. intros (n & bl & r & H1 & H2 & H3 & H4). exists n, bl, r. repeat split; auto; apply in_app_iff; auto. Qed.

  Lemma put_ok_acc h acc o2 t : put_ok h acc t -> put_ok h (acc ++ o2) t.
  Proof.
    intros H bl Hk. destruct (H bl Hk) as (A & B & C). repeat split; auto. intros n Hn. apply in_app_iff; auto.
  Qed.

  Lemma put_ok_mono h o acc t : put_ok h acc t -> put_ok (h ++ [o]) acc t.
  Proof.
    intros H bl Hk. destruct (H bl Hk) as (A & B & C). repeat split; auto using accepted_mono.
    intros r Hr. destruct (C r Hr) as (n & Hn & Hin). exists n. split; [assumption | apply in_app_iff; auto].
  Qed.

  Lemma tasks_ok_acc h acc o2 ts : tasks_ok h acc ts -> tasks_ok h (acc ++ o2) ts.
  Proof. intros [Hnd H]. split; [assumption|]. intros tid t Hin. apply put_ok_acc, (H tid t Hin). Qed.

  (* outputs that are neither store-put calls nor new-block hand-overs *)
  Definition plain (o : cout) : Prop := match o with OPut _ _ | ONewBlocks _ => False | _ => True end.

  Lemma outs_ok_plain h acc o2 : Forall plain o2 -> outs_ok h acc -> outs_ok h (acc ++ o2).
  Proof.
    intros Hp [H1 H2]. rewrite Forall_forall in Hp. split.
    - intros n bl Hin. apply in_app_iff in Hin. destruct Hin as [Hin | Hin]; [eapply H1, Hin | destruct (Hp _ Hin)].
    - intros nb Hin b Hb. apply in_app_iff in Hin. destruct Hin as [Hin | Hin]; [apply stored_acc; eapply H2; eassumption | destruct (Hp _ Hin)].
  Qed.

  Lemma PI_plain h acc o2 s s' :
    Forall plain o2 -> cs_tasks s' = cs_tasks s -> cs_new_blocks s' = cs_new_blocks s -> PI h acc s -> PI h (acc ++ o2) s'.
  Proof.
    intros Hp E1 E2 (HT & HN & HO). unfold PI. rewrite E1, E2. split; [apply tasks_ok_acc, HT|].
    split; [intros b Hb; apply stored_acc, HN, Hb | apply outs_ok_plain; assumption].
  Qed.

  Lemma PI_mono h o acc s : PI h acc s -> PI (h ++ [o]) acc s.
  Proof.
    intros ((Hnd & HT) & HN & (HO1 & HO2)). split; [split; [assumption|]; intros tid t Hin; apply put_ok_mono, (HT tid t Hin)|].
    split.
    - intros b Hb. rewrite <- (app_nil_r acc). apply stored_mono. apply HN, Hb.
    - split; [intros n bl Hin; apply accepted_mono; eapply HO1, Hin|].
      intros nb Hin b Hb. rewrite <- (app_nil_r acc). apply stored_mono. eapply HO2; eassumption.
  Qed.

  (* poll_next *)
  Lemma modify_unique tid (f : task -> task) ts t k t' :
    NoDup (map fst ts) -> al_find N.eqb tid ts = Some t -> In (k, t') (al_modify N.eqb tid f ts) ->
    (k = tid /\ t' = f t) \/ (k <> tid /\ In (k, t') ts).
  Proof.
    intros Hnd Hf Hin. apply in_al_modify in Hin. destruct Hin as (t0 & Hin0 & ->).
    destruct (tid =? k) eqn:E.
    - apply N.eqb_eq in E. subst k. left. split; [reflexivity|]. f_equal.
      apply (al_find_some_in _ Neqb_spec) in Hf. eapply NoDup_keys_in_eq; eassumption.
    - apply N.eqb_neq in E. right. split; [congruence | assumption].
  Qed.

  Lemma poll_task_start_put nc t o bl : poll_task nc t = TpStart o -> t_kind t = TPut bl -> o = [OPut nc bl] /\ t_call t = None.
  Proof.
    unfold poll_task. intros H Hk. rewrite Hk in H. destruct (t_call t); [destruct (t_result t) as [[]|]; discriminate|].
    injection H as <-. auto.
  Qed.

  Lemma poll_task_start_get nc t o q c : poll_task nc t = TpStart o -> t_kind t = TGet q c -> o = [OGet nc c].
  Proof.
    unfold poll_task. intros H Hk. rewrite Hk in H. destruct (t_aborted t); [discriminate|].
    destruct (t_call t); [destruct (t_result t); discriminate|]. injection H as <-. reflexivity.
  Qed.

  Lemma poll_next_puts h rq ts nc :
    let '(ts', rq', nc', outs, res) := poll_next rq ts nc in
    forall acc, tasks_ok h acc ts -> outs_ok h acc ->
      tasks_ok h (acc ++ outs) ts' /\ outs_ok h (acc ++ outs) /\
      match res with
      | Some (TrSet true bl) => forall b, In b bl -> stored h (acc ++ outs) b
      | _ => True
      end.
  Proof.
    apply (poll_next_ind (fun rq ts nc ts' rq' nc' outs res =>
      forall acc, tasks_ok h acc ts -> outs_ok h acc ->
        tasks_ok h (acc ++ outs) ts' /\ outs_ok h (acc ++ outs) /\
        match res with
        | Some (TrSet true bl) => forall b, In b bl -> stored h (acc ++ outs) b
        | _ => True
        end)).
    - intros ts0 nc0 acc HT HO. rewrite app_nil_r. auto.
    - intros tid rq0 ts0 nc0 ts' rq' nc' outs res _ H. exact H.
    - intros tid rq0 ts0 nc0 t r Hf Hp acc [Hnd HT] HO. rewrite app_nil_r.
      split; [split; [apply al_remove_NoDup; assumption|]; intros k t' Hin; unfold al_remove in Hin; apply filter_In in Hin; eapply HT, Hin|].
      split; [exact HO|].
      destruct r as [q c res|ok bl|]; try exact I. destruct ok; [|exact I].
      destruct (poll_task_ready _ _ _ Hp) as [(Hk & res & Hres & Hok) Hcall].
      apply (al_find_some_in _ Neqb_spec) in Hf. destruct (HT _ _ Hf bl Hk) as (_ & Hc & Hr).
      destruct (Hr res Hres) as (n & Hn & Hrel). intros b Hb. exists n, bl, res. repeat split; auto.
      intros ->. destruct Hok as [_ Hok]. discriminate (Hok eq_refl).
    - intros tid rq0 ts0 nc0 t o ts' rq' nc' outs res Hf Hp IH acc [Hnd HT] HO.
      rewrite app_assoc. apply IH.
      + split; [rewrite al_modify_keys; assumption|]. intros k t' Hin.
        destruct (modify_unique _ _ _ _ _ _ Hnd Hf Hin) as [[-> ->] | [Hne Hin0]]; [|apply put_ok_acc, (HT _ _ Hin0)].
        apply (al_find_some_in _ Neqb_spec) in Hf. intros bl Hk. cbn [start_task t_kind] in Hk.
        destruct (HT _ _ Hf bl Hk) as (A & B & C). destruct (poll_task_start_put _ _ _ _ Hp Hk) as [-> Hnone].
        repeat split; [exact A | |].
        * cbn [start_task t_call]. intros n [= <-]. apply in_app_iff. right. left. reflexivity.
        * cbn [start_task t_result t_call]. intros r Hr. destruct (C r Hr) as (n & Hn & _). congruence.
      + destruct HO as [HO1 HO2]. apply (al_find_some_in _ Neqb_spec) in Hf. split.
        * intros n bl Hin. apply in_app_iff in Hin. destruct Hin as [Hin | Hin]; [eapply HO1, Hin|].
          destruct (t_kind t) as [q c|bl0] eqn:Ek.
          -- rewrite (poll_task_start_get _ _ _ _ _ Hp Ek) in Hin. destruct Hin as [[=] | []].
          -- destruct (poll_task_start_put _ _ _ _ Hp Ek) as [-> _]. destruct Hin as [[= <- <-] | []].
             apply (HT _ _ Hf bl0 Ek).
        * intros nb Hin b Hb. apply in_app_iff in Hin. destruct Hin as [Hin | Hin]; [apply stored_acc; eapply HO2; eassumption|].
          destruct (t_kind t) as [q c|bl0] eqn:Ek.
          -- rewrite (poll_task_start_get _ _ _ _ _ Hp Ek) in Hin. destruct Hin as [[=] | []].
          -- destruct (poll_task_start_put _ _ _ _ Hp Ek) as [-> _]. destruct Hin as [[=] | []].
  Qed.
End Puts.

Section Puts2.
  Variable sdh : bool.
  Notation PI := (PI sdh).

  Lemma handle_result_plain s r : Forall plain (snd (handle_task_result s r)).
  Proof.
    destruct r as [q c res|ok bl|]; cbn [handle_task_result].
    - destruct res; cbn [snd]; repeat constructor.
      destruct (wl_insert (cs_wl (set_abort s (al_remove N.eqb q (cs_abort s)))) c) as [w' ins]. destruct ins; constructor.
    - destruct ok; constructor.
    - constructor.
  Qed.

  Lemma uh_loop_bad now w ch l :
    let '(_, _, outs) := uh_loop now w ch l in Forall (fun o => o = OBadChoice) outs.
  Proof.
    induction l as [|[p ps] l IH]; cbn [uh_loop]; [constructor|].
    assert (H1 : let '(_, _, outs, _) := uh_peer now w ch p ps in Forall (fun o => o = OBadChoice) outs).
    { unfold uh_peer. destruct (uh_gate now ps) as [ps1|]; [|constructor].
      destruct (p_conns ps1) as [|c0 cs]; [constructor|].
      destruct (if p_send_full ps1 then wls_generate_full (p_wl ps1) w else wls_generate_update (p_wl ps1) w) as [es wls'].
      destruct (negb (p_send_full ps1) && match es with [] => true | _ => false end); [constructor|].
      unfold pick_conn. destruct (al_find N.eqb p ch) as [c|]; [destruct (n_mem c (c0 :: cs))|]; repeat constructor. }
    destruct (uh_peer now w ch p ps) as [[[ps' evs] outs] dead].
    destruct (uh_loop now w ch l) as [[l'' evs'] outs']. apply Forall_app. split; assumption.
  Qed.

  Lemma update_handlers_plain s ch : Forall plain (snd (fst (update_handlers s ch))).
  Proof.
    unfold update_handlers. pose proof (uh_loop_bad (cs_now s) (cs_wl s) ch (cs_peers s)) as H.
    destruct (uh_loop (cs_now s) (cs_wl s) ch (cs_peers s)) as [[peers' evs] outs]. cbn [fst snd].
    eapply Forall_impl; [|exact H]. intros o ->. exact I.
  Qed.

  Lemma PI_poll_iter h ch s acc :
    PI h acc s -> PI h (acc ++ snd (fst (poll_iter ch s))) (fst (fst (poll_iter ch s))).
  Proof.
    intros HP.
    destruct (poll_iter_cases ch s) as [(ev & q & Hq & ->) | [(Hq & Ht & ->) | [(r & Hq & Ht & Hr & ->) | (Hq & Ht & Hr & ->)]]];
      cbn [fst snd].
    - apply (PI_plain sdh h acc _ s); auto. constructor; [destruct ev; exact I | constructor].
    - apply (PI_plain sdh h acc [] s); auto.
    - destruct HP as (HT & HN & HO).
      assert (H := poll_next_puts sdh h (cs_ready s) (cs_tasks s) (cs_next_call s)).
      assert (Hat : cs_new_blocks (after_tasks s) = cs_new_blocks s) by apply after_tasks_frame.
      unfold after_tasks, tasks_outs, tasks_res in *.
      destruct (poll_next (cs_ready s) (cs_tasks s) (cs_next_call s)) as [[[[ts rq] nc] outs] res].
      subst res. destruct (H acc HT HO) as (HT' & HO' & Hst).
      set (s1 := set_tasks_calls s ts rq nc) in *.
      assert (HP1 : PI h (acc ++ outs) s1).
      { split; [exact HT'|]. split; [|exact HO']. intros b Hb. apply stored_acc, HN. rewrite <- Hat. exact Hb. }
      rewrite app_assoc.
      destruct r as [q c res|ok bl|].
      + destruct (handle_result_frame s1 (TrGet q c res)) as (E1 & _).
        apply (PI_plain sdh h (acc ++ outs) _ s1); auto; [apply handle_result_plain|].
        cbn [handle_task_result]. destruct res; cbn [fst]; try reflexivity.
        destruct (wl_insert (cs_wl (set_abort s1 (al_remove N.eqb q (cs_abort s1)))) c) as [w' ins]. destruct ins; reflexivity.
      + destruct ok; cbn [handle_task_result fst snd]; rewrite app_nil_r.
        * destruct HP1 as (A & B & C). split; [exact A|]. split; [|exact C].
          cbn [set_new_blocks cs_new_blocks]. intros b Hb. apply in_app_iff in Hb. destruct Hb as [Hb | Hb]; [apply B, Hb | apply Hst, Hb].
        * exact HP1.
      + cbn [handle_task_result fst snd]. rewrite app_nil_r. exact HP1.
    - destruct HP as (HT & HN & HO).
      assert (H := poll_next_puts sdh h (cs_ready s) (cs_tasks s) (cs_next_call s)).
      assert (Hat : cs_new_blocks (after_tasks s) = cs_new_blocks s) by apply after_tasks_frame.
      unfold after_tasks, tasks_outs, tasks_res in *.
      destruct (poll_next (cs_ready s) (cs_tasks s) (cs_next_call s)) as [[[[ts rq] nc] outs] res].
      destruct (H acc HT HO) as (HT' & HO' & _).
      set (s1 := set_tasks_calls s ts rq nc) in *.
      assert (HP1 : PI h (acc ++ outs) s1).
      { split; [exact HT'|]. split; [|exact HO']. intros b Hb. apply stored_acc, HN. rewrite <- Hat. exact Hb. }
      rewrite app_assoc. destruct (update_handlers_frame s1 ch) as (E1 & _ & _ & _ & _ & _ & E2 & _).
      apply (PI_plain sdh h (acc ++ outs) _ s1); auto. apply update_handlers_plain.
  Qed.

  Lemma PI_poll h s ch acc : PI h acc s -> PI h (acc ++ snd (c_poll s ch)) (fst (c_poll s ch)).
  Proof.
    unfold c_poll. apply (poll_loop_acc (PI h)).
    - intros. apply PI_poll_iter. assumption.
    - intros s0 acc0 HP. apply (PI_plain sdh h acc0 _ s0); auto. repeat constructor.
  Qed.
End Puts2.

Section Puts3.
  Variable sdh : bool.
  Notation PI := (PI sdh).
  Notation tasks_ok := (tasks_ok sdh).
  Notation put_ok := (put_ok sdh).
  Notation outs_ok := (outs_ok sdh).
  Notation accepted := (accepted sdh).

  Lemma inc_block_new W0 blocks a b :
    In b blocks ->
    (forall c, In c (wl_cids (ia_wl a)) -> In c W0) ->
    (forall c d, In (c, d) (ia_new a) -> In c W0 /\ In (c, d) blocks) ->
    (forall c, In c (wl_cids (ia_wl (inc_block a b))) -> In c W0) /\
    (forall c d, In (c, d) (ia_new (inc_block a b)) -> In c W0 /\ In (c, d) blocks).
  Proof.
    intros Hb HW HN. unfold inc_block. destruct (ia_panic a); [split; assumption|]. destruct b as [c data].
    unfold wl_remove. destruct (cid_mem c (wl_cids (ia_wl a))) eqn:M; cbn [negb].
    - cbn [ia_wl ia_new wl_cids]. split.
      + intros c' H. apply cid_remove_In in H. apply HW, H.
      + intros c' d H. apply in_app_iff in H. destruct H as [H | [[= <- <-] | []]]; [apply HN, H|].
        split; [apply HW, cid_mem_In, M | exact Hb].
    - destruct (al_mem cid_eqb c (ia_c2q a)); split; assumption.
  Qed.

  Lemma inc_blocks_new W0 blocks : forall bl a,
    incl bl blocks ->
    (forall c, In c (wl_cids (ia_wl a)) -> In c W0) ->
    (forall c d, In (c, d) (ia_new a) -> In c W0 /\ In (c, d) blocks) ->
    (forall c d, In (c, d) (ia_new (fold_left inc_block bl a)) -> In c W0 /\ In (c, d) blocks).
  Proof.
    induction bl as [|b bl IH]; intros a Hincl HW HN; cbn [fold_left]; [assumption|].
    destruct (inc_block_new W0 blocks a b (Hincl b (or_introl eq_refl)) HW HN) as [HW1 HN1].
    apply IH; auto. intros x Hx. apply Hincl. right; exact Hx.
  Qed.

  Lemma find_call_is call ts tid t :
    find (call_is call) ts = Some (tid, t) -> In (tid, t) ts /\ t_call t = Some call /\ t_result t = None.
  Proof.
    intros H. apply find_some in H. destruct H as [Hin Hc]. split; [assumption|].
    unfold call_is in Hc. cbn [snd] in Hc. destruct (t_call t) as [n|]; [|discriminate].
    destruct (t_result t); [discriminate|]. apply N.eqb_eq in Hc. subst. auto.
  Qed.

  Lemma tasks_ok_kind_call h acc ts ts' :
    NoDup (map fst ts') ->
    (forall tid t', In (tid, t') ts' -> exists t, In (tid, t) ts /\ t_kind t' = t_kind t /\ t_call t' = t_call t /\ t_result t' = t_result t) ->
    tasks_ok h acc ts -> tasks_ok h acc ts'.
  Proof.
    intros Hnd Hf [_ HT]. split; [assumption|]. intros tid t' Hin bl Hk.
    destruct (Hf _ _ Hin) as (t & Hin0 & Ek & Ec & Er). rewrite Ek in Hk. destruct (HT _ _ Hin0 bl Hk) as (A & B & C).
    rewrite Ec, Er. auto.
  Qed.

  Lemma PI_step ops o :
    PI ops (outs_after sdh ops) (st_after sdh ops) ->
    PI (ops ++ [o]) (outs_after sdh (ops ++ [o])) (st_after sdh (ops ++ [o])).
  Proof.
    intros HP0. rewrite st_after_snoc, outs_after_snoc. pose proof (PI_mono sdh ops o _ _ HP0) as HP.
    assert (Hlast : In o (ops ++ [o])) by (apply in_app_iff; right; left; reflexivity).
    pose proof (INVT_run sdh ops) as HT0.
    set (s := st_after sdh ops) in *. set (h := ops ++ [o]) in *. set (acc := outs_after sdh ops) in *.
    destruct o; cbn [cstep fst snd].
    - apply (PI_plain sdh h acc [] s); auto; unfold c_new_conn; destruct (al_mem N.eqb p (cs_peers s)); reflexivity.
    - apply (PI_plain sdh h acc [] s); auto; unfold c_conn_closed; destruct (al_find N.eqb p (cs_peers s)); try reflexivity;
        destruct (p_conns (remove_conn c p0)); reflexivity.
    - destruct HP as ((Hnd & HT) & HN & HO). unfold c_get. destruct c as [c|]; cbn [fst snd].
      + split; [|split; [intros b Hb; apply stored_acc, HN, Hb | apply outs_ok_plain; [repeat constructor | exact HO]]].
        pose proof (INVT_push (bump_qid s) (TGet (cs_next_qid s) c) HT0) as [Hnd' _].
        split; [exact Hnd'|]. cbn [set_abort push_task bump_qid cs_tasks]. intros tid t Hin.
        apply in_app_iff in Hin. destruct Hin as [Hin | [[= <- <-] | []]]; [apply put_ok_acc, (HT _ _ Hin)|].
        intros bl Hk. discriminate.
      + apply (PI_plain sdh h acc _ s); auto; [repeat constructor|]. split; [split|]; auto.
    - (* cancel *)
      destruct HP as (HTs & HN & HO). rewrite app_nil_r. rewrite c_cancel_unfold. cbv zeta.
      assert (H1 : PI h acc (cancel_abort s q)).
      { split; [|split; [|exact HO]].
        - unfold cancel_abort. destruct (al_find N.eqb q (cs_abort s)) as [tid|]; [|exact HTs].
          unfold abort_task. cbn [set_abort cs_tasks]. destruct (al_mem N.eqb tid (cs_tasks s)); [|exact HTs].
          cbn [set_tasks cs_tasks]. apply (tasks_ok_kind_call h acc (cs_tasks s)); [rewrite al_modify_keys; apply HT0 | | exact HTs].
          intros k t' Hin. apply in_al_modify in Hin. destruct Hin as (t & Hin & ->). exists t. split; [assumption|].
          destruct (tid =? k); repeat split; reflexivity.
        - unfold cancel_abort. destruct (al_find N.eqb q (cs_abort s)) as [tid|]; [|exact HN].
          unfold abort_task. cbn [set_abort cs_tasks]. destruct (al_mem N.eqb tid (cs_tasks s)); exact HN. }
      destruct (find_query q (cs_c2q (cancel_abort s q))) as [[c qs]|]; [destruct (swap_remove_q q qs)|]; exact H1.
    - (* incoming *)
      destruct HP as ((Hnd & HT) & HN & HO). unfold c_incoming. destruct (al_find N.eqb p (cs_peers s)) as [ps|].
      + set (a0 := MkInc (cs_wl s) (fold_left apply_presence pres (p_wl ps)) (cs_c2q s) (cs_queue s) [] false).
        pose proof (inc_blocks_new (wl_cids (cs_wl s)) blocks blocks a0 (incl_refl _)) as Hnew.
        specialize (Hnew (fun c H => H)). specialize (Hnew (fun c d (H : In (c, d) []) => match H with end)).
        destruct (ia_panic (fold_left inc_block blocks a0)).
        * cbn [fst snd]. split; [split; [exact Hnd|]; intros tid t Hin; apply put_ok_acc, (HT _ _ Hin)|].
          split; [intros b Hb; apply stored_acc, HN, Hb | apply outs_ok_plain; [repeat constructor | exact HO]].
        * destruct (ia_new (fold_left inc_block blocks a0)) as [|b nb] eqn:En; cbn [fst snd]; rewrite app_nil_r.
          -- split; [split; [exact Hnd|]; exact HT|]. split; [exact HN | exact HO].
          -- split; [|split; [exact HN | exact HO]].
             match goal with |- tasks_ok _ _ (cs_tasks (push_task ?s1 ?k)) =>
               assert (HT1 : INVT s1) by exact HT0; pose proof (INVT_push s1 k HT1) as [Hnd' _] end.
             split; [exact Hnd'|]. unfold push_task. cbn [cs_tasks]. intros tid t Hin.
             apply in_app_iff in Hin. destruct Hin as [Hin | [[= <- <-] | []]]; [apply (HT _ _ Hin)|].
             intros bl [= <-]. split; [|split; [intros n [=] | intros r [=]]].
             exists ops, p, pres, blocks, []. split; [reflexivity|]. split.
             ++ intros [c d] Hin. apply Hnew. first [rewrite En; exact Hin | exact Hin].
             ++ intros c d Hin. apply (Hnew c d). first [rewrite En; exact Hin | exact Hin].
      + cbn [fst snd]. rewrite app_nil_r. split; [split|]; auto.
    - apply (PI_plain sdh h acc [] s); auto.
    - (* release *)
      destruct HP as ((Hnd & HT) & HN & HO). rewrite app_nil_r. unfold c_release.
      destruct (find (call_is call) (cs_tasks s)) as [[tid t0]|] eqn:Ef; [|split; [split|]; auto].
      apply find_call_is in Ef. destruct Ef as (Hin0 & Hc0 & Hr0).
      split; [|split; [exact HN | exact HO]]. cbn [set_tasks cs_tasks]. split; [rewrite al_modify_keys; exact Hnd|].
      intros k t' Hin. apply in_al_modify in Hin. destruct Hin as (t & Hin & ->).
      destruct (tid =? k) eqn:E; [|apply (HT _ _ Hin)]. apply N.eqb_eq in E. subst k.
      assert (t = t0) by (eapply NoDup_keys_in_eq; eassumption). subst t.
      intros bl Hk. cbn in Hk. destruct (HT _ _ Hin0 bl Hk) as (A & B & C). repeat split; auto.
      cbn. intros r0 [= <-]. exists call. split; [exact Hc0 | exact Hlast].
    - apply (PI_plain sdh h acc [] s); auto.
    - apply PI_poll. exact HP.
    - (* get_new_blocks *)
      destruct HP as (HTs & HN & (HO1 & HO2)). cbn [c_take_new_blocks fst snd]. split; [apply tasks_ok_acc; exact HTs|].
      split; [intros b []|]. split.
      + intros n bl Hin. apply in_app_iff in Hin. destruct Hin as [Hin | [[=] | []]]. eapply HO1, Hin.
      + intros nb Hin b Hb. apply in_app_iff in Hin. destruct Hin as [Hin | [[= <-] | []]].
        * apply stored_acc. eapply HO2; eassumption.
        * apply stored_acc, HN, Hb.
  Qed.

  Lemma PI_run ops : PI ops (outs_after sdh ops) (st_after sdh ops).
  Proof.
    induction ops as [|o ops IH] using rev_ind.
    - split; [split; [constructor | intros tid t []]|]. split; [intros b [] | split; [intros n bl [] | intros nb []]].
    - apply PI_step, IH.
  Qed.
End Puts3.

(* every put_many call carries blocks of ONE incoming message, all for CIDs that were in the wantlist
   when that message was processed *)
Theorem C01_put_only_accepted sdh ops n bl :
  In (OPut n bl) (outs_after sdh ops) ->
  exists ops1 p pres blocks ops2,
    ops = ops1 ++ CIncoming p pres blocks :: ops2 /\ incl bl blocks /\
    forall c d, In (c, d) bl -> In c (wl_cids (cs_wl (st_after sdh ops1))).
Proof. intros H. destruct (PI_run sdh ops) as (_ & _ & (HO & _)). exact (HO n bl H). Qed.

(* get_new_blocks hands over only blocks of put_many calls that the store completed without error *)
Theorem C01_new_blocks_only_stored sdh ops nb b :
  In (ONewBlocks nb) (outs_after sdh ops) -> In b nb ->
  exists n bl r, In (OPut n bl) (outs_after sdh ops) /\ In (CRelease n r) ops /\ r <> SFail /\ In b bl.
Proof. intros H Hb. destruct (PI_run sdh ops) as (_ & _ & (_ & HO)). exact (HO nb H b Hb). Qed.

Example C01_put_example :
  let ops := [CNewConn 7 1; CGet (Some ex_c1); CPoll [(7, 1)]; CRelease 0 SMiss; CPoll [];
              CIncoming 7 [] [(ex_c2, [9]); (ex_c1, [7; 7])]; CPoll []; CRelease 1 (SHit []); CPoll []; CTakeNewBlocks] in
  In (OPut 1 [(ex_c1, [7; 7])]) (outs_after true ops) /\ In (ONewBlocks [(ex_c1, [7; 7])]) (outs_after true ops).
Proof. vm_compute. split; repeat (first [left; reflexivity | right]). Qed.
