(* Proto.v — the five Bitswap 1.2.0 protobuf messages as plain records
   (/repo/src/proto/message.rs: Message, Wantlist, Entry, Block, BlockPresence and the two enums).

   Scalars: `int32` fields are kept as the u32 bit pattern quick-protobuf holds (read_int32 =
   read_varint32 as i32; the writer sign-extends to u64), i.e. an N below 2^32; enums are closed
   (unknown numbers are mapped to the default by `From<i32>`), bools are bools. *)
From BS Require Export Bytes.

Inductive want_type := WTBlock | WTHave.                    (* = 0 | 1, default Block *)
Inductive presence_type := PHave | PDontHave.               (* = 0 | 1, default Have *)

Record entry := MkEntry {
  e_block : bytes;            (* field 1, bytes  *)
  e_priority : N;             (* field 2, int32 (u32 bit pattern) *)
  e_cancel : bool;            (* field 3, bool   *)
  e_want_type : want_type;    (* field 4, enum   *)
  e_send_dont_have : bool     (* field 5, bool   *)
}.

Record wantlist := MkWantlist {
  w_entries : list entry;     (* field 1, repeated Entry *)
  w_full : bool               (* field 2, bool *)
}.

Record block := MkBlock {
  b_prefix : bytes;           (* field 1, bytes *)
  b_data : bytes              (* field 2, bytes *)
}.

Record block_presence := MkPresence {
  bp_cid : bytes;             (* field 1, bytes *)
  bp_type : presence_type     (* field 2, enum  *)
}.

Record message := MkMessage {
  m_wantlist : option wantlist;            (* field 1, Wantlist (singular) *)
  m_payload : list block;                  (* field 3, repeated Block *)
  m_presences : list block_presence;       (* field 4, repeated BlockPresence *)
  m_pending_bytes : N                      (* field 5, int32 (u32 bit pattern) *)
}.

Definition default_entry := MkEntry [] 0 false WTBlock false.
Definition default_wantlist := MkWantlist [] false.
Definition default_block := MkBlock [] [].
Definition default_presence := MkPresence [] PHave.
Definition default_message := MkMessage None [] [] 0.

Definition want_type_eqb (a b : want_type) : bool :=
  match a, b with WTBlock, WTBlock | WTHave, WTHave => true | _, _ => false end.
Definition presence_type_eqb (a b : presence_type) : bool :=
  match a, b with PHave, PHave | PDontHave, PDontHave => true | _, _ => false end.

Definition entry_eqb (a b : entry) : bool :=
  bytes_eqb (e_block a) (e_block b) && (e_priority a =? e_priority b)
  && Bool.eqb (e_cancel a) (e_cancel b) && want_type_eqb (e_want_type a) (e_want_type b)
  && Bool.eqb (e_send_dont_have a) (e_send_dont_have b).

Definition wantlist_eqb (a b : wantlist) : bool :=
  list_eqb entry_eqb (w_entries a) (w_entries b) && Bool.eqb (w_full a) (w_full b).

Definition block_eqb (a b : block) : bool :=
  bytes_eqb (b_prefix a) (b_prefix b) && bytes_eqb (b_data a) (b_data b).

Definition presence_eqb (a b : block_presence) : bool :=
  bytes_eqb (bp_cid a) (bp_cid b) && presence_type_eqb (bp_type a) (bp_type b).

Definition message_eqb (a b : message) : bool :=
  option_eqb wantlist_eqb (m_wantlist a) (m_wantlist b)
  && list_eqb block_eqb (m_payload a) (m_payload b)
  && list_eqb presence_eqb (m_presences a) (m_presences b)
  && (m_pending_bytes a =? m_pending_bytes b).

Lemma want_type_eqb_spec a b : want_type_eqb a b = true <-> a = b.
Proof. destruct a, b; cbn; split; congruence. Qed.
Lemma presence_type_eqb_spec a b : presence_type_eqb a b = true <-> a = b.
Proof. destruct a, b; cbn; split; congruence. Qed.

Lemma entry_eqb_spec a b : entry_eqb a b = true <-> a = b.
Proof.
  destruct a, b; unfold entry_eqb; cbn.
  rewrite !andb_true_iff, bytes_eqb_spec, N.eqb_eq, !Bool.eqb_true_iff, want_type_eqb_spec.
  split; [intros ((((-> & ->) & ->) & ->) & ->); reflexivity | intros [= -> -> -> -> ->]; auto].
Qed.

Lemma wantlist_eqb_spec a b : wantlist_eqb a b = true <-> a = b.
Proof.
  destruct a, b; unfold wantlist_eqb; cbn.
  rewrite andb_true_iff, (list_eqb_spec _ entry_eqb_spec), Bool.eqb_true_iff.
  split; [intros (-> & ->); reflexivity | intros [= -> ->]; auto].
Qed.

Lemma block_eqb_spec a b : block_eqb a b = true <-> a = b.
Proof.
  destruct a, b; unfold block_eqb; cbn. rewrite andb_true_iff, !bytes_eqb_spec.
  split; [intros (-> & ->); reflexivity | intros [= -> ->]; auto].
Qed.

Lemma presence_eqb_spec a b : presence_eqb a b = true <-> a = b.
Proof.
  destruct a, b; unfold presence_eqb; cbn. rewrite andb_true_iff, bytes_eqb_spec, presence_type_eqb_spec.
  split; [intros (-> & ->); reflexivity | intros [= -> ->]; auto].
Qed.

Lemma message_eqb_spec a b : message_eqb a b = true <-> a = b.
Proof.
  destruct a, b; unfold message_eqb; cbn.
  rewrite !andb_true_iff, (option_eqb_spec _ wantlist_eqb_spec), (list_eqb_spec _ block_eqb_spec),
    (list_eqb_spec _ presence_eqb_spec), N.eqb_eq.
  split; [intros (((-> & ->) & ->) & ->); reflexivity | intros [= -> -> -> ->]; auto].
Qed.
