(* Props_C02.v — C02: every query for a block held by a connected peer completes.
   Model: Net.v = N nodes, each Node.v = Client.v x Server.v glued as /repo/src/lib.rs does, a healthy blockstore
   per node, and ATOMIC delivery of wantlists / block batches between connected nodes (the abstraction that C14's
   handler-level theorems justify).  `settle` is the deterministic fair round, `refresh` = 30 s + settle.
   INTERIM CONTENT: the composition scenarios below are machine-checked by evaluation of the model (vm_compute);
   the general theorems (C02_direct, C02_multi_hop, C14_records_agree over every reachable net) are being proved in
   Net_proofs*.v and are added here as they are completed.  Until then C02 is claimed as PARTIAL: the scenarios
   are proved, the general statement is exercised end to end by the `net` engine on the implementation. *)
From BS Require Import Bytes Cid Prefix Proto Types Node Net Net_proofs.
Open Scope N_scope.

(* two nodes, B holds c, A asks: answered after one settle *)
Theorem C02_scenario_direct : obs ex_direct = ([EResponse 0 0 d1], true).
Proof. exact ex_direct_events. Qed.
(* get before connect *)
Theorem C02_scenario_get_before_connect : obs ex_get_first_a = ([], true) /\ obs ex_get_first = ([EResponse 0 0 d1], true).
Proof. exact ex_get_first_events. Qed.
(* two concurrent queries for one CID: both answered *)
Theorem C02_scenario_concurrent : obs ex_concurrent = ([EResponse 0 0 d1; EResponse 0 1 d1], true).
Proof. exact ex_concurrent_events. Qed.
(* fetched earlier, evicted locally, asked again (F6): answered again *)
Theorem C02_scenario_refetch_after_eviction : obs ex_refetch = ([EResponse 0 0 d1; EResponse 0 1 d1], true).
Proof. exact ex_refetch_events. Qed.
(* the holder's application puts the block after the want missed (F15): answered one refresh later *)
Theorem C02_scenario_late_local_put : obs ex_late_put_a = ([], true) /\ obs ex_late_put = ([EResponse 0 0 d1], true).
Proof. exact ex_late_put_events. Qed.
(* cancel of one of two queries: the other one is still answered *)
Theorem C02_scenario_cancel_one_of_two : obs ex_cancel_a = ([], true) /\ obs ex_cancel = ([EResponse 0 1 d1], true).
Proof. exact ex_cancel_events. Qed.
(* a node that does not itself want the block does not relay it *)
Theorem C02_scenario_no_relay_without_own_query : obs ex_chain_no_relay = ([], true).
Proof. exact ex_chain_no_relay_events. Qed.

Print Assumptions C02_scenario_direct.
Print Assumptions C02_scenario_get_before_connect.
Print Assumptions C02_scenario_concurrent.
Print Assumptions C02_scenario_refetch_after_eviction.
Print Assumptions C02_scenario_late_local_put.
Print Assumptions C02_scenario_cancel_one_of_two.
Print Assumptions C02_scenario_no_relay_without_own_query.
