(* Props_C02.v — C02: every query for a block held by a connected peer completes.
   Model: Net.v = N nodes, each Node.v = Client.v x Server.v glued as /repo/src/lib.rs does, a healthy blockstore
   per node, and ATOMIC delivery of wantlists / block batches between connected nodes (the abstraction that C14's
   handler-level theorems justify).  `settle` is the deterministic fair round, `refresh` = 30 s + settle.
   General theorems (Net_proofs2..12, restated in Net_props): for EVERY net reachable by any list of application /
   environment / scheduling steps (any number of nodes, connections, queries; blocks put by the application hash
   to their CID, CIDs asked for are well-formed):
     C02_direct    — a live query of node i for c, i connected to j, j's store holds c: answered within one fair round
                     (`settle`) plus one refresh, provided the rounds ran to quiescence (checked on the result: the
                     fuel of `settle` sufficed) and i's wantlist is within the server's cap of 1024;
     C02_multi_hop — chain i - j - k, only k holds c, j queries c too: i is answered within settle + two refreshes.
   PARTIAL: fairness is built into `settle` (every node is polled, every store call completed, every message
   delivered, again and again); whether the real code registers a waker for every condition that needs a poll is
   outside the model; the delivery abstraction is assumption A-SWARM/A-STREAM + C14. *)
From BS Require Import Net Net_proofs Net_proofs2 Net_proofs5 Net_proofs7 Net_proofs9 Net_proofs10 Net_proofs11 Net_proofs12 Net_props.
From BS Require Import Tie_node Tie_client.   (* tie lemmas: a source edit that changes what they extract breaks this file's closure *)
Open Scope N_scope.

Theorem C02_direct (Sz : N) (Hh : hash_fn) (HSz : 32 <= Sz) (i j : N) (q : qid) (c : cid) n ops :
  Forall (nop_good Sz Hh) ops -> Forall (nop_wf Sz) ops ->
  let s := fst (nrun Sz Hh (net_init n) ops) in
  live_query i q c s -> Net.connected s i j = true ->
  (exists st d, store_of s j = Some st /\ store_get st c = SHit d) ->
  let r1 := settle Sz Hh s in
  let r2 := refresh Sz Hh (fst r1) in
  quietb (fst r1) = true -> quietb (fst r2) = true -> (length (wl_i i (fst r1)) <= 1024)%nat ->
  answered i q (snd r1 ++ snd r2).
Proof. exact (Net_props.C02_direct Sz Hh HSz i j q c n ops). Qed.

Theorem C02_multi_hop (Sz : N) (Hh : hash_fn) (HSz : 32 <= Sz) (i j k : N) (qi qj : qid) (c : cid) n ops :
  Forall (nop_good Sz Hh) ops -> Forall (nop_wf Sz) ops ->
  let s := fst (nrun Sz Hh (net_init n) ops) in
  live_query i qi c s -> live_query j qj c s ->
  Net.connected s i j = true -> Net.connected s j k = true ->
  (exists st d, store_of s k = Some st /\ store_get st c = SHit d) ->
  let r1 := settle Sz Hh s in
  let r2 := refresh Sz Hh (fst r1) in
  let r3 := refresh Sz Hh (fst r2) in
  quietb (fst r1) = true -> quietb (fst r2) = true -> quietb (fst r3) = true ->
  (length (wl_i j (fst r1)) <= 1024)%nat -> (length (wl_i i (fst r2)) <= 1024)%nat ->
  answered i qi (snd r1 ++ snd r2 ++ snd r3).
Proof. exact (Net_props.C02_multi_hop Sz Hh HSz i j k qi qj c n ops). Qed.

Theorem C02_reachable_ok (Sz : N) (Hh : hash_fn) (HSz : 32 <= Sz) n ops :
  Forall (nop_good Sz Hh) ops -> Forall (nop_wf Sz) ops ->
  net_ok Sz Hh (fst (nrun Sz Hh (net_init n) ops)) /\ net_wf Sz (fst (nrun Sz Hh (net_init n) ops)).
Proof. exact (Net_props.C02_reachable_ok Sz Hh HSz n ops). Qed.


(* two nodes, B holds c, A asks: answered after one settle *)
Theorem C02_scenario_direct : obs ex_direct = ([EResponse 0 0 d1], true).
Proof. exact ex_direct_events. Qed.
(* get before connect *)
Theorem C02_scenario_get_before_connect : obs ex_get_first_a = ([], true) /\ obs ex_get_first = ([EResponse 0 0 d1], true).
Proof. exact ex_get_first_events. Qed.
(* two concurrent queries for one CID: both answered *)
Theorem C02_scenario_concurrent : obs ex_concurrent = ([EResponse 0 0 d1; EResponse 0 1 d1], true).
Proof. exact ex_concurrent_events. Qed.
(* fetched earlier, evicted locally, asked again (F6): answered again *)
Theorem C02_scenario_refetch_after_eviction : obs ex_refetch = ([EResponse 0 0 d1; EResponse 0 1 d1], true).
Proof. exact ex_refetch_events. Qed.
(* the holder's application puts the block after the want missed (F15): answered one refresh later *)
Theorem C02_scenario_late_local_put : obs ex_late_put_a = ([], true) /\ obs ex_late_put = ([EResponse 0 0 d1], true).
Proof. exact ex_late_put_events. Qed.
(* cancel of one of two queries: the other one is still answered *)
Theorem C02_scenario_cancel_one_of_two : obs ex_cancel_a = ([], true) /\ obs ex_cancel = ([EResponse 0 1 d1], true).
Proof. exact ex_cancel_events. Qed.
(* a node that does not itself want the block does not relay it *)
Theorem C02_scenario_no_relay_without_own_query : obs ex_chain_no_relay = ([], true).
Proof. exact ex_chain_no_relay_events. Qed.

Print Assumptions C02_direct.
Print Assumptions C02_multi_hop.
Print Assumptions C02_reachable_ok.
Print Assumptions C02_scenario_direct.
Print Assumptions C02_scenario_get_before_connect.
Print Assumptions C02_scenario_concurrent.
Print Assumptions C02_scenario_refetch_after_eviction.
Print Assumptions C02_scenario_late_local_put.
Print Assumptions C02_scenario_cancel_one_of_two.
Print Assumptions C02_scenario_no_relay_without_own_query.

Example C02_direct_is_not_vacuous := Net_props.C02_direct_nonvacuous.
Example C02_multi_hop_is_not_vacuous := Net_props.C02_multi_hop_nonvacuous.

(* ---- quiet really means quiet (package G, Net_proofs22): a quiet reachable net stays quiet under a further fair round, the
   round is silent and `settle` is the identity on it.  NOT proved: that `settle`'s explicit fuel always suffices
   (`settle_terminates`); the theorems above therefore keep `quietb (fst (settle s)) = true` as a hypothesis checked on the
   result (58 000 random runs and chains up to 10 hops always ended quiet, with slack >= 22 rounds). *)
From BS Require Import Net Net_proofs Net_proofs2 Net_proofs5 Net_proofs7 Net_proofs9 Net_proofs10 Net_proofs13 Net_props Net_proofs14 Net_proofs15 Net_proofs16 Net_proofs17 Net_proofs18 Net_proofs19 Net_proofs20 Net_proofs21 Net_proofs22 Server Server_inv Net_props2.
From Coq Require Import ZArith Lia.
Open Scope N_scope.

Theorem settle_terminates_partial :
  forall (Sz : N) (Hh : hash_fn),
  32 <= Sz ->
  forall s : net,
  net_ok Sz Hh s ->
  quietb s = true ->
  quietb (fst (round Sz Hh s)) = true /\ snd (round Sz Hh s) = [] /\ settle Sz Hh s = (s, []).
Proof. exact (@Net_props2.settle_terminates_partial). Qed.

Print Assumptions settle_terminates_partial.

(* ---- the fair round terminates (package J, Net_proofs23..28).  An explicit potential `Phi` (a weighted count of the work
   in the net) is never raised by a schedule step and strictly lowered by every fair round of a net that is not quiet, so the
   loop of `settle` reaches a quiet net within `Phi s` rounds, for every reachable net — and Net.v's `settle` (concrete fuel
   `settle_fuel s`) ends quiet whenever `Phi s <= settle_fuel s`, a condition on the START state decidable by computation.
   `Phi <= settle_fuel` does not hold for every reachable net (Net_props3.J_fuel_not_covered_by_Phi: Phi counts schedule
   steps, the fuel counts rounds), so the `quietb` hypotheses of C02_direct etc. stay, checked on the result. *)
From BS Require Import Net Net_proofs Net_proofs2 Net_proofs5 Net_proofs6 Net_proofs7 Net_proofs9 Net_props
  Net_proofs23 Net_proofs24 Net_proofs27 Net_proofs28 Net_props3.
From Coq Require Import ZArith Lia.
Open Scope N_scope.

Theorem J_reachable_live :
  forall (Sz : N) (Hh : hash_fn),
  32 <= Sz ->
  forall (n : nat) (ops : list nop),
  Forall (nop_good Sz Hh) ops -> Forall (nop_wf Sz) ops -> net_live (fst (nrun Sz Hh (net_init n) ops)).
Proof. exact (@Net_props3.J_reachable_live). Qed.

Theorem J_step_monotone :
  forall (Sz : N) (Hh : hash_fn),
  32 <= Sz ->
  forall (n : nat) (ops : list nop) (o : nop),
  Forall (nop_good Sz Hh) ops ->
  Forall (nop_wf Sz) ops ->
  sched o -> let s := fst (nrun Sz Hh (net_init n) ops) in (Phi (fst (nstep Sz Hh s o)) <= Phi s)%nat.
Proof. exact (@Net_props3.J_step_monotone). Qed.

Theorem J_round_decreases :
  forall (Sz : N) (Hh : hash_fn),
  32 <= Sz ->
  forall (n : nat) (ops : list nop),
  Forall (nop_good Sz Hh) ops ->
  Forall (nop_wf Sz) ops ->
  let s := fst (nrun Sz Hh (net_init n) ops) in quietb s = false -> (Phi (fst (round Sz Hh s)) < Phi s)%nat.
Proof. exact (@Net_props3.J_round_decreases). Qed.

Theorem settle_loop_terminates :
  forall (Sz : N) (Hh : hash_fn),
  32 <= Sz ->
  forall (n : nat) (ops : list nop) (k : nat),
  Forall (nop_good Sz Hh) ops ->
  Forall (nop_wf Sz) ops ->
  let s := fst (nrun Sz Hh (net_init n) ops) in
  (Phi s <= k)%nat -> quietb (fst (settle_loop Sz Hh k s)) = true.
Proof. exact (@Net_props3.settle_loop_terminates). Qed.

Theorem settle_terminates_partial2 :
  forall (Sz : N) (Hh : hash_fn),
  32 <= Sz ->
  forall (n : nat) (ops : list nop),
  Forall (nop_good Sz Hh) ops ->
  Forall (nop_wf Sz) ops ->
  let s := fst (nrun Sz Hh (net_init n) ops) in
  exists k : nat, (k <= Phi s)%nat /\ quietb (fst (settle_loop Sz Hh k s)) = true.
Proof. exact (@Net_props3.settle_terminates_partial2). Qed.

Theorem settle_terminates_covered :
  forall (Sz : N) (Hh : hash_fn),
  32 <= Sz ->
  forall (n : nat) (ops : list nop),
  Forall (nop_good Sz Hh) ops ->
  Forall (nop_wf Sz) ops ->
  let s := fst (nrun Sz Hh (net_init n) ops) in
  (Phi s <= settle_fuel s)%nat -> quietb (fst (settle Sz Hh s)) = true.
Proof. exact (@Net_props3.settle_terminates_covered). Qed.

Theorem refresh_terminates_covered :
  forall (Sz : N) (Hh : hash_fn),
  32 <= Sz ->
  forall (n : nat) (ops : list nop) (ms : N),
  Forall (nop_good Sz Hh) ops ->
  Forall (nop_wf Sz) ops ->
  let s := advance Sz Hh ms (fst (nrun Sz Hh (net_init n) ops)) in
  (Phi s <= settle_fuel s)%nat -> quietb (fst (settle Sz Hh s)) = true.
Proof. exact (@Net_props3.refresh_terminates_covered). Qed.

Print Assumptions J_reachable_live.
Print Assumptions J_step_monotone.
Print Assumptions J_round_decreases.
Print Assumptions settle_loop_terminates.
Print Assumptions settle_terminates_partial2.
Print Assumptions settle_terminates_covered.
Print Assumptions refresh_terminates_covered.

(* ---- UNCONDITIONAL forms (package J, Net_proofs32): with the fair round run on the proved-sufficient fuel
   (`settle_phi s := settle_loop (Phi s) s`, `refresh_phi` = advance 30 s then settle_phi) the hypotheses "the round ended
   quiet" disappear: settle_phi / refresh_phi always end quiet on reachable nets, and C02_direct / C02_multi_hop hold for them
   with no fairness side condition left (only: put blocks hash to their CID, asked CIDs well-formed, wantlist <= 1024).
   Whenever Net.v's `settle` (concrete fuel) ends quiet it IS settle_phi (settle_quiet_agrees), so the statements above
   are instances. *)
From BS Require Import Net Net_proofs Net_proofs2 Net_proofs5 Net_proofs6 Net_proofs7 Net_proofs9 Net_proofs10 Net_props Net_props2
  Net_proofs23 Net_proofs24 Net_proofs27 Net_proofs28 Net_proofs32 Server Server_inv Net_props3.
From Coq Require Import ZArith Lia.
Open Scope N_scope.

Theorem settle_phi_quiet :
  forall (Sz : N) (Hh : hash_fn),
  32 <= Sz ->
  forall (n : nat) (ops : list nop),
  Forall (nop_good Sz Hh) ops ->
  Forall (nop_wf Sz) ops ->
  let s := fst (nrun Sz Hh (net_init n) ops) in
  let r1 := settle_phi Sz Hh s in
  let r2 := refresh_phi Sz Hh (fst r1) in quietb (fst r1) = true /\ quietb (fst r2) = true.
Proof. exact (@Net_props3.settle_phi_quiet). Qed.

Theorem settle_quiet_agrees :
  forall (Sz : N) (Hh : hash_fn),
  32 <= Sz ->
  forall (n : nat) (ops : list nop),
  Forall (nop_good Sz Hh) ops ->
  Forall (nop_wf Sz) ops ->
  let s := fst (nrun Sz Hh (net_init n) ops) in
  quietb (fst (settle Sz Hh s)) = true -> settle Sz Hh s = settle_phi Sz Hh s.
Proof. exact (@Net_props3.settle_quiet_agrees). Qed.

Theorem refresh_quiet_agrees :
  forall (Sz : N) (Hh : hash_fn),
  32 <= Sz ->
  forall (n : nat) (ops : list nop),
  Forall (nop_good Sz Hh) ops ->
  Forall (nop_wf Sz) ops ->
  let s := fst (nrun Sz Hh (net_init n) ops) in
  let r1 := settle Sz Hh s in
  quietb (fst r1) = true ->
  quietb (fst (refresh Sz Hh (fst r1))) = true ->
  r1 = settle_phi Sz Hh s /\ refresh Sz Hh (fst r1) = refresh_phi Sz Hh (fst (settle_phi Sz Hh s)).
Proof. exact (@Net_props3.refresh_quiet_agrees). Qed.

Theorem C02_direct_phi :
  forall (Sz : N) (Hh : hash_fn),
  32 <= Sz ->
  forall (i j : N) (q : qid) (c : cid) (n : nat) (ops : list nop),
  Forall (nop_good Sz Hh) ops ->
  Forall (nop_wf Sz) ops ->
  let s := fst (nrun Sz Hh (net_init n) ops) in
  live_query i q c s ->
  Net.connected s i j = true ->
  (exists (st : list (cid * bytes)) (d : bytes), store_of s j = Some st /\ store_get st c = SHit d) ->
  let r1 := settle_phi Sz Hh s in
  let r2 := refresh_phi Sz Hh (fst r1) in
  (length (wl_i i (fst r1)) <= 1024)%nat -> answered i q (snd r1 ++ snd r2).
Proof. exact (@Net_props3.C02_direct_phi). Qed.

Theorem C02_multi_hop_phi :
  forall (Sz : N) (Hh : hash_fn),
  32 <= Sz ->
  forall (i j k : N) (qi qj : qid) (c : cid) (n : nat) (ops : list nop),
  Forall (nop_good Sz Hh) ops ->
  Forall (nop_wf Sz) ops ->
  let s := fst (nrun Sz Hh (net_init n) ops) in
  live_query i qi c s ->
  live_query j qj c s ->
  Net.connected s i j = true ->
  Net.connected s j k = true ->
  (exists (st : list (cid * bytes)) (d : bytes), store_of s k = Some st /\ store_get st c = SHit d) ->
  let r1 := settle_phi Sz Hh s in
  let r2 := refresh_phi Sz Hh (fst r1) in
  let r3 := refresh_phi Sz Hh (fst r2) in
  (length (wl_i j (fst r1)) <= 1024)%nat ->
  (length (wl_i i (fst r2)) <= 1024)%nat -> answered i qi (snd r1 ++ snd r2 ++ snd r3).
Proof. exact (@Net_props3.C02_multi_hop_phi). Qed.

Print Assumptions settle_phi_quiet.
Print Assumptions settle_quiet_agrees.
Print Assumptions refresh_quiet_agrees.
Print Assumptions C02_direct_phi.
Print Assumptions C02_multi_hop_phi.

(* ---- the fair round of Net.v itself terminates (package J, Net_proofs29..36): from every reachable net `settle` — with its
   own concrete fuel — ends quiet, and so does the refresh after it; hence C02_direct and C02_multi_hop hold with NO fairness
   side condition left: the only hypotheses are that blocks put by the application hash to their CID, that asked CIDs are
   well-formed and that the requester's wantlist is within the server's 1024 cap. *)
From BS Require Import Net Net_proofs Net_proofs2 Net_proofs5 Net_proofs6 Net_proofs7 Net_proofs9 Net_proofs10 Net_props Net_props2
  Net_proofs23 Net_proofs24 Net_proofs27 Net_proofs28 Net_proofs29 Net_proofs31 Net_proofs32 Net_proofs34 Net_proofs35 Net_proofs36 Server Server_inv Net_props3.
From Coq Require Import ZArith Lia.
Open Scope N_scope.

Theorem settle_terminates :
  forall (Sz : N) (Hh : hash_fn),
  32 <= Sz ->
  forall (n : nat) (ops : list nop),
  Forall (nop_good Sz Hh) ops ->
  Forall (nop_wf Sz) ops -> let s := fst (nrun Sz Hh (net_init n) ops) in quietb (fst (settle Sz Hh s)) = true.
Proof. exact (@Net_props3.settle_terminates). Qed.

Theorem refresh_terminates :
  forall (Sz : N) (Hh : hash_fn),
  32 <= Sz ->
  forall (n : nat) (ops : list nop),
  Forall (nop_good Sz Hh) ops ->
  Forall (nop_wf Sz) ops ->
  let s := fst (nrun Sz Hh (net_init n) ops) in
  let r1 := settle Sz Hh s in quietb (fst r1) = true /\ quietb (fst (refresh Sz Hh (fst r1))) = true.
Proof. exact (@Net_props3.refresh_terminates). Qed.

Theorem C02_direct_unconditional :
  forall (Sz : N) (Hh : hash_fn),
  32 <= Sz ->
  forall (i j : N) (q : qid) (c : cid) (n : nat) (ops : list nop),
  Forall (nop_good Sz Hh) ops ->
  Forall (nop_wf Sz) ops ->
  let s := fst (nrun Sz Hh (net_init n) ops) in
  live_query i q c s ->
  Net.connected s i j = true ->
  (exists (st : list (cid * bytes)) (d : bytes), store_of s j = Some st /\ store_get st c = SHit d) ->
  let r1 := settle Sz Hh s in
  let r2 := refresh Sz Hh (fst r1) in
  (length (wl_i i (fst r1)) <= 1024)%nat -> answered i q (snd r1 ++ snd r2).
Proof. exact (@Net_props3.C02_direct_unconditional). Qed.

Theorem C02_multi_hop_unconditional :
  forall (Sz : N) (Hh : hash_fn),
  32 <= Sz ->
  forall (i j k : N) (qi qj : qid) (c : cid) (n : nat) (ops : list nop),
  Forall (nop_good Sz Hh) ops ->
  Forall (nop_wf Sz) ops ->
  let s := fst (nrun Sz Hh (net_init n) ops) in
  live_query i qi c s ->
  live_query j qj c s ->
  Net.connected s i j = true ->
  Net.connected s j k = true ->
  (exists (st : list (cid * bytes)) (d : bytes), store_of s k = Some st /\ store_get st c = SHit d) ->
  let r1 := settle Sz Hh s in
  let r2 := refresh Sz Hh (fst r1) in
  let r3 := refresh Sz Hh (fst r2) in
  (length (wl_i j (fst r1)) <= 1024)%nat ->
  (length (wl_i i (fst r2)) <= 1024)%nat -> answered i qi (snd r1 ++ snd r2 ++ snd r3).
Proof. exact (@Net_props3.C02_multi_hop_unconditional). Qed.

Print Assumptions settle_terminates.
Print Assumptions refresh_terminates.
Print Assumptions C02_direct_unconditional.
Print Assumptions C02_multi_hop_unconditional.

(* ---- "over several connections to the same peer" (package N): Net.v has one connection per pair; every node's client
   history in a net run is a one-connection history, a fixed point of package N's projection — and by
   Props_C15.C15_trace_connection_independence a client with further fault-free connections to its peers sends exactly
   the wantlists of that one-connection history. *)
From BS Require Import Types Wantlist Client Client_proofs Client_proofs10 Client_proofs14 Net Net_proofs40 Client_proofs15.
From Coq Require Import ZArith List. Import ListNotations.
Open Scope N_scope.

Theorem C15_net_histories_one_connection :
  forall (Sz : N) (Hh : hash_fn) (n : nat) (ops : list nop) (i : N),
  let h := cops_run Sz Hh (net_init n) ops i in
  forallb (op_single KN) h = true /\
  single_conn_state KN (st_after true h) /\
  churn_ok true h = true /\
  st_after true (project KN true h) = st_after true h /\
  filter not_bad (outs_after true (project KN true h)) = filter not_bad (outs_after true h) /\
  (forall (p : peer) (c : conn) (f : bool) (es : list gen_entry),
   In (OSendWantlist p c f es) (outs_after true h) -> c = CONN).
Proof. exact (@Client_proofs15.C15_net_histories_one_connection). Qed.

Print Assumptions C15_net_histories_one_connection.

(* ---- replies lost while the connection stays up (package S, NetB.v = Net.v + BLoseB j i: the oldest block batch in flight from j to i vanishes — the
   Rust fact: after start_send a stream error drops the FramedWrite with its buffer, the behaviour has already taken the wants off its books).  Net.v's
   invariant RI survives such a loss (unlike a failed wantlist, package P), so settle terminates and C02's statement holds verbatim for runs with any
   number of lost replies: the requester's next full wantlist re-registers the want and the server looks the block up again.  The refresh is necessary
   (refuted without it). *)
From BS Require Import Server_lemmas Server_inv Wantlist_proofs Client_proofs Client_proofs2 Client_proofs3 Client_proofs4
  Net Net_proofs Net_proofs2 Net_proofs3 Net_proofs4 Net_proofs5 Net_proofs6 Net_proofs7 Net_proofs9 Net_proofs10 Net_proofs14
  Net_proofs24 Net_proofs28 Net_proofs32 Net_proofs35 Net_proofs36
  NetB NetB_proofs NetB_proofs2 NetB_proofs3 NetB_proofs4 NetB_proofs5 NetB_proofs6.
From BS Require Import NetB_props.
From Coq Require Import ZArith Lia.
Open Scope N_scope.

Theorem C02_net_invariant_survives_lost_replies :
  forall (Sz : N) (Hh : hash_fn),
  32 <= Sz ->
  forall (n : nat) (ops : list bop),
  Forall (nop_good Sz Hh) (base_ops ops) ->
  Forall (nop_wf Sz) (base_ops ops) -> RI Sz Hh (fst (brun Sz Hh (net_init n) ops)).
Proof. exact (@NetB_props.S_reachableB_RI). Qed.

Theorem C02_settle_terminates_with_block_loss :
  forall (Sz : N) (Hh : hash_fn),
  32 <= Sz ->
  forall (n : nat) (ops : list bop),
  Forall (nop_good Sz Hh) (base_ops ops) ->
  Forall (nop_wf Sz) (base_ops ops) ->
  let s := fst (brun Sz Hh (net_init n) ops) in
  let r1 := settle Sz Hh s in quietb (fst r1) = true /\ quietb (fst (refresh Sz Hh (fst r1))) = true.
Proof. exact (@NetB_props.S_settle_terminates_B). Qed.

Theorem C02_direct_with_block_loss :
  forall (Sz : N) (Hh : hash_fn),
  32 <= Sz ->
  forall (i j : N) (q : qid) (c : cid) (n : nat) (ops : list bop),
  Forall (nop_good Sz Hh) (base_ops ops) ->
  Forall (nop_wf Sz) (base_ops ops) ->
  let s := fst (brun Sz Hh (net_init n) ops) in
  live_query i q c s ->
  connected s i j = true ->
  (exists (st : list (cid * bytes)) (d : bytes), store_of s j = Some st /\ store_get st c = SHit d) ->
  let r1 := settle Sz Hh s in
  let r2 := refresh Sz Hh (fst r1) in
  (length (wl_i i (fst r1)) <= 1024)%nat -> answered i q (snd r1 ++ snd r2).
Proof. exact (@NetB_props.S_C02_direct_with_block_loss). Qed.

Theorem C14_records_equal_with_block_loss :
  forall (Sz : N) (Hh : hash_fn),
  32 <= Sz ->
  forall (i j : N) (n : nat) (ops : list bop),
  Forall (nop_good Sz Hh) (base_ops ops) ->
  Forall (nop_wf Sz) (base_ops ops) ->
  let s := fst (brun Sz Hh (net_init n) ops) in
  connected s i j = true ->
  let r1 := settle Sz Hh s in
  let r2 := refresh Sz Hh (fst r1) in
  (length (wl_i i (fst r1)) <= 1024)%nat ->
  forall c : cid,
  In c (wl_i i (fst r2)) <-> (exists st : sstate, server_of (fst r2) j = Some st /\ wantsP (s_wants st) i c).
Proof. exact (@NetB_props.S_C14_records_equal_with_block_loss). Qed.

Theorem C02_block_loss_needs_refresh_refuted :
  exists (n : nat) (ops : list bop) (i j : N) (q : qid) (c : cid),
    Forall (nop_good SZ toyH) (base_ops ops) /\
    Forall (nop_wf SZ) (base_ops ops) /\
    (let s := fst (brun SZ toyH (net_init n) ops) in
     live_query i q c s /\
     connected s i j = true /\
     (exists (st : list (cid * bytes)) (d : bytes), store_of s j = Some st /\ store_get st c = SHit d) /\
     (let r1 := settle SZ toyH s in
      quietb (fst r1) = true /\ ~ answered i q (snd r1) /\ live_query i q c (fst r1))).
Proof. exact (@NetB_props.S_C02_block_loss_needs_refresh_refuted). Qed.

Print Assumptions C02_net_invariant_survives_lost_replies.
Print Assumptions C02_settle_terminates_with_block_loss.
Print Assumptions C02_direct_with_block_loss.
Print Assumptions C14_records_equal_with_block_loss.
Print Assumptions C02_block_loss_needs_refresh_refuted.
