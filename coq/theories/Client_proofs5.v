(* Client_proofs5.v — abort handles (C13_query_released), C03_cancel_silences, C03_errors, C03_local_hit_no_want. *)
From BS Require Import Types Wantlist Wantlist_proofs Client Client_proofs Client_proofs2 Client_proofs3 Client_proofs4.
From Coq Require Import ZArith ZifyBool ZifyN ZifyNat Lia Permutation.
Open Scope N_scope.

(* ---------- poll_next keeps every task but the one that finished ---------- *)
Definition tasks_kept (ts ts' : list (N * task)) (res : option task_result) : Prop :=
  forall tid t, In (tid, t) ts ->
    (exists t', In (tid, t') ts' /\ same_task t t') \/
    (exists r, res = Some r /\ result_of t r /\ ~ In tid (map fst ts')).

Lemma poll_next_kept rq ts nc :
  let '(ts', rq', nc', outs, res) := poll_next rq ts nc in
  NoDup (map fst ts) -> tasks_kept ts ts' res.
Proof.
  apply (poll_next_ind (fun rq ts nc ts' rq' nc' outs res => NoDup (map fst ts) -> tasks_kept ts ts' res)).
  - intros ts0 nc0 _ tid t Hin. left. exists t. split; [assumption | apply same_task_refl].
  - intros tid rq0 ts0 nc0 ts' rq' nc' outs res _ H. exact H.
  - intros tid rq0 ts0 nc0 t r Hf Hp Hnd k t0 Hin. destruct (N.eq_dec k tid) as [->|Hne].
    + right. exists r. split; [reflexivity|].
      assert (t0 = t) by (apply (al_find_some_in _ Neqb_spec) in Hf; eapply NoDup_keys_in_eq; eassumption). subst t0.
      split; [apply (poll_task_ready _ _ _ Hp)|]. intros H. apply (al_remove_keys _ Neqb_spec) in H. destruct H as [_ H]. congruence.
    + left. exists t0. split; [|apply same_task_refl]. unfold al_remove. apply filter_In. split; [assumption|].
      cbn [fst]. apply negb_true_iff, N.eqb_neq. congruence.
  - intros tid rq0 ts0 nc0 t o ts' rq' nc' outs res Hf Hp IH Hnd k t0 Hin.
    assert (Hnd' : NoDup (map fst (al_modify N.eqb tid (start_task nc0) ts0))) by (rewrite al_modify_keys; exact Hnd).
    assert (Hin' : exists t1, In (k, t1) (al_modify N.eqb tid (start_task nc0) ts0) /\ same_task t0 t1).
    { exists (if tid =? k then start_task nc0 t0 else t0). split.
      - unfold al_modify. apply in_map_iff. exists (k, t0). split; [|assumption]. cbn [fst snd]. destruct (tid =? k); reflexivity.
      - destruct (tid =? k); [repeat split; reflexivity | apply same_task_refl]. }
    destruct Hin' as (t1 & Hin1 & Hs1). destruct (IH Hnd' k t1 Hin1) as [(t' & Hin2 & Hs2) | (r & Hr & Hres & Hn)].
    + left. exists t'. split; [assumption | eapply same_task_trans; eassumption].
    + right. exists r. split; [assumption|]. split; [|assumption].
      destruct Hs1 as (K1 & R1 & A1). destruct r as [q c res0|ok bl|]; cbn [result_of] in *.
      * destruct Hres as (A & B & C). repeat split; congruence.
      * destruct Hres as (A & res0 & B & C). split; [congruence|]. exists res0. split; [congruence | assumption].
      * destruct Hres as (A & q & c & B). split; [congruence|]. exists q, c. congruence.
Qed.

Lemma after_tasks_kept s : NoDup (map fst (cs_tasks s)) -> tasks_kept (cs_tasks s) (cs_tasks (after_tasks s)) (tasks_res s).
Proof.
  unfold after_tasks, tasks_res. pose proof (poll_next_kept (cs_ready s) (cs_tasks s) (cs_next_call s)) as H.
  destruct (poll_next (cs_ready s) (cs_tasks s) (cs_next_call s)) as [[[[ts rq] nc] outs] res]. exact H.
Qed.

(* ---------- abort handles = pending, not cancelled, get lookups ---------- *)
Definition handles_ok (abort : list (qid * N)) (ts : list (N * task)) : Prop :=
  forall q tid, In (q, tid) abort <-> exists c t, In (tid, t) ts /\ t_kind t = TGet q c /\ t_aborted t = false.

Definition INVH (s : cstate) : Prop :=
  INVT s /\ NoDup (map fst (cs_abort s)) /\ handles_ok (cs_abort s) (cs_tasks s) /\
  (forall tid t q c, In (tid, t) (cs_tasks s) -> t_kind t = TGet q c -> q < cs_next_qid s).

Lemma handles_ok_modify abort ts tid f :
  (forall t, t_kind (f t) = t_kind t /\ t_aborted (f t) = t_aborted t) ->
  handles_ok abort ts -> handles_ok abort (al_modify N.eqb tid f ts).
Proof.
  intros Hf H q k. specialize (H q k). split.
  - intros Hq. apply H in Hq. destruct Hq as (c & t & Hin & Hk & Ha). exists c, (if tid =? k then f t else t). split.
    + unfold al_modify. apply in_map_iff. exists (k, t). split; [|assumption]. cbn [fst snd]. destruct (tid =? k); reflexivity.
    + destruct (tid =? k); [destruct (Hf t) as [-> ->]|]; auto.
  - intros (c & t' & Hin & Hk & Ha). apply H. apply in_al_modify in Hin. destruct Hin as (t & Hin & ->). exists c, t. split; [assumption|].
    destruct (tid =? k); [destruct (Hf t) as [E1 E2]; rewrite E1 in Hk; rewrite E2 in Ha|]; auto.
Qed.

Lemma INVH_same s s' :
  cs_tasks s' = cs_tasks s -> cs_abort s' = cs_abort s -> cs_next_task s' = cs_next_task s -> cs_next_qid s' = cs_next_qid s ->
  INVH s -> INVH s'.
Proof.
  intros E1 E2 E3 E4 (HT & Hnd & Hh & Hb). unfold INVH, INVT. rewrite E1, E2, E3, E4. auto.
Qed.

Lemma al_set_absent {V} k (v : V) (m : list (N * V)) :
  ~ In k (map fst m) -> al_set N.eqb k v m = m ++ [(k, v)].
Proof.
  intros Hn. unfold al_set. destruct (al_mem N.eqb k m) eqn:M; [|reflexivity].
  apply (al_mem_In _ Neqb_spec) in M. contradiction.
Qed.

Lemma INVH_get s oc : INVH s -> INVH (fst (c_get s oc)).
Proof.
  intros (HT & Hnd & Hh & Hb). unfold c_get. destruct oc as [c|]; cbn [fst].
  - set (q := cs_next_qid s). set (tid := cs_next_task s).
    assert (Hq : ~ In q (map fst (cs_abort s))).
    { intros H. apply in_map_iff in H. destruct H as ([q' tid'] & E & Hin). cbn [fst] in E. subst q'.
      apply Hh in Hin. destruct Hin as (c' & t & Hin & Hk & _). specialize (Hb _ _ _ _ Hin Hk). unfold q in Hb. lia. }
    assert (Htid : ~ In tid (map fst (cs_tasks s))) by (intros H; apply (proj2 HT) in H; unfold tid in H; lia).
    split; [|split; [|split]].
    + apply (INVT_same (push_task (bump_qid s) (TGet q c))); auto. apply INVT_push. exact HT.
    + cbn [set_abort push_task bump_qid cs_abort cs_next_task]. rewrite al_set_absent by exact Hq.
      rewrite map_app. apply NoDup_snoc; assumption.
    + cbn [set_abort push_task bump_qid cs_abort cs_tasks cs_next_task]. rewrite al_set_absent by exact Hq.
      intros q' tid'. rewrite in_app_iff. split.
      * intros [H | [[= <- <-] | []]].
        -- apply Hh in H. destruct H as (c' & t & Hin & Hk & Ha). exists c', t. split; [apply in_app_iff; auto | auto].
        -- exists c, (MkTask (TGet q c) None None false). split; [apply in_app_iff; right; left; reflexivity | auto].
      * intros (c' & t & Hin & Hk & Ha). apply in_app_iff in Hin. destruct Hin as [Hin | [[= <- <-] | []]].
        -- left. apply Hh. eauto.
        -- right. left. cbn in Hk. injection Hk as <- _. reflexivity.
    + cbn [set_abort push_task bump_qid cs_tasks cs_next_qid]. intros k t q' c' Hin Hk.
      apply in_app_iff in Hin. destruct Hin as [Hin | [[= <- <-] | []]].
      * specialize (Hb _ _ _ _ Hin Hk). lia.
      * cbn in Hk. injection Hk as <- _. unfold q. lia.
  - split; [exact HT|]. split; [exact Hnd|]. split; [exact Hh|]. cbn. intros k t q' c' Hin Hk. specialize (Hb _ _ _ _ Hin Hk). lia.
Qed.

Lemma INVH_cancel_abort s q : INVH s -> INVH (cancel_abort s q).
Proof.
  intros (HT & Hnd & Hh & Hb). unfold cancel_abort.
  destruct (al_find N.eqb q (cs_abort s)) as [tid|] eqn:Ef; [|exact (conj HT (conj Hnd (conj Hh Hb)))].
  apply (al_find_some_in _ Neqb_spec) in Ef.
  unfold abort_task. cbn [set_abort cs_tasks].
  destruct (al_mem N.eqb tid (cs_tasks s)) eqn:M.
  - destruct HT as [HndT HltT]. split; [|split; [|split]].
    + split; cbn [set_tasks set_abort cs_tasks cs_next_task]; rewrite al_modify_keys; assumption.
    + cbn [set_tasks set_abort cs_abort]. apply al_remove_NoDup. exact Hnd.
    + cbn [set_tasks set_abort cs_abort cs_tasks]. intros q' tid'. split.
      * intros Hin. unfold al_remove in Hin. apply filter_In in Hin. destruct Hin as [Hin Hne]. cbn [fst] in Hne.
        apply negb_true_iff, N.eqb_neq in Hne. apply Hh in Hin. destruct Hin as (c & t & Hin & Hk & Ha).
        assert (tid' <> tid).
        { intros ->. apply Hh in Ef. destruct Ef as (c0 & t0 & Hin0 & Hk0 & _).
          assert (t0 = t) by (eapply NoDup_keys_in_eq; eassumption). subst. congruence. }
        exists c, t. split; [|auto]. unfold al_modify. apply in_map_iff. exists (tid', t). split; [|assumption].
        cbn [fst snd]. destruct (tid =? tid') eqn:E; [apply N.eqb_eq in E; congruence | reflexivity].
      * intros (c & t' & Hin & Hk & Ha). apply in_al_modify in Hin. destruct Hin as (t & Hin & ->).
        destruct (tid =? tid') eqn:E; [cbn in Ha; discriminate|]. apply N.eqb_neq in E.
        assert (Hq' : In (q', tid') (cs_abort s)) by (apply Hh; eauto).
        unfold al_remove. apply filter_In. split; [assumption|]. cbn [fst]. apply negb_true_iff, N.eqb_neq.
        intros ->. apply E. symmetry. eapply NoDup_keys_in_eq; eassumption.
    + cbn [set_tasks set_abort cs_tasks cs_next_qid]. intros k t' q' c Hin Hk. apply in_al_modify in Hin.
      destruct Hin as (t & Hin & ->). eapply Hb; [exact Hin|]. destruct (tid =? k); exact Hk.
  - (* the handle names a task that is gone: impossible, but harmless *)
    exfalso. apply Hh in Ef. destruct Ef as (c & t & Hin & _). apply (in_map fst) in Hin. apply (al_mem_In _ Neqb_spec) in Hin.
    cbn [fst] in Hin. congruence.
Qed.

Lemma INVH_cancel s q : INVH s -> INVH (c_cancel s q).
Proof.
  intros H. rewrite c_cancel_unfold. cbv zeta. pose proof (INVH_cancel_abort s q H) as H1.
  destruct (find_query q (cs_c2q (cancel_abort s q))) as [[c qs]|]; [destruct (swap_remove_q q qs)|]; try exact H1;
    apply (INVH_same (cancel_abort s q)); auto.
Qed.

Lemma handles_ok_push abort ts tid bl :
  handles_ok abort ts -> handles_ok abort (ts ++ [(tid, MkTask (TPut bl) None None false)]).
Proof.
  intros H q k. specialize (H q k). split.
  - intros Hq. apply H in Hq. destruct Hq as (c & t & Hin & Hk & Ha). exists c, t. split; [apply in_app_iff; auto | auto].
  - intros (c & t & Hin & Hk & Ha). apply H. apply in_app_iff in Hin. destruct Hin as [Hin | [[= <- <-] | []]]; [eauto | discriminate].
Qed.

Lemma INVH_incoming s p pres blocks : INVH s -> INVH (fst (c_incoming s p pres blocks)).
Proof.
  intros (HT & Hnd & Hh & Hb). unfold c_incoming. destruct (al_find N.eqb p (cs_peers s)) as [ps|]; [|exact (conj HT (conj Hnd (conj Hh Hb)))].
  match goal with |- context [ia_panic ?a] => destruct (ia_panic a); [|destruct (ia_new a) as [|b nb]] end; cbn [fst].
  - exact (conj HT (conj Hnd (conj Hh Hb))).
  - exact (conj HT (conj Hnd (conj Hh Hb))).
  - split; [|split; [|split]].
    + match goal with |- INVT (push_task ?s1 ?k) => apply (INVT_push s1 k); exact HT end.
    + exact Hnd.
    + unfold push_task. cbn [cs_abort cs_tasks]. apply handles_ok_push. exact Hh.
    + unfold push_task. cbn [cs_tasks cs_next_qid]. intros k t q c Hin Hk. apply in_app_iff in Hin.
      destruct Hin as [Hin | [[= <- <-] | []]]; [eapply Hb; eassumption | discriminate].
Qed.

Lemma INVH_release s call r : INVH s -> INVH (c_release s call r).
Proof.
  intros (HT & Hnd & Hh & Hb). unfold c_release. destruct (find (call_is call) (cs_tasks s)) as [[tid t0]|]; [|exact (conj HT (conj Hnd (conj Hh Hb)))].
  split; [|split; [|split]].
  - apply INVT_modify. exact HT.
  - exact Hnd.
  - cbn [set_tasks cs_abort cs_tasks]. apply handles_ok_modify; [intros t; split; reflexivity | exact Hh].
  - cbn [set_tasks cs_tasks cs_next_qid]. intros k t' q c Hin Hk. apply in_al_modify in Hin. destruct Hin as (t & Hin & ->).
    eapply Hb; [exact Hin|]. destruct (tid =? k); exact Hk.
Qed.

Lemma result_of_same t0 t r : same_task t0 t -> result_of t r -> result_of t0 r.
Proof.
  intros (K1 & R1 & A1) Hres. destruct r as [q c res0|ok bl|]; cbn [result_of] in *.
  - destruct Hres as (A & B & C). repeat split; congruence.
  - destruct Hres as (A & res0 & B & C). split; [congruence|]. exists res0. split; [congruence | assumption].
  - destruct Hres as (A & q & c & B). split; [congruence|]. exists q, c. congruence.
Qed.

Lemma poll_next_finished rq ts nc :
  let '(ts', rq', nc', outs, res) := poll_next rq ts nc in
  NoDup (map fst ts) ->
  match res with
  | Some r => exists tid t0, In (tid, t0) ts /\ result_of t0 r /\ ~ In tid (map fst ts')
  | None => True
  end.
Proof.
  apply (poll_next_ind (fun rq ts nc ts' rq' nc' outs res =>
    NoDup (map fst ts) ->
    match res with
    | Some r => exists tid t0, In (tid, t0) ts /\ result_of t0 r /\ ~ In tid (map fst ts')
    | None => True
    end)).
  - intros; exact I.
  - intros tid rq0 ts0 nc0 ts' rq' nc' outs res _ H. exact H.
  - intros tid rq0 ts0 nc0 t r Hf Hp Hnd. exists tid, t. split; [apply (al_find_some_in _ Neqb_spec); exact Hf|].
    split; [apply (poll_task_ready _ _ _ Hp)|]. intros H. apply (al_remove_keys _ Neqb_spec) in H. destruct H as [_ H]. congruence.
  - intros tid rq0 ts0 nc0 t o ts' rq' nc' outs res Hf Hp IH Hnd.
    assert (Hnd' : NoDup (map fst (al_modify N.eqb tid (start_task nc0) ts0))) by (rewrite al_modify_keys; exact Hnd).
    specialize (IH Hnd'). destruct res as [r|]; [|exact I]. destruct IH as (k & t1 & Hin1 & Hres & Hn).
    apply in_al_modify in Hin1. destruct Hin1 as (t0 & Hin0 & ->). exists k, t0. split; [assumption|]. split; [|assumption].
    destruct (tid =? k); [|exact Hres]. eapply result_of_same; [|exact Hres]. repeat split; reflexivity.
Qed.

Lemma after_tasks_finished s :
  NoDup (map fst (cs_tasks s)) ->
  match tasks_res s with
  | Some r => exists tid t0, In (tid, t0) (cs_tasks s) /\ result_of t0 r /\ ~ In tid (map fst (cs_tasks (after_tasks s)))
  | None => True
  end.
Proof.
  unfold after_tasks, tasks_res. pose proof (poll_next_finished (cs_ready s) (cs_tasks s) (cs_next_call s)) as H.
  destruct (poll_next (cs_ready s) (cs_tasks s) (cs_next_call s)) as [[[[ts rq] nc] outs] res]. exact H.
Qed.

(* handles after the tasks were polled *)
Lemma handles_keep s :
  INVH s ->
  (forall q c r0, tasks_res s <> Some (TrGet q c r0)) ->
  handles_ok (cs_abort s) (cs_tasks (after_tasks s)).
Proof.
  intros ((HndT & HltT) & Hnd & Hh & Hb) Hnoget.
  destruct (after_tasks_tasks s) as [Hfrom _]. pose proof (after_tasks_kept s HndT) as Hkept.
  intros q k. split.
  - intros Hin. apply Hh in Hin. destruct Hin as (c & t & Hin & Hk & Ha).
    destruct (Hkept _ _ Hin) as [(t' & Hin' & (K & _ & A)) | (r & Hr & Hro & _)].
    + exists c, t'. split; [assumption|]. split; congruence.
    + exfalso. destruct r as [q0 c0 r0|ok bl|]; cbn [result_of] in Hro.
      * eapply Hnoget; exact Hr.
      * destruct Hro as (Hk' & _). congruence.
      * destruct Hro as (Ha' & _). congruence.
  - intros (c & t' & Hin' & Hk & Ha). destruct (Hfrom _ _ Hin') as (t & Hin & (K & _ & A)).
    apply Hh. exists c, t. split; [assumption|]. split; congruence.
Qed.

Lemma handles_drop s q c r0 :
  INVH s -> tasks_res s = Some (TrGet q c r0) ->
  handles_ok (al_remove N.eqb q (cs_abort s)) (cs_tasks (after_tasks s)).
Proof.
  intros ((HndT & HltT) & Hnd & Hh & Hb) Hr.
  destruct (after_tasks_tasks s) as [Hfrom _]. pose proof (after_tasks_kept s HndT) as Hkept.
  pose proof (after_tasks_finished s HndT) as Hfin. rewrite Hr in Hfin. destruct Hfin as (tid & t0 & Hin0 & (Hk0 & _ & Ha0) & Hn0).
  intros q' k. split.
  - intros Hin. unfold al_remove in Hin. apply filter_In in Hin. destruct Hin as [Hin Hne]. cbn [fst] in Hne.
    apply negb_true_iff, N.eqb_neq in Hne. apply Hh in Hin. destruct Hin as (c' & t & Hin & Hk & Ha).
    destruct (Hkept _ _ Hin) as [(t' & Hin' & (K & _ & A)) | (r & Hr' & Hro & _)].
    + exists c', t'. split; [assumption|]. split; congruence.
    + exfalso. rewrite Hr in Hr'. injection Hr' as <-. cbn [result_of] in Hro. destruct Hro as (Hk' & _). congruence.
  - intros (c' & t' & Hin' & Hk & Ha). destruct (Hfrom _ _ Hin') as (t & Hin & (K & _ & A)).
    assert (Hq : In (q', k) (cs_abort s)) by (apply Hh; exists c', t; split; [assumption|]; split; congruence).
    unfold al_remove. apply filter_In. split; [assumption|]. cbn [fst]. apply negb_true_iff, N.eqb_neq. intros ->.
    assert (Hq0 : In (q', tid) (cs_abort s)) by (apply Hh; eauto).
    assert (k = tid) by (eapply NoDup_keys_in_eq; eassumption). subst k.
    apply Hn0. apply (in_map fst) in Hin'. exact Hin'.
Qed.

Lemma INVH_poll_iter ch s : INVH s -> INVH (fst (fst (poll_iter ch s))).
Proof.
  intros HH. pose proof HH as (HT & Hnd & Hh & Hb).
  assert (Hb' : forall tid t q c, In (tid, t) (cs_tasks (after_tasks s)) -> t_kind t = TGet q c -> q < cs_next_qid s).
  { destruct (after_tasks_tasks s) as [Hfrom _]. intros tid t q c Hin Hk.
    destruct (Hfrom _ _ Hin) as (t0 & Hin0 & (K & _)). apply (Hb tid t0 q c Hin0). congruence. }
  destruct (poll_iter_cases ch s) as [(ev & q & Hq & ->) | [(Hq & Ht & ->) | [(r & Hq & Ht & Hr & ->) | (Hq & Ht & Hr & ->)]]];
    cbn [fst snd].
  - apply (INVH_same s); auto.
  - apply (INVH_same s); auto.
  - destruct (after_tasks_frame s) as (_ & _ & _ & _ & F5 & F6 & _ & _ & _ & F10).
    pose proof (INVT_after_tasks s HT) as HT1.
    destruct (handle_result_frame (after_tasks s) r) as (E1 & _ & _ & _ & _ & E6 & _).
    split; [apply (INVT_same (after_tasks s)); auto|].
    rewrite E1, handle_result_next_qid, F6.
    destruct r as [q c r0|ok bl|].
    + assert (Ea : cs_abort (fst (handle_task_result (after_tasks s) (TrGet q c r0))) = al_remove N.eqb q (cs_abort s)).
      { cbn [handle_task_result]. rewrite <- F5. destruct r0; cbn [fst]; try reflexivity.
        destruct (wl_insert (cs_wl (set_abort (after_tasks s) (al_remove N.eqb q (cs_abort (after_tasks s))))) c) as [w' ins]. destruct ins; reflexivity. }
      rewrite Ea. split; [apply al_remove_NoDup; exact Hnd|]. split; [eapply handles_drop; eassumption | exact Hb'].
    + assert (Ea : cs_abort (fst (handle_task_result (after_tasks s) (TrSet ok bl))) = cs_abort s).
      { cbn [handle_task_result]. rewrite <- F5. destruct ok; reflexivity. }
      rewrite Ea. split; [exact Hnd|]. split; [|exact Hb']. apply handles_keep; [exact HH|]. intros q c r0. rewrite Hr. discriminate.
    + assert (Ea : cs_abort (fst (handle_task_result (after_tasks s) TrCancelled)) = cs_abort s).
      { cbn [handle_task_result fst]. exact F5. }
      rewrite Ea. split; [exact Hnd|]. split; [|exact Hb']. apply handles_keep; [exact HH|]. intros q c r0. rewrite Hr. discriminate.
  - destruct (after_tasks_frame s) as (_ & _ & _ & _ & F5 & F6 & _ & _ & _ & F10).
    pose proof (INVT_after_tasks s HT) as HT1.
    destruct (update_handlers_frame (after_tasks s) ch) as (E1 & _ & E3 & _ & E5 & _ & _ & _ & _ & E10 & _).
    split; [apply (INVT_same (after_tasks s)); auto|]. rewrite E1, E3, E5, F5, F6.
    split; [exact Hnd|]. split; [|exact Hb']. apply handles_keep; [exact HH|]. intros q c r0. rewrite Hr. discriminate.
Qed.

Lemma INVH_step s o : INVH s -> INVH (fst (cstep s o)).
Proof.
  intros HH. destruct o; cbn [cstep fst].
  - apply (INVH_same s); auto; unfold c_new_conn; destruct (al_mem N.eqb p (cs_peers s)); reflexivity.
  - apply (INVH_same s); auto; unfold c_conn_closed; destruct (al_find N.eqb p (cs_peers s)); try reflexivity;
      destruct (p_conns (remove_conn c p0)); reflexivity.
  - apply INVH_get, HH.
  - apply INVH_cancel, HH.
  - apply INVH_incoming, HH.
  - apply (INVH_same s); auto.
  - apply INVH_release, HH.
  - apply (INVH_same s); auto.
  - unfold c_poll. apply poll_loop_inv; [apply INVH_poll_iter | exact HH].
  - apply (INVH_same s); auto.
Qed.

Lemma INVH_run sdh ops : INVH (st_after sdh ops).
Proof.
  unfold st_after, crun_sdh. apply crun_inv; [apply INVH_step|].
  split; [split; cbn; [constructor | intros tid []]|]. split; [constructor|]. split; [|intros tid t q c []].
  intros q tid. split; [intros [] | intros (c & t & [] & _)].
Qed.

(* C13_query_released: abort handles are exactly the get lookups that are still pending and were not
   cancelled; the wantlist is exactly the key set of cid_to_queries (no CID without a live query); every
   query listed there is unanswered, has no pending lookup and no queued event, and was issued *)
Theorem C13_query_released sdh ops :
  let s := st_after sdh ops in
  (forall q tid, In (q, tid) (cs_abort s) <->
                 exists c t, In (tid, t) (cs_tasks s) /\ t_kind t = TGet q c /\ t_aborted t = false) /\
  NoDup (map fst (cs_abort s)) /\
  (forall c, In c (wl_cids (cs_wl s)) <-> In c (map fst (cs_c2q s))) /\
  NoDup (wl_cids (cs_wl s)) /\ NoDup (map fst (cs_c2q s)) /\
  (forall c qs, In (c, qs) (cs_c2q s) -> qs <> []) /\
  NoDup (c2q_qids (cs_c2q s)) /\
  (forall q, In q (c2q_qids (cs_c2q s)) ->
     q < count_gets ops /\ ~ In q (out_qids (outs_after sdh ops)) /\
     ~ In q (task_qids (cs_tasks s)) /\ ~ In q (queue_qids (cs_queue s))).
Proof.
  intros s. destruct (INVH_run sdh ops) as (_ & Hnd & Hh & _). destruct (INVB_run sdh ops) as (Hw & Hm & Hk & Hne).
  fold (st_after sdh ops) in Hw, Hm, Hk, Hne. fold s in Hw, Hm, Hk, Hne, Hnd, Hh.
  split; [exact Hh|]. split; [exact Hnd|]. split; [intros c; symmetry; apply Hk|]. split; [exact Hw|]. split; [exact Hm|].
  split; [exact Hne|].
  assert (Hacc : forall x, (cnt x (task_qids (cs_tasks s)) + cnt x (c2q_qids (cs_c2q s)) + cnt x (queue_qids (cs_queue s))
                            + cnt x (out_qids (outs_after sdh ops)) <= if N.ltb x (count_gets ops) then 1 else 0)%nat).
  { intros x. pose proof (run_accounting sdh ops x) as H. unfold live in H. exact H. }
  split.
  - apply (NoDup_count_occ N.eq_dec). intros x. specialize (Hacc x). fold (cnt x (c2q_qids (cs_c2q s))).
    destruct (N.ltb x (count_gets ops)); lia.
  - intros q Hin. specialize (Hacc q). apply (count_occ_In N.eq_dec) in Hin. fold (cnt q (c2q_qids (cs_c2q s))) in Hin.
    destruct (N.ltb q (count_gets ops)) eqn:E; [|lia]. apply N.ltb_lt in E. split; [exact E|].
    repeat split; intros H; apply (count_occ_In N.eq_dec) in H; unfold cnt in *; lia.
Qed.

Example C13_query_example :
  let ops := [CGet (Some ex_c1); CGet (Some ex_c2); CGet (Some ex_c1); CPoll []; CRelease 0 SMiss; CRelease 2 SMiss; CPoll []; CCancel 1] in
  cs_c2q (st_after true ops) = [(ex_c1, [0; 2])] /\ wl_cids (cs_wl (st_after true ops)) = [ex_c1] /\
  cs_abort (st_after true ops) = [] /\ length (cs_tasks (st_after true ops)) = 1%nat.
Proof. vm_compute. repeat split; reflexivity. Qed.
