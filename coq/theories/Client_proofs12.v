(* Client_proofs12.v — package N, part 3: whole histories.  The several-connections history and its projection
   onto one connection per peer reach `norm`-related states and emit the same outputs up to connection names
   (C15 at trace level), from the initial state and from any reachable state; the fault case. *)
From BS Require Import Types Wantlist Wantlist_proofs Client Client_proofs Client_proofs3 Client_proofs4 Client_proofs9
  Client_proofs10 Client_proofs11.
From Coq Require Import ZArith ZifyBool ZifyN ZifyNat Lia.
Open Scope N_scope.

(* ---------- runs from a state ---------- *)
Lemma run_st_app s a b : run_st s (a ++ b) = run_st (run_st s a) b.
Proof. unfold run_st. rewrite crun_from_app. reflexivity. Qed.

Lemma run_outs_app s a b : run_outs s (a ++ b) = run_outs s a ++ run_outs (run_st s a) b.
Proof. unfold run_outs, run_st, all_outs. rewrite crun_from_app. cbn [fst]. apply concat_app. Qed.

Lemma run_st_after sdh ops0 ops : run_st (st_after sdh ops0) ops = st_after sdh (ops0 ++ ops).
Proof. unfold run_st, st_after, crun_sdh. rewrite crun_from_app. reflexivity. Qed.

Lemma run_outs_after sdh ops0 ops : outs_after sdh (ops0 ++ ops) = outs_after sdh ops0 ++ run_outs (st_after sdh ops0) ops.
Proof. unfold run_outs, outs_after, st_after, crun_sdh, all_outs. rewrite crun_from_app. cbn [fst]. apply concat_app. Qed.

Lemma run_st_init sdh ops : run_st (cinit sdh) ops = st_after sdh ops.
Proof. reflexivity. Qed.

Lemma run_outs_init sdh ops : run_outs (cinit sdh) ops = outs_after sdh ops.
Proof. reflexivity. Qed.

Lemma GOOD_run sdh ops : GOOD (st_after sdh ops).
Proof.
  split; [apply (INVS_run sdh ops)|]. intros p ps Hin. apply (INVC_run sdh ops p ps Hin).
Qed.

Section Trace.
Variable K : peer -> conn.

Lemma project_from_app s a : forall b,
  project_from K s (a ++ b) = project_from K s a ++ project_from K (run_st s a) b.
Proof.
  revert s. induction a as [|o a IH]; intros s b; [reflexivity|]. cbn [app project_from].
  rewrite IH, app_assoc. unfold run_st at 2. rewrite crun_from_cons. reflexivity.
Qed.

Lemma churn_ok_from_app s a : forall b,
  churn_ok_from s (a ++ b) = churn_ok_from s a && churn_ok_from (run_st s a) b.
Proof.
  revert s. induction a as [|o a IH]; intros s b; [reflexivity|]. cbn [app churn_ok_from].
  rewrite IH, Bool.andb_assoc. unfold run_st at 2. rewrite crun_from_cons. reflexivity.
Qed.

(* ---------- the simulation, from any reachable state ---------- *)
Theorem sim_from sdh ops0 ops :
  let s0 := st_after sdh ops0 in
  churn_ok_from s0 ops = true ->
  run_st (norm K s0) (project_from K s0 ops) = norm K (run_st s0 ops) /\
  filter not_bad (run_outs (norm K s0) (project_from K s0 ops)) = map (norm_out K) (filter not_bad (run_outs s0 ops)).
Proof.
  intros s0. induction ops as [|o ops IH] using rev_ind; intros Hok; [split; reflexivity|].
  rewrite churn_ok_from_app in Hok. apply Bool.andb_true_iff in Hok. destruct Hok as [Hok1 Hok2].
  cbn [churn_ok_from] in Hok2. rewrite Bool.andb_true_r in Hok2.
  destruct (IH Hok1) as [IH1 IH2].
  assert (HG : GOOD (run_st s0 ops)) by (unfold s0; rewrite run_st_after; apply GOOD_run).
  destruct (step_sim K (run_st s0 ops) o HG Hok2) as [S1 S2].
  rewrite project_from_app. cbn [project_from]. rewrite app_nil_r.
  rewrite !run_st_app, !run_outs_app, IH1, run_st_one, run_outs_one, !filter_not_bad_app, map_app, IH2, S2.
  split; [exact S1 | reflexivity].
Qed.

(* ---------- norm and the relation of the task ---------- *)
Lemma sim_ss_ren k ss : sim_ss ss (ren_ss k ss).
Proof. destruct ss; cbn; auto. Qed.

Lemma norm_ev_plain q : (forall p c f es, ~ In (EvSend p c f es) q) -> map (norm_ev K) q = q.
Proof.
  induction q as [|e q IH]; intros H; [reflexivity|]. cbn [map]. rewrite IH by (intros p c f es Hin; apply (H p c f es); right; exact Hin).
  destruct e as [x d|x k|p c f es]; try reflexivity. exfalso. apply (H p c f es). left. reflexivity.
Qed.

Lemma sim_norm s : GOOD s -> (forall p c f es, ~ In (EvSend p c f es) (cs_queue s)) -> sim s (norm K s).
Proof.
  intros [_ Hne] Hq. unfold sim, norm.
  cbn [cs_queue cs_wl cs_peers cs_c2q cs_tasks cs_ready cs_next_task cs_abort cs_next_qid cs_deadline cs_new_blocks cs_now cs_next_call].
  rewrite (norm_ev_plain _ Hq). repeat (split; [|try reflexivity]); try reflexivity.
  induction (cs_peers s) as [|[p ps] l IH]; [constructor|]. cbn [map]. constructor.
  - unfold sim_peer, norm_entry. cbn [fst snd norm_ps p_conns p_ss p_wl p_send_full].
    split; [reflexivity|]. split; [apply (Hne p ps); left; reflexivity|]. split; [discriminate|]. split; [apply sim_ss_ren|]. split; reflexivity.
  - apply IH. intros q v Hin. apply (Hne q v). right. exact Hin.
Qed.

Lemma norm_single s : single_conn_state K (norm K s).
Proof.
  intros p ps Hin. cbn [norm cs_peers] in Hin. apply in_map_iff in Hin. destruct Hin as ([q v] & [= <- <-] & _).
  cbn [fst snd norm_ps p_conns p_ss]. split; [reflexivity|]. destruct (p_ss v); cbn; auto.
Qed.

(* ---------- what the compared outputs say ---------- *)
Lemma sent_app a b : sent (a ++ b) = sent a ++ sent b.
Proof. unfold sent. apply flat_map_app'. Qed.

Lemma sent_norm_filter outs : sent (map (norm_out K) (filter not_bad outs)) = sent outs.
Proof.
  induction outs as [|o outs IH]; [reflexivity|]. destruct o; cbn [filter not_bad map norm_out]; cbn [sent flat_map sent_of];
    fold (sent outs); fold (sent (map (norm_out K) (filter not_bad outs))); rewrite ?IH; reflexivity.
Qed.

Lemma sent_filter outs : sent (filter not_bad outs) = sent outs.
Proof.
  induction outs as [|o outs IH]; [reflexivity|]. destruct o; cbn [filter not_bad]; cbn [sent flat_map sent_of];
    fold (sent outs); fold (sent (filter not_bad outs)); rewrite ?IH; reflexivity.
Qed.

Lemma other_norm_filter outs : filter other_out (map (norm_out K) (filter not_bad outs)) = filter other_out outs.
Proof.
  induction outs as [|o outs IH]; [reflexivity|]. destruct o; cbn [filter not_bad map norm_out other_out]; rewrite ?IH; reflexivity.
Qed.

Lemma other_filter outs : filter other_out (filter not_bad outs) = filter other_out outs.
Proof.
  induction outs as [|o outs IH]; [reflexivity|]. destruct o; cbn [filter not_bad other_out]; rewrite ?IH; reflexivity.
Qed.

Lemma outs_agree a b :
  filter not_bad a = map (norm_out K) (filter not_bad b) -> sent a = sent b /\ filter other_out a = filter other_out b.
Proof.
  intros H. split.
  - rewrite <- (sent_filter a), H. apply sent_norm_filter.
  - rewrite <- (other_filter a), H. apply other_norm_filter.
Qed.

(* ---------- the projected history names only the single connections ---------- *)
Lemma proj_op_single s o : forallb (op_single K) (proj_op K s o) = true.
Proof.
  destruct o as [p c|p c|oc|q|p pres blocks|p c r|call r|ms|ch|]; cbn [proj_op]; try reflexivity.
  - destruct (al_mem N.eqb p (cs_peers s)); [reflexivity|]. cbn [forallb op_single]. rewrite N.eqb_refl. reflexivity.
  - destruct (al_find N.eqb p (cs_peers s)) as [ps|]; [|reflexivity]. destruct (n_remove c (p_conns ps)); [|reflexivity].
    cbn [forallb op_single]. rewrite N.eqb_refl. reflexivity.
  - destruct (al_find N.eqb p (cs_peers s)) as [ps|]; [|reflexivity]. destruct (report_accepted ps c); [|reflexivity].
    cbn [forallb op_single]. rewrite N.eqb_refl. destruct r; cbn [ren_rp rp_single]; rewrite ?N.eqb_refl; reflexivity.
  - cbn [forallb op_single]. rewrite Bool.andb_true_r. unfold ren_choice. rewrite forallb_forall. intros e Hin.
    apply in_map_iff in Hin. destruct Hin as (e0 & <- & _). cbn [fst snd]. apply N.eqb_refl.
Qed.

Lemma project_from_single ops : forall s, forallb (op_single K) (project_from K s ops) = true.
Proof.
  induction ops as [|o ops IH]; intros s; [reflexivity|]. cbn [project_from]. rewrite forallb_app, proj_op_single, IH. reflexivity.
Qed.

(* ---------- the fault case: the connection of a failed transmission was closed, another remains ---------- *)
Lemma n_remove_absent c l : ~ In c l -> n_remove c l = l.
Proof.
  intros H. unfold n_remove. induction l as [|x l IH]; [reflexivity|]. cbn [filter].
  destruct (c =? x) eqn:E; [apply N.eqb_eq in E; subst; exfalso; apply H; left; reflexivity|].
  cbn [negb]. rewrite IH; [reflexivity|]. intros Hin. apply H. right. exact Hin.
Qed.

Lemma fault_poll_full sdh ops p c ps ch :
  let s := st_after sdh ops in
  al_find N.eqb p (cs_peers s) = Some ps -> p_ss ps = SsFailed c -> ~ In c (p_conns ps) ->
  (exists c1 es, In (OSendWantlist p c1 true es) (snd (c_poll s ch))) /\
  (forall c1 f es, In (OSendWantlist p c1 f es) (snd (c_poll s ch)) -> f = true /\ c1 <> c /\ In c1 (p_conns ps)) /\
  al_find N.eqb p (cs_peers (fst (c_poll s ch))) <> None.
Proof.
  intros s Hf Hss Hnin.
  assert (Hne : p_conns ps <> []) by (apply (INVC_run sdh ops p ps), (al_find_some_in _ Neqb_spec _ _ _ Hf)).
  assert (Hg : uh_gate (cs_now s) ps = Some (MkPeer (n_remove c (p_conns ps)) SsReady (p_wl ps) true))
    by (unfold uh_gate; rewrite Hss; reflexivity).
  assert (Hkeep : al_find N.eqb p (cs_peers (fst (c_poll s ch))) <> None).
  { apply (poll_keeps_entry sdh ops ch p ps _ Hf Hg). cbn [p_conns]. rewrite (n_remove_absent c _ Hnin). exact Hne. }
  destruct (C05_full_after_fault sdh ops ch p ps c Hf (or_introl Hss)) as [Hall Hex].
  split; [|split; [exact Hall | exact Hkeep]]. destruct Hex as [Hex | Hnone]; [exact Hex | contradiction].
Qed.

End Trace.
