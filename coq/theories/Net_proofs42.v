(* Net_proofs42.v — package K: (1) the connections a client was told about are the connections of the net: for every run from
   the initial net, `open_conns p (ghost of node i)` is [CONN] exactly when i and p are connected; (2) the ghost of the WIRE:
   `wsent_run s0 ops i` = the wantlist messages node i put on `wire_w` during the run; every message on the wire was put
   there by a poll of its source, and the messages node i put on the wire are exactly the `OSendWantlist` outputs of its
   client (Client.v run on the client ghost) — no hypothesis on the op list. *)
From BS Require Import Wantlist_proofs Client_proofs Client_proofs2 Client_proofs3 Client_proofs4
  Net Net_proofs2 Net_proofs3 Net_proofs5 Net_proofs6 Net_proofs9 Net_proofs10 Net_proofs40.
From Coq Require Import ZArith ZifyBool ZifyN ZifyNat Lia.
Open Scope N_scope.

(* ---------- client operations that do not touch the connection table / never send ---------- *)
Definition conn_free (o : cop) : Prop := match o with CNewConn _ _ | CConnClosed _ _ => False | _ => True end.
Definition poll_free (o : cop) : Prop := match o with CPoll _ => False | _ => True end.

Lemma open_conns_app p a b : open_conns p (a ++ b) = fold_left (open_step p) b (open_conns p a).
Proof. unfold open_conns. apply fold_left_app. Qed.

Lemma conn_free_fold p l : forall acc, Forall conn_free l -> fold_left (open_step p) l acc = acc.
Proof.
  induction l as [|o l IH]; intros acc H; [reflexivity|]. inversion H as [|? ? Ho Hl]; subst. cbn [fold_left].
  rewrite <- (IH acc Hl) at 2. f_equal. destruct o; try reflexivity; destruct Ho.
Qed.

Lemma cl_wants_In l p c f es : In (p, c, f, es) (cl_wants l) <-> In (OSendWantlist p c f es) l.
Proof.
  induction l as [|o l IH]; [reflexivity|]. destruct o; cbn [cl_wants In]; rewrite ?IH; try (split; [auto | intros [H|H]; [discriminate | exact H]]).
  split; (intros [H|H]; [left; congruence | right; exact H]).
Qed.

Lemma poll_free_wants c o : poll_free o -> cl_wants (snd (cstep c o)) = [].
Proof.
  destruct o; cbn [poll_free cstep snd]; intros H; try destruct H; try reflexivity.
  - unfold c_get. destruct c0; reflexivity.
  - unfold c_incoming. destruct (al_find N.eqb p (cs_peers c)); [|reflexivity].
    match goal with |- context [ia_panic ?a] => destruct (ia_panic a); [reflexivity|]; destruct (ia_new a); reflexivity end.
Qed.

Lemma poll_free_run_wants l : forall c, Forall poll_free l -> cl_wants (cl_outs c l) = [].
Proof.
  induction l as [|o l IH]; intros c H; [reflexivity|]. inversion H; subst.
  rewrite cl_outs_cons, cl_wants_app, poll_free_wants by assumption. apply IH. assumption.
Qed.

Lemma rep_ops_free L : Forall conn_free (map rep_op L) /\ Forall poll_free (map rep_op L).
Proof. split; apply Forall_forall; intros o Ho; apply in_map_iff in Ho; destruct Ho as (x & <- & _); exact I. Qed.

Section Track.
  Variables (Sz : N) (Hh : hash_fn).
  Local Notation cl_ops := (cl_ops Sz Hh).
  Local Notation cops_run := (cops_run Sz Hh).

  Lemma inc_cops_free p m : Forall conn_free (inc_cops Sz Hh p m) /\ Forall poll_free (inc_cops Sz Hh p m).
  Proof.
    unfold inc_cops. destruct (process_message Sz Hh m) as [inc| |]; try (split; constructor).
    destruct (in_client inc); split; repeat constructor.
  Qed.

  Definition conns_lt (s : net) : Prop := forall x y, In (x, y) (conns s) -> x < y.

  Lemma connected_lt s a b : conns_lt s -> Net.connected s a b = true -> a <> b.
  Proof.
    intros Hlt Hc. apply connected_In in Hc. intros ->. unfold norm in Hc. rewrite N.ltb_irrefl in Hc. apply Hlt in Hc. lia.
  Qed.

  (* a step that is not a connect / disconnect: connections and connection ops untouched *)
  Definition not_conn (o : nop) : Prop := match o with NConnect _ _ | NDisconnect _ _ => False | _ => True end.

  Lemma not_conn_conns s o : not_conn o -> conns (fst (nstep Sz Hh s o)) = conns s.
  Proof.
    destruct o; cbn [not_conn]; intros H; try destruct H; try (apply (sched_conns Sz Hh); exact I); cbn [nstep fst]; try apply on_node_frames.
    reflexivity.
  Qed.

  Lemma not_conn_free s o k : not_conn o -> Forall conn_free (cl_ops s o k).
  Proof.
    destruct o; cbn [not_conn Net_proofs40.cl_ops]; intros H; try destruct H; try (repeat constructor; fail).
    - destruct (k =? i); repeat constructor.
    - destruct (k =? i); repeat constructor.
    - destruct (k =? i); [|constructor]. destruct (get_node s i); [|constructor]. repeat constructor. apply rep_ops_free.
    - destruct (k =? i); [|constructor]. destruct (get_node s i) as [n|]; [|constructor].
      destruct (nth_error (n_calls n) (N.to_nat k0)) as [[x c|x bl|x c]|]; repeat constructor.
    - destruct (k =? i); [|constructor]. destruct (take_first (w_between i j) (wire_w s)); [|constructor].
      destruct (get_node s i); [|constructor]. destruct (get_node s j); repeat constructor.
    - destruct (k =? i); [|constructor]. destruct (take_first (b_between j i) (wire_b s)) as [[m rest]|]; [|constructor].
      destruct (get_node s i); [|constructor]. apply inc_cops_free.
  Qed.

  (* the tracking invariant, one step *)
  Definition tracked (s : net) (oc : N -> peer -> list conn) : Prop :=
    forall i p, oc i p = if Net.connected s i p then [CONN] else [].

  Lemma track_step s o oc :
    conns_lt s -> tracked s oc ->
    conns_lt (fst (nstep Sz Hh s o)) /\
    tracked (fst (nstep Sz Hh s o)) (fun i p => fold_left (open_step p) (cl_ops s o i) (oc i p)).
  Proof.
    intros Hlt Ht.
    assert (Hsame : not_conn o -> conns_lt (fst (nstep Sz Hh s o)) /\
                                   tracked (fst (nstep Sz Hh s o)) (fun i p => fold_left (open_step p) (cl_ops s o i) (oc i p))).
    { intros Hn. split.
      - intros x y. rewrite (not_conn_conns s o Hn). apply Hlt.
      - intros i p. rewrite conn_free_fold by (apply not_conn_free; exact Hn). unfold Net.connected. rewrite (not_conn_conns s o Hn). apply Ht. }
    destruct o as [a b|a b| | | | | | | | |]; try (apply Hsame; exact I).
    - (* NConnect a b *)
      cbn [nstep fst Net_proofs40.cl_ops]. unfold do_connect.
      destruct (get_node s a) as [na|] eqn:Ea; [|split; [exact Hlt | exact Ht]].
      destruct (get_node s b) as [nb|] eqn:Eb; [|split; [exact Hlt | exact Ht]].
      destruct ((a =? b) || Net.connected s a b) eqn:E; [split; [exact Hlt | exact Ht]|].
      apply orb_false_iff in E. destruct E as [Eab Ec]. apply N.eqb_neq in Eab. split.
      + intros x y. cbn [conns]. rewrite in_app_iff. intros [H|[H|[]]]; [apply Hlt, H|].
        pose proof (norm_lt a b Eab) as Hl. rewrite H in Hl. exact Hl.
      + intros i p.
        assert (Ecn : Net.connected (MkNet (nodes (set_node (set_node s a (node_connected Sz na b CONN)) b (node_connected Sz nb a CONN)))
                                           (conns s ++ [norm a b]) (wire_w s) (wire_b s) (now s)) i p =
                      Net.connected s i p || (((i =? a) && (p =? b)) || ((i =? b) && (p =? a)))).
        { rewrite <- (pair_norm_eqb a b i p Eab). unfold Net.connected. cbn [conns]. rewrite existsb_app. cbn. rewrite orb_false_r. reflexivity. }
        rewrite Ecn. rewrite (Ht i p).
        destruct (i =? b) eqn:Ib.
        * apply N.eqb_eq in Ib. subst i. cbn [fold_left open_step]. rewrite (N.eqb_sym a p).
          replace (b =? a) with false by (symmetry; apply N.eqb_neq; congruence). cbn [andb orb].
          destruct (p =? a) eqn:Pa; [|rewrite orb_false_r; reflexivity].
          apply N.eqb_eq in Pa. subst p. rewrite connected_sym, Ec. reflexivity.
        * destruct (i =? a) eqn:Ia.
          -- apply N.eqb_eq in Ia. subst i. cbn [fold_left open_step]. rewrite (N.eqb_sym b p). cbn [andb orb].
             destruct (p =? b) eqn:Pb; [|rewrite orb_false_r; reflexivity].
             apply N.eqb_eq in Pb. subst p. rewrite Ec. reflexivity.
          -- cbn [fold_left andb orb]. rewrite orb_false_r. reflexivity.
    - (* NDisconnect a b *)
      cbn [nstep fst Net_proofs40.cl_ops]. unfold do_disconnect.
      destruct (get_node s a) as [na|] eqn:Ea; [|split; [exact Hlt | exact Ht]].
      destruct (get_node s b) as [nb|] eqn:Eb; [|split; [exact Hlt | exact Ht]].
      destruct (Net.connected s a b) eqn:Ec; [|split; [exact Hlt | exact Ht]].
      pose proof (connected_lt s a b Hlt Ec) as Eab. split.
      + intros x y. cbn [conns]. intros H. apply filter_In in H. apply Hlt, H.
      + intros i p. unfold Net.connected at 1. cbn [conns]. rewrite existsb_filter_pair. fold (Net.connected s i p).
        rewrite (pair_norm_eqb a b i p Eab). rewrite (Ht i p).
        destruct (i =? b) eqn:Ib.
        * apply N.eqb_eq in Ib. subst i. cbn [fold_left open_step]. rewrite (N.eqb_sym a p).
          replace (b =? a) with false by (symmetry; apply N.eqb_neq; congruence). cbn [andb orb].
          destruct (p =? a) eqn:Pa; [|rewrite andb_true_r; reflexivity].
          apply N.eqb_eq in Pa. subst p. rewrite connected_sym, Ec. reflexivity.
        * destruct (i =? a) eqn:Ia.
          -- apply N.eqb_eq in Ia. subst i. cbn [fold_left open_step]. rewrite (N.eqb_sym b p). cbn [andb orb].
             destruct (p =? b) eqn:Pb; [|rewrite andb_true_r; reflexivity].
             apply N.eqb_eq in Pb. subst p. rewrite Ec. reflexivity.
          -- cbn [fold_left andb orb negb]. rewrite andb_true_r. reflexivity.
  Qed.

  Lemma track_run ops : forall s H,
    conns_lt s -> tracked s (fun i p => open_conns p (H i)) ->
    conns_lt (fst (nrun Sz Hh s ops)) /\
    tracked (fst (nrun Sz Hh s ops)) (fun i p => open_conns p (H i ++ cops_run s ops i)).
  Proof.
    induction ops as [|o ops IH]; intros s H Hlt Ht.
    - split; [exact Hlt|]. intros i p. cbn [Net_proofs40.cops_run]. rewrite app_nil_r. apply Ht.
    - rewrite (nrun_cons Sz Hh). cbn [fst Net_proofs40.cops_run]. destruct (track_step s o _ Hlt Ht) as [Hlt1 Ht1].
      destruct (IH _ (fun i => H i ++ cl_ops s o i) Hlt1) as [Hlt2 Ht2].
      + intros i p. rewrite open_conns_app. apply Ht1.
      + split; [exact Hlt2|]. intros i p. rewrite app_assoc. apply Ht2.
  Qed.

  (* from the initial net *)
  Theorem conns_tracked n ops i p :
    open_conns p (cops_run (net_init n) ops i) = if Net.connected (fst (nrun Sz Hh (net_init n) ops)) i p then [CONN] else [].
  Proof.
    destruct (track_run ops (net_init n) (fun _ => [])) as [_ H]; [intros x y [] | intros a b; reflexivity|]. apply (H i p).
  Qed.

  (* ---------- the wire ghost ---------- *)
  Definition w_sent (s : net) (o : nop) (i : N) : list wmsg :=
    match o with
    | NPoll a =>
        if i =? a then
          match get_node s a with
          | Some n => map (w_of a) (filter (handed s a) (poll_wants n))
          | None => []
          end
        else []
    | _ => []
    end.

  Fixpoint wsent_run (s : net) (ops : list nop) (i : N) : list wmsg :=
    match ops with
    | [] => []
    | o :: r => w_sent s o i ++ wsent_run (fst (nstep Sz Hh s o)) r i
    end.

  Lemma wsent_run_app a : forall s b i, wsent_run s (a ++ b) i = wsent_run s a i ++ wsent_run (fst (nrun Sz Hh s a)) b i.
  Proof.
    induction a as [|o a IH]; intros s b i; [reflexivity|]. cbn [app wsent_run]. rewrite (nrun_cons Sz Hh). cbn [fst]. rewrite IH, app_assoc. reflexivity.
  Qed.

  Lemma w_sent_src s o i m : In m (w_sent s o i) -> wm_src m = i.
  Proof.
    destruct o; cbn [w_sent]; try (intros []). destruct (i =? i0) eqn:E; [|intros []]. apply N.eqb_eq in E. subst i0.
    destruct (get_node s i); [|intros []]. intros H. apply in_map_iff in H. destruct H as (x & <- & _). reflexivity.
  Qed.

  Lemma wsent_run_src ops : forall s i m, In m (wsent_run s ops i) -> wm_src m = i.
  Proof.
    induction ops as [|o ops IH]; intros s i m; [intros []|]. cbn [wsent_run]. rewrite in_app_iff. intros [H|H]; [eapply w_sent_src; exact H | eapply IH; exact H].
  Qed.

  (* every message on the wire was put there by a poll of its source *)
  Lemma wire_w_step s o m : In m (wire_w (fst (nstep Sz Hh s o))) -> In m (wire_w s) \/ In m (w_sent s o (wm_src m)).
  Proof.
    destruct o; cbn [nstep fst w_sent].
    - unfold do_connect. destruct (get_node s i); [|auto]. destruct (get_node s j); [|auto]. destruct ((i =? j) || Net.connected s i j); auto.
    - unfold do_disconnect. destruct (get_node s i); [|auto]. destruct (get_node s j); [|auto]. destruct (Net.connected s i j); [|auto].
      cbn [wire_w]. intros H. apply filter_In in H. left. apply H.
    - intros H. left. rewrite (proj1 (proj2 (on_node_frames s i _))) in H. exact H.
    - intros H. left. rewrite (proj1 (proj2 (on_node_frames s i _))) in H. exact H.
    - intros H. left. rewrite (proj1 (proj2 (on_node_frames s i _))) in H. exact H.
    - intros H. left. rewrite (proj1 (proj2 (on_node_frames s i _))) in H. exact H.
    - auto.
    - unfold do_poll. destruct (get_node s i) as [n|] eqn:Ei; [|auto]. unfold poll_wants. unfold node_poll.
      destruct (cstep (n_client n) (CPoll [])) as [c1 o1]. destruct (cstep c1 CTakeNewBlocks) as [c2 o2].
      destruct (srv Sz match cl_new_blocks o2 with [] => n_server n | _ :: _ => fst (srv Sz (n_server n) (SNewBlocks (cl_new_blocks o2))) end SPoll) as [s2 o3].
      cbn [o_wants o_blocks snd]. rewrite hand_over_gen. cbn [fst wire_w app]. intros H. apply in_app_iff in H. destruct H as [H|H]; [left; exact H | right].
      assert (Es : wm_src m = i) by (apply in_map_iff in H; destruct H as (x & <- & _); reflexivity).
      rewrite Es, N.eqb_refl. exact H.
    - intros H. left. rewrite (proj1 (proj2 (on_node_frames s i _))) in H. exact H.
    - unfold do_deliver_w. destruct (take_first (w_between i j) (wire_w s)) as [[m0 rest]|] eqn:Et; [|auto].
      destruct (take_first_spec _ _ _ _ Et) as (_ & _ & Hsub & _).
      destruct (get_node _ i) as [ni|]; [|cbn [wire_w]; intros H; left; apply Hsub, H].
      destruct (get_node _ j) as [nj|]; [|cbn [wire_w]; intros H; left; apply Hsub, H].
      destruct (node_incoming Sz Hh nj i _) as [nj1 evs]. cbn [fst].
      match goal with |- In m (wire_w (on_node ?x _ _)) -> _ => rewrite (proj1 (proj2 (on_node_frames x i (fun n => node_report n j CONN RpReady)))) end.
      cbn [wire_w set_node]. intros H. left. apply Hsub, H.
    - unfold do_deliver_b. destruct (take_first (b_between j i) (wire_b s)) as [[m0 rest]|]; [|auto].
      destruct (get_node s i) as [ni|]; [destruct (node_incoming Sz Hh ni j _) as [ni1 evs]|]; cbn [fst wire_w]; auto.
  Qed.

  Theorem wire_w_sent ops : forall s m,
    In m (wire_w (fst (nrun Sz Hh s ops))) -> In m (wire_w s) \/ In m (wsent_run s ops (wm_src m)).
  Proof.
    induction ops as [|o ops IH]; intros s m Hm; [left; exact Hm|]. rewrite (nrun_cons Sz Hh) in Hm. cbn [fst] in Hm.
    cbn [wsent_run]. rewrite in_app_iff. destruct (IH _ _ Hm) as [H|H]; [|auto]. destruct (wire_w_step s o m H); auto.
  Qed.

  (* ---------- what a node puts on the wire is what its client asked its handlers to send ---------- *)
  Lemma cl_ops_poll_free s o k : (forall a, o <> NPoll a) -> Forall poll_free (cl_ops s o k).
  Proof.
    destruct o; cbn [Net_proofs40.cl_ops]; intros H; try (repeat constructor; fail).
    - destruct (get_node s i); [|constructor]. destruct (get_node s j); [|constructor]. destruct ((i =? j) || Net.connected s i j); [constructor|].
      destruct (k =? j); [repeat constructor|]. destruct (k =? i); repeat constructor.
    - destruct (get_node s i); [|constructor]. destruct (get_node s j); [|constructor]. destruct (Net.connected s i j); [|constructor].
      destruct (k =? j); [repeat constructor|]. destruct (k =? i); repeat constructor.
    - destruct (k =? i); repeat constructor.
    - destruct (k =? i); repeat constructor.
    - exfalso. apply (H i). reflexivity.
    - destruct (k =? i); [|constructor]. destruct (get_node s i) as [n|]; [|constructor].
      destruct (nth_error (n_calls n) (N.to_nat k0)) as [[x c|x bl|x c]|]; repeat constructor.
    - destruct (k =? i); [|constructor]. destruct (take_first (w_between i j) (wire_w s)); [|constructor].
      destruct (get_node s i); [|constructor]. destruct (get_node s j); repeat constructor.
    - destruct (k =? i); [|constructor]. destruct (take_first (b_between j i) (wire_b s)) as [[m rest]|]; [|constructor].
      destruct (get_node s i); [|constructor]. apply inc_cops_free.
  Qed.

  Lemma cl_wants_cl_ops s o i n :
    get_node s i = Some n ->
    cl_wants (cl_outs (n_client n) (cl_ops s o i)) = match o with NPoll a => if i =? a then poll_wants n else [] | _ => [] end.
  Proof.
    intros Hn. destruct o; try (apply poll_free_run_wants, cl_ops_poll_free; discriminate).
    cbn [Net_proofs40.cl_ops]. destruct (i =? i0) eqn:E; [|reflexivity]. apply N.eqb_eq in E. subst i0. rewrite Hn.
    rewrite !cl_outs_cons, !cl_wants_app. unfold poll_wants.
    rewrite poll_free_run_wants by apply rep_ops_free. cbn [cstep c_take_new_blocks snd cl_wants]. rewrite !app_nil_r. reflexivity.
  Qed.

  Lemma filter_all {A} (f : A -> bool) l : (forall x, In x l -> f x = true) -> filter f l = l.
  Proof.
    induction l as [|x l IH]; intros H; [reflexivity|]. cbn [filter]. rewrite (H x (or_introl eq_refl)), IH; [reflexivity|].
    intros y Hy. apply H. right. exact Hy.
  Qed.

  (* in a net grown from the initial one, every wantlist a poll produces is for a connected peer *)
  Lemma all_handed n ops i ni :
    get_node (fst (nrun Sz Hh (net_init n) ops)) i = Some ni ->
    filter (handed (fst (nrun Sz Hh (net_init n) ops)) i) (poll_wants ni) = poll_wants ni.
  Proof.
    intros Hni. apply filter_all. intros [[[p c] f] es] Hx. unfold poll_wants in Hx. apply cl_wants_In in Hx.
    rewrite (net_client_ghost Sz Hh n ops i ni Hni) in Hx. cbn [cstep snd] in Hx.
    destruct (send_facts true _ [] p c f es Hx) as (ps & _ & _ & Hf & _).
    unfold handed. cbn [x_peer fst].
    destruct (Net.connected (fst (nrun Sz Hh (net_init n) ops)) i p) eqn:Ec; [reflexivity|].
    pose proof (conns_tracked n ops i p) as Ht. rewrite Ec in Ht.
    rewrite (C13_client_peer_released true _ p Ht) in Hf. discriminate.
  Qed.

  Theorem wsent_is_client_sends n ops : forall i, (N.to_nat i < n)%nat ->
    wsent_run (net_init n) ops i = map (w_of i) (cl_wants (outs_after true (cops_run (net_init n) ops i))).
  Proof.
    induction ops as [|o ops IH] using rev_ind; intros i Hi; [reflexivity|].
    rewrite wsent_run_app, cops_run_app, outs_after_cl, cl_outs_app, cl_wants_app, map_app, <- outs_after_cl, <- IH by exact Hi. f_equal.
    cbn [wsent_run Net_proofs40.cops_run]. rewrite !app_nil_r.
    assert (Hg : get_node (net_init n) i = Some node_init) by (unfold get_node; cbn [nodes net_init]; apply nth_error_repeat; exact Hi).
    destruct (node_exists_fwd Sz Hh ops _ _ _ Hg) as (ni & Hni).
    rewrite <- st_after_cl, <- (net_client_ghost Sz Hh n ops i ni Hni), (cl_wants_cl_ops _ o i ni Hni).
    destruct o; try reflexivity. cbn [w_sent]. destruct (i =? i0) eqn:E; [|reflexivity]. apply N.eqb_eq in E. subst i0.
    rewrite Hni, (all_handed n ops i ni Hni). reflexivity.
  Qed.

  (* the same for the part of a run after any reachable state *)
  Corollary wsent_from_reachable n ops1 ops2 i ni :
    get_node (fst (nrun Sz Hh (net_init n) ops1)) i = Some ni ->
    wsent_run (fst (nrun Sz Hh (net_init n) ops1)) ops2 i =
    map (w_of i) (cl_wants (cl_outs (n_client ni) (cops_run (fst (nrun Sz Hh (net_init n) ops1)) ops2 i))).
  Proof.
    intros Hni. destruct (node_exists_back Sz Hh _ _ _ _ Hni) as (n0 & Hn0).
    assert (Hi : (N.to_nat i < n)%nat) by (apply get_node_lt in Hn0; cbn [nodes net_init] in Hn0; rewrite repeat_length in Hn0; exact Hn0).
    pose proof (wsent_is_client_sends n (ops1 ++ ops2) i Hi) as H.
    rewrite wsent_run_app, cops_run_app, outs_after_cl, cl_outs_app, cl_wants_app, map_app, <- outs_after_cl, <- (wsent_is_client_sends n ops1 i Hi) in H.
    apply app_inv_head in H. rewrite H, <- st_after_cl, <- (net_client_ghost Sz Hh n ops1 i ni Hni). reflexivity.
  Qed.
End Track.
