(* Net_proofs10.v — package F: `settle` is a run of schedule steps; a live query stays live or is answered;
   the quiet states; C02_direct. *)
From BS Require Import Server_lemmas Server_inv Server_proofs Server_live Wantlist_proofs Client_proofs Client_proofs2
  Client_proofs3 Client_proofs4 Net Net_proofs2 Net_proofs3 Net_proofs4 Net_proofs5 Net_proofs6 Net_proofs7 Net_proofs8 Net_proofs9.
From Coq Require Import ZArith ZifyBool ZifyN ZifyNat Lia.
Open Scope N_scope.

Local Notation cid_eqb_spec := Wantlist_proofs.cid_eqb_spec.

Section Settle.
  Variables (Sz : N) (Hh : hash_fn).

  Lemma nrun_app s a b :
    nrun Sz Hh s (a ++ b) =
    (fst (nrun Sz Hh (fst (nrun Sz Hh s a)) b), snd (nrun Sz Hh s a) ++ snd (nrun Sz Hh (fst (nrun Sz Hh s a)) b)).
  Proof.
    revert s. induction a as [|o a IH]; intros s.
    - cbn. destruct (nrun Sz Hh s b); reflexivity.
    - cbn [app]. rewrite !(nrun_cons Sz Hh), IH. cbn [fst snd]. rewrite app_assoc. reflexivity.
  Qed.

  Lemma polls_sched s : Forall sched (polls_of s).
  Proof. unfold polls_of. apply Forall_forall. intros o Ho. apply in_map_iff in Ho. destruct Ho as (k & <- & _). exact I. Qed.

  Lemma stores_sched s : Forall sched (stores_of s).
  Proof.
    unfold stores_of. apply Forall_forall. intros o Ho. apply in_flat_map in Ho. destruct Ho as (x & _ & Ho).
    apply repeat_spec in Ho. subst o. exact I.
  Qed.

  Lemma deliveries_sched s : Forall sched (deliveries_of s).
  Proof.
    unfold deliveries_of. apply Forall_app. split; apply Forall_forall; intros o Ho; apply in_map_iff in Ho; destruct Ho as (m & <- & _); exact I.
  Qed.

  Lemma round_run s : exists ops, Forall sched ops /\ round Sz Hh s = nrun Sz Hh s ops.
  Proof.
    unfold round.
    exists (polls_of s ++ stores_of (fst (nrun Sz Hh s (polls_of s))) ++
            deliveries_of (fst (nrun Sz Hh (fst (nrun Sz Hh s (polls_of s))) (stores_of (fst (nrun Sz Hh s (polls_of s))))))).
    split; [apply Forall_app; split; [apply polls_sched | apply Forall_app; split; [apply stores_sched | apply deliveries_sched]]|].
    rewrite !nrun_app. destruct (nrun Sz Hh s (polls_of s)) as [s1 e1]. cbn [fst snd].
    destruct (nrun Sz Hh s1 (stores_of s1)) as [s2 e2]. cbn [fst snd].
    destruct (nrun Sz Hh s2 (deliveries_of s2)) as [s3 e3]. reflexivity.
  Qed.

  Lemma settle_loop_run fuel : forall s, exists ops, Forall sched ops /\ settle_loop Sz Hh fuel s = nrun Sz Hh s ops.
  Proof.
    induction fuel as [|f IH]; intros s; cbn [settle_loop].
    - exists []. split; [constructor|]. destruct (quietb s); reflexivity.
    - destruct (quietb s); [exists []; split; [constructor | reflexivity]|].
      destruct (round_run s) as (ops1 & Hs1 & E1). rewrite E1. destruct (nrun Sz Hh s ops1) as [s1 e1] eqn:En.
      destruct (IH s1) as (ops2 & Hs2 & E2). rewrite E2. exists (ops1 ++ ops2). split; [apply Forall_app; auto|].
      rewrite nrun_app, En. cbn [fst snd]. destruct (nrun Sz Hh s1 ops2); reflexivity.
  Qed.

  Lemma settle_run s : exists ops, Forall sched ops /\ settle Sz Hh s = nrun Sz Hh s ops.
  Proof. apply settle_loop_run. Qed.
End Settle.

Lemma get_other s k n2 cc ww wb nw x :
  x <> k -> get_node (MkNet (set_nth (N.to_nat k) n2 (nodes s)) cc ww wb nw) x = get_node s x.
Proof. intros H. unfold get_node. cbn [nodes]. apply nth_set_nth_neq. intros E. apply H. apply N2Nat.inj. symmetry. exact E. Qed.

(* ---------- a live query stays live, or is queued, or is answered ---------- *)
Section Alive.
  Variables (Sz : N) (Hh : hash_fn).
  Hypothesis HSz : 32 <= Sz.
  Variables (i : N) (q : qid) (c : cid).

  Definition q_live (cl : cstate) : Prop := exists qs, In (c, qs) (cs_c2q cl) /\ In q qs.
  Definition q_queued (cl : cstate) : Prop := exists d, In (EvResponse q d) (cs_queue cl).
  Definition alive (s : net) : Prop := exists cl, client_of s i = Some cl /\ (q_live cl \/ q_queued cl).
  Definition answered (evs : list nevent) : Prop := exists d, In (EResponse i q d) evs.

  Definition keeps (cl cl' : cstate) : Prop := (q_live cl \/ q_queued cl) -> (q_live cl' \/ q_queued cl').

  Lemma keeps_same cl cl' : cs_c2q cl' = cs_c2q cl -> cs_queue cl' = cs_queue cl -> keeps cl cl'.
  Proof. intros E1 E2. unfold keeps, q_live, q_queued. rewrite E1, E2. auto. Qed.

  Lemma keeps_release cl call r : keeps cl (c_release cl call r).
  Proof. unfold c_release. destruct (find (call_is call) (cs_tasks cl)) as [[tid t]|]; apply keeps_same; reflexivity. Qed.

  Lemma keeps_report cl p cn r : keeps cl (c_report cl p cn r).
  Proof. apply keeps_same; reflexivity. Qed.

  Lemma c2q_push_mono x q0 m qs : In (c, qs) m -> exists qs', In (c, qs') (c2q_push x q0 m) /\ (In q qs -> In q qs').
  Proof.
    intros Hin. unfold c2q_push. destruct (al_mem cid_eqb x m).
    - unfold al_modify. destruct (cid_eqb x c) eqn:E.
      + exists (qs ++ [q0]). split; [|intros H; apply in_app_iff; auto]. apply in_map_iff. exists (c, qs). cbn [fst snd]. rewrite E. auto.
      + exists qs. split; [|auto]. apply in_map_iff. exists (c, qs). cbn [fst snd]. rewrite E. auto.
    - exists qs. split; [apply in_app_iff; auto | auto].
  Qed.

  Lemma handle_result_live cl r : q_live cl -> q_live (fst (handle_task_result cl r)).
  Proof.
    intros (qs & Hin & Hq). unfold q_live. destruct r as [q0 x res|ok bl|]; cbn [handle_task_result].
    - destruct res; cbn [fst]; try (exists qs; auto; fail).
      destruct (wl_insert (cs_wl (set_abort cl (al_remove N.eqb q0 (cs_abort cl)))) x) as [w' ins].
      destruct ins; cbn [fst set_c2q set_peers set_wl set_abort cs_c2q];
        (destruct (c2q_push_mono x q0 _ qs Hin) as (qs' & Hin' & Hq'); exists qs'; auto).
    - destruct ok; exists qs; auto.
    - exists qs; auto.
  Qed.

  Lemma tasks_run_live cl outs cl' : tasks_run cl outs cl' -> q_live cl -> q_live cl'.
  Proof.
    induction 1 as [s Hr | s r outs s' Hr Hrun IH]; intros HL.
    - unfold q_live. destruct (after_tasks_frame s) as (_ & _ & _ & -> & _). exact HL.
    - apply IH, handle_result_live. unfold q_live. destruct (after_tasks_frame s) as (_ & _ & _ & -> & _). exact HL.
  Qed.

  Lemma inc_block_keeps a b :
    NoDup (map fst (ia_c2q a)) ->
    ((exists qs, In (c, qs) (ia_c2q a) /\ In q qs) \/ (exists d, In (EvResponse q d) (ia_queue a))) ->
    ((exists qs, In (c, qs) (ia_c2q (inc_block a b)) /\ In q qs) \/ (exists d, In (EvResponse q d) (ia_queue (inc_block a b)))).
  Proof.
    intros Hnd H. unfold inc_block. destruct (ia_panic a); [exact H|]. destruct b as [x data].
    destruct (wl_remove (ia_wl a) x) as [w' removed]. destruct removed; cbn [negb].
    - cbn [ia_c2q ia_queue]. destruct H as [(qs & Hin & Hq)|(d & Hd)].
      + destruct (cid_eqb x c) eqn:E.
        * apply cid_eqb_spec in E. subst x. right. exists data. apply in_app_iff. right.
          assert (Hf : al_find cid_eqb c (ia_c2q a) = Some qs) by (apply (al_in_find _ cid_eqb_spec); assumption).
          rewrite Hf. apply in_map_iff. exists q. auto.
        * left. exists qs. split; [|exact Hq]. unfold al_remove. apply filter_In. split; [exact Hin|]. cbn [fst]. rewrite E. reflexivity.
      + right. exists d. apply in_app_iff. auto.
    - destruct (al_mem cid_eqb x (ia_c2q a)); exact H.
  Qed.

  Lemma inc_block_c2q_nodup a b : NoDup (map fst (ia_c2q a)) -> NoDup (map fst (ia_c2q (inc_block a b))).
  Proof.
    intros Hnd. unfold inc_block. destruct (ia_panic a); [exact Hnd|]. destruct b as [x data].
    destruct (wl_remove (ia_wl a) x) as [w' removed]. destruct removed; cbn [negb].
    - cbn [ia_c2q]. apply al_remove_NoDup. exact Hnd.
    - destruct (al_mem cid_eqb x (ia_c2q a)); exact Hnd.
  Qed.

  Lemma inc_blocks_keeps bl : forall a,
    NoDup (map fst (ia_c2q a)) ->
    ((exists qs, In (c, qs) (ia_c2q a) /\ In q qs) \/ (exists d, In (EvResponse q d) (ia_queue a))) ->
    ((exists qs, In (c, qs) (ia_c2q (fold_left inc_block bl a)) /\ In q qs) \/
     (exists d, In (EvResponse q d) (ia_queue (fold_left inc_block bl a)))).
  Proof.
    induction bl as [|b bl IH]; intros a Hnd H; cbn [fold_left]; [exact H|].
    apply IH; [apply inc_block_c2q_nodup, Hnd | apply inc_block_keeps; assumption].
  Qed.

  Lemma keeps_incoming cl p blocks : INVB cl -> keeps cl (fst (c_incoming cl p [] blocks)).
  Proof.
    intros (_ & Hnd & _). unfold c_incoming. destruct (al_find N.eqb p (cs_peers cl)) as [ps|]; [|apply keeps_same; reflexivity].
    cbn [fold_left]. set (a0 := MkInc (cs_wl cl) (p_wl ps) (cs_c2q cl) (cs_queue cl) [] false).
    pose proof (inc_blocks_keeps blocks a0 Hnd) as HK. cbn [a0 ia_c2q ia_queue] in HK. fold a0 in HK.
    set (a := fold_left inc_block blocks a0) in *.
    destruct (ia_panic a); [|destruct (ia_new a)]; cbn [fst push_task]; unfold keeps, q_live, q_queued; cbn [cs_c2q cs_queue]; exact HK.
  Qed.

  Lemma alive_keeps s s' cl cl' : client_of s i = Some cl -> client_of s' i = Some cl' -> keeps cl cl' -> alive s -> alive s'.
  Proof. intros E E' K (x & Ex & H). rewrite E in Ex. injection Ex as <-. exists cl'. split; [exact E' | apply K, H]. Qed.

  Lemma alive_same s s' : client_of s' i = client_of s i -> alive s -> alive s'.
  Proof. intros E (x & Ex & H). exists x. rewrite E. auto. Qed.

  Lemma ev_levs_response l d : In (EvResponse q d) l -> In (LResponse q d) (ev_levs l).
  Proof. intros H. unfold ev_levs. apply in_flat_map. exists (EvResponse q d). split; [exact H | left; reflexivity]. Qed.

  Lemma alive_step s o :
    sched o -> net_ok Sz Hh s -> alive s -> alive (fst (nstep Sz Hh s o)) \/ answered (snd (nstep Sz Hh s o)).
  Proof.
    intros Hs Hok Ha. destruct o; try contradiction; cbn [nstep].
    - (* NPoll *)
      destruct (get_node s i0) as [n|] eqn:Hg; [|unfold do_poll; rewrite Hg; left; exact Ha].
      destruct (N.eq_dec i0 i) as [->|Hne].
      + destruct (do_poll_nf Sz Hh s i n Hok Hg) as (sC & outsC & [Hrun HCC Hto Heq]). cbn zeta in Heq. rewrite Heq. cbn [fst snd].
        destruct Ha as (cl & E & H). unfold client_of in E. rewrite Hg in E. injection E as <-.
        destruct H as [HL|(d & Hd)].
        * left. eexists. split; [unfold client_of; rewrite (get_set_nth_same s i n _ _ _ _ _ Hg); reflexivity|]. left.
          cbn [n_client]. unfold q_live. cbn [set_peers set_new_blocks set_queue cs_c2q]. apply (tasks_run_live _ _ _ Hrun).
          unfold q_live, after_timer. destruct (timer_ready (set_queue (n_client n) [])); exact HL.
        * right. exists d. apply in_map_iff. exists (LResponse q d). split; [reflexivity|]. apply in_app_iff. left. apply ev_levs_response, Hd.
      + left. destruct (do_poll_shape Sz s i0 n Hg) as (n2 & ws & bs & E & _). rewrite E. apply (alive_same s); [|exact Ha].
        unfold client_of. rewrite get_other by congruence. reflexivity.
    - (* NStore *)
      left. cbn [fst]. destruct (get_node s i0) as [n|] eqn:Hg; [|unfold on_node; rewrite Hg; exact Ha].
      destruct (N.eq_dec i0 i) as [->|Hne].
      + apply (alive_keeps s _ (n_client n) (n_client (node_store Sz n k))); [unfold client_of; rewrite Hg; reflexivity| |  |exact Ha].
        * unfold client_of. rewrite (get_on_node_same s i _ n Hg). reflexivity.
        * unfold node_store. destruct (nth_error (n_calls n) (N.to_nat k)) as [[m x|m bl|m x]|]; cbn [n_client cstep fst];
            try (apply keeps_same; reflexivity); apply keeps_release.
      + apply (alive_same s); [|exact Ha]. unfold client_of. rewrite get_on_node_other by congruence. reflexivity.
    - (* NDeliverW *)
      left. destruct (take_first (w_between i0 j) (wire_w s)) as [[m rest]|] eqn:Et; [|unfold do_deliver_w; rewrite Et; exact Ha].
      destruct (get_node s i0) as [na|] eqn:Hga; [destruct (get_node s j) as [nb|] eqn:Hgb|].
      2,3: (assert (Es : fst (do_deliver_w Sz Hh s i0 j) = MkNet (nodes s) (conns s) rest (wire_b s) (now s))
             by (unfold do_deliver_w; rewrite Et;
                 change (get_node (MkNet (nodes s) (conns s) rest (wire_b s) (now s)) i0) with (get_node s i0);
                 change (get_node (MkNet (nodes s) (conns s) rest (wire_b s) (now s)) j) with (get_node s j);
                 rewrite ?Hga, ?Hgb; reflexivity);
            rewrite Es; apply (alive_same s); [reflexivity | exact Ha]).
      destruct (deliver_w_effect Sz Hh s i0 j m rest na nb Et Hga Hgb) as (_ & _ & _ & _ & _ & _ & Ecl & Ecla).
      destruct (N.eq_dec i i0) as [<-|Hne].
      + apply (alive_keeps s _ (n_client na) _ ltac:(unfold client_of; rewrite Hga; reflexivity) Ecla); [apply keeps_report | exact Ha].
      + apply (alive_same s); [apply Ecl; exact Hne | exact Ha].
    - (* NDeliverB *)
      left. destruct (take_first (b_between j i0) (wire_b s)) as [[m rest]|] eqn:Et; [|unfold do_deliver_b; rewrite Et; exact Ha].
      destruct (take_first_spec _ _ _ _ Et) as (Hm & _).
      destruct (get_node s i0) as [nb|] eqn:Hgb.
      2:{ unfold do_deliver_b. rewrite Et, Hgb. apply (alive_same s); [reflexivity | exact Ha]. }
      destruct (deliver_b_effect Sz Hh s j i0 m rest nb Et Hgb (no_wire_b _ _ _ Hok m Hm)) as (cl' & Es & Hcl'). rewrite Es.
      destruct (N.eq_dec i0 i) as [->|Hne].
      + apply (alive_keeps s _ (n_client nb) cl'); [unfold client_of; rewrite Hgb; reflexivity | | | exact Ha].
        * unfold client_of. rewrite (get_set_nth_same s i nb _ _ _ _ _ Hgb). reflexivity.
        * destruct Hcl' as [[-> _]| ->]; [apply keeps_same; reflexivity|]. apply keeps_incoming.
          apply (nk_invb _ _ _ _ _ (no_nodes _ _ _ Hok _ _ Hgb)).
      + apply (alive_same s); [|exact Ha]. unfold client_of. rewrite get_other by congruence. reflexivity.
  Qed.

  Lemma alive_run ops : forall s,
    Forall sched ops -> net_ok Sz Hh s -> alive s ->
    alive (fst (nrun Sz Hh s ops)) \/ answered (snd (nrun Sz Hh s ops)).
  Proof.
    induction ops as [|o ops IH]; intros s Hs Hok Ha; [left; exact Ha|]. rewrite (nrun_cons Sz Hh). cbn [fst snd].
    inversion Hs as [|? ? Ho Hs']; subst.
    destruct (alive_step s o Ho Hok Ha) as [Ha1|(d & Hd)].
    - assert (Hok1 : net_ok Sz Hh (fst (nstep Sz Hh s o))).
      { apply net_ok_step; [exact HSz | destruct o; try exact I; contradiction | exact Hok]. }
      destruct (IH _ Hs' Hok1 Ha1) as [H|(d & Hd)]; [left; exact H | right; exists d; apply in_app_iff; auto].
    - right. exists d. apply in_app_iff. auto.
  Qed.
End Alive.

(* ---------- schedule steps: connections stay, a stored block stays ---------- *)
Section Mono.
  Variables (Sz : N) (Hh : hash_fn).
  Hypothesis HSz : 32 <= Sz.

  Lemma sched_good o : sched o -> nop_good Sz Hh o /\ nop_wf Sz o.
  Proof. destruct o; intros H; try contradiction; split; exact I. Qed.

  Lemma sched_conns s o : sched o -> conns (fst (nstep Sz Hh s o)) = conns s.
  Proof.
    intros Hs. destruct o; try contradiction; cbn [nstep].
    - destruct (get_node s i) as [n|] eqn:Hg; [|unfold do_poll; rewrite Hg; reflexivity].
      destruct (do_poll_shape Sz s i n Hg) as (n2 & ws & bs & E & _). rewrite E. reflexivity.
    - cbn [fst]. apply on_node_frames.
    - unfold do_deliver_w. destruct (take_first (w_between i j) (wire_w s)) as [[m rest]|]; [|reflexivity].
      destruct (get_node _ i) as [ni|]; [|reflexivity]. destruct (get_node _ j) as [nj|]; [|reflexivity].
      destruct (node_incoming Sz Hh nj i _) as [nj1 evs]. cbn [fst].
      match goal with |- conns (on_node ?x _ _) = _ => destruct (on_node_frames x i (fun n => node_report n j CONN RpReady)) as (-> & _) end.
      reflexivity.
    - unfold do_deliver_b. destruct (take_first (b_between j i) (wire_b s)) as [[m rest]|]; [|reflexivity].
      destruct (get_node s i) as [ni|]; [|reflexivity]. destruct (node_incoming Sz Hh ni j _) as [ni1 evs]. reflexivity.
  Qed.

  Lemma sched_store s o k x :
    sched o -> net_ok Sz Hh s ->
    (exists st d, store_of s k = Some st /\ store_get st x = SHit d) ->
    (exists st d, store_of (fst (nstep Sz Hh s o)) k = Some st /\ store_get st x = SHit d).
  Proof.
    intros Hs Hok (st & d & Est & Hd). destruct o; try contradiction; cbn [nstep].
    - destruct (get_node s i) as [n|] eqn:Hg; [|unfold do_poll; rewrite Hg; eauto].
      destruct (do_poll_nf Sz Hh s i n Hok Hg) as (sC & outsC & [_ _ _ Heq]). cbn zeta in Heq. rewrite Heq. cbn [fst].
      destruct (N.eq_dec k i) as [->|Hne].
      + unfold store_of in *. rewrite (get_set_nth_same s i n _ _ _ _ _ Hg). rewrite Hg in Est. cbn in *. eauto.
      + unfold store_of in *. rewrite get_other by exact Hne. eauto.
    - cbn [fst]. destruct (get_node s i) as [n|] eqn:Hg; [|unfold on_node; rewrite Hg; eauto].
      destruct (N.eq_dec k i) as [->|Hne].
      + unfold store_of in *. rewrite (get_on_node_same s i _ n Hg). rewrite Hg in Est. cbn [option_map] in *. injection Est as <-.
        unfold node_store. destruct (nth_error (n_calls n) (N.to_nat k0)) as [[m y|m bl|m y]|]; cbn [n_store]; eauto.
        destruct (store_put_many_keeps bl (n_store n) x d Hd) as (d' & Hd'). eauto.
      + unfold store_of in *. rewrite get_on_node_other by exact Hne. eauto.
    - destruct (take_first (w_between i j) (wire_w s)) as [[m rest]|] eqn:Et; [|unfold do_deliver_w; rewrite Et; eauto].
      destruct (get_node s i) as [na|] eqn:Hga; [destruct (get_node s j) as [nb|] eqn:Hgb|].
      2,3: (assert (Es : fst (do_deliver_w Sz Hh s i j) = MkNet (nodes s) (conns s) rest (wire_b s) (now s))
             by (unfold do_deliver_w; rewrite Et;
                 change (get_node (MkNet (nodes s) (conns s) rest (wire_b s) (now s)) i) with (get_node s i);
                 change (get_node (MkNet (nodes s) (conns s) rest (wire_b s) (now s)) j) with (get_node s j);
                 rewrite ?Hga, ?Hgb; reflexivity);
            rewrite Es; exists st, d; auto).
      destruct (deliver_w_effect Sz Hh s i j m rest na nb Et Hga Hgb) as (_ & _ & _ & Est' & _). rewrite Est'. eauto.
    - destruct (take_first (b_between j i) (wire_b s)) as [[m rest]|] eqn:Et; [|unfold do_deliver_b; rewrite Et; eauto].
      destruct (take_first_spec _ _ _ _ Et) as (Hm & _).
      destruct (get_node s i) as [nb|] eqn:Hgb.
      2:{ unfold do_deliver_b. rewrite Et, Hgb. exists st, d. auto. }
      destruct (deliver_b_effect Sz Hh s j i m rest nb Et Hgb (no_wire_b _ _ _ Hok m Hm)) as (cl' & Es & _). rewrite Es.
      destruct (N.eq_dec k i) as [->|Hne].
      + unfold store_of in *. rewrite (get_set_nth_same s i nb _ _ _ _ _ Hgb). rewrite Hgb in Est. cbn in *. eauto.
      + unfold store_of in *. rewrite get_other by exact Hne. eauto.
  Qed.

  Lemma sched_run_facts ops : forall s k x,
    Forall sched ops -> net_ok Sz Hh s -> net_wf Sz s ->
    let s' := fst (nrun Sz Hh s ops) in
    net_ok Sz Hh s' /\ net_wf Sz s' /\ conns s' = conns s /\
    ((exists st d, store_of s k = Some st /\ store_get st x = SHit d) ->
     (exists st d, store_of s' k = Some st /\ store_get st x = SHit d)).
  Proof.
    induction ops as [|o ops IH]; intros s k x Hs Hok Hwf; [cbn; auto|]. rewrite (nrun_cons Sz Hh). cbn [fst].
    inversion Hs as [|? ? Ho Hs']; subst. destruct (sched_good o Ho) as [Hg Hw].
    assert (Hok1 : net_ok Sz Hh (fst (nstep Sz Hh s o))) by (apply net_ok_step; assumption).
    assert (Hwf1 : net_wf Sz (fst (nstep Sz Hh s o))) by (apply (net_wf_step Sz Hh HSz); assumption).
    destruct (IH _ k x Hs' Hok1 Hwf1) as (A & B & C & D). cbn zeta in *. split; [exact A|]. split; [exact B|].
    split; [rewrite C; apply sched_conns, Ho|]. intros H. apply D. apply sched_store; assumption.
  Qed.
End Mono.

(* ---------- the refresh phase, and the theorem ---------- *)
Section Direct.
  Variables (Sz : N) (Hh : hash_fn).
  Hypothesis HSz : 32 <= Sz.
  Variables (i j : N) (q : qid) (c : cid).
  Variable strict : bool.

  Lemma P2_sched s o : i <> j -> sched o -> P2 Sz Hh i j c strict s -> P2 Sz Hh i j c strict (fst (nstep Sz Hh s o)).
  Proof.
    intros Hij Hs HP. destruct o; try contradiction.
    - apply P2_poll; assumption.
    - apply P2_store; assumption.
    - apply P2_deliver_w; assumption.
    - apply P2_deliver_b; assumption.
  Qed.

  Lemma P2_run ops : forall s, i <> j -> Forall sched ops -> P2 Sz Hh i j c strict s -> P2 Sz Hh i j c strict (fst (nrun Sz Hh s ops)).
  Proof.
    induction ops as [|o ops IH]; intros s Hij Hs HP; [exact HP|]. rewrite (nrun_cons Sz Hh). cbn [fst].
    inversion Hs; subst. apply IH; [assumption | assumption | apply P2_sched; assumption].
  Qed.

  (* what `quietb` says *)
  Lemma is_nil_true {A} (l : list A) : is_nil l = true -> l = [].
  Proof. destruct l; [reflexivity | discriminate]. Qed.

  Lemma quiet_node s k n : quietb s = true -> get_node s k = Some n -> node_idle n = true.
  Proof.
    unfold quietb. rewrite !andb_true_iff. intros [_ H] Hg. rewrite forallb_forall in H. apply H. eapply nth_error_In. exact Hg.
  Qed.

  Lemma quiet_not_wanted s : strict = true -> P2 Sz Hh i j c strict s -> quietb s = true -> ~ In c (wl_i i s).
  Proof.
    intros Hstrict HP Hq Hc. destruct (p2_T _ _ _ _ _ _ _ HP Hc) as [_ HT].
    pose proof Hq as Hq0. unfold quietb in Hq0. rewrite !andb_true_iff in Hq0. destruct Hq0 as [[Hww Hwb] _].
    apply is_nil_true in Hww, Hwb.
    destruct HT as [HT|[HT|[HT|HT]]].
    - destruct HT as (cl & ps & E & Hin & Hr & Hsf). unfold client_of in E. destruct (get_node s i) as [n|] eqn:Hg; [|discriminate].
      injection E as <-. pose proof (quiet_node s i n Hq Hg) as Hn. unfold node_idle, client_idle in Hn. rewrite !andb_true_iff in Hn.
      destruct Hn as [[[[[[[_ _] _] _] Htr] Hpeers] _] _]. rewrite forallb_forall in Hpeers. specialize (Hpeers _ Hin).
      unfold peer_idle in Hpeers. cbn [snd] in Hpeers. rewrite !andb_true_iff in Hpeers. destruct Hpeers as [[_ Hsf'] _].
      apply negb_true_iff in Htr, Hsf'. destruct Hsf; congruence.
    - destruct HT as (m & Hm & _). rewrite Hww in Hm. destruct Hm.
    - destruct HT as (st & E & _ & Hp). unfold server_of in E. destruct (get_node s j) as [n|] eqn:Hg; [|discriminate].
      injection E as <-. pose proof (quiet_node s j n Hq Hg) as Hn. unfold node_idle, server_idle in Hn. rewrite !andb_true_iff in Hn.
      destruct Hn as [[_ [[Hr Hb] Ho]] _]. apply is_nil_true in Hr, Hb, Ho. unfold pendS in Hp. rewrite Hstrict in Hp.
      exact (quiescent_no_pend c _ Hr Hb Ho Hp).
    - destruct HT as (m & Hm & _). rewrite Hwb in Hm. destruct Hm.
  Qed.

  Lemma client_after_advance s ms :
    client_of (advance Sz Hh ms s) i = option_map (fun cl => c_advance cl ms) (client_of s i).
  Proof.
    unfold advance, client_of, get_node. cbn [nstep fst nodes]. rewrite nth_error_map.
    destruct (nth_error (nodes s) (N.to_nat i)); reflexivity.
  Qed.

  Lemma P2_after_advance s :
    i <> j -> net_ok Sz Hh s -> net_wf Sz s -> quietb s = true -> Net.connected s i j = true ->
    (strict = true -> exists st d, store_of s j = Some st /\ store_get st c = SHit d) -> (length (wl_i i s) <= 1024)%nat ->
    P2 Sz Hh i j c strict (advance Sz Hh SEND_FULL_INTERVAL s).
  Proof.
    intros Hij Hok Hwf Hq Hc Hstore Hsz. unfold advance.
    assert (Hok' : net_ok Sz Hh (fst (nstep Sz Hh s (NAdvance SEND_FULL_INTERVAL)))) by (apply net_ok_step; [exact HSz | exact I | exact Hok]).
    assert (Hwf' : net_wf Sz (fst (nstep Sz Hh s (NAdvance SEND_FULL_INTERVAL)))) by (apply (net_wf_step Sz Hh HSz); [exact Hok | exact I | exact Hwf]).
    pose proof (client_after_advance s SEND_FULL_INTERVAL) as Ecl. unfold advance in Ecl.
    destruct (connected_neq Sz Hh HSz s i j Hok Hc) as (_ & Hei & _).
    destruct (get_node s i) as [n|] eqn:Hg; [|contradiction].
    assert (Hcl : client_of s i = Some (n_client n)) by (unfold client_of; rewrite Hg; reflexivity). rewrite Hcl in Ecl. cbn [option_map] in Ecl.
    pose proof (no_nodes _ _ _ Hok _ _ Hg) as Hn.
    pose proof (quiet_node s i n Hq Hg) as Hidle. unfold node_idle, client_idle in Hidle. rewrite !andb_true_iff in Hidle.
    destruct Hidle as [[[[[[[_ Htasks] _] _] _] Hpeers] _] _]. apply is_nil_true in Htasks.
    assert (Hwl : wl_i i (fst (nstep Sz Hh s (NAdvance SEND_FULL_INTERVAL))) = wl_i i s) by (unfold wl_i; rewrite Ecl, Hcl; reflexivity).
    constructor; try assumption.
    - intros cl E. rewrite Ecl in E. injection E as <-. intros tid t Hin. cbn [c_advance cs_tasks] in Hin. rewrite Htasks in Hin. destruct Hin.
    - intros Hs st' E. destruct (Hstore Hs) as (st & d & Est & Hd). unfold store_of, get_node in E. cbn [nstep fst nodes] in E. rewrite nth_error_map in E.
      unfold store_of, get_node in Est. destruct (nth_error (nodes s) (N.to_nat j)) as [nj|]; [|discriminate].
      cbn in E, Est. injection E as <-. injection Est as <-. eauto.
    - rewrite Hwl. exact Hsz.
    - intros _. split.
      + intros m Hm. cbn [nstep fst wire_w] in Hm. unfold quietb in Hq. rewrite !andb_true_iff in Hq. destruct Hq as [[Hww _] _].
        apply is_nil_true in Hww. rewrite Hww in Hm. destruct Hm.
      + left. assert (Hj : In j (map fst (cs_peers (n_client n)))) by (apply (nk_peers _ _ _ _ _ Hn); exact Hc).
        apply in_map_iff in Hj. destruct Hj as ([j' ps] & E & Hin). cbn [fst] in E. subst j'.
        exists (c_advance (n_client n) SEND_FULL_INTERVAL), ps. split; [exact Ecl|]. split; [exact Hin|].
        rewrite forallb_forall in Hpeers. specialize (Hpeers _ Hin). unfold peer_idle in Hpeers. cbn [snd] in Hpeers.
        rewrite !andb_true_iff in Hpeers. destruct Hpeers as [[Hr _] _]. split; [destruct (p_ss ps); try discriminate; reflexivity|].
        left. unfold timer_ready. cbn [c_advance cs_deadline cs_now]. pose proof (nk_deadline _ _ _ _ _ Hn) as Hdl.
        rewrite (nk_now _ _ _ _ _ Hn). apply N.leb_le. exact Hdl.
  Qed.

  (* the property *)
  Definition live_query (s : net) : Prop :=
    exists cl qs, client_of s i = Some cl /\ In (c, qs) (cs_c2q cl) /\ In q qs.

  Lemma run_both ops : forall s0,
    Forall (nop_good Sz Hh) ops -> Forall (nop_wf Sz) ops -> net_ok Sz Hh s0 -> net_wf Sz s0 ->
    net_ok Sz Hh (fst (nrun Sz Hh s0 ops)) /\ net_wf Sz (fst (nrun Sz Hh s0 ops)).
  Proof.
    induction ops as [|o ops IH]; intros s0 Hg Hw Hok Hwf; [auto|]. rewrite (nrun_cons Sz Hh). cbn [fst].
    inversion Hg; subst. inversion Hw; subst. apply IH; try assumption.
    - apply net_ok_step; assumption.
    - apply (net_wf_step Sz Hh HSz); assumption.
  Qed.

End Direct.

Section DirectT.
  Variables (Sz : N) (Hh : hash_fn).
  Hypothesis HSz : 32 <= Sz.
  Variables (i j : N) (q : qid) (c : cid).

  (* the core of the refresh phase: one refresh from a quiet state clears c from i's wantlist *)
  Lemma refresh_clears s1 :
    i <> j -> net_ok Sz Hh s1 -> net_wf Sz s1 -> quietb s1 = true -> Net.connected s1 i j = true ->
    (exists st d, store_of s1 j = Some st /\ store_get st c = SHit d) -> (length (wl_i i s1) <= 1024)%nat ->
    quietb (fst (refresh Sz Hh s1)) = true ->
    exists ops2, Forall sched ops2 /\ refresh Sz Hh s1 = nrun Sz Hh (advance Sz Hh SEND_FULL_INTERVAL s1) ops2 /\
                 P2 Sz Hh i j c true (advance Sz Hh SEND_FULL_INTERVAL s1) /\
                 P2 Sz Hh i j c true (fst (refresh Sz Hh s1)) /\ ~ In c (wl_i i (fst (refresh Sz Hh s1))).
  Proof.
    intros Hij Hok1 Hwf1 Hq1 Hconn1 Hst Hsize Hq2.
    pose proof (P2_after_advance Sz Hh HSz i j c true s1 Hij Hok1 Hwf1 Hq1 Hconn1 (fun _ => Hst) Hsize) as HP.
    unfold refresh in *. set (s1' := advance Sz Hh SEND_FULL_INTERVAL s1) in *.
    destruct (settle_run Sz Hh s1') as (ops2 & Hs2 & E2). rewrite E2 in *.
    pose proof (P2_run Sz Hh HSz i j c true ops2 s1' Hij Hs2 HP) as HP2.
    exists ops2. split; [exact Hs2|]. split; [reflexivity|]. split; [exact HP|]. split; [exact HP2|].
    apply (quiet_not_wanted Sz Hh i j c true _ eq_refl HP2 Hq2).
  Qed.

  Theorem C02_direct n ops :
    Forall (nop_good Sz Hh) ops -> Forall (nop_wf Sz) ops ->
    let s := fst (nrun Sz Hh (net_init n) ops) in
    live_query i q c s -> Net.connected s i j = true ->
    (exists st d, store_of s j = Some st /\ store_get st c = SHit d) ->
    let r1 := settle Sz Hh s in
    let r2 := refresh Sz Hh (fst r1) in
    quietb (fst r1) = true -> quietb (fst r2) = true -> (length (wl_i i (fst r1)) <= 1024)%nat ->
    answered i q (snd r1 ++ snd r2).
  Proof.
    intros Hg Hw s Hlive Hconn Hstore r1 r2 Hq1 Hq2 Hsize.
    destruct (run_both Sz Hh HSz ops (net_init n) Hg Hw (net_ok_init Sz Hh HSz n) (net_wf_init Sz n)) as [Hok Hwf]. fold s in Hok, Hwf.
    destruct (connected_neq Sz Hh HSz s i j Hok Hconn) as (Hij & _).
    assert (Ha : alive i q c s).
    { destruct Hlive as (cl & qs & E & Hin & Hq). exists cl. split; [exact E|]. left. exists qs. auto. }
    (* phase 1 *)
    destruct (settle_run Sz Hh s) as (ops1 & Hs1 & E1). subst r2 r1. rewrite E1 in *.
    destruct (sched_run_facts Sz Hh HSz ops1 s j c Hs1 Hok Hwf) as (Hok1 & Hwf1 & Hc1 & Hst1). cbn zeta in *.
    set (s1 := fst (nrun Sz Hh s ops1)) in *.
    destruct (alive_run Sz Hh HSz i q c ops1 s Hs1 Hok Ha) as [Ha1|(d & Hd)]; [|exists d; apply in_app_iff; auto]. fold s1 in Ha1.
    assert (Hconn1 : Net.connected s1 i j = true) by (unfold Net.connected in *; rewrite Hc1; exact Hconn).
    (* phase 2 *)
    pose proof (P2_after_advance Sz Hh HSz i j c true s1 Hij Hok1 Hwf1 Hq1 Hconn1 (fun _ => Hst1 Hstore) Hsize) as HP.
    unfold refresh in *. set (s1' := advance Sz Hh SEND_FULL_INTERVAL s1) in *.
    destruct (settle_run Sz Hh s1') as (ops2 & Hs2 & E2). rewrite E2 in *.
    pose proof (P2_run Sz Hh HSz i j c true ops2 s1' Hij Hs2 HP) as HP2. set (s2 := fst (nrun Sz Hh s1' ops2)) in *.
    assert (Ha1' : alive i q c s1').
    { destruct Ha1 as (cl & E & H). exists (c_advance cl SEND_FULL_INTERVAL). split.
      - unfold s1'. rewrite (client_after_advance Sz Hh i), E. reflexivity.
      - exact H. }
    destruct (alive_run Sz Hh HSz i q c ops2 s1' Hs2 (p2_ok _ _ _ _ _ _ _ HP) Ha1') as [Ha2|(d & Hd)]; [|exists d; apply in_app_iff; auto].
    exfalso. fold s2 in Ha2. apply (quiet_not_wanted Sz Hh i j c true s2 eq_refl HP2 Hq2).
    destruct Ha2 as (cl & E & H). unfold client_of in E. destruct (get_node s2 i) as [n2|] eqn:Hg2; [|discriminate]. injection E as <-.
    pose proof (quiet_node s2 i n2 Hq2 Hg2) as Hidle. unfold node_idle, client_idle in Hidle. rewrite !andb_true_iff in Hidle.
    destruct Hidle as [[[[[[[Hqueue _] _] _] _] _] _] _]. apply is_nil_true in Hqueue.
    destruct H as [(qs & Hin & _)|(d & Hd)]; [|rewrite Hqueue in Hd; destruct Hd].
    unfold wl_i, client_of. rewrite Hg2. cbn [option_map].
    destruct (nk_invb _ _ _ _ _ (no_nodes _ _ _ (p2_ok _ _ _ _ _ _ _ HP2) _ _ Hg2)) as (_ & _ & Hk & _). apply Hk.
    apply in_map_iff. exists (c, qs). auto.
  Qed.
End DirectT.
