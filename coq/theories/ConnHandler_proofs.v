(* ConnHandler_proofs.v — theorems about ConnHandler.v: how the three parts of the connection handler (client
   half, server half, inbound streams) compose under the priority order of `ConnHandler::poll` (lib.rs:389-405).

   Main results (statements at the end of the file):
     kstep_ok                          the fuels of the model are always sufficient (nothing is ever cut short)
     connhandler_server_projection     the server half inside the whole handler behaves exactly like
                                       ServerHandler.v alone on its own ops and scripts
     connhandler_server_starvation     hence: a server half with pending blocks and a ready stream makes
                                       progress in EVERY KPoll whatever the client half and the inbound side do
     connhandler_client_projection     the client half behaves like Handler.v alone EXCEPT that a KPoll in which
                                       the server half asks for a substream polls the client half until Pending
                                       a second time, on the rest of its script
     connhandler_projections_refuted   witness: the naive projection (KPoll sc ss |-> HPoll sc) is false
     connhandler_projections           whole runs: both halves, with the exact client projection
     connhandler_inbound_first         in a KPoll all IncomingMessage events precede every event of the halves
     connhandler_call_priority         in ONE call of `poll` the server half is not touched when the inbound side
                                       or the client half is Ready (per-call starvation, the refuted reading) *)
From BS Require Import Bytes Types FramedWrite Handler ServerHandler Framed Framed_proofs Streams Streams_proofs
                       Handler_proofs ServerHandler_proofs ConnHandler.
From Coq Require Import ZArith ZifyBool ZifyN ZifyNat Lia.
Open Scope N_scope.

Section Proofs.
Variable encode : message -> bytes.
Variable block_size : blk -> N.
Variable msg : Type.
Variable parse : bytes -> N -> parse_result msg.
Variable proc : msg -> pm_result.

Local Notation poll_iter := (poll_iter encode).
Local Notation sh_iter := (sh_iter encode block_size).
Local Notation hpoll_call := (hpoll_call encode).
Local Notation shpoll_call := (shpoll_call encode block_size).
Local Notation hpoll_loop := (hpoll_loop encode).
Local Notation shpoll_loop := (shpoll_loop encode block_size).
Local Notation in_next := (in_next parse proc).
Local Notation kcall := (kcall encode block_size parse proc).
Local Notation kpoll_loop := (kpoll_loop encode block_size parse proc).
Local Notation k_do_poll := (k_do_poll encode block_size parse proc).
Local Notation kstep := (kstep encode block_size parse proc).
Local Notation krun_trace := (krun_trace encode block_size parse proc).

(* ================================================================================================== *)
(* 1. The client half: `poll` until Pending, keeping what is left of the script                        *)
(* ================================================================================================== *)

(* Handler.hpoll_loop with the unconsumed script as an extra result *)
Fixpoint hloop (fuel : nat) (st : hstate) (script : list io) : hstate * list io * list hout :=
  match fuel with
  | O => (set_exhausted st, script, [])
  | S f =>
      match poll_iter st script with
      | (IrPending, st', s', o) => (st', s', o)
      | (IrReady e, st', s', o) => let '(st'', s'', o') := hloop f st' s' in (st'', s'', o ++ e :: o')
      | (IrContinue, st', s', o) => let '(st'', s'', o') := hloop f st' s' in (st'', s'', o ++ o')
      end
  end.

(* HPoll with the rest of the script *)
Definition hpoll_rest (st : hstate) (script : list io) : hstate * list io * list hout :=
  hloop (poll_fuel st) st script.

Lemma hloop_hpoll_loop fuel : forall st s,
  hpoll_loop fuel st s = (fst (fst (hloop fuel st s)), snd (hloop fuel st s)).
Proof.
  induction fuel as [|f IH]; intros st s; [reflexivity|].
  cbn [Handler.hpoll_loop hloop]. destruct (poll_iter st s) as [[[r st'] s'] o]. destruct r.
  - reflexivity.
  - rewrite IH. destruct (hloop f st' s') as [[a b] c]. reflexivity.
  - rewrite IH. destruct (hloop f st' s') as [[a b] c]. reflexivity.
Qed.

Lemma hpoll_rest_do_poll st s :
  do_poll encode st s = (fst (fst (hpoll_rest st s)), snd (hpoll_rest st s)).
Proof. apply hloop_hpoll_loop. Qed.

Lemma set_exhausted_flag st : h_exhausted (set_exhausted st) = true.
Proof. reflexivity. Qed.

Lemma hloop_exhausted_mono fuel : forall st s,
  h_exhausted st = true -> h_exhausted (fst (fst (hloop fuel st s))) = true.
Proof.
  induction fuel as [|f IH]; intros st s X; [reflexivity|].
  cbn [hloop]. destruct (poll_iter st s) as [[[r st'] s'] o] eqn:E.
  pose proof (poll_iter_flags _ _ _ _ _ _ _ E) as (F & _).
  destruct r.
  - cbn. congruence.
  - specialize (IH st' s' ltac:(congruence)). destruct (hloop f st' s') as [[a b] c]. exact IH.
  - specialize (IH st' s' ltac:(congruence)). destruct (hloop f st' s') as [[a b] c]. exact IH.
Qed.

(* more fuel does not change a run that was not cut short *)
Lemma hloop_mono f : forall f' st s,
  h_exhausted (fst (fst (hloop f st s))) = false -> (f <= f')%nat -> hloop f' st s = hloop f st s.
Proof.
  induction f as [|f IH]; intros f' st s X L; [cbn in X; discriminate|].
  destruct f' as [|f']; [lia|]. cbn [hloop] in *.
  destruct (poll_iter st s) as [[[r st'] s'] o]. destruct r.
  - reflexivity.
  - rewrite (IH f' st' s'); [reflexivity| |lia]. destruct (hloop f st' s') as [[a b] c]. exact X.
  - rewrite (IH f' st' s'); [reflexivity| |lia]. destruct (hloop f st' s') as [[a b] c]. exact X.
Qed.

Lemma hloop_not_exhausted fuel st s :
  (phi st < fuel)%nat -> h_exhausted st = false -> h_exhausted (fst (fst (hloop fuel st s))) = false.
Proof.
  intros P X. pose proof (hpoll_loop_not_exhausted encode fuel st s P X) as (Y & _).
  rewrite hloop_hpoll_loop in Y. exact Y.
Qed.

Lemma phi_poll_fuel st : (phi st < poll_fuel st)%nat.
Proof. unfold poll_fuel, phi. pose proof (rank_le3 encode st). lia. Qed.

(* whatever fuel was enough gives the result of the standard fuel *)
Lemma hloop_std f st s :
  h_exhausted st = false -> h_exhausted (fst (fst (hloop f st s))) = false -> hloop f st s = hpoll_rest st s.
Proof.
  intros X Y. unfold hpoll_rest.
  pose proof (hloop_not_exhausted (poll_fuel st) st s (phi_poll_fuel st) X) as Z.
  destruct (Nat.le_ge_cases f (poll_fuel st)) as [L|L].
  - symmetry. apply hloop_mono; assumption.
  - apply hloop_mono; assumption.
Qed.

(* one call that ends Pending IS the loop *)
Lemma hpoll_call_none f : forall st s st' s' o,
  hpoll_call f st s = (None, st', s', o) -> hloop f st s = (st', s', o).
Proof.
  induction f as [|f IH]; intros st s st' s' o H; cbn [ConnHandler.hpoll_call hloop] in *.
  - injection H as <- <- <-. reflexivity.
  - destruct (poll_iter st s) as [[[r st1] s1] o1]. destruct r.
    + injection H as <- <- <-. reflexivity.
    + discriminate.
    + destruct (hpoll_call f st1 s1) as [[[r2 st2] s2] o2] eqn:E. injection H as -> <- <- <-.
      rewrite (IH _ _ _ _ _ E). reflexivity.
Qed.

(* one call that ends Ready(e), followed by the loop, is the loop *)
Lemma hpoll_call_some f : forall st s e st1 s1 o1 f2,
  hpoll_call f st s = (Some e, st1, s1, o1) ->
  h_exhausted (fst (fst (hloop f2 st1 s1))) = false ->
  hloop (f + f2) st s = (let '(st2, s2, o2) := hloop f2 st1 s1 in (st2, s2, o1 ++ e :: o2)).
Proof.
  induction f as [|f IH]; intros st s e st1 s1 o1 f2 H X; cbn [ConnHandler.hpoll_call] in H; [discriminate|].
  cbn [Nat.add hloop]. destruct (poll_iter st s) as [[[r sta] sa] oa]. destruct r.
  - discriminate.
  - injection H as <- <- <- <-. rewrite (hloop_mono f2 (f + f2) sta sa X ltac:(lia)). reflexivity.
  - destruct (hpoll_call f sta sa) as [[[r2 st2] s2] o2] eqn:E. injection H as -> -> -> <-.
    rewrite (IH _ _ _ _ _ _ f2 E X). destruct (hloop f2 st1 s1) as [[a b] c].
    rewrite <- app_assoc. reflexivity.
Qed.

(* a call never changes the ghost flags of the client half except by running out of fuel *)
Lemma hpoll_call_flags f : forall st s r st' s' o,
  hpoll_call f st s = (r, st', s', o) ->
  h_panicked st' = h_panicked st /\ (h_exhausted st = true -> h_exhausted st' = true).
Proof.
  induction f as [|f IH]; intros st s r st' s' o H; cbn [ConnHandler.hpoll_call] in H.
  - injection H as <- <- <- <-. split; [reflexivity|reflexivity].
  - destruct (poll_iter st s) as [[[r1 st1] s1] o1] eqn:E.
    pose proof (poll_iter_flags _ _ _ _ _ _ _ E) as (F1 & F2 & _).
    destruct r1.
    + injection H as <- <- <- <-. split; congruence.
    + injection H as <- <- <- <-. split; congruence.
    + destruct (hpoll_call f st1 s1) as [[[r2 st2] s2] o2] eqn:E2. injection H as <- <- <- <-.
      destruct (IH _ _ _ _ _ _ E2) as (G1 & G2). split; [congruence|]. intros X. apply G2. congruence.
Qed.

(* ================================================================================================== *)
(* 2. The server half: one call against the loop                                                      *)
(* ================================================================================================== *)

Lemma sh_iter_exhausted st s r st' s' o :
  sh_iter st s = (r, st', s', o) -> sh_exhausted st' = sh_exhausted st.
Proof. intros H. destruct (sh_iter_measure _ _ _ _ _ _ _ _ H) as [[_ X]|[_ X]]; exact X. Qed.

Lemma shpoll_loop_mono f : forall f' st s,
  sh_exhausted (fst (shpoll_loop f st s)) = false -> (f <= f')%nat -> shpoll_loop f' st s = shpoll_loop f st s.
Proof.
  induction f as [|f IH]; intros f' st s X L; [cbn in X; discriminate|].
  destruct f' as [|f']; [lia|]. cbn [ServerHandler.shpoll_loop] in *.
  destruct (sh_iter st s) as [[[r st'] s'] o]. destruct r.
  - reflexivity.
  - rewrite (IH f' st' s'); [reflexivity| |lia]. destruct (shpoll_loop f st' s') as [a b]. exact X.
  - rewrite (IH f' st' s'); [reflexivity| |lia]. destruct (shpoll_loop f st' s') as [a b]. exact X.
Qed.

Lemma smu_shpoll_fuel st : (smu st < shpoll_fuel st)%nat.
Proof. unfold smu, shpoll_fuel. destruct (sh_pending st), (sh_sink st); lia. Qed.

Lemma shpoll_loop_std f st s :
  sh_exhausted st = false -> sh_exhausted (fst (shpoll_loop f st s)) = false ->
  shpoll_loop f st s = sh_do_poll encode block_size st s.
Proof.
  intros X Y. unfold sh_do_poll.
  pose proof (shpoll_loop_not_exhausted encode block_size (shpoll_fuel st) st s (smu_shpoll_fuel st) X) as Z.
  destruct (Nat.le_ge_cases f (shpoll_fuel st)) as [L|L].
  - symmetry. apply shpoll_loop_mono; assumption.
  - apply shpoll_loop_mono; assumption.
Qed.

Lemma shpoll_call_none f : forall st s st' s' o,
  shpoll_call f st s = (None, st', s', o) -> shpoll_loop f st s = (st', o).
Proof.
  induction f as [|f IH]; intros st s st' s' o H; cbn [ConnHandler.shpoll_call ServerHandler.shpoll_loop] in *.
  - injection H as <- <- <-. reflexivity.
  - destruct (sh_iter st s) as [[[r st1] s1] o1]. destruct r.
    + injection H as <- <- <-. reflexivity.
    + discriminate.
    + destruct (shpoll_call f st1 s1) as [[[r2 st2] s2] o2] eqn:E. injection H as -> <- <- <-.
      rewrite (IH _ _ _ _ _ E). reflexivity.
Qed.

Lemma shpoll_call_some f : forall st s e st1 s1 o1 f2,
  shpoll_call f st s = (Some e, st1, s1, o1) ->
  sh_exhausted (fst (shpoll_loop f2 st1 s1)) = false ->
  shpoll_loop (f + f2) st s = (let '(st2, o2) := shpoll_loop f2 st1 s1 in (st2, o1 ++ e :: o2)).
Proof.
  induction f as [|f IH]; intros st s e st1 s1 o1 f2 H X; cbn [ConnHandler.shpoll_call] in H; [discriminate|].
  cbn [Nat.add ServerHandler.shpoll_loop]. destruct (sh_iter st s) as [[[r sta] sa] oa]. destruct r.
  - discriminate.
  - injection H as <- <- <- <-. rewrite (shpoll_loop_mono f2 (f + f2) sta sa X ltac:(lia)). reflexivity.
  - destruct (shpoll_call f sta sa) as [[[r2 st2] s2] o2] eqn:E. injection H as -> -> -> <-.
    rewrite (IH _ _ _ _ _ _ f2 E X). destruct (shpoll_loop f2 st1 s1) as [a b].
    rewrite <- app_assoc. reflexivity.
Qed.

(* Ready comes only from open_new_substream: afterwards the sink is Requested ... *)
Lemma shpoll_call_some_requested f : forall st s e st1 s1 o1,
  shpoll_call f st s = (Some e, st1, s1, o1) -> sh_sink st1 = SvRequested /\ e = SHOpenStream.
Proof.
  induction f as [|f IH]; intros st s e st1 s1 o1 H; cbn [ConnHandler.shpoll_call] in H; [discriminate|].
  destruct (sh_iter st s) as [[[r sta] sa] oa] eqn:E. destruct r.
  - discriminate.
  - injection H as <- <- <- <-. unfold ServerHandler.sh_iter in E.
    destruct (sh_pending st) as [l|], (sh_sink st) as [| |id buf]; try discriminate.
    + injection E as <- <- <- <-. split; reflexivity.
    + destruct (fr_res (fw_poll_flush buf s)); [destruct (splitN _ l)|..]; discriminate.
    + destruct (fr_res (fw_poll_flush buf s)); discriminate.
  - destruct (shpoll_call f sta sa) as [[[r2 st2] s2] o2] eqn:E2. injection H as -> -> -> <-.
    eapply IH; eassumption.
Qed.

(* ... and a Requested server half is Pending without touching anything *)
Lemma shpoll_call_requested f st s :
  sh_sink st = SvRequested -> shpoll_call (S f) st s = (None, st, s, []).
Proof.
  intros R. cbn [ConnHandler.shpoll_call]. unfold ServerHandler.sh_iter. rewrite R.
  destruct (sh_pending st); reflexivity.
Qed.

(* ================================================================================================== *)
(* 3. One call of ConnHandler::poll, by cases                                                         *)
(* ================================================================================================== *)

Lemma client_outs_app a b : client_outs (a ++ b) = client_outs a ++ client_outs b.
Proof. unfold client_outs. apply flat_map_app. Qed.
Lemma server_outs_app a b : server_outs (a ++ b) = server_outs a ++ server_outs b.
Proof. unfold server_outs. apply flat_map_app. Qed.
Lemma inbound_outs_app a b : inbound_outs (a ++ b) = inbound_outs a ++ inbound_outs b.
Proof. unfold inbound_outs. apply flat_map_app. Qed.

Lemma client_outs_client l : client_outs (map KClient l) = l.
Proof. induction l as [|x l IH]; [reflexivity|]. cbn. f_equal. exact IH. Qed.
Lemma client_outs_server l : client_outs (map KServer l) = [].
Proof. induction l as [|x l IH]; [reflexivity|]. exact IH. Qed.
Lemma server_outs_server l : server_outs (map KServer l) = l.
Proof. induction l as [|x l IH]; [reflexivity|]. cbn. f_equal. exact IH. Qed.
Lemma server_outs_client l : server_outs (map KClient l) = [].
Proof. induction l as [|x l IH]; [reflexivity|]. exact IH. Qed.
Lemma inbound_outs_client l : inbound_outs (map KClient l) = [].
Proof. induction l as [|x l IH]; [reflexivity|]. exact IH. Qed.
Lemma inbound_outs_server l : inbound_outs (map KServer l) = [].
Proof. induction l as [|x l IH]; [reflexivity|]. exact IH. Qed.

(* the five ways one call of `poll` can go *)
Inductive kcall_spec (st : kstate) (sc ss : list io)
  : kcall_res -> kstate -> list io -> list io -> list kout -> Prop :=
| KcFatal r c' k :
    in_next 0 (k_in st) = (r, c', Some k) ->
    kcall_spec st sc ss KrFatal (k_set_fatal (k_set_in st c')) sc ss [KInFatal k]
| KcInbound c' k inc :
    in_next 0 (k_in st) = (Some (k, inc), c', None) ->
    kcall_spec st sc ss KrReady (k_set_in st c') sc ss [KIncoming k inc]
| KcClient c' e h' sc' oc :
    in_next 0 (k_in st) = (None, c', None) ->
    hpoll_call hcall_fuel (k_client st) sc = (Some e, h', sc', oc) ->
    kcall_spec st sc ss KrReady (k_set_client (k_set_in st c') h') sc' ss (map KClient (oc ++ [e]))
| KcServer c' h' sc' oc e s' ss' os :
    in_next 0 (k_in st) = (None, c', None) ->
    hpoll_call hcall_fuel (k_client st) sc = (None, h', sc', oc) ->
    shpoll_call (shpoll_fuel (k_server st)) (k_server st) ss = (Some e, s', ss', os) ->
    kcall_spec st sc ss KrReady (k_set_server (k_set_client (k_set_in st c') h') s') sc' ss'
               (map KClient oc ++ map KServer (os ++ [e]))
| KcPending c' h' sc' oc s' ss' os :
    in_next 0 (k_in st) = (None, c', None) ->
    hpoll_call hcall_fuel (k_client st) sc = (None, h', sc', oc) ->
    shpoll_call (shpoll_fuel (k_server st)) (k_server st) ss = (None, s', ss', os) ->
    kcall_spec st sc ss KrPending (k_set_server (k_set_client (k_set_in st c') h') s') sc' ss'
               (map KClient oc ++ map KServer os).

Lemma kcall_cases st sc ss r st' sc' ss' o :
  kcall st sc ss = (r, st', sc', ss', o) -> kcall_spec st sc ss r st' sc' ss' o.
Proof.
  unfold ConnHandler.kcall.
  destruct (in_next 0 (k_in st)) as [[ri c'] f] eqn:EI.
  destruct f as [k|].
  { destruct ri as [[k0 inc]|]; intros [= <- <- <- <- <-]; eapply KcFatal; eassumption. }
  destruct ri as [[k inc]|].
  { intros [= <- <- <- <- <-]. apply KcInbound. assumption. }
  destruct (hpoll_call hcall_fuel (k_client st) sc) as [[[rc h'] sc1] oc] eqn:EC.
  destruct rc as [e|].
  { intros [= <- <- <- <- <-]. eapply KcClient; eassumption. }
  cbn [k_server k_set_in k_set_client].
  destruct (shpoll_call (shpoll_fuel (k_server st)) (k_server st) ss) as [[[rs s'] ss1] os] eqn:ES.
  destruct rs as [e|]; intros [= <- <- <- <- <-].
  - eapply KcServer; eassumption.
  - eapply KcPending; eassumption.
Qed.

(* ================================================================================================== *)
(* 4. The server half inside the loop                                                                 *)
(* ================================================================================================== *)

Lemma kpoll_loop_server fuel : forall st sc ss st' o,
  kpoll_loop fuel st sc ss = (st', o) ->
  k_fatal st' = false -> k_exhausted st' = false -> sh_exhausted (k_server st') = false ->
  exists f, shpoll_loop f (k_server st) ss = (k_server st', server_outs o).
Proof.
  induction fuel as [|fuel IH]; intros st sc ss st' o H NF NX SX; cbn [ConnHandler.kpoll_loop] in H.
  { injection H as <- <-. cbn in NX. discriminate. }
  destruct (kcall st sc ss) as [[[[r st1] sc1] ss1] o1] eqn:EK.
  apply kcall_cases in EK. destruct EK as [ri c' k EI|c' k inc EI|c' e h' sc' oc EI EC|c' h' sc' oc e s' ss' os EI EC ES|c' h' sc' oc s' ss' os EI EC ES].
  - injection H as <- <-. cbn in NF. discriminate.
  - destruct (kpoll_loop fuel (k_set_in st c') sc ss) as [st2 o2] eqn:ER. injection H as <- <-.
    destruct (IH _ _ _ _ _ ER NF NX SX) as (f & Hf). exists f. exact Hf.
  - destruct (kpoll_loop fuel (k_set_client (k_set_in st c') h') sc' ss) as [st2 o2] eqn:ER. injection H as <- <-.
    destruct (IH _ _ _ _ _ ER NF NX SX) as (f & Hf). exists f.
    rewrite server_outs_app, server_outs_client. exact Hf.
  - destruct (kpoll_loop fuel (k_set_server (k_set_client (k_set_in st c') h') s') sc' ss') as [st2 o2] eqn:ER.
    injection H as <- <-.
    destruct (IH _ _ _ _ _ ER NF NX SX) as (f & Hf). cbn [k_server k_set_server] in Hf.
    exists (shpoll_fuel (k_server st) + f)%nat.
    rewrite (shpoll_call_some _ _ _ _ _ _ _ f ES); [|rewrite Hf; exact SX].
    rewrite Hf. rewrite !server_outs_app, server_outs_client, server_outs_server.
    cbn [app]. rewrite <- app_assoc. reflexivity.
  - injection H as <- <-. exists (shpoll_fuel (k_server st)).
    rewrite (shpoll_call_none _ _ _ _ _ _ ES). cbn [k_server k_set_server].
    rewrite server_outs_app, server_outs_client, server_outs_server. reflexivity.
Qed.

(* ================================================================================================== *)
(* 5. The client half inside the loop                                                                 *)
(* ================================================================================================== *)

(* the server half, polled now with script ss, returns Ready(OutboundSubstreamRequest) *)
Definition srv_opens (s : shstate) (ss : list io) : bool :=
  match shpoll_call (shpoll_fuel s) s ss with (Some _, _, _, _) => true | _ => false end.

Lemma hloop_final_ok f h s : h_exhausted (fst (fst (hloop f h s))) = false -> h_exhausted h = false.
Proof.
  intros X. destruct (h_exhausted h) eqn:E; [|reflexivity].
  rewrite (hloop_exhausted_mono f h s E) in X. discriminate.
Qed.

Lemma shpoll_fuel_S s : exists n, shpoll_fuel s = S n.
Proof. unfold shpoll_fuel. destruct (sh_pending s); eexists; rewrite Nat.add_comm; reflexivity. Qed.

Lemma srv_opens_requested s ss : sh_sink s = SvRequested -> srv_opens s ss = false.
Proof.
  intros R. unfold srv_opens. destruct (shpoll_fuel_S s) as (n & ->).
  rewrite shpoll_call_requested by exact R. reflexivity.
Qed.

Lemma kpoll_loop_client fuel : forall st sc ss st' o,
  kpoll_loop fuel st sc ss = (st', o) ->
  k_fatal st' = false -> k_exhausted st' = false -> h_exhausted (k_client st') = false ->
  if srv_opens (k_server st) ss
  then exists f1 f2 h1 s1 o1 s2 o2,
         hloop f1 (k_client st) sc = (h1, s1, o1) /\ hloop f2 h1 s1 = (k_client st', s2, o2)
         /\ client_outs o = o1 ++ o2
  else exists f1 s1, hloop f1 (k_client st) sc = (k_client st', s1, client_outs o).
Proof.
  induction fuel as [|fuel IH]; intros st sc ss st' o H NF NX HX; cbn [ConnHandler.kpoll_loop] in H.
  { injection H as <- <-. cbn in NX. discriminate. }
  destruct (kcall st sc ss) as [[[[r st1] sc1] ss1] o1] eqn:EK.
  apply kcall_cases in EK. destruct EK as [ri c' k EI|c' k inc EI|c' e h' sc' oc EI EC|c' h' sc' oc e s' ss' os EI EC ES|c' h' sc' oc s' ss' os EI EC ES].
  - injection H as <- <-. cbn in NF. discriminate.
  - destruct (kpoll_loop fuel (k_set_in st c') sc ss) as [st2 o2] eqn:ER. injection H as <- <-.
    exact (IH _ _ _ _ _ ER NF NX HX).
  - destruct (kpoll_loop fuel (k_set_client (k_set_in st c') h') sc' ss) as [st2 o2] eqn:ER. injection H as <- <-.
    pose proof (IH _ _ _ _ _ ER NF NX HX) as R. cbn [k_server k_client k_set_client k_set_in] in R.
    rewrite client_outs_app, client_outs_client.
    destruct (srv_opens (k_server st) ss).
    + destruct R as (f1 & f2 & h1 & s1 & p1 & s2 & p2 & L1 & L2 & EO).
      assert (X1 : h_exhausted (fst (fst (hloop f1 h' sc'))) = false).
      { rewrite L1. cbn. apply (hloop_final_ok f2 h1 s1). rewrite L2. exact HX. }
      exists (hcall_fuel + f1)%nat, f2, h1, s1, (oc ++ e :: p1), s2, p2.
      rewrite (hpoll_call_some _ _ _ _ _ _ _ f1 EC X1), L1. repeat split; [exact L2|].
      rewrite EO, <- !app_assoc. reflexivity.
    + destruct R as (f1 & s1 & L1).
      assert (X1 : h_exhausted (fst (fst (hloop f1 h' sc'))) = false) by (rewrite L1; exact HX).
      exists (hcall_fuel + f1)%nat, s1.
      rewrite (hpoll_call_some _ _ _ _ _ _ _ f1 EC X1), L1. rewrite <- app_assoc. reflexivity.
  - destruct (kpoll_loop fuel (k_set_server (k_set_client (k_set_in st c') h') s') sc' ss') as [st2 o2] eqn:ER.
    injection H as <- <-.
    pose proof (IH _ _ _ _ _ ER NF NX HX) as R. cbn [k_server k_client k_set_client k_set_in k_set_server] in R.
    destruct (shpoll_call_some_requested _ _ _ _ _ _ _ ES) as (RQ & _).
    rewrite (srv_opens_requested s' ss' RQ) in R. destruct R as (f1 & s1 & L1).
    unfold srv_opens. rewrite ES.
    exists hcall_fuel, f1, h', sc', oc, s1, (client_outs o2).
    rewrite (hpoll_call_none _ _ _ _ _ _ EC). repeat split; [exact L1|].
    rewrite !client_outs_app, client_outs_client, client_outs_server, app_nil_r. reflexivity.
  - injection H as <- <-. unfold srv_opens. rewrite ES.
    exists hcall_fuel, sc'. rewrite (hpoll_call_none _ _ _ _ _ _ EC). cbn [k_client k_set_server k_set_client].
    rewrite client_outs_app, client_outs_client, client_outs_server, app_nil_r. reflexivity.
Qed.

(* ================================================================================================== *)
(* 6. The fuels of the model are always sufficient                                                    *)
(* ================================================================================================== *)

Definition k_ok (st : kstate) : Prop :=
  k_exhausted st = false /\ h_exhausted (k_client st) = false /\ sh_exhausted (k_server st) = false.

Lemma poll_iter_pending_phi st s st' s' o :
  poll_iter st s = (IrPending, st', s', o) -> phi st' = phi st.
Proof.
  unfold Handler.poll_iter. destruct st as [c q m k sd cl hl tm nw nx pn ex fr].
  cbn [h_queue h_halted h_msg h_sink h_conn h_now].
  destruct q as [|ev q]; [|discriminate].
  destruct hl. { intros [= <- <- <-]. reflexivity. }
  destruct (timeout_fired _). { destruct (drop_sink _). discriminate. }
  destruct m as [m|], k as [| |id buf]; try (intros [= <- <- <-]; reflexivity); try discriminate.
  - destruct (fr_res (fw_poll_ready buf s)); try discriminate. intros [= <- <- <-]. reflexivity.
  - destruct (fr_res (fw_poll_flush buf s)); try discriminate. intros [= <- <- <-]. reflexivity.
Qed.

Lemma hpoll_call_phi f : forall st s r st' s' o,
  hpoll_call f st s = (r, st', s', o) ->
  (h_queue st <> [] /\ (1 <= f)%nat) \/ (phi st < f)%nat -> h_exhausted st = false ->
  h_exhausted st' = false
  /\ match r with Some _ => (phi st' < phi st)%nat | None => (phi st' <= phi st)%nat end.
Proof.
  induction f as [|f IH]; intros st s r st' s' o H P X; [lia|].
  cbn [ConnHandler.hpoll_call] in H. destruct (poll_iter st s) as [[[r1 st1] s1] o1] eqn:E.
  pose proof (poll_iter_flags _ _ _ _ _ _ _ E) as (F1 & _).
  pose proof (poll_iter_phi _ _ _ _ _ _ _ E) as PH.
  destruct r1.
  - injection H as <- <- <- <-. apply poll_iter_pending_phi in E. split; [congruence|lia].
  - injection H as <- <- <- <-. destruct PH as [PH|PH]; [discriminate|]. split; [congruence|lia].
  - destruct PH as [PH|PH]; [discriminate|].
    destruct (hpoll_call f st1 s1) as [[[r2 st2] s2] o2] eqn:E2. injection H as <- <- <- <-.
    assert (P1 : (phi st1 < f)%nat).
    { destruct P as [[Q _]|P]; [|lia]. exfalso.
      destruct (h_queue st) as [|ev q] eqn:EQ; [congruence|].
      rewrite (poll_iter_pop encode st s ev q EQ) in E. discriminate. }
    destruct (IH _ _ _ _ _ _ E2 (or_intror P1) ltac:(congruence)) as (G1 & G2).
    split; [exact G1|]. destruct r2; lia.
Qed.

Lemma hcall_fuel_enough st : (h_queue st <> [] /\ (1 <= hcall_fuel)%nat) \/ (phi st < hcall_fuel)%nat.
Proof.
  unfold hcall_fuel. destruct (h_queue st) as [|ev q] eqn:E.
  - right. unfold phi. rewrite E. pose proof (rank_le3 encode st). cbn [length]. lia.
  - left. split; [discriminate|lia].
Qed.

Lemma shpoll_call_ok f : forall st s r st' s' o,
  shpoll_call f st s = (r, st', s', o) -> (smu st < f)%nat -> sh_exhausted st = false -> sh_exhausted st' = false.
Proof.
  induction f as [|f IH]; intros st s r st' s' o H M X; [lia|].
  cbn [ConnHandler.shpoll_call] in H. destruct (sh_iter st s) as [[[r1 st1] s1] o1] eqn:E.
  destruct (sh_iter_measure _ _ _ _ _ _ _ _ E) as [[-> X']|[LT X']].
  - injection H as <- <- <- <-. congruence.
  - destruct r1.
    + injection H as <- <- <- <-. congruence.
    + injection H as <- <- <- <-. congruence.
    + destruct (shpoll_call f st1 s1) as [[[r2 st2] s2] o2] eqn:E2. injection H as <- <- <- <-.
      eapply IH; [exact E2|lia|congruence].
Qed.

Definition srv_mu (s : shstate) : nat := match sh_sink s with SvRequested => 0 | _ => 1 end.

Lemma shpoll_call_some_mu f st s e st1 s1 o1 :
  shpoll_call f st s = (Some e, st1, s1, o1) -> (srv_mu st1 < srv_mu st)%nat.
Proof.
  intros H. destruct (shpoll_call_some_requested _ _ _ _ _ _ _ H) as (R & _).
  unfold srv_mu. rewrite R. destruct (sh_sink st) eqn:K; try lia.
  destruct f as [|f]; [discriminate|]. rewrite (shpoll_call_requested f st s K) in H. discriminate.
Qed.

(* the inbound side *)
Definition kin_mu (m : kin) : nat :=
  if ki_awake m && ss_alive (ki_st m) then S (measure (ss_buf (ki_st m)) (ss_evs (ki_st m))) else O.
Definition in_mu (c : list kin) : nat := fold_right (fun m acc => (kin_mu m + acc)%nat) O c.

Lemma is_poll_msg_measure n : forall buf evs inc b e,
  (measure buf evs < n)%nat -> is_poll parse proc buf evs = (IsMsg inc, b, e) ->
  (measure b e < measure buf evs)%nat.
Proof.
  induction n as [|n IH]; intros buf evs inc b e Hn H; [lia|].
  rewrite is_poll_step in H. destruct (poll_next parse buf evs) as [[o b'] evs'] eqn:E.
  destruct o; try discriminate.
  pose proof (poll_next_measure msg parse buf evs (Item m) b' evs' E I) as LT.
  destruct (proc m) as [inc0| |]; try discriminate.
  destruct (forwarded inc0).
  - injection H as _ <- <-. exact LT.
  - specialize (IH b' evs' inc b e ltac:(lia) H). lia.
Qed.

Lemma ss_alive_status s : ss_alive s = true -> ss_status s = SfPending.
Proof. unfold ss_alive. destruct (ss_status s); cbn; congruence. Qed.

Lemma poll_stream_some s inc s' :
  ss_alive s = true -> poll_stream parse proc s = (Some inc, s') ->
  (measure (ss_buf s') (ss_evs s') < measure (ss_buf s) (ss_evs s))%nat.
Proof.
  intros A. unfold Streams.poll_stream. rewrite (ss_alive_status s A).
  destruct (is_poll parse proc (ss_buf s) (ss_evs s)) as [[o b] e] eqn:E.
  destruct o; try discriminate. intros [= <- <-]. cbn [ss_buf ss_evs].
  eapply is_poll_msg_measure; [|exact E]. apply Nat.lt_succ_diag_r.
Qed.

Lemma in_mu_cons m c : in_mu (m :: c) = (kin_mu m + in_mu c)%nat.
Proof. reflexivity. Qed.

Lemma kin_mu_asleep s : kin_mu (MkKin s false) = O.
Proof. reflexivity. Qed.

Lemma in_next_mu : forall c i r c' f,
  in_next i c = (r, c', f) ->
  match r with Some _ => (in_mu c' < in_mu c)%nat | None => (in_mu c' <= in_mu c)%nat end.
Proof.
  induction c as [|m c IH]; intros i r c' f H; cbn [ConnHandler.in_next] in H.
  - injection H as <- <- <-. cbn. lia.
  - destruct (ki_awake m && ss_alive (ki_st m)) eqn:A.
    + assert (KM : kin_mu m = S (measure (ss_buf (ki_st m)) (ss_evs (ki_st m)))) by (unfold kin_mu; rewrite A; reflexivity).
      destruct (poll_stream parse proc (ki_st m)) as [o s'] eqn:EP. destruct o as [inc|].
      * injection H as <- <- <-. rewrite !in_mu_cons, KM.
        apply andb_prop in A. destruct A as [_ A]. pose proof (poll_stream_some _ _ _ A EP) as LT.
        unfold kin_mu. cbn [ki_awake ki_st andb]. destruct (ss_alive s'); lia.
      * destruct (sfinal_fatal (ss_status s')).
        -- injection H as <- <- <-. rewrite !in_mu_cons, KM, kin_mu_asleep. lia.
        -- destruct (in_next (i + 1) c) as [[r2 c2] f2] eqn:E2. injection H as <- <- <-.
           specialize (IH _ _ _ _ E2). rewrite !in_mu_cons, KM, kin_mu_asleep. destruct r2; lia.
    + destruct (in_next (i + 1) c) as [[r2 c2] f2] eqn:E2. injection H as <- <- <-.
      specialize (IH _ _ _ _ E2). rewrite !in_mu_cons. destruct r2; lia.
Qed.

Definition kmu (st : kstate) : nat := (in_mu (k_in st) + phi (k_client st) + srv_mu (k_server st))%nat.

Lemma kcall_measure st sc ss r st' sc' ss' o :
  kcall_spec st sc ss r st' sc' ss' o ->
  h_exhausted (k_client st) = false -> sh_exhausted (k_server st) = false ->
  h_exhausted (k_client st') = false /\ sh_exhausted (k_server st') = false
  /\ k_exhausted st' = k_exhausted st /\ (r = KrReady -> (kmu st' < kmu st)%nat).
Proof.
  intros K HX SX.
  destruct K as [ri c' k EI|c' k inc EI|c' e h' sc' oc EI EC|c' h' sc' oc e s' ss' os EI EC ES|c' h' sc' oc s' ss' os EI EC ES];
    cbn [k_client k_server k_exhausted k_set_fatal k_set_in k_set_client k_set_server].
  - repeat split; try assumption. discriminate.
  - repeat split; try assumption. intros _. apply in_next_mu in EI. unfold kmu. cbn [k_in k_client k_server k_set_in]. lia.
  - destruct (hpoll_call_phi _ _ _ _ _ _ _ EC (hcall_fuel_enough _) HX) as (G1 & G2).
    repeat split; try assumption. intros _. apply in_next_mu in EI. unfold kmu.
    cbn [k_in k_client k_server k_set_in k_set_client]. lia.
  - destruct (hpoll_call_phi _ _ _ _ _ _ _ EC (hcall_fuel_enough _) HX) as (G1 & G2).
    pose proof (shpoll_call_ok _ _ _ _ _ _ _ ES (smu_shpoll_fuel _) SX) as G3.
    pose proof (shpoll_call_some_mu _ _ _ _ _ _ _ ES) as G4.
    repeat split; try assumption. intros _. apply in_next_mu in EI. unfold kmu.
    cbn [k_in k_client k_server k_set_in k_set_client k_set_server]. lia.
  - destruct (hpoll_call_phi _ _ _ _ _ _ _ EC (hcall_fuel_enough _) HX) as (G1 & G2).
    pose proof (shpoll_call_ok _ _ _ _ _ _ _ ES (smu_shpoll_fuel _) SX) as G3.
    repeat split; try assumption. discriminate.
Qed.

Lemma kpoll_loop_ok fuel : forall st sc ss,
  (kmu st < fuel)%nat -> k_ok st -> k_ok (fst (kpoll_loop fuel st sc ss)).
Proof.
  induction fuel as [|fuel IH]; intros st sc ss M (X1 & X2 & X3); [lia|].
  cbn [ConnHandler.kpoll_loop]. destruct (kcall st sc ss) as [[[[r st1] sc1] ss1] o1] eqn:EK.
  apply kcall_cases in EK. destruct (kcall_measure _ _ _ _ _ _ _ _ EK X2 X3) as (G1 & G2 & G3 & G4).
  destruct r.
  - cbn [fst]. repeat split; congruence.
  - specialize (G4 eq_refl). specialize (IH st1 sc1 ss1 ltac:(lia)).
    destruct (kpoll_loop fuel st1 sc1 ss1) as [st2 o2]. cbn [fst] in *. apply IH. repeat split; congruence.
  - cbn [fst]. repeat split; congruence.
Qed.

Lemma in_mu_le_fuel c : (in_mu c <= in_fuel c)%nat.
Proof.
  induction c as [|m c IH]; [cbn; lia|]. rewrite in_mu_cons. cbn [in_fuel fold_right]. fold (in_fuel c).
  unfold kin_mu, stream_fuel, measure. destruct (ki_awake m && ss_alive (ki_st m)); lia.
Qed.

Theorem k_do_poll_ok st sc ss : k_ok st -> k_ok (fst (k_do_poll st sc ss)).
Proof.
  intros (X1 & X2 & X3). unfold ConnHandler.k_do_poll. apply kpoll_loop_ok.
  - unfold kmu, kpoll_fuel. cbn [k_in k_client k_server k_set_in].
    pose proof (in_mu_le_fuel (wake_all (k_in st))). pose proof (rank_le3 encode (k_client st)).
    unfold phi, srv_mu. destruct (sh_sink (k_server st)); lia.
  - repeat split; assumption.
Qed.

(* the other ops *)
Lemma do_send_wantlist_exhausted st w : h_exhausted (fst (do_send_wantlist st w)) = h_exhausted st.
Proof.
  unfold do_send_wantlist. destruct (h_halted st); [reflexivity|]. destruct (h_msg st); [reflexivity|].
  destruct (h_sending st); try reflexivity. cbn [fst]. cbn [h_exhausted set_timeout]. rewrite css_exhausted. reflexivity.
Qed.

Lemma do_set_stream_exhausted st : h_exhausted (fst (do_set_stream st)) = h_exhausted st.
Proof.
  unfold do_set_stream. destruct (h_halted st); [reflexivity|]. unfold drop_sink.
  destruct (h_sink (set_next st (h_next st + 1))); reflexivity.
Qed.

Lemma do_alloc_failed_exhausted st : h_exhausted (fst (do_alloc_failed st)) = h_exhausted st.
Proof. unfold do_alloc_failed. destruct (h_halted st); [reflexivity|]. destruct (h_sink st); reflexivity. Qed.

Lemma do_poll_close_exhausted st s : h_exhausted (fst (do_poll_close st s)) = h_exhausted st.
Proof.
  unfold do_poll_close. destruct (h_closing st); [reflexivity|].
  destruct (h_sink (set_msg (set_closing st true) None)) as [| |id buf] eqn:K;
    cbn [fst h_exhausted set_queue];
    match goal with |- context [match h_sending ?x with _ => _ end] => destruct (h_sending x) end;
    cbn [fst h_exhausted set_queue]; try rewrite css_exhausted; reflexivity.
Qed.

Theorem kstep_ok st op : k_ok st -> k_ok (fst (kstep st op)).
Proof.
  intros OK. unfold ConnHandler.kstep. destruct (k_dead st); [exact OK|].
  destruct OK as (X1 & X2 & X3).
  destruct op as [w|bs|evs|[|]|[|]|ms|sc ss|sc].
  - pose proof (do_send_wantlist_exhausted (k_client st) w) as E.
    destruct (do_send_wantlist (k_client st) w) as [h o]. cbn [fst] in *. repeat split; cbn; congruence.
  - repeat split; assumption.
  - repeat split; assumption.
  - pose proof (do_set_stream_exhausted (k_client st)) as E.
    destruct (do_set_stream (k_client st)) as [h o]. cbn [fst] in *. repeat split; cbn; congruence.
  - repeat split; assumption.
  - pose proof (do_alloc_failed_exhausted (k_client st)) as E.
    destruct (do_alloc_failed (k_client st)) as [h o]. cbn [fst] in *. repeat split; cbn; congruence.
  - repeat split; assumption.
  - repeat split; assumption.
  - apply k_do_poll_ok. repeat split; assumption.
  - pose proof (do_poll_close_exhausted (k_client st) sc) as E.
    destruct (do_poll_close (k_client st) sc) as [h o]. cbn [fst] in *. repeat split; cbn; congruence.
Qed.

Lemma k_init_ok c : k_ok (k_init c).
Proof. repeat split. Qed.

(* ================================================================================================== *)
(* 7. One KPoll: the two halves                                                                       *)
(* ================================================================================================== *)

Lemma kstep_poll st sc ss : k_dead st = false -> kstep st (KPoll sc ss) = k_do_poll st sc ss.
Proof. intros D. unfold ConnHandler.kstep. rewrite D. reflexivity. Qed.

(* the server half's part of a KPoll is exactly what ServerHandler.v's SHPoll does on the server half's own state
   with the server half's own script: the client half and the inbound side cannot be seen in it *)
Theorem connhandler_server_step st sc ss :
  k_ok st -> k_dead st = false -> k_fatal (fst (kstep st (KPoll sc ss))) = false ->
  (k_server (fst (kstep st (KPoll sc ss))), server_outs (snd (kstep st (KPoll sc ss))))
  = shstep encode block_size (k_server st) (SHPoll ss).
Proof.
  intros OK D. rewrite (kstep_poll st sc ss D). intros NF.
  pose proof (k_do_poll_ok st sc ss OK) as (Y1 & Y2 & Y3).
  unfold ConnHandler.k_do_poll in *.
  destruct (kpoll_loop _ (k_set_in st (wake_all (k_in st))) sc ss) as [st' o] eqn:E. cbn [fst snd] in *.
  destruct (kpoll_loop_server _ _ _ _ _ _ E NF Y1 Y3) as (f & Hf). cbn [k_server k_set_in] in Hf.
  cbn [shstep]. rewrite <- Hf. apply shpoll_loop_std; [apply OK|]. rewrite Hf. exact Y3.
Qed.

(* the client half's part of a KPoll: ClientConnectionHandler::poll until Pending on the client script — and, if the
   server half asks for a substream in this op, until Pending ONCE MORE on what is left of the client script *)
Theorem connhandler_client_step st sc ss :
  k_ok st -> k_dead st = false -> k_fatal (fst (kstep st (KPoll sc ss))) = false ->
  (k_client (fst (kstep st (KPoll sc ss))), client_outs (snd (kstep st (KPoll sc ss))))
  = (let '(h1, s1, o1) := hpoll_rest (k_client st) sc in
     if srv_opens (k_server st) ss
     then let '(h2, o2) := do_poll encode h1 s1 in (h2, o1 ++ o2)
     else (h1, o1)).
Proof.
  intros OK D. rewrite (kstep_poll st sc ss D). intros NF.
  pose proof (k_do_poll_ok st sc ss OK) as (Y1 & Y2 & Y3).
  unfold ConnHandler.k_do_poll in *.
  destruct (kpoll_loop _ (k_set_in st (wake_all (k_in st))) sc ss) as [st' o] eqn:E. cbn [fst snd] in *.
  pose proof (kpoll_loop_client _ _ _ _ _ _ E NF Y1 Y2) as R. cbn [k_server k_client k_set_in] in R.
  destruct OK as (_ & X2 & _).
  destruct (srv_opens (k_server st) ss).
  - destruct R as (f1 & f2 & h1 & s1 & o1 & s2 & o2 & L1 & L2 & EO).
    assert (Z1 : h_exhausted h1 = false) by (apply (hloop_final_ok f2 h1 s1); rewrite L2; exact Y2).
    rewrite <- (hloop_std f1 _ _ X2), L1 by (rewrite L1; exact Z1).
    rewrite hpoll_rest_do_poll. rewrite <- (hloop_std f2 _ _ Z1), L2 by (rewrite L2; exact Y2).
    cbn [fst snd]. rewrite EO. reflexivity.
  - destruct R as (f1 & s1 & L1).
    rewrite <- (hloop_std f1 _ _ X2), L1 by (rewrite L1; exact Y2). reflexivity.
Qed.

(* in the common case the client half's part is exactly Handler.v's HPoll *)
Corollary connhandler_client_step_plain st sc ss :
  k_ok st -> k_dead st = false -> k_fatal (fst (kstep st (KPoll sc ss))) = false ->
  srv_opens (k_server st) ss = false ->
  (k_client (fst (kstep st (KPoll sc ss))), client_outs (snd (kstep st (KPoll sc ss))))
  = hstep encode (k_client st) (HPoll sc).
Proof.
  intros OK D NF SO. rewrite (connhandler_client_step st sc ss OK D NF), SO.
  assert (P : h_panicked (k_client st) = false).
  { unfold k_dead in D. apply Bool.orb_false_iff in D. apply D. }
  unfold hstep. rewrite P. rewrite hpoll_rest_do_poll.
  destruct (hpoll_rest (k_client st) sc) as [[h1 s1] o1]. reflexivity.
Qed.

(* ================================================================================================== *)
(* 8. connhandler_server_starvation                                                                   *)
(* ================================================================================================== *)

(* what has been handed to start_send only grows *)
Lemma sh_iter_started st s r st' s' o :
  sh_iter st s = (r, st', s', o) -> exists more, sh_started st' = sh_started st ++ more.
Proof.
  unfold ServerHandler.sh_iter. destruct (sh_pending st) as [l|], (sh_sink st) as [| |id buf];
    try (intros [= <- <- <- <-]; exists []; rewrite app_nil_r; reflexivity).
  - destruct (fr_res (fw_poll_flush buf s)).
    + destruct (splitN (blocks_fitting_in_message block_size l) l) as [now rest].
      intros [= <- <- <- <-]. cbn [sh_started]. eexists; reflexivity.
    + intros [= <- <- <- <-]. exists []. rewrite app_nil_r. reflexivity.
    + intros [= <- <- <- <-]. exists []. rewrite app_nil_r. reflexivity.
  - destruct (fr_res (fw_poll_flush buf s)); intros [= <- <- <- <-]; exists []; rewrite app_nil_r; reflexivity.
Qed.

Lemma shpoll_loop_started f : forall st s,
  exists more, sh_started (fst (shpoll_loop f st s)) = sh_started st ++ more.
Proof.
  induction f as [|f IH]; intros st s; cbn [ServerHandler.shpoll_loop].
  - exists []. rewrite app_nil_r. reflexivity.
  - destruct (sh_iter st s) as [[[r st1] s1] o1] eqn:E.
    destruct (sh_iter_started _ _ _ _ _ _ E) as (m1 & E1).
    destruct r; [exists m1; exact E1| |];
      (destruct (IH st1 s1) as (m2 & E2); destruct (shpoll_loop f st1 s1) as [st2 o2]; cbn [fst] in *;
       exists (m1 ++ m2); rewrite E2, E1, app_assoc; reflexivity).
Qed.

(* ServerHandler.v alone: pending blocks, a stream whose buffer is flushed and that answers the flush: a message
   is started in this very poll *)
Lemma sh_do_poll_progress s id l r :
  sh_pending s = Some l -> l <> [] -> sh_sink s = SvReady id [] ->
  exists now rest more, l = now ++ rest /\ now <> []
    /\ sh_started (fst (sh_do_poll encode block_size s (FlushOk :: r))) = sh_started s ++ (id, now) :: more.
Proof.
  intros P NE K. unfold sh_do_poll. destruct (shpoll_fuel_S s) as (n & ->). cbn [ServerHandler.shpoll_loop].
  unfold ServerHandler.sh_iter. rewrite P, K. cbn [fw_poll_flush io_flush fr_res fr_buf fr_script fr_evs].
  destruct (splitN (blocks_fitting_in_message block_size l) l) as [now rest] eqn:SP.
  pose proof (blocks_fitting_spec block_size l now rest SP) as (EL & _ & NN & _).
  match goal with |- context [shpoll_loop n ?st1 ?s1] =>
    destruct (shpoll_loop_started n st1 s1) as (more & EM); destruct (shpoll_loop n st1 s1) as [st2 o2] end.
  cbn [fst sh_started] in *. exists now, rest, more. repeat split; [exact EL|exact (NN NE)|].
  rewrite EM, <- app_assoc. reflexivity.
Qed.

(* THEOREM 2.  Inside the whole handler a server half with pending blocks and a ready stream makes progress in EVERY
   KPoll, whatever the client half does (its state, its script, how many events it returns Ready) and whatever the
   inbound side delivers: the KPoll cannot end before a call in which the client half is Pending, and in that call
   the server half is polled.  Its poll is exactly ServerHandler.v's, so in particular a new message is started. *)
Theorem connhandler_server_starvation st sc r id l :
  k_ok st -> k_dead st = false ->
  sh_pending (k_server st) = Some l -> l <> [] -> sh_sink (k_server st) = SvReady id [] ->
  let res := kstep st (KPoll sc (FlushOk :: r)) in
  k_fatal (fst res) = false ->
  (k_server (fst res), server_outs (snd res)) = shstep encode block_size (k_server st) (SHPoll (FlushOk :: r))
  /\ exists now rest more, l = now ++ rest /\ now <> []
       /\ sh_started (k_server (fst res)) = sh_started (k_server st) ++ (id, now) :: more.
Proof.
  intros OK D P NE K res NF. subst res.
  pose proof (connhandler_server_step st sc (FlushOk :: r) OK D NF) as E. split; [exact E|].
  apply (f_equal fst) in E. cbn [fst shstep] in E. rewrite E.
  apply sh_do_poll_progress; assumption.
Qed.

(* ================================================================================================== *)
(* 9. Whole runs: connhandler_projections                                                             *)
(* ================================================================================================== *)

Local Notation shrun := (shrun encode block_size).
Local Notation shstep := (shstep encode block_size).
Local Notation hrun := (hrun encode).
Local Notation hstep := (hstep encode).

(* the server half's view of an op *)
Definition shops_of (op : kop) : list shop :=
  match op with
  | KQueue bs => [SHQueue bs]
  | KSetStream RqServer => [SHSetStream]
  | KPoll _ ss => [SHPoll ss]
  | _ => []
  end.

(* the client half's view of an op, in state st: a KPoll in which the server half asks for a substream is TWO polls
   of the client half, the second on the rest of the script *)
Definition hops_at (st : kstate) (op : kop) : list hop :=
  match op with
  | KSendWantlist w => [HSendWantlist w]
  | KSetStream RqClient => [HSetStream]
  | KAllocFailed RqClient => [HAllocFailed]
  | KAdvance ms => [HAdvance ms]
  | KPollClose sc => [HPollClose sc]
  | KPoll sc ss =>
      if srv_opens (k_server st) ss
      then [HPoll sc; HPoll (snd (fst (hpoll_rest (k_client st) sc)))]
      else [HPoll sc]
  | _ => []
  end.

Fixpoint client_proj (st : kstate) (ops : list kop) : list hop :=
  match ops with
  | [] => []
  | op :: ops' => hops_at st op ++ client_proj (fst (kstep st op)) ops'
  end.

Lemma shrun_cons s op ops :
  shrun s (op :: ops) = (let '(s1, o1) := shstep s op in let '(s2, o2) := shrun s1 ops in (s2, o1 ++ o2)).
Proof.
  unfold ServerHandler.shrun. cbn [shrun_trace]. destruct (shstep s op) as [s1 o1].
  destruct (shrun_trace encode block_size s1 ops) as [s2 os]. reflexivity.
Qed.

Lemma shrun_app a : forall s b,
  shrun s (a ++ b) = (let '(s1, o1) := shrun s a in let '(s2, o2) := shrun s1 b in (s2, o1 ++ o2)).
Proof.
  induction a as [|op a IH]; intros s b.
  - cbn [app]. change (shrun s []) with (s, @nil shout). cbv iota beta. destruct (shrun s b). reflexivity.
  - cbn [app]. rewrite !shrun_cons. destruct (shstep s op) as [s1 o1]. rewrite IH.
    destruct (shrun s1 a) as [s2 o2]. destruct (shrun s2 b) as [s3 o3]. rewrite app_assoc. reflexivity.
Qed.

Lemma hrun_cons' h op ops :
  hrun h (op :: ops) = (let '(h1, o1) := hstep h op in let '(h2, o2) := hrun h1 ops in (h2, o1 ++ o2)).
Proof.
  unfold Handler.hrun. cbn [hrun_trace]. destruct (hstep h op) as [h1 o1].
  destruct (hrun_trace encode h1 ops) as [h2 os]. reflexivity.
Qed.

Lemma hrun_app a : forall h b,
  hrun h (a ++ b) = (let '(h1, o1) := hrun h a in let '(h2, o2) := hrun h1 b in (h2, o1 ++ o2)).
Proof.
  induction a as [|op a IH]; intros h b.
  - cbn [app]. change (hrun h []) with (h, @nil hout). cbv iota beta. destruct (hrun h b). reflexivity.
  - cbn [app]. rewrite !hrun_cons'. destruct (hstep h op) as [h1 o1]. rewrite IH.
    destruct (hrun h1 a) as [h2 o2]. destruct (hrun h2 b) as [h3 o3]. rewrite app_assoc. reflexivity.
Qed.

Lemma hrun_panicked ops : forall h, h_panicked h = true -> hrun h ops = (h, []).
Proof.
  induction ops as [|op ops IH]; intros h P; [reflexivity|].
  rewrite hrun_cons'. unfold Handler.hstep at 1. rewrite P. rewrite (IH h P). reflexivity.
Qed.

Lemma kstep_dead st op : k_dead st = true -> kstep st op = (st, []).
Proof. intros D. unfold ConnHandler.kstep. rewrite D. reflexivity. Qed.

Lemma krun_dead ops : forall st, k_dead st = true -> fst (krun_trace st ops) = st.
Proof.
  induction ops as [|op ops IH]; intros st D; [reflexivity|].
  cbn [ConnHandler.krun_trace]. rewrite (kstep_dead st op D). specialize (IH st D).
  destruct (krun_trace st ops) as [st2 os]. exact IH.
Qed.

Lemma krun_ok ops : forall st, k_ok st -> k_ok (fst (krun_trace st ops)).
Proof.
  induction ops as [|op ops IH]; intros st OK; [exact OK|].
  cbn [ConnHandler.krun_trace]. pose proof (kstep_ok st op OK) as OK1.
  destruct (kstep st op) as [st1 o1]. specialize (IH st1 OK1).
  destruct (krun_trace st1 ops) as [st2 os]. exact IH.
Qed.

(* the inbound side never recovers either *)
Lemma kstep_fatal st op : k_fatal st = true -> kstep st op = (st, []).
Proof. intros F. apply kstep_dead. unfold k_dead. rewrite F. apply Bool.orb_true_r. Qed.

Lemma krun_fatal ops : forall st, k_fatal st = true -> fst (krun_trace st ops) = st.
Proof. intros st F. apply krun_dead. unfold k_dead. rewrite F. apply Bool.orb_true_r. Qed.

Lemma kstep_server_proj st op :
  k_ok st -> k_dead st = false -> k_fatal (fst (kstep st op)) = false ->
  shrun (k_server st) (shops_of op) = (k_server (fst (kstep st op)), server_outs (snd (kstep st op))).
Proof.
  intros OK D NF.
  destruct op as [w|bs|evs|[|]|[|]|ms|sc ss|sc].
  9:{ cbn [shops_of]. rewrite shrun_cons. change (shrun ?x []) with (x, @nil shout).
      rewrite <- (connhandler_server_step st sc ss OK D NF).
      rewrite app_nil_r. reflexivity. }
  all: unfold ConnHandler.kstep in *; rewrite D in *; cbn [shops_of].
  - destruct (do_send_wantlist (k_client st) w) as [h o]. cbn. rewrite server_outs_client. reflexivity.
  - reflexivity.
  - reflexivity.
  - destruct (do_set_stream (k_client st)) as [h o]. cbn. rewrite server_outs_client. reflexivity.
  - rewrite shrun_cons. cbn [ServerHandler.shstep]. destruct (sh_do_set_stream (k_server st)) as [s o].
    cbn. rewrite server_outs_server, app_nil_r. reflexivity.
  - destruct (do_alloc_failed (k_client st)) as [h o]. cbn. rewrite server_outs_client. reflexivity.
  - reflexivity.
  - reflexivity.
  - destruct (do_poll_close (k_client st) sc) as [h o]. cbn. rewrite server_outs_client. reflexivity.
Qed.

(* THEOREM 1, server half: over a whole run the server half's states and outputs are those of ServerHandler.v alone on
   the server half's own ops and scripts; hence every theorem of ServerHandler_proofs applies to the whole handler *)
Theorem connhandler_server_projection ops : forall st,
  k_ok st -> k_dead (fst (krun_trace st ops)) = false ->
  shrun (k_server st) (flat_map shops_of ops)
  = (k_server (fst (krun_trace st ops)), server_outs (concat (snd (krun_trace st ops)))).
Proof.
  induction ops as [|op ops IH]; intros st OK ND; [reflexivity|].
  assert (D : k_dead st = false).
  { destruct (k_dead st) eqn:D; [|reflexivity]. rewrite (krun_dead _ _ D) in ND. congruence. }
  cbn [flat_map ConnHandler.krun_trace] in *. rewrite shrun_app.
  pose proof (kstep_ok st op OK) as OK1. pose proof (kstep_server_proj st op OK D) as P.
  destruct (kstep st op) as [st1 o1] eqn:E1. cbn [fst snd] in *.
  specialize (IH st1 OK1). destruct (krun_trace st1 ops) as [st2 os] eqn:E2. cbn [fst snd concat] in *.
  assert (D1 : k_dead st1 = false).
  { destruct (k_dead st1) eqn:D1; [|reflexivity]. pose proof (krun_dead ops _ D1) as K. rewrite E2 in K. cbn in K. congruence. }
  assert (F1 : k_fatal st1 = false) by (unfold k_dead in D1; apply Bool.orb_false_iff in D1; apply D1).
  rewrite (P F1), (IH ND), server_outs_app. reflexivity.
Qed.

Lemma hloop_panicked f : forall h s, h_panicked (fst (fst (hloop f h s))) = h_panicked h.
Proof.
  induction f as [|f IH]; intros h s; [reflexivity|]. cbn [hloop].
  destruct (poll_iter h s) as [[[r h1] s1] o1] eqn:E.
  pose proof (poll_iter_flags _ _ _ _ _ _ _ E) as (_ & F & _).
  destruct r; [exact F| |]; (specialize (IH h1 s1); destruct (hloop f h1 s1) as [[a b] c]; cbn [fst] in *; congruence).
Qed.

Lemma kstep_client_proj st op :
  k_ok st -> k_fatal st = false -> k_fatal (fst (kstep st op)) = false ->
  hrun (k_client st) (hops_at st op) = (k_client (fst (kstep st op)), client_outs (snd (kstep st op))).
Proof.
  intros OK F NF.
  destruct (h_panicked (k_client st)) eqn:P.
  { rewrite hrun_panicked by exact P. rewrite kstep_dead; [reflexivity|]. unfold k_dead. rewrite P. reflexivity. }
  assert (D : k_dead st = false) by (unfold k_dead; rewrite P, F; reflexivity).
  destruct op as [w|bs|evs|[|]|[|]|ms|sc ss|sc].
  9:{ cbn [hops_at]. pose proof (connhandler_client_step st sc ss OK D NF) as E. rewrite E.
      pose proof (hpoll_rest_do_poll (k_client st) sc) as DP.
      pose proof (hloop_panicked (poll_fuel (k_client st)) (k_client st) sc) as PP. fold (hpoll_rest (k_client st) sc) in PP.
      destruct (hpoll_rest (k_client st) sc) as [[h1 s1] o1]. cbn [fst snd] in *.
      destruct (srv_opens (k_server st) ss).
      - rewrite !hrun_cons'. change (hrun ?x []) with (x, @nil hout).
        unfold Handler.hstep at 1. rewrite P, DP. cbv iota beta.
        rewrite hrun_cons'. change (hrun ?x []) with (x, @nil hout). unfold Handler.hstep. rewrite PP, P.
        destruct (do_poll encode h1 s1) as [h2 o2]. rewrite app_nil_r. reflexivity.
      - rewrite hrun_cons'. change (hrun ?x []) with (x, @nil hout).
        unfold Handler.hstep. rewrite P, DP, app_nil_r. reflexivity. }
  all: unfold ConnHandler.kstep in *; rewrite D in *; cbn [hops_at];
       try (rewrite hrun_cons'; change (hrun ?x []) with (x, @nil hout); unfold Handler.hstep; rewrite P).
  - destruct (do_send_wantlist (k_client st) w) as [h o]. cbn. rewrite client_outs_client, app_nil_r. reflexivity.
  - reflexivity.
  - reflexivity.
  - destruct (do_set_stream (k_client st)) as [h o]. cbn. rewrite client_outs_client, app_nil_r. reflexivity.
  - destruct (sh_do_set_stream (k_server st)) as [s o]. cbn. rewrite client_outs_server. reflexivity.
  - destruct (do_alloc_failed (k_client st)) as [h o]. cbn. rewrite client_outs_client, app_nil_r. reflexivity.
  - reflexivity.
  - reflexivity.
  - destruct (do_poll_close (k_client st) sc) as [h o]. cbn. rewrite client_outs_client, app_nil_r. reflexivity.
Qed.

(* THEOREM 1, client half: over a whole run the client half's states and outputs are those of Handler.v alone on
   `client_proj` — its own ops and scripts, a KPoll counting twice when the server half asks for a substream in it;
   hence every theorem of Handler_proofs applies to the whole handler *)
Theorem connhandler_client_projection ops : forall st,
  k_ok st -> k_fatal (fst (krun_trace st ops)) = false ->
  hrun (k_client st) (client_proj st ops)
  = (k_client (fst (krun_trace st ops)), client_outs (concat (snd (krun_trace st ops)))).
Proof.
  induction ops as [|op ops IH]; intros st OK NF; [reflexivity|].
  assert (F : k_fatal st = false).
  { destruct (k_fatal st) eqn:F; [|reflexivity]. rewrite (krun_fatal _ _ F) in NF. congruence. }
  cbn [client_proj ConnHandler.krun_trace] in *. rewrite hrun_app.
  pose proof (kstep_ok st op OK) as OK1. pose proof (kstep_client_proj st op OK F) as P.
  destruct (kstep st op) as [st1 o1] eqn:E1. cbn [fst snd] in *.
  specialize (IH st1 OK1). destruct (krun_trace st1 ops) as [st2 os] eqn:E2. cbn [fst snd concat] in *.
  assert (F1 : k_fatal st1 = false).
  { destruct (k_fatal st1) eqn:F1; [|reflexivity]. pose proof (krun_fatal ops _ F1) as K. rewrite E2 in K. cbn in K. congruence. }
  rewrite (P F1), (IH NF), client_outs_app. reflexivity.
Qed.

(* both halves at once, from the initial state *)
Theorem connhandler_projections c ops :
  let fin := fst (krun_trace (k_init c) ops) in
  let outs := concat (snd (krun_trace (k_init c) ops)) in
  k_dead fin = false ->
  hrun (h_init c) (client_proj (k_init c) ops) = (k_client fin, client_outs outs)
  /\ shrun sh_init (flat_map shops_of ops) = (k_server fin, server_outs outs).
Proof.
  intros fin outs ND. subst fin outs. split.
  - apply (connhandler_client_projection ops (k_init c) (k_init_ok c)).
    unfold k_dead in ND. apply Bool.orb_false_iff in ND. apply ND.
  - apply (connhandler_server_projection ops (k_init c) (k_init_ok c) ND).
Qed.

(* ================================================================================================== *)
(* 10. Priority inside one call; inbound first inside one KPoll; the ignored DialUpgradeError          *)
(* ================================================================================================== *)

(* ONE call of `poll` that returns an event of the inbound side or of the client half has not touched the server half
   nor its stream (this is the per-call reading of "starvation": it is real, but a KPoll never ends on such a call) *)
Theorem connhandler_call_priority st sc ss st' sc' ss' o :
  kcall st sc ss = (KrReady, st', sc', ss', o) -> server_outs o = [] ->
  k_server st' = k_server st /\ ss' = ss.
Proof.
  intros H SO. apply kcall_cases in H. remember KrReady as r eqn:ER.
  destruct H as [ri c' k EI|c' k inc EI|c' e h' sc' oc EI EC|c' h' sc' oc e s' ss' os EI EC ES|c' h' sc' oc s' ss' os EI EC ES];
    try discriminate; cbn [k_server k_set_in k_set_client k_set_server].
  - split; reflexivity.
  - split; reflexivity.
  - rewrite server_outs_app, server_outs_client, server_outs_server in SO.
    destruct os; discriminate.
Qed.

(* ... and one that returns an IncomingMessage has touched neither half *)
Theorem connhandler_call_inbound_priority st sc ss r st' sc' ss' o :
  kcall st sc ss = (r, st', sc', ss', o) -> inbound_outs o <> [] ->
  k_client st' = k_client st /\ k_server st' = k_server st /\ sc' = sc /\ ss' = ss.
Proof.
  intros H IO. apply kcall_cases in H.
  destruct H as [ri c' k EI|c' k inc EI|c' e h' sc' oc EI EC|c' h' sc' oc e s' ss' os EI EC ES|c' h' sc' oc s' ss' os EI EC ES];
    cbn [k_client k_server k_set_in k_set_client k_set_server k_set_fatal].
  - exfalso. apply IO. reflexivity.
  - repeat split.
  - exfalso. apply IO. apply inbound_outs_client.
  - exfalso. apply IO. rewrite inbound_outs_app, inbound_outs_client, inbound_outs_server. reflexivity.
  - exfalso. apply IO. rewrite inbound_outs_app, inbound_outs_client, inbound_outs_server. reflexivity.
Qed.

(* no member of the SelectAll is in the ready-to-run queue *)
Definition quiet (c : list kin) : Prop := Forall (fun m => ki_awake m && ss_alive (ki_st m) = false) c.

Lemma in_next_none_quiet : forall c i c', in_next i c = (None, c', None) -> quiet c'.
Proof.
  induction c as [|m c IH]; intros i c' H; cbn [ConnHandler.in_next] in H.
  - injection H as <-. constructor.
  - destruct (ki_awake m && ss_alive (ki_st m)) eqn:A.
    + destruct (poll_stream parse proc (ki_st m)) as [o s'] eqn:EP. destruct o as [inc|]; [discriminate|].
      destruct (sfinal_fatal (ss_status s')); [discriminate|].
      destruct (in_next (i + 1) c) as [[r2 c2] f2] eqn:E2. injection H as -> <- ->.
      constructor; [reflexivity|]. eapply IH; exact E2.
    + destruct (in_next (i + 1) c) as [[r2 c2] f2] eqn:E2. injection H as -> <- ->.
      constructor; [exact A|]. eapply IH; exact E2.
Qed.

Lemma in_next_quiet : forall c i, quiet c -> in_next i c = (None, c, None).
Proof.
  induction c as [|m c IH]; intros i Q; [reflexivity|]. inversion Q as [|? ? A Q']; subst.
  cbn [ConnHandler.in_next]. rewrite A, (IH (i + 1) Q'). reflexivity.
Qed.

Lemma kpoll_loop_quiet fuel : forall st sc ss,
  quiet (k_in st) -> inbound_outs (snd (kpoll_loop fuel st sc ss)) = [].
Proof.
  induction fuel as [|fuel IH]; intros st sc ss Q; [reflexivity|]. cbn [ConnHandler.kpoll_loop].
  destruct (kcall st sc ss) as [[[[r st1] sc1] ss1] o1] eqn:EK. apply kcall_cases in EK.
  pose proof (in_next_quiet _ 0 Q) as IQ.
  destruct EK as [ri c' k EI|c' k inc EI|c' e h' sc' oc EI EC|c' h' sc' oc e s' ss' os EI EC ES|c' h' sc' oc s' ss' os EI EC ES];
    rewrite IQ in EI; try discriminate; injection EI as <-.
  - specialize (IH (k_set_client (k_set_in st (k_in st)) h') sc' ss Q).
    destruct (kpoll_loop fuel _ sc' ss) as [st2 o2]. cbn [snd] in *.
    rewrite inbound_outs_app, inbound_outs_client, IH. reflexivity.
  - specialize (IH (k_set_server (k_set_client (k_set_in st (k_in st)) h') s') sc' ss' Q).
    destruct (kpoll_loop fuel _ sc' ss') as [st2 o2]. cbn [snd] in *.
    rewrite !inbound_outs_app, inbound_outs_client, inbound_outs_server, IH. reflexivity.
  - cbn [snd]. rewrite inbound_outs_app, inbound_outs_client, inbound_outs_server. reflexivity.
Qed.

Definition is_incoming (e : kout) : Prop := exists k m, e = KIncoming k m.

Lemma kpoll_loop_inbound_first fuel : forall st sc ss,
  exists a b, snd (kpoll_loop fuel st sc ss) = a ++ b /\ Forall is_incoming a /\ inbound_outs b = [].
Proof.
  induction fuel as [|fuel IH]; intros st sc ss.
  { exists [], []. repeat split. constructor. }
  cbn [ConnHandler.kpoll_loop].
  destruct (kcall st sc ss) as [[[[r st1] sc1] ss1] o1] eqn:EK. apply kcall_cases in EK.
  destruct EK as [ri c' k EI|c' k inc EI|c' e h' sc' oc EI EC|c' h' sc' oc e s' ss' os EI EC ES|c' h' sc' oc s' ss' os EI EC ES].
  - exists [], [KInFatal k]. repeat split. constructor.
  - destruct (IH (k_set_in st c') sc ss) as (a & b & E & FA & IB).
    destruct (kpoll_loop fuel (k_set_in st c') sc ss) as [st2 o2]. cbn [snd] in *.
    exists (KIncoming k inc :: a), b. subst o2. repeat split; [|exact IB].
    constructor; [exists k, inc; reflexivity|exact FA].
  - apply in_next_none_quiet in EI.
    pose proof (kpoll_loop_quiet fuel (k_set_client (k_set_in st c') h') sc' ss EI) as IB.
    destruct (kpoll_loop fuel _ sc' ss) as [st2 o2]. cbn [snd] in *.
    exists [], (map KClient (oc ++ [e]) ++ o2). repeat split; [constructor|].
    rewrite inbound_outs_app, inbound_outs_client, IB. reflexivity.
  - apply in_next_none_quiet in EI.
    pose proof (kpoll_loop_quiet fuel (k_set_server (k_set_client (k_set_in st c') h') s') sc' ss' EI) as IB.
    destruct (kpoll_loop fuel _ sc' ss') as [st2 o2]. cbn [snd] in *.
    exists [], ((map KClient oc ++ map KServer (os ++ [e])) ++ o2). repeat split; [constructor|].
    rewrite !inbound_outs_app, inbound_outs_client, inbound_outs_server, IB. reflexivity.
  - exists [], (map KClient oc ++ map KServer os). repeat split; [constructor|].
    rewrite inbound_outs_app, inbound_outs_client, inbound_outs_server. reflexivity.
Qed.

(* in one KPoll every IncomingMessage event comes before every event of the two halves: while the inbound side has
   something to deliver, neither half is polled at all *)
Theorem connhandler_inbound_first st sc ss :
  exists a b, snd (kstep st (KPoll sc ss)) = a ++ b /\ Forall is_incoming a /\ inbound_outs b = [].
Proof.
  unfold ConnHandler.kstep. destruct (k_dead st).
  - exists [], []. repeat split. constructor.
  - apply kpoll_loop_inbound_first.
Qed.

(* The inbound side on its own: `incoming_streams.poll_next` again and again until it is not Ready(Some) *)
Fixpoint in_drain (fuel : nat) (c : list kin) : list (N * incoming) * list kin * option N :=
  match fuel with
  | O => ([], c, None)
  | S f =>
      match in_next 0 c with
      | (_, c', Some k) => ([], c', Some k)
      | (Some km, c', None) => let '(l, c'', fz) := in_drain f c' in (km :: l, c'', fz)
      | (None, c', None) => ([], c', None)
      end
  end.

Lemma in_drain_quiet fuel c : quiet c -> in_drain fuel c = ([], c, None).
Proof. intros Q. destruct fuel as [|f]; [reflexivity|]. cbn [in_drain]. rewrite (in_next_quiet c 0 Q). reflexivity. Qed.

Lemma kpoll_loop_quiet_in fuel : forall st sc ss,
  quiet (k_in st) -> k_in (fst (kpoll_loop fuel st sc ss)) = k_in st /\ k_fatal (fst (kpoll_loop fuel st sc ss)) = k_fatal st.
Proof.
  induction fuel as [|fuel IH]; intros st sc ss Q; [split; reflexivity|]. cbn [ConnHandler.kpoll_loop].
  destruct (kcall st sc ss) as [[[[r st1] sc1] ss1] o1] eqn:EK. apply kcall_cases in EK.
  pose proof (in_next_quiet _ 0 Q) as IQ.
  destruct EK as [ri c' k EI|c' k inc EI|c' e h' sc' oc EI EC|c' h' sc' oc e s' ss' os EI EC ES|c' h' sc' oc s' ss' os EI EC ES];
    rewrite IQ in EI; try discriminate; injection EI as <-.
  - specialize (IH (k_set_client (k_set_in st (k_in st)) h') sc' ss Q).
    destruct (kpoll_loop fuel _ sc' ss) as [st2 o2]. cbn [fst] in *. exact IH.
  - specialize (IH (k_set_server (k_set_client (k_set_in st (k_in st)) h') s') sc' ss' Q).
    destruct (kpoll_loop fuel _ sc' ss') as [st2 o2]. cbn [fst] in *. exact IH.
  - cbn [fst]. split; reflexivity.
Qed.

Lemma kpoll_loop_inbound fuel : forall st sc ss,
  k_fatal st = false ->
  let '(l, c, fz) := in_drain fuel (k_in st) in
  inbound_outs (snd (kpoll_loop fuel st sc ss)) = l
  /\ k_in (fst (kpoll_loop fuel st sc ss)) = c
  /\ k_fatal (fst (kpoll_loop fuel st sc ss)) = match fz with Some _ => true | None => false end.
Proof.
  induction fuel as [|fuel IH]; intros st sc ss NF.
  { cbn. repeat split. exact NF. }
  cbn [ConnHandler.kpoll_loop in_drain].
  destruct (kcall st sc ss) as [[[[r st1] sc1] ss1] o1] eqn:EK. apply kcall_cases in EK.
  destruct EK as [ri c' k EI|c' k inc EI|c' e h' sc' oc EI EC|c' h' sc' oc e s' ss' os EI EC ES|c' h' sc' oc s' ss' os EI EC ES];
    rewrite EI.
  - destruct ri; cbn; repeat split.
  - specialize (IH (k_set_in st c') sc ss NF). cbn [k_in k_set_in] in IH.
    destruct (in_drain fuel c') as [[l c2] fz].
    destruct (kpoll_loop fuel (k_set_in st c') sc ss) as [st2 o2]. cbn [fst snd] in *.
    destruct IH as (I1 & I2 & I3). rewrite inbound_outs_app, I1. repeat split; assumption.
  - apply in_next_none_quiet in EI.
    pose proof (kpoll_loop_quiet fuel (k_set_client (k_set_in st c') h') sc' ss EI) as IB.
    pose proof (kpoll_loop_quiet_in fuel (k_set_client (k_set_in st c') h') sc' ss EI) as (K1 & K2).
    destruct (kpoll_loop fuel _ sc' ss) as [st2 o2]. cbn [fst snd k_in k_fatal k_set_client k_set_in] in *.
    rewrite inbound_outs_app, inbound_outs_client, IB. repeat split; congruence.
  - apply in_next_none_quiet in EI.
    pose proof (kpoll_loop_quiet fuel (k_set_server (k_set_client (k_set_in st c') h') s') sc' ss' EI) as IB.
    pose proof (kpoll_loop_quiet_in fuel (k_set_server (k_set_client (k_set_in st c') h') s') sc' ss' EI) as (K1 & K2).
    destruct (kpoll_loop fuel _ sc' ss') as [st2 o2]. cbn [fst snd k_in k_fatal k_set_client k_set_in k_set_server] in *.
    rewrite !inbound_outs_app, inbound_outs_client, inbound_outs_server, IB. repeat split; congruence.
  - cbn [fst snd k_in k_fatal k_set_client k_set_in k_set_server].
    rewrite inbound_outs_app, inbound_outs_client, inbound_outs_server. repeat split; assumption.
Qed.

(* more fuel does not change a drain that came to its end; a drain comes to its end within in_mu + 1 calls *)
Lemma in_drain_enough f : forall c f', (in_mu c < f)%nat -> (f <= f')%nat -> in_drain f' c = in_drain f c.
Proof.
  induction f as [|f IH]; intros c f' M L; [lia|]. destruct f' as [|f']; [lia|]. cbn [in_drain].
  destruct (in_next 0 c) as [[r c'] fz] eqn:E. pose proof (in_next_mu _ _ _ _ _ E) as MU.
  destruct fz; [reflexivity|]. destruct r as [km|]; [|reflexivity].
  rewrite (IH c' f') by lia. reflexivity.
Qed.

(* THEOREM 1, inbound side: what the inbound side delivers in a KPoll, and the state it is left in, is a function of the
   inbound streams alone (`in_drain`: SelectAll polled until it has nothing): the two halves, their states, their scripts
   and the events they return cannot be seen in it.  With connhandler_inbound_first: the KPoll's outputs are these
   messages followed by the events of the halves. *)
Theorem connhandler_inbound_projection st sc ss :
  k_dead st = false ->
  let c0 := wake_all (k_in st) in
  let '(l, c, fz) := in_drain (S (in_mu c0)) c0 in
  inbound_outs (snd (kstep st (KPoll sc ss))) = l
  /\ k_in (fst (kstep st (KPoll sc ss))) = c
  /\ k_fatal (fst (kstep st (KPoll sc ss))) = match fz with Some _ => true | None => false end.
Proof.
  intros D c0. rewrite (kstep_poll st sc ss D). unfold ConnHandler.k_do_poll. fold c0.
  assert (NF : k_fatal (k_set_in st c0) = false).
  { unfold k_dead in D. apply Bool.orb_false_iff in D. apply D. }
  pose proof (kpoll_loop_inbound (kpoll_fuel (k_set_in st c0)) (k_set_in st c0) sc ss NF) as P.
  cbn [k_in k_set_in] in P.
  rewrite (in_drain_enough (S (in_mu c0)) c0 (kpoll_fuel (k_set_in st c0))) in P.
  - exact P.
  - lia.
  - unfold kpoll_fuel. cbn [k_in k_set_in]. pose proof (in_mu_le_fuel c0). lia.
Qed.

(* in particular two handlers with the same inbound streams deliver the same IncomingMessages in a KPoll, whatever
   their halves are doing and whatever the outbound streams answer (C16 at the level of the whole handler) *)
Corollary connhandler_inbound_independent st1 st2 sc1 ss1 sc2 ss2 :
  k_dead st1 = false -> k_dead st2 = false -> k_in st1 = k_in st2 ->
  inbound_outs (snd (kstep st1 (KPoll sc1 ss1))) = inbound_outs (snd (kstep st2 (KPoll sc2 ss2)))
  /\ k_in (fst (kstep st1 (KPoll sc1 ss1))) = k_in (fst (kstep st2 (KPoll sc2 ss2))).
Proof.
  intros D1 D2 E.
  pose proof (connhandler_inbound_projection st1 sc1 ss1 D1) as P1.
  pose proof (connhandler_inbound_projection st2 sc2 ss2 D2) as P2.
  cbv zeta in P1, P2. rewrite E in P1.
  destruct (in_drain (S (in_mu (wake_all (k_in st2)))) (wake_all (k_in st2))) as [[l c] fz].
  destruct P1 as (A1 & A2 & _), P2 as (B1 & B2 & _). split; congruence.
Qed.

(* lib.rs:364-366 ("// TODO"): a DialUpgradeError for a substream the SERVER half asked for is dropped on the floor.
   The server half stays in `Requested`: whatever happens afterwards short of a FullyNegotiatedOutbound for the server
   half (which libp2p-swarm will not deliver: it has already answered the request), it never writes a byte and never
   asks again, although blocks may be queued for this peer *)
Definition is_set_server (op : kop) : bool := match op with KSetStream RqServer => true | _ => false end.

Theorem connhandler_server_dial_error_stalls ops st :
  k_ok st -> sh_sink (k_server st) = SvRequested ->
  forallb (fun op => negb (is_set_server op)) ops = true ->
  k_dead (fst (krun_trace st ops)) = false ->
  server_outs (concat (snd (krun_trace st ops))) = []
  /\ sh_sink (k_server (fst (krun_trace st ops))) = SvRequested.
Proof.
  intros OK R NS ND.
  pose proof (connhandler_server_projection ops st OK ND) as P.
  assert (NS' : forallb (fun op => negb (is_set_stream op)) (flat_map shops_of ops) = true).
  { clear -NS. induction ops as [|op ops IH]; [reflexivity|]. cbn [forallb flat_map] in *.
    apply andb_true_iff in NS as [N1 N2]. rewrite forallb_app, (IH N2), Bool.andb_true_r.
    destruct op as [w|bs|evs|[|]|[|]|ms|sc ss|sc]; try reflexivity. discriminate. }
  destruct (server_requested_is_stuck encode block_size _ _ R NS') as (S1 & S2).
  rewrite P in S1, S2. cbn [fst snd] in *. split; assumption.
Qed.

End Proofs.

(* ================================================================================================== *)
(* 11. The real instance: witnesses and non-vacuity                                                   *)
(* ================================================================================================== *)
From BS Require Import Proto Prefix Incoming Qp ProtoCodec Codec.

Arguments client_proj encode block_size {msg} parse proc st ops.

Definition r_size (b : blk) : N := 1 + sizeof_len (size_block (block_of b)).      (* server.rs:458 *)
Definition r_hash : hash_fn := fun _ _ => HErr UnknownMultihashCode.
Definition r_step := kstep codec_encode r_size (qp_parse true) (process_message 64 r_hash).
Definition r_call := kcall codec_encode r_size (qp_parse true) (process_message 64 r_hash).
Definition r_run (c : conn) (ops : list kop) :=
  krun_trace codec_encode r_size (qp_parse true) (process_message 64 r_hash) (k_init c) ops.
Definition r_client_proj (c : conn) (ops : list kop) :=
  client_proj codec_encode r_size (qp_parse true) (process_message 64 r_hash) (k_init c) ops.

Definition ex_w : wantlist := MkWantlist [MkEntry [1; 85; 18; 3; 1; 2; 3] 1 false WTHave true] true.
Definition ex_b : blk := ([1; 85; 18; 3], [7; 7; 7]).

(* the naive projection of the task statement: every KPoll is one HPoll on the client script *)
Definition naive_hops (op : kop) : list hop :=
  match op with
  | KSendWantlist w => [HSendWantlist w]
  | KSetStream RqClient => [HSetStream]
  | KAllocFailed RqClient => [HAllocFailed]
  | KAdvance ms => [HAdvance ms]
  | KPoll sc _ => [HPoll sc]
  | KPollClose sc => [HPollClose sc]
  | _ => []
  end.

(* The client half holds a stream and has just started sending; its stream answers Pending once, then accepts
   everything.  Meanwhile blocks are queued for the server half, which has no stream.  In the last KPoll the client
   half returns Pending after the stream's Pending, the server half returns OutboundSubstreamRequest, `poll` is called
   again, the client half is polled AGAIN and finishes the whole send: Ready is reported in this op.  Handler.v's
   HPoll on the same script stops at the first Pending. *)
Definition ex_refute_ops : list kop :=
  [KSendWantlist ex_w; KPoll [] []; KSetStream RqClient; KQueue [ex_b];
   KPoll [IoPending; WAccept 1048576; FlushOk; FlushOk; CloseOk] []].

Example ex_refute_whole :
  nth 4 (map client_outs (snd (r_run 1 ex_refute_ops))) []
  = [HReport (RpSending 1); HWrote 0 (codec_encode (wantlist_message ex_w)); HStreamClosed 0; HDropped 0; HReport RpReady].
Proof. vm_compute. reflexivity. Qed.

Example ex_refute_alone :
  nth 3 (handler_run codec_encode 1 (flat_map naive_hops ex_refute_ops)) [] = [HReport (RpSending 1)].
Proof. vm_compute. reflexivity. Qed.

Theorem connhandler_projections_refuted :
  exists c ops,
    k_dead (fst (r_run c ops)) = false
    /\ client_outs (concat (snd (r_run c ops))) <> handler_outs codec_encode c (flat_map naive_hops ops).
Proof. exists 1, ex_refute_ops. split; [vm_compute; reflexivity|]. vm_compute. discriminate. Qed.

(* non-vacuity of connhandler_projections on the same history: it is alive, and its exact client projection has the
   last KPoll twice, the second time on the rest of the script *)
Example ex_projections_nonvacuous :
  k_dead (fst (r_run 1 ex_refute_ops)) = false
  /\ r_client_proj 1 ex_refute_ops
     = [HSendWantlist ex_w; HPoll []; HSetStream;
        HPoll [IoPending; WAccept 1048576; FlushOk; FlushOk; CloseOk]; HPoll [WAccept 1048576; FlushOk; FlushOk; CloseOk]].
Proof. split; vm_compute; reflexivity. Qed.

(* non-vacuity of connhandler_server_starvation: the server half has a block pending and a fresh stream, the client half
   is busy (a report is queued and it is about to ask for a stream: it returns Ready twice in the next KPoll) *)
Definition ex_starve_st : kstate :=
  fst (r_run 1 [KQueue [ex_b]; KPoll [] []; KSetStream RqServer; KSendWantlist ex_w]).

Example ex_starvation_nonvacuous :
  k_ok ex_starve_st /\ k_dead ex_starve_st = false
  /\ sh_pending (k_server ex_starve_st) = Some [ex_b] /\ sh_sink (k_server ex_starve_st) = SvReady 0 []
  /\ let res := r_step ex_starve_st (KPoll [] [FlushOk; WAccept 1048576; FlushOk]) in
     k_fatal (fst res) = false
     /\ client_outs (snd res) = [HReport (RpRequestReceived 1); HOpenStream]
     /\ server_outs (snd res) = [SHWrote 0 (codec_encode (payload_message [ex_b]))].
Proof. vm_compute. repeat split; reflexivity. Qed.

(* the per-call reading: in that state the first TWO calls of `poll` return client events and leave the server half
   and its script alone; only the third call reaches it *)
Example ex_call_starvation :
  let ss := [FlushOk; WAccept 1048576; FlushOk] in
  let '(r1, st1, sc1, ss1, o1) := r_call ex_starve_st [] ss in
  let '(r2, st2, sc2, ss2, o2) := r_call st1 sc1 ss1 in
  let '(r3, st3, sc3, ss3, o3) := r_call st2 sc2 ss2 in
  (r1, o1) = (KrReady, [KClient (HReport (RpRequestReceived 1))])
  /\ (r2, o2) = (KrReady, [KClient HOpenStream])
  /\ k_server st2 = k_server ex_starve_st /\ ss2 = ss
  /\ (r3, o3) = (KrPending, [KServer (SHWrote 0 (codec_encode (payload_message [ex_b])))]).
Proof. vm_compute. repeat split; reflexivity. Qed.

(* non-vacuity of connhandler_server_dial_error_stalls: the dial for the server half's stream fails; three more KPolls
   with generous scripts and more queued blocks later, nothing has been written and no new request was made *)
Definition ex_stall_st : kstate := fst (r_run 1 [KQueue [ex_b]; KPoll [] []]).
Definition ex_stall_ops : list kop :=
  [KAllocFailed RqServer; KPoll [] [FlushOk; WAccept 1048576; FlushOk]; KQueue [ex_b];
   KPoll [] [FlushOk; WAccept 1048576; FlushOk]; KAdvance 60000; KPoll [] [FlushOk]].

Example ex_dial_error_stalls_nonvacuous :
  k_ok ex_stall_st /\ sh_sink (k_server ex_stall_st) = SvRequested
  /\ forallb (fun op => negb (is_set_server op)) ex_stall_ops = true
  /\ k_dead (fst (krun_trace codec_encode r_size (qp_parse true) (process_message 64 r_hash) ex_stall_st ex_stall_ops)) = false
  /\ sh_pending (k_server (fst (krun_trace codec_encode r_size (qp_parse true) (process_message 64 r_hash) ex_stall_st ex_stall_ops)))
     = Some [ex_b; ex_b].
Proof. vm_compute. repeat split; reflexivity. Qed.

(* non-vacuity of connhandler_inbound_first: one KPoll in which an inbound stream delivers a wantlist, the client half
   reports and asks for a stream and the server half asks for a stream: the IncomingMessage comes first *)
Example ex_inbound_first :
  let ops := [KSendWantlist ex_w; KQueue [ex_b]; KInbound [Chunk (codec_encode (wantlist_message ex_w))]; KPoll [] []] in
  nth 3 (snd (r_run 1 ops)) []
  = [KIncoming 0 (MkIncoming None (Some ex_w)); KClient (HReport (RpRequestReceived 1)); KClient HOpenStream; KServer SHOpenStream].
Proof. vm_compute. reflexivity. Qed.

Print Assumptions k_do_poll_ok.
Print Assumptions kstep_ok.
Print Assumptions connhandler_server_step.
Print Assumptions connhandler_client_step.
Print Assumptions connhandler_client_step_plain.
Print Assumptions connhandler_server_starvation.
Print Assumptions connhandler_server_projection.
Print Assumptions connhandler_client_projection.
Print Assumptions connhandler_projections.
Print Assumptions connhandler_projections_refuted.
Print Assumptions connhandler_call_priority.
Print Assumptions connhandler_call_inbound_priority.
Print Assumptions connhandler_inbound_first.
Print Assumptions connhandler_server_dial_error_stalls.
Print Assumptions connhandler_inbound_projection.
Print Assumptions connhandler_inbound_independent.
Print Assumptions ex_starvation_nonvacuous.
Print Assumptions ex_projections_nonvacuous.
