(* Net_proofs21.v — package G: C07 at the network level.  Ghost: for every node j the list `sops_run s0 ops j` of the
   operations its SERVER half received during a run (SNewConn / SDisconnected from the swarm, SMsg for every wantlist
   DELIVERED to j — in delivery order —, SNewBlocks / SPoll for every poll, SRelease for every completed store lookup).
   The ghost is exact (the server state is the server model run on it), so Server_proofs.C07_only_owed applies to every
   dispatch; and every batch on `wire_b` was put there by an NPoll of its source. *)
From BS Require Import Server_lemmas Server_inv Server_proofs Server_live Wantlist_proofs Client_proofs
  Net Net_proofs2 Net_proofs3 Net_proofs4 Net_proofs5 Net_proofs6 Net_proofs7 Net_proofs9 Net_proofs10.
From Coq Require Import ZArith ZifyBool ZifyN ZifyNat Lia.
Open Scope N_scope.

Section NetC07.
  Variables (Sz : N) (Hh : hash_fn).
  Hypothesis HSz : 32 <= Sz.

  (* the new blocks a poll of node n hands from the client half to the server half *)
  Definition poll_nb (n : node) : list (cid * bytes) :=
    cl_new_blocks (snd (cstep (fst (cstep (n_client n) (CPoll []))) CTakeNewBlocks)).

  Definition msg_of (na : node) (m : wmsg) : wantlist := proto_of (wl_sdh (cs_wl (n_client na))) (wm_full m) (wm_entries m).
  Definition order_of (w : wantlist) : list cid := match full_collect Sz (w_entries w) [] with Some l => l | None => [] end.

  (* what step o in state s does to the server half of node j *)
  Definition srv_ops (s : net) (o : nop) (j : N) : list sop :=
    match o with
    | NConnect a b =>
        match get_node s a, get_node s b with
        | Some _, Some _ =>
            if (a =? b) || Net.connected s a b then []
            else if j =? b then [SNewConn a] else if j =? a then [SNewConn b] else []
        | _, _ => []
        end
    | NDisconnect a b =>
        match get_node s a, get_node s b with
        | Some _, Some _ =>
            if Net.connected s a b
            then (if j =? b then [SDisconnected a] else if j =? a then [SDisconnected b] else [])
            else []
        | _, _ => []
        end
    | NPoll k =>
        if j =? k then
          match get_node s k with
          | Some n => (match poll_nb n with [] => [] | nb => [SNewBlocks nb] end) ++ [SPoll]
          | None => []
          end
        else []
    | NStore k m =>
        if j =? k then
          match get_node s k with
          | Some n => match nth_error (n_calls n) (N.to_nat m) with
                      | Some (KSGet x c) => [SRelease x (store_get (n_store n) c)]
                      | _ => []
                      end
          | None => []
          end
        else []
    | NDeliverW a b =>
        if j =? b then
          match take_first (w_between a b) (wire_w s) with
          | Some (m, _) =>
              match get_node s a, get_node s b with
              | Some na, Some _ =>
                  if wm_full m || negb (is_nil (wm_entries m))
                  then [SMsg a (msg_of na m) (order_of (msg_of na m))]
                  else []
              | _, _ => []
              end
          | None => []
          end
        else []
    | _ => []
    end.

  Fixpoint sops_run (s : net) (ops : list nop) (j : N) : list sop :=
    match ops with
    | [] => []
    | o :: r => srv_ops s o j ++ sops_run (fst (nstep Sz Hh s o)) r j
    end.

  Definition srv_run (st : sstate) (l : list sop) : sstate := snd (srun_l_from Sz st l).

  Lemma srv_run_nil st : srv_run st [] = st.
  Proof. reflexivity. Qed.

  Lemma srv_run_one st op : srv_run st [op] = fst (sstep_l Sz st op).
  Proof. unfold srv_run. cbn [srun_l_from]. destruct (sstep_l Sz st op). reflexivity. Qed.

  Lemma srv_run_app st a b : srv_run st (a ++ b) = srv_run (srv_run st a) b.
  Proof. unfold srv_run. rewrite srun_l_from_app. reflexivity. Qed.

  Lemma hand_over_server s i L : forall acc, n_server (fst (fold_left (hand_over s i) L acc)) = n_server (fst acc).
  Proof.
    induction L as [|x L IH]; intros acc; cbn [fold_left]; [reflexivity|]. rewrite IH. destruct x as [[[p c] f] es]. unfold hand_over.
    destruct (Net.connected s i p); reflexivity.
  Qed.

  (* ---------- one step: the ghost is exact ---------- *)
  Lemma srv_step_ok s o j n' :
    net_ok Sz Hh s -> get_node (fst (nstep Sz Hh s o)) j = Some n' ->
    exists n, get_node s j = Some n /\ n_server n' = srv_run (n_server n) (srv_ops s o j).
  Proof.
    intros Hok Hj. assert (Hsame : forall n0, get_node s j = Some n0 -> n0 = n' -> exists n, get_node s j = Some n /\ n_server n' = srv_run (n_server n) [])
      by (intros n0 H <-; exists n0; auto).
    destruct o; cbn [nstep fst srv_ops] in *.
    - unfold do_connect in Hj. destruct (get_node s i) as [ni|] eqn:Ei; [|eapply Hsame; [exact Hj | reflexivity]].
      destruct (get_node s j0) as [nj|] eqn:Ej; [|eapply Hsame; [exact Hj | reflexivity]].
      destruct ((i =? j0) || Net.connected s i j0) eqn:E; [eapply Hsame; [exact Hj | reflexivity]|].
      apply orb_false_iff in E. destruct E as [E _]. apply N.eqb_neq in E.
      change (get_node (set_node (set_node s i (node_connected Sz ni j0 CONN)) j0 (node_connected Sz nj i CONN)) j = Some n') in Hj.
      destruct (j =? j0) eqn:A.
      + apply N.eqb_eq in A. subst j. rewrite (get_set_eq _ _ nj) in Hj by (rewrite get_set_neq by exact E; exact Ej). injection Hj as <-.
        exists nj. split; [exact Ej|]. rewrite srv_run_one. reflexivity.
      + apply N.eqb_neq in A. rewrite get_set_neq in Hj by congruence. destruct (j =? i) eqn:B.
        * apply N.eqb_eq in B. subst j. rewrite (get_set_eq _ _ _ _ Ei) in Hj. injection Hj as <-. exists ni. split; [exact Ei|]. rewrite srv_run_one. reflexivity.
        * apply N.eqb_neq in B. rewrite get_set_neq in Hj by congruence. eapply Hsame; [exact Hj | reflexivity].
    - unfold do_disconnect in Hj. destruct (get_node s i) as [ni|] eqn:Ei; [|eapply Hsame; [exact Hj | reflexivity]].
      destruct (get_node s j0) as [nj|] eqn:Ej; [|eapply Hsame; [exact Hj | reflexivity]].
      destruct (Net.connected s i j0) eqn:E; [|eapply Hsame; [exact Hj | reflexivity]].
      destruct (connected_neq Sz Hh HSz s i j0 Hok E) as (Hne & _).
      change (get_node (set_node (set_node s i (node_disconnected Sz ni j0 CONN)) j0 (node_disconnected Sz nj i CONN)) j = Some n') in Hj.
      destruct (j =? j0) eqn:A.
      + apply N.eqb_eq in A. subst j. rewrite (get_set_eq _ _ nj) in Hj by (rewrite get_set_neq by exact Hne; exact Ej). injection Hj as <-.
        exists nj. split; [exact Ej|]. rewrite srv_run_one. reflexivity.
      + apply N.eqb_neq in A. rewrite get_set_neq in Hj by congruence. destruct (j =? i) eqn:B.
        * apply N.eqb_eq in B. subst j. rewrite (get_set_eq _ _ _ _ Ei) in Hj. injection Hj as <-. exists ni. split; [exact Ei|]. rewrite srv_run_one. reflexivity.
        * apply N.eqb_neq in B. rewrite get_set_neq in Hj by congruence. eapply Hsame; [exact Hj | reflexivity].
    - destruct (N.eq_dec j i) as [->|Hne].
      + destruct (get_node s i) as [n|] eqn:Ei; [|unfold on_node in Hj; rewrite Ei in Hj; congruence].
        rewrite (get_on_node_same s i _ n Ei) in Hj. injection Hj as <-. exists n. auto.
      + rewrite get_on_node_other in Hj by exact Hne. eapply Hsame; [exact Hj | reflexivity].
    - destruct (N.eq_dec j i) as [->|Hne].
      + destruct (get_node s i) as [n|] eqn:Ei; [|unfold on_node in Hj; rewrite Ei in Hj; congruence].
        rewrite (get_on_node_same s i _ n Ei) in Hj. injection Hj as <-. exists n. auto.
      + rewrite get_on_node_other in Hj by exact Hne. eapply Hsame; [exact Hj | reflexivity].
    - destruct (N.eq_dec j i) as [->|Hne].
      + destruct (get_node s i) as [n|] eqn:Ei; [|unfold on_node in Hj; rewrite Ei in Hj; congruence].
        rewrite (get_on_node_same s i _ n Ei) in Hj. injection Hj as <-. exists n. auto.
      + rewrite get_on_node_other in Hj by exact Hne. eapply Hsame; [exact Hj | reflexivity].
    - destruct (N.eq_dec j i) as [->|Hne].
      + destruct (get_node s i) as [n|] eqn:Ei; [|unfold on_node in Hj; rewrite Ei in Hj; congruence].
        rewrite (get_on_node_same s i _ n Ei) in Hj. injection Hj as <-. exists n. auto.
      + rewrite get_on_node_other in Hj by exact Hne. eapply Hsame; [exact Hj | reflexivity].
    - unfold get_node in Hj. cbn [nodes] in Hj. rewrite nth_error_map in Hj.
      destruct (nth_error (nodes s) (N.to_nat j)) as [n|] eqn:E; [|discriminate]. injection Hj as <-. exists n. auto.
    - unfold do_poll in Hj. destruct (get_node s i) as [n|] eqn:Ei.
      2:{ destruct (j =? i); (eapply Hsame; [exact Hj | reflexivity]). }
      destruct (node_poll Sz n) as [n1 o] eqn:En.
      pose proof (hand_over_server s i (o_wants o) (n1, [])) as Hsv.
      destruct (fold_left (hand_over s i) (o_wants o) (n1, [])) as [n2 ws]. cbn [fst snd] in *.
      destruct (j =? i) eqn:A.
      + apply N.eqb_eq in A. subst j. rewrite (get_set_nth_same s i n _ _ _ _ _ Ei) in Hj. injection Hj as <-. exists n. split; [exact Ei|].
        rewrite Hsv. unfold node_poll in En. unfold poll_nb.
        destruct (cstep (n_client n) (CPoll [])) as [c1 o1]. cbn [fst snd]. destruct (cstep c1 CTakeNewBlocks) as [c2 o2]. cbn [fst snd].
        destruct (cl_new_blocks o2) as [|b nb].
        * destruct (srv Sz (n_server n) SPoll) as [s2 o3] eqn:Es. injection En as <- _. cbn [n_server app]. rewrite srv_run_one. unfold srv in Es. rewrite Es. reflexivity.
        * destruct (srv Sz (fst (srv Sz (n_server n) (SNewBlocks (b :: nb)))) SPoll) as [s2 o3] eqn:Es. injection En as <- _. cbn [n_server app].
          rewrite (srv_run_app _ [SNewBlocks (b :: nb)] [SPoll]), !srv_run_one. unfold srv in Es. rewrite Es. reflexivity.
      + apply N.eqb_neq in A. rewrite get_other in Hj by exact A. eapply Hsame; [exact Hj | reflexivity].
    - destruct (j =? i) eqn:A.
      + apply N.eqb_eq in A. subst j. destruct (get_node s i) as [n|] eqn:Ei; [|unfold on_node in Hj; rewrite Ei in Hj; congruence].
        rewrite (get_on_node_same s i _ n Ei) in Hj. injection Hj as <-. exists n. split; [reflexivity|]. unfold node_store.
        destruct (nth_error (n_calls n) (N.to_nat k)) as [[m c|m bl|m c]|]; cbn [n_server]; try reflexivity.
        rewrite srv_run_one. reflexivity.
      + apply N.eqb_neq in A. rewrite get_on_node_other in Hj by exact A. eapply Hsame; [exact Hj | reflexivity].
    - destruct (take_first (w_between i j0) (wire_w s)) as [[m rest]|] eqn:Et.
      2:{ unfold do_deliver_w in Hj. rewrite Et in Hj. destruct (j =? j0); (eapply Hsame; [exact Hj | reflexivity]). }
      destruct (get_node s i) as [na|] eqn:Ha; [destruct (get_node s j0) as [nb|] eqn:Hb|].
      2,3: (assert (Es : fst (do_deliver_w Sz Hh s i j0) = MkNet (nodes s) (conns s) rest (wire_b s) (now s))
             by (unfold do_deliver_w; rewrite Et;
                 change (get_node (MkNet (nodes s) (conns s) rest (wire_b s) (now s)) i) with (get_node s i);
                 change (get_node (MkNet (nodes s) (conns s) rest (wire_b s) (now s)) j0) with (get_node s j0);
                 rewrite ?Ha, ?Hb; reflexivity);
            rewrite Es in Hj; change (get_node s j = Some n') in Hj; destruct (j =? j0); (eapply Hsame; [exact Hj | reflexivity])).
      destruct (deliver_w_effect Sz Hh s i j0 m rest na nb Et Ha Hb) as (_ & _ & _ & _ & Esv & Esvb & _ & _).
      destruct (j =? j0) eqn:A.
      + apply N.eqb_eq in A. subst j. exists nb. split; [exact Hb|]. unfold server_of in Esvb. rewrite Hj in Esvb. cbn [option_map] in Esvb.
        injection Esvb as ->. unfold srv_after_w. destruct (wm_full m || negb (is_nil (wm_entries m))); [|reflexivity].
        rewrite srv_run_one. reflexivity.
      + apply N.eqb_neq in A. specialize (Esv j A). unfold server_of in Esv. rewrite Hj in Esv. cbn [option_map] in Esv.
        destruct (get_node s j) as [n|] eqn:Hg; [|discriminate]. cbn [option_map] in Esv. injection Esv as Esv. exists n. split; [reflexivity | exact Esv].
    - unfold do_deliver_b in Hj. destruct (take_first (b_between j0 i) (wire_b s)) as [[m rest]|] eqn:Et; [|eapply Hsame; [exact Hj | reflexivity]].
      destruct (get_node s i) as [ni|] eqn:Ei.
      2:{ change (get_node s j = Some n') in Hj. eapply Hsame; [exact Hj | reflexivity]. }
      assert (Hsrv : n_server (fst (node_incoming Sz Hh ni j0 (blocks_message (bm_blocks m)))) = n_server ni).
      { unfold node_incoming. destruct (process_message Sz Hh (blocks_message (bm_blocks m))) as [inc| |] eqn:Ep; try reflexivity.
        assert (Hs : in_server inc = None).
        { unfold process_message, blocks_message in Ep. cbn [m_presences m_payload m_wantlist pm_presences] in Ep.
          destruct (pm_payload Sz Hh _ [] false) as [[[acc touched]|]|]; try discriminate. injection Ep as <-. reflexivity. }
        rewrite Hs. destruct (in_client inc) as [cm|]; [|reflexivity].
        destruct (cstep (n_client ni) (CIncoming j0 (map to_pres (cm_presences cm)) (cm_blocks cm))). reflexivity. }
      destruct (node_incoming Sz Hh ni j0 (blocks_message (bm_blocks m))) as [ni1 evs]. cbn [fst] in *.
      destruct (N.eq_dec j i) as [->|Hne].
      + rewrite (get_set_nth_same s i ni _ _ _ _ _ Ei) in Hj. injection Hj as <-. exists ni. auto.
      + rewrite get_other in Hj by exact Hne. eapply Hsame; [exact Hj | reflexivity].
  Qed.

  Lemma srv_run_ok ops : forall s j n',
    net_ok Sz Hh s -> Forall (nop_good Sz Hh) ops -> get_node (fst (nrun Sz Hh s ops)) j = Some n' ->
    exists n, get_node s j = Some n /\ n_server n' = srv_run (n_server n) (sops_run s ops j).
  Proof.
    induction ops as [|o ops IH]; intros s j n' Hok Hg Hj; [exists n'; auto|]. rewrite (nrun_cons Sz Hh) in Hj. cbn [fst] in Hj.
    inversion Hg; subst. assert (Hok1 : net_ok Sz Hh (fst (nstep Sz Hh s o))) by (apply net_ok_step; assumption).
    destruct (IH _ j n' Hok1 ltac:(assumption) Hj) as (n1 & Hn1 & E1). destruct (srv_step_ok s o j n1 Hok Hn1) as (n & Hn & E).
    exists n. split; [exact Hn|]. cbn [sops_run]. rewrite srv_run_app, <- E. exact E1.
  Qed.

  (* ---------- every dispatch of a poll is owed ---------- *)
  Lemma sview_new_blocks H p nb : sview Sz p (fst (srun_l Sz (H ++ [SNewBlocks nb]))) = sview Sz p (fst (srun_l Sz H)).
  Proof.
    rewrite srun_l_snoc. cbn [fst]. rewrite sview_snoc. unfold sview_step. cbn [fst snd sview_op].
    unfold sstep_l. destruct (s_panic (snd (srun_l Sz H))); reflexivity.
  Qed.

  Lemma poll_dispatch_owed H n i bl c d :
    n_server n = snd (srun_l Sz H) ->
    In (i, bl) (o_blocks (snd (node_poll Sz n))) -> In (c, d) bl ->
    (exists view, sview Sz i (fst (srun_l Sz H)) = Some view /\ In c view) /\ NoDup (map fst bl).
  Proof.
    intros Hsrv Hin Hcd. unfold node_poll in Hin.
    destruct (cstep (n_client n) (CPoll [])) as [c1 o1]. destruct (cstep c1 CTakeNewBlocks) as [c2 o2].
    destruct (cl_new_blocks o2) as [|b nb].
    - destruct (srv Sz (n_server n) SPoll) as [s2 o3] eqn:Es. cbn [snd o_blocks] in Hin. apply sv_blocks_In in Hin.
      unfold srv in Es. rewrite Hsrv in Es.
      assert (Hin' : In (LSend i bl) (snd (sstep_l Sz (snd (srun_l Sz H)) SPoll))) by (rewrite Es; exact Hin).
      destruct (C07_only_owed Sz H SPoll i bl c d Hin' Hcd) as (A & _ & B & _). auto.
    - destruct (srv Sz (fst (srv Sz (n_server n) (SNewBlocks (b :: nb)))) SPoll) as [s2 o3] eqn:Es. cbn [snd o_blocks] in Hin. apply sv_blocks_In in Hin.
      unfold srv in Es. rewrite Hsrv in Es.
      assert (E1 : fst (sstep_l Sz (snd (srun_l Sz H)) (SNewBlocks (b :: nb))) = snd (srun_l Sz (H ++ [SNewBlocks (b :: nb)])))
        by (rewrite srun_l_snoc; reflexivity).
      rewrite E1 in Es.
      assert (Hin' : In (LSend i bl) (snd (sstep_l Sz (snd (srun_l Sz (H ++ [SNewBlocks (b :: nb)]))) SPoll))) by (rewrite Es; exact Hin).
      destruct (C07_only_owed Sz _ SPoll i bl c d Hin' Hcd) as (A & _ & B & _). rewrite sview_new_blocks in A. auto.
  Qed.

  Lemma poll_dispatch_nodup H n i bl :
    n_server n = snd (srun_l Sz H) -> In (i, bl) (o_blocks (snd (node_poll Sz n))) -> NoDup (map fst bl).
  Proof.
    intros Hs Hin. destruct bl as [|[c d] bl']; [constructor|]. apply (poll_dispatch_owed H n i _ c d Hs Hin). left. reflexivity.
  Qed.

  (* ---------- where the batches on the wire come from ---------- *)
  Lemma wire_b_step s o m :
    In m (wire_b (fst (nstep Sz Hh s o))) ->
    In m (wire_b s) \/
    exists nj, o = NPoll (bm_src m) /\ get_node s (bm_src m) = Some nj /\ In (bm_dst m, bm_blocks m) (o_blocks (snd (node_poll Sz nj))).
  Proof.
    destruct o; cbn [nstep fst].
    - unfold do_connect. destruct (get_node s i); [|auto]. destruct (get_node s j); [|auto]. destruct ((i =? j) || Net.connected s i j); auto.
    - unfold do_disconnect. destruct (get_node s i); [|auto]. destruct (get_node s j); [|auto]. destruct (Net.connected s i j); [|auto].
      cbn [wire_b]. intros H. apply filter_In in H. left. apply H.
    - intros H. left. rewrite (proj2 (proj2 (on_node_frames s i _))) in H. exact H.
    - intros H. left. rewrite (proj2 (proj2 (on_node_frames s i _))) in H. exact H.
    - intros H. left. rewrite (proj2 (proj2 (on_node_frames s i _))) in H. exact H.
    - intros H. left. rewrite (proj2 (proj2 (on_node_frames s i _))) in H. exact H.
    - auto.
    - unfold do_poll. destruct (get_node s i) as [n|] eqn:Ei; [|auto]. destruct (node_poll Sz n) as [n1 o] eqn:En.
      destruct (fold_left (hand_over s i) (o_wants o) (n1, [])) as [n2 ws]. cbn [fst wire_b]. rewrite queue_blocks_fold. cbn [app].
      intros H. apply in_app_iff in H. destruct H as [H|H]; [left; exact H | right].
      apply in_map_iff in H. destruct H as ([p bl] & <- & Hx). apply filter_In in Hx. cbn [b_of bm_src bm_dst bm_blocks fst snd].
      exists n. split; [reflexivity|]. split; [exact Ei|]. rewrite En. apply Hx.
    - intros H. left. rewrite (proj2 (proj2 (on_node_frames s i _))) in H. exact H.
    - unfold do_deliver_w. destruct (take_first (w_between i j) (wire_w s)) as [[m0 rest]|]; [|auto].
      destruct (get_node _ i) as [ni|]; [|auto]. destruct (get_node _ j) as [nj|]; [|auto].
      destruct (node_incoming Sz Hh nj i _) as [nj1 evs]. cbn [fst].
      match goal with |- In m (wire_b (on_node ?x _ _)) -> _ => rewrite (proj2 (proj2 (on_node_frames x i (fun n => node_report n j CONN RpReady)))) end.
      auto.
    - unfold do_deliver_b. destruct (take_first (b_between j i) (wire_b s)) as [[m0 rest]|] eqn:Et; [|auto].
      destruct (take_first_spec _ _ _ _ Et) as (_ & _ & Hsub & _).
      destruct (get_node s i) as [ni|]; [destruct (node_incoming Sz Hh ni j _) as [ni1 evs]|]; cbn [fst wire_b]; intros H; left; apply Hsub, H.
  Qed.

  Lemma wire_b_prov ops : forall s m,
    In m (wire_b (fst (nrun Sz Hh s ops))) ->
    In m (wire_b s) \/
    exists ops1 ops2 nj, ops = ops1 ++ NPoll (bm_src m) :: ops2 /\ get_node (fst (nrun Sz Hh s ops1)) (bm_src m) = Some nj /\
                         In (bm_dst m, bm_blocks m) (o_blocks (snd (node_poll Sz nj))).
  Proof.
    induction ops as [|o ops IH]; intros s m Hm; [left; exact Hm|]. rewrite (nrun_cons Sz Hh) in Hm. cbn [fst] in Hm.
    destruct (IH _ _ Hm) as [H1|(ops1 & ops2 & nj & -> & Hn & Hin)].
    - destruct (wire_b_step s o m H1) as [H0|(nj & -> & Hn & Hin)]; [left; exact H0|]. right. exists [], ops, nj. auto.
    - right. exists (o :: ops1), ops2, nj. split; [reflexivity|]. rewrite (nrun_cons Sz Hh). cbn [fst]. auto.
  Qed.

  Lemma sops_run_app a : forall s b j, sops_run s (a ++ b) j = sops_run s a j ++ sops_run (fst (nrun Sz Hh s a)) b j.
  Proof.
    induction a as [|o a IH]; intros s b j; [reflexivity|]. cbn [app sops_run]. rewrite (nrun_cons Sz Hh). cbn [fst]. rewrite IH, app_assoc. reflexivity.
  Qed.

  Theorem C07_net_only_wanted n ops :
    Forall (nop_good Sz Hh) ops ->
    let s := fst (nrun Sz Hh (net_init n) ops) in
    (forall j nj, get_node s j = Some nj -> n_server nj = snd (srun_l Sz (sops_run (net_init n) ops j))) /\
    (forall m, In m (wire_b s) ->
       exists ops1 ops2, ops = ops1 ++ NPoll (bm_src m) :: ops2 /\ NoDup (map fst (bm_blocks m)) /\
         forall c, In c (map fst (bm_blocks m)) ->
           exists view, sview Sz (bm_dst m) (fst (srun_l Sz (sops_run (net_init n) ops1 (bm_src m)))) = Some view /\ In c view).
  Proof.
    intros Hg s.
    assert (Hexact : forall ops0, Forall (nop_good Sz Hh) ops0 -> forall j nj, get_node (fst (nrun Sz Hh (net_init n) ops0)) j = Some nj ->
                       n_server nj = snd (srun_l Sz (sops_run (net_init n) ops0 j))).
    { intros ops0 Hg0 j nj Hj. destruct (srv_run_ok ops0 (net_init n) j nj (net_ok_init Sz Hh HSz n) Hg0 Hj) as (n0 & Hn0 & E).
      unfold get_node in Hn0. cbn [nodes net_init] in Hn0. apply nth_error_In, repeat_spec in Hn0. subst n0. exact E. }
    split; [apply Hexact, Hg|].
    intros m Hm. destruct (wire_b_prov ops (net_init n) m Hm) as [[]|(ops1 & ops2 & nj & E & Hn & Hin)].
    exists ops1, ops2. split; [exact E|].
    assert (Hg1 : Forall (nop_good Sz Hh) ops1) by (rewrite E in Hg; apply Forall_app in Hg; apply Hg).
    pose proof (Hexact ops1 Hg1 _ _ Hn) as Hsrv.
    split; [apply (poll_dispatch_nodup _ nj (bm_dst m) _ Hsrv Hin)|].
    intros c Hc. apply in_map_iff in Hc. destruct Hc as ([c' d] & <- & Hcd).
    destruct (poll_dispatch_owed _ nj (bm_dst m) (bm_blocks m) c' d Hsrv Hin Hcd) as [Hv _]. exact Hv.
  Qed.

  (* the SMsg entries of the ghost are exactly the wantlists delivered to j, as delivered *)
  Lemma srv_ops_msg s o j a w ord :
    In (SMsg a w ord) (srv_ops s o j) ->
    o = NDeliverW a j /\ exists m rest na, take_first (w_between a j) (wire_w s) = Some (m, rest) /\ get_node s a = Some na /\
                                          w = msg_of na m /\ ord = order_of w.
  Proof.
    destruct o; cbn [srv_ops]; try (intros []).
    - destruct (get_node s i); [|intros []]. destruct (get_node s j0); [|intros []]. destruct ((i =? j0) || Net.connected s i j0); [intros []|].
      destruct (j =? j0); [intros [[=]|[]]|]. destruct (j =? i); [intros [[=]|[]] | intros []].
    - destruct (get_node s i); [|intros []]. destruct (get_node s j0); [|intros []]. destruct (Net.connected s i j0); [|intros []].
      destruct (j =? j0); [intros [[=]|[]]|]. destruct (j =? i); [intros [[=]|[]] | intros []].
    - destruct (j =? i); [|intros []]. destruct (get_node s i); [|intros []]. intros H. apply in_app_iff in H.
      destruct H as [H|[[=]|[]]]. destruct (poll_nb n); [destruct H | destruct H as [[=]|[]]].
    - destruct (j =? i); [|intros []]. destruct (get_node s i); [|intros []]. destruct (nth_error (n_calls n) (N.to_nat k)) as [[m0 c0|m0 bl0|m0 c0]|]; [intros [] | intros [] | intros [[=]|[]] | intros []].
    - destruct (j =? j0) eqn:A; [|intros []]. apply N.eqb_eq in A. subst j0.
      destruct (take_first (w_between i j) (wire_w s)) as [[m rest]|] eqn:Et; [|intros []]. destruct (get_node s i) as [na|] eqn:Ea; [|intros []].
      destruct (get_node s j); [|intros []]. destruct (wm_full m || negb (is_nil (wm_entries m))); [|intros []].
      intros [[= <- <- <-]|[]]. split; [reflexivity|]. exists m, rest, na. auto.
  Qed.
End NetC07.
