(* Net_proofs3.v — package F, the client half as the network sees it: the per-peer wantlist records between
   beetswap nodes (no presences are ever sent, so a record is SentWantHave or GotBlock), and the anatomy of
   one `CPoll []`. *)
From BS Require Import Net Wantlist_proofs Client_proofs Client_proofs2 Client_proofs3 Client_proofs4 Net_proofs2.
From Coq Require Import ZArith ZifyBool ZifyN ZifyNat Lia.
Open Scope N_scope.

Local Notation cid_eqb_spec := Wantlist_proofs.cid_eqb_spec.

(* ---------- the record of one peer ---------- *)
Definition st_ok (w : wl) (s : wls) : Prop :=
  NoDup (map fst (req s)) /\
  forall c st, rget c s = Some st -> st = SentWantHave \/ (st = GotBlock /\ ~ In c (wl_cids w)).

Definition ss_ok (ps : peer_state) : Prop := p_ss ps = SsReady \/ exists t, p_ss ps = SsSending t CONN.

Definition peer_ok (w : wl) (ps : peer_state) : Prop :=
  st_ok w (p_wl ps) /\ ss_ok ps /\ p_conns ps = [CONN].

Lemma st_ok_new w : st_ok w wls_new.
Proof. split; [constructor|]. intros c st. unfold rget; cbn. discriminate. Qed.

Lemma st_ok_wanted w c s : st_ok w s -> ~ In c (wl_cids w) ->
  st_ok (MkWl (wl_cids w ++ [c]) (wl_rev w + 1) (wl_sdh w)) (wls_wanted_again s c).
Proof.
  intros [Hnd Hst] Hc. split; [apply wanted_again_NoDup; exact Hnd|].
  intros c' st. rewrite rget_wanted_again. cbn [wl_cids].
  destruct (rget c s) as [[]|] eqn:E; try (intros H; destruct (Hst _ _ H) as [->|[-> Hn]]; [left; reflexivity|];
    right; split; [reflexivity|]; rewrite in_app_iff; intros [Hi|[<-|[]]]; [tauto|]; rewrite E in H; try discriminate;
    destruct (Hst _ _ E) as [?|[? _]]; discriminate).
  cid_cases c c'; [discriminate|]. intros H. destruct (Hst _ _ H) as [->|[-> Hn]]; [left; reflexivity|].
  right. split; [reflexivity|]. rewrite in_app_iff. intros [Hi|[Hi|[]]]; [tauto|congruence].
Qed.

Lemma st_ok_shrink w w' s : (forall c, In c (wl_cids w') -> In c (wl_cids w)) -> st_ok w s -> st_ok w' s.
Proof.
  intros Hsub [Hnd Hst]. split; [exact Hnd|]. intros c st H. destruct (Hst _ _ H) as [->|[-> Hn]]; [left; reflexivity|].
  right. split; [reflexivity|]. intros Hi. apply Hn, Hsub, Hi.
Qed.

Lemma st_ok_got_block w s c : st_ok w s -> ~ In c (wl_cids w) -> st_ok w (wls_got_block s c).
Proof.
  intros [Hnd Hst] Hc. split; [apply got_block_NoDup; exact Hnd|]. intros c' st. rewrite rget_got_block.
  cid_cases c c'.
  - destruct (rget c' s); cbn [option_map]; [|discriminate]. intros [= <-]. right. auto.
  - apply Hst.
Qed.

(* generated wantlists *)
Lemma st_ok_in_wl w s c : st_ok w s -> In c (wl_cids w) -> dflt (rget c s) = SentWantHave.
Proof.
  intros [_ Hst] Hc. destruct (rget c s) as [st|] eqn:E; [|reflexivity]. cbn. destruct (Hst _ _ E) as [->|[_ Hn]]; [reflexivity | contradiction].
Qed.

Lemma gen_full_ok w s : NoDup (wl_cids w) -> st_ok w s ->
  st_ok w (snd (wls_generate_full s w)) /\
  (forall k c, In (k, c) (fst (wls_generate_full s w)) <-> k = KWantHave /\ In c (wl_cids w)).
Proof.
  intros Hw Hok. pose proof Hok as [Hnd Hst]. split; [split|].
  - apply gen_full_NoDup; assumption.
  - intros c st. rewrite gen_full_rget. destruct (cid_mem c (wl_cids w)) eqn:M; [|discriminate].
    apply cid_mem_In in M. rewrite (st_ok_in_wl _ _ _ Hok M). intros [= <-]. left; reflexivity.
  - intros k c. rewrite (gen_full_entries s w k c Hw Hnd). split.
    + intros [Hc Hin]. rewrite (st_ok_in_wl _ _ _ Hok Hc) in Hin. cbn in Hin. destruct Hin as [[= <-]|[]]. auto.
    + intros [-> Hc]. split; [exact Hc|]. rewrite (st_ok_in_wl _ _ _ Hok Hc). left; reflexivity.
Qed.

Lemma gen_update_ok w s : NoDup (wl_cids w) -> st_ok w s ->
  st_ok w (snd (wls_generate_update s w)) /\
  (forall c, In c (wl_cids w) -> ~ In (KCancel, c) (fst (wls_generate_update s w))).
Proof.
  intros Hw Hok. pose proof Hok as [Hnd Hst]. rewrite gen_update_unfold. destruct (wls_is_updated s w).
  - split; [exact Hok|]. intros c _ [].
  - split; [split|].
    + apply upd_body_NoDup; assumption.
    + intros c st. rewrite upd_body_rget. destruct (cid_mem c (wl_cids w)) eqn:M; [|discriminate].
      apply cid_mem_In in M. rewrite (st_ok_in_wl _ _ _ Hok M). intros [= <-]. left; reflexivity.
    + intros c Hc Hin. apply (upd_body_entries s w _ _ Hnd) in Hin. destruct Hin as [(st & Hr & Hin)|(Hk & _)]; [|discriminate].
      unfold upd_entries in Hin. cbn [fst snd] in Hin. apply cid_mem_In in Hc. rewrite Hc in Hin.
      destruct st; cbn in Hin; intuition discriminate.
Qed.

(* ---------- one peer in update_handlers ---------- *)
Lemma uh_peer_net now w p ps :
  NoDup (wl_cids w) -> peer_ok w ps ->
  (exists t, p_ss ps = SsSending t CONN /\ uh_peer now w [] p ps = (ps, [], [], false)) \/
  (p_ss ps = SsReady /\
   exists es wls',
     (if p_send_full ps then wls_generate_full (p_wl ps) w else wls_generate_update (p_wl ps) w) = (es, wls') /\
     st_ok w wls' /\
     (forall c, In c (wl_cids w) -> ~ In (KCancel, c) es) /\
     (p_send_full ps = true -> forall c, In c (wl_cids w) -> In (KWantHave, c) es) /\
     ((p_send_full ps = false /\ es = [] /\
       uh_peer now w [] p ps = (MkPeer [CONN] SsReady wls' false, [], [], false)) \/
      ((p_send_full ps = true \/ es <> []) /\
       uh_peer now w [] p ps =
       (MkPeer [CONN] (SsRequested now CONN) wls' false, [EvSend p CONN (p_send_full ps) es], [OBadChoice], false)))).
Proof.
  intros Hw (Hst & Hss & Hcn). destruct Hss as [Hr|(t & Hs)].
  - right. split; [exact Hr|]. unfold uh_peer, uh_gate. rewrite Hr, Hcn.
    destruct (p_send_full ps) eqn:Esf; cbn [negb andb].
    + destruct (gen_full_ok w (p_wl ps) Hw Hst) as [Hok Hen].
      destruct (wls_generate_full (p_wl ps) w) as [es wls'] eqn:Eg. cbn [fst snd] in *.
      exists es, wls'. split; [reflexivity|]. split; [exact Hok|]. split; [|split].
      * intros c _ Hin. apply Hen in Hin. destruct Hin as [[=] _].
      * intros _ c Hc. apply Hen. auto.
      * right. split; [left; reflexivity|]. unfold pick_conn. cbn [al_find]. rewrite ?Hcn, ?Esf. reflexivity.
    + destruct (gen_update_ok w (p_wl ps) Hw Hst) as [Hok Hnc].
      destruct (wls_generate_update (p_wl ps) w) as [es wls'] eqn:Eg. cbn [fst snd] in *.
      exists es, wls'. split; [reflexivity|]. split; [exact Hok|]. split; [exact Hnc|]. split; [discriminate|].
      destruct es as [|e es].
      * left. rewrite ?Hcn, ?Esf, ?Hr. auto.
      * right. split; [right; discriminate|]. unfold pick_conn. cbn [al_find]. rewrite ?Hcn, ?Esf. reflexivity.
  - left. exists t. split; [exact Hs|]. unfold uh_peer, uh_gate. rewrite Hs. reflexivity.
Qed.

(* ---------- the client invariant that survives inside a poll ---------- *)
Section ClientInv.
  Variable G : cid * bytes -> Prop.        (* `good Sz Hh` *)

  Record CK (c : cstate) : Prop := MkCK {
    ck_wl : NoDup (wl_cids (cs_wl c));
    ck_keys : NoDup (map fst (cs_peers c));
    ck_peers : forall p ps, In (p, ps) (cs_peers c) -> peer_ok (cs_wl c) ps;
    ck_tasks : forall tid t bl, In (tid, t) (cs_tasks c) -> t_kind t = TPut bl -> Forall G bl;
    ck_new : Forall G (cs_new_blocks c)
  }.

  Lemma CK_same c c' :
    cs_wl c' = cs_wl c -> cs_peers c' = cs_peers c -> cs_tasks c' = cs_tasks c -> cs_new_blocks c' = cs_new_blocks c ->
    CK c -> CK c'.
  Proof. intros E1 E2 E3 E4 [H1 H2 H3 H4 H5]. constructor; rewrite ?E1, ?E2, ?E3, ?E4; assumption. Qed.

  Lemma CK_after_timer c : CK c -> CK (after_timer c).
  Proof.
    intros [H1 H2 H3 H4 H5]. unfold after_timer. destruct (timer_ready (set_queue c [])).
    - constructor; cbn [fire_timer set_queue cs_wl cs_peers cs_tasks cs_new_blocks]; try assumption.
      + rewrite map_map. cbn [fst]. exact H2.
      + intros p ps Hin. apply in_map_iff in Hin. destruct Hin as ([p0 ps0] & [= <- <-] & Hin). cbn [fst snd].
        destruct (H3 _ _ Hin) as (A & B & C). split; [exact A | split; [exact B | exact C]].
    - constructor; assumption.
  Qed.

  Lemma CK_after_tasks c : CK c -> CK (after_tasks c).
  Proof.
    intros [H1 H2 H3 H4 H5]. destruct (after_tasks_frame c) as (_ & Ew & Ep & _ & _ & _ & _ & En & _).
    constructor; rewrite ?Ew, ?Ep, ?En; try assumption.
    intros tid t bl Hin Hk. destruct (proj1 (after_tasks_tasks c) _ _ Hin) as (t0 & Hin0 & (K & _)).
    eapply H4; [exact Hin0 | congruence].
  Qed.

  Lemma CK_handle c r :
    CK c -> (forall ok bl, r = TrSet ok bl -> Forall G bl) -> CK (fst (handle_task_result c r)).
  Proof.
    intros HC Hr. pose proof HC as [H1 H2 H3 H4 H5]. destruct r as [q x res|ok bl|]; cbn [handle_task_result].
    - destruct res; cbn [fst]; try (eapply CK_same; [..|exact HC]; reflexivity).
      cbn [set_abort cs_wl]. unfold wl_insert. destruct (cid_mem x (wl_cids (cs_wl c))) eqn:M.
      + eapply CK_same; [..|exact HC]; reflexivity.
      + apply cid_mem_false in M. constructor; cbn [fst set_c2q set_peers set_wl set_abort cs_wl cs_peers cs_tasks cs_new_blocks wl_cids];
          try assumption.
        * apply NoDup_snoc; assumption.
        * unfold wanted_again_all. rewrite map_map. cbn [fst]. exact H2.
        * intros p ps Hin. unfold wanted_again_all in Hin. apply in_map_iff in Hin.
          destruct Hin as ([p0 ps0] & [= <- <-] & Hin). cbn [fst snd].
          destruct (H3 _ _ Hin) as (A & B & C). split; [|split; [exact B | exact C]]. cbn [p_wl].
          apply st_ok_wanted; assumption.
    - destruct ok; [|eapply CK_same; [..|exact HC]; reflexivity].
      constructor; cbn [fst set_new_blocks cs_wl cs_peers cs_tasks cs_new_blocks]; try assumption.
      apply Forall_app. split; [assumption | eapply Hr; reflexivity].
    - eapply CK_same; [..|exact HC]; reflexivity.
  Qed.

  Lemma res_set_good c ok bl : CK c -> tasks_res c = Some (TrSet ok bl) -> Forall G bl.
  Proof.
    intros HC Hr. pose proof (proj2 (after_tasks_tasks c)) as H. rewrite Hr in H.
    destruct H as (tid & t & t0 & Hin & (K & _) & (Hk & _)). eapply (ck_tasks c HC); [exact Hin | congruence].
  Qed.

  Lemma CK_tasks_run c outs c' : tasks_run c outs c' -> CK c -> CK c'.
  Proof.
    induction 1 as [s Hr | s r outs s' Hr Hrun IH]; intros HC; [apply CK_after_tasks, HC|].
    apply IH, CK_handle; [apply CK_after_tasks, HC|]. intros ok bl ->. eapply res_set_good; eassumption.
  Qed.

  (* store calls started by the tasks carry good blocks *)
  Lemma poll_next_puts rq : forall ts nc,
    (forall tid t bl, In (tid, t) ts -> t_kind t = TPut bl -> Forall G bl) ->
    forall n bl, In (OPut n bl) (snd (fst (poll_next rq ts nc))) -> Forall G bl.
  Proof.
    induction rq as [|tid rq IH]; intros ts nc Hts n bl; cbn [poll_next]; [intros []|].
    destruct (al_find N.eqb tid ts) as [t|] eqn:Ef; [|apply IH; exact Hts].
    destruct (poll_task nc t) as [r|o|] eqn:Ep.
    - intros [].
    - specialize (IH (al_modify N.eqb tid (start_task nc) ts) (nc + 1)).
      destruct (poll_next rq (al_modify N.eqb tid (start_task nc) ts) (nc + 1)) as [[[[ts' rq'] nc'] outs'] res].
      cbn [fst snd] in *. intros Hin. apply in_app_iff in Hin. destruct Hin as [Hin|Hin].
      + unfold poll_task in Ep. destruct (t_kind t) eqn:Ek.
        * destruct (t_aborted t); [discriminate|]. destruct (t_call t); [destruct (t_result t); discriminate|].
          injection Ep as <-. destruct Hin as [[=]|[]].
        * destruct (t_call t); [destruct (t_result t) as [[]|]; discriminate|]. injection Ep as <-.
          destruct Hin as [[= <- <-]|[]]. eapply Hts; [apply (al_find_some_in _ Neqb_spec); exact Ef | exact Ek].
      + eapply IH; [|exact Hin]. intros tid0 t0 bl1 Hin0 Hk. apply in_al_modify in Hin0. destruct Hin0 as (t1 & Hin1 & ->).
        eapply Hts; [exact Hin1|]. destruct (tid =? tid0); exact Hk.
    - apply IH; exact Hts.
  Qed.

  Lemma tasks_outs_puts c n bl : CK c -> In (OPut n bl) (tasks_outs c) -> Forall G bl.
  Proof.
    intros HC. unfold tasks_outs. pose proof (poll_next_puts (cs_ready c) (cs_tasks c) (cs_next_call c) (ck_tasks c HC) n bl) as H.
    destruct (poll_next (cs_ready c) (cs_tasks c) (cs_next_call c)) as [[[[ts rq] nc] outs] res]. exact H.
  Qed.

  Lemma handle_result_no_put c r n bl : ~ In (OPut n bl) (snd (handle_task_result c r)).
  Proof.
    destruct r as [q x res|ok b|]; cbn [handle_task_result].
    - destruct res; cbn [snd]; try (intros [[=]|[]]).
      destruct (wl_insert (cs_wl (set_abort c (al_remove N.eqb q (cs_abort c)))) x) as [w' ins]. destruct ins; intros [].
    - destruct ok; intros [].
    - intros [].
  Qed.

  Lemma tasks_run_puts c outs c' n bl : tasks_run c outs c' -> CK c -> In (OPut n bl) outs -> Forall G bl.
  Proof.
    induction 1 as [s Hr | s r outs s' Hr Hrun IH]; intros HC Hin; [eapply tasks_outs_puts; eassumption|].
    rewrite !in_app_iff in Hin. destruct Hin as [Hin|[Hin|Hin]].
    - eapply tasks_outs_puts; eassumption.
    - exfalso. eapply handle_result_no_put, Hin.
    - apply IH; [|exact Hin]. apply CK_handle; [apply CK_after_tasks, HC|]. intros ok b ->. eapply res_set_good; eassumption.
  Qed.
End ClientInv.

(* ---------- update_handlers over peers that are all in the network's shape ---------- *)
Definition uh1 (now : time) (w : wl) (e : peer * peer_state) : (peer * peer_state) * list event :=
  match p_ss (snd e) with
  | SsReady =>
      let '(es, wls') := if p_send_full (snd e) then wls_generate_full (p_wl (snd e)) w
                         else wls_generate_update (p_wl (snd e)) w in
      if negb (p_send_full (snd e)) && is_nil es
      then ((fst e, MkPeer [CONN] SsReady wls' false), [])
      else ((fst e, MkPeer [CONN] (SsRequested now CONN) wls' false),
            [EvSend (fst e) CONN (p_send_full (snd e)) es])
  | _ => (e, [])
  end.

Lemma uh_peer_uh1 now w p ps :
  NoDup (wl_cids w) -> peer_ok w ps ->
  exists outs, uh_peer now w [] p ps = (snd (fst (uh1 now w (p, ps))), snd (uh1 now w (p, ps)), outs, false) /\
               Forall (fun o => o = OBadChoice) outs /\ fst (fst (uh1 now w (p, ps))) = p.
Proof.
  intros Hw Hok. destruct (uh_peer_net now w p ps Hw Hok) as [(t & Hs & E)|(Hr & es & wls' & Eg & _ & _ & _ & Hc)].
  - exists []. unfold uh1. cbn [fst snd]. rewrite Hs, E. auto.
  - unfold uh1. cbn [fst snd]. rewrite Hr, Eg. destruct Hc as [(Hsf & -> & E)|(Hne & E)].
    + exists []. rewrite Hsf, E. cbn. auto.
    + exists [OBadChoice]. rewrite E.
      assert (Hb : negb (p_send_full ps) && is_nil es = false).
      { destruct Hne as [->|Hne]; [reflexivity|]. destruct es; [contradiction|]. apply andb_false_r. }
      rewrite Hb. cbn. repeat constructor.
Qed.

Lemma uh_loop_net now w l :
  NoDup (wl_cids w) -> (forall p ps, In (p, ps) l -> peer_ok w ps) ->
  exists outs,
    uh_loop now w [] l = (map (fun e => fst (uh1 now w e)) l, flat_map (fun e => snd (uh1 now w e)) l, outs) /\
    Forall (fun o => o = OBadChoice) outs.
Proof.
  intros Hw. induction l as [|[p ps] l IH]; intros Hok; [exists []; cbn; auto|].
  destruct (IH (fun p' ps' H => Hok p' ps' (or_intror H))) as (outs' & E' & Ho').
  destruct (uh_peer_uh1 now w p ps Hw (Hok p ps (or_introl eq_refl))) as (outs & E & Ho & Ek).
  exists (outs ++ outs'). cbn [uh_loop map flat_map]. rewrite E, E'. split; [|apply Forall_app; auto].
  destruct (uh1 now w (p, ps)) as [[p' ps'] evs]. cbn [fst snd] in *. subst p'. reflexivity.
Qed.

Lemma uh1_key now w e : fst (fst (uh1 now w e)) = fst e.
Proof.
  unfold uh1. destruct (p_ss (snd e)); try reflexivity.
  destruct (if p_send_full (snd e) then _ else _) as [es wls']. destruct (negb (p_send_full (snd e)) && is_nil es); reflexivity.
Qed.

(* ---------- the filters of Node.v over the parts of a poll's output ---------- *)
Lemma cl_events_app a b : cl_events (a ++ b) = cl_events a ++ cl_events b.
Proof. induction a as [|o a IH]; [reflexivity|]. destruct o; cbn; rewrite ?IH; reflexivity. Qed.
Lemma cl_wants_app a b : cl_wants (a ++ b) = cl_wants a ++ cl_wants b.
Proof. induction a as [|o a IH]; [reflexivity|]. destruct o; cbn; rewrite ?IH; reflexivity. Qed.
Lemma cl_calls_app a b : cl_calls (a ++ b) = cl_calls a ++ cl_calls b.
Proof. induction a as [|o a IH]; [reflexivity|]. destruct o; cbn; rewrite ?IH; reflexivity. Qed.

Definition ev_wants (evs : list event) : list (peer * conn * bool * list gen_entry) :=
  flat_map (fun e => match e with EvSend p c f es => [(p, c, f, es)] | _ => [] end) evs.
Definition ev_levs (evs : list event) : list lev :=
  flat_map (fun e => match e with EvResponse q d => [LResponse q d] | EvError q k => [LError q k] | _ => [] end) evs.

Lemma cl_wants_events evs : cl_wants (map out_of_event evs) = ev_wants evs.
Proof. induction evs as [|e evs IH]; [reflexivity|]. destruct e; cbn; rewrite ?IH; reflexivity. Qed.
Lemma cl_events_events evs : cl_events (map out_of_event evs) = ev_levs evs.
Proof. induction evs as [|e evs IH]; [reflexivity|]. destruct e; cbn; rewrite ?IH; reflexivity. Qed.
Lemma cl_calls_events evs : cl_calls (map out_of_event evs) = [].
Proof. induction evs as [|e evs IH]; [reflexivity|]. destruct e; cbn; rewrite ?IH; reflexivity. Qed.

Lemma cl_wants_task_out outs : Forall task_out outs -> cl_wants outs = [].
Proof. induction 1 as [|o outs Ho _ IH]; [reflexivity|]. destruct o; cbn in *; try contradiction; exact IH. Qed.
Lemma cl_bad outs : Forall (fun o => o = OBadChoice) outs -> cl_wants outs = [] /\ cl_events outs = [] /\ cl_calls outs = [].
Proof. induction 1 as [|o outs -> _ IH]; [auto|]. cbn. exact IH. Qed.

Lemma ev_wants_no_send q : (forall p c f es, ~ In (EvSend p c f es) q) -> ev_wants q = [].
Proof.
  induction q as [|e q IH]; intros H; [reflexivity|]. cbn. destruct e; cbn;
    try (apply IH; intros p' c' f' es' Hin; eapply H; right; exact Hin).
  exfalso. eapply H. left. reflexivity.
Qed.

(* ---------- one CPoll [] of a client in the network's shape ---------- *)
Lemma c_poll_net G c :
  CK G c -> INVS c ->
  exists sC outsC outsD,
    tasks_run (after_timer c) outsC sC /\ CK G sC /\ Forall task_out outsC /\
    Forall (fun o => o = OBadChoice) outsD /\
    let evs := flat_map (fun e => snd (uh1 (cs_now c) (cs_wl sC) e)) (cs_peers sC) in
    c_poll c [] =
    (set_queue (set_peers sC (map (fun e => fst (uh1 (cs_now c) (cs_wl sC) e)) (cs_peers sC))) [],
     map out_of_event (cs_queue c) ++ outsC ++ outsD ++ map out_of_event evs).
Proof.
  intros HC [_ Hq]. destruct (c_poll_phases c []) as (outsC & sC & Hrun & Hpoll).
  pose proof (CK_tasks_run G _ _ _ Hrun (CK_after_timer G c HC)) as HCC.
  destruct (tasks_run_frame _ _ _ Hrun) as (_ & F2 & _).
  destruct (after_timer_props c) as (_ & _ & HnB). rewrite F2, HnB in Hpoll.
  destruct (uh_loop_net (cs_now c) (cs_wl sC) (cs_peers sC) (ck_wl G sC HCC) (ck_peers G sC HCC)) as (outsD & E & Hbad).
  rewrite E in Hpoll. exists sC, outsC, outsD. split; [exact Hrun|]. split; [exact HCC|].
  split; [apply (tasks_run_outs _ _ _ Hrun)|]. split; [exact Hbad|]. exact Hpoll.
Qed.

(* ---------- the handler reports `Sending` for every wantlist of the poll ---------- *)
Definition rep_sending (c : cstate) (x : peer * conn * bool * list gen_entry) : cstate :=
  let '(p, cn, _, _) := x in fst (cstep c (CReport p cn (RpSending cn))).

Definition f_sending (now : time) (ps : peer_state) : peer_state :=
  if report_accepted ps CONN then MkPeer (p_conns ps) (SsSending now CONN) (p_wl ps) (p_send_full ps) else ps.

Lemma f_sending_idem now ps : f_sending now (f_sending now ps) = f_sending now ps.
Proof.
  unfold f_sending. destruct (report_accepted ps CONN) eqn:E; [|rewrite E; reflexivity].
  unfold report_accepted. cbn [p_ss sending_conn]. rewrite N.eqb_refl. reflexivity.
Qed.

Definition x_peer (x : peer * conn * bool * list gen_entry) : peer := fst (fst (fst x)).
Definition x_conn (x : peer * conn * bool * list gen_entry) : conn := snd (fst (fst x)).

Lemma rep_sending_frame c x :
  cs_queue (rep_sending c x) = cs_queue c /\ cs_wl (rep_sending c x) = cs_wl c /\ cs_c2q (rep_sending c x) = cs_c2q c /\
  cs_tasks (rep_sending c x) = cs_tasks c /\ cs_ready (rep_sending c x) = cs_ready c /\
  cs_new_blocks (rep_sending c x) = cs_new_blocks c /\ cs_now (rep_sending c x) = cs_now c /\
  cs_deadline (rep_sending c x) = cs_deadline c.
Proof. destruct x as [[[p cn] f] es]. cbn. repeat split; reflexivity. Qed.

Lemma reps_frame L : forall c,
  let c' := fold_left rep_sending L c in
  cs_queue c' = cs_queue c /\ cs_wl c' = cs_wl c /\ cs_c2q c' = cs_c2q c /\
  cs_tasks c' = cs_tasks c /\ cs_ready c' = cs_ready c /\
  cs_new_blocks c' = cs_new_blocks c /\ cs_now c' = cs_now c /\ cs_deadline c' = cs_deadline c.
Proof.
  induction L as [|x L IH]; intros c; cbn [fold_left]; [repeat split; reflexivity|].
  destruct (IH (rep_sending c x)) as (A1 & A2 & A3 & A4 & A5 & A6 & A7 & A8).
  destruct (rep_sending_frame c x) as (B1 & B2 & B3 & B4 & B5 & B6 & B7 & B8).
  cbn zeta. repeat split; congruence.
Qed.

Lemma reps_peers L : forall c,
  (forall x, In x L -> x_conn x = CONN) ->
  cs_peers (fold_left rep_sending L c) =
  map (fun e => if existsb (fun x => x_peer x =? fst e) L then (fst e, f_sending (cs_now c) (snd e)) else e) (cs_peers c).
Proof.
  induction L as [|x L IH]; intros c HL; cbn [fold_left existsb].
  - rewrite map_id. reflexivity.
  - rewrite IH by (intros y Hy; apply HL; right; exact Hy).
    destruct (rep_sending_frame c x) as (_ & _ & _ & _ & _ & _ & En & _). rewrite En.
    pose proof (HL x (or_introl eq_refl)) as Hc. destruct x as [[[p cn] f] es]. cbn [x_conn x_peer fst snd] in *. subst cn.
    cbn [rep_sending cstep fst c_report set_peers cs_peers]. unfold al_modify. rewrite map_map. apply map_ext.
    intros [k ps]. cbn [fst snd].
    change (if report_accepted ps CONN
            then MkPeer (p_conns ps) (state_of_report (cs_now c) (RpSending CONN)) (p_wl ps) (p_send_full ps) else ps)
      with (f_sending (cs_now c) ps).
    destruct (p =? k) eqn:Ek; cbn [fst snd orb].
    + destruct (existsb (fun x => x_peer x =? k) L); [rewrite f_sending_idem|]; reflexivity.
    + reflexivity.
Qed.

(* the peers after a poll and its reports *)
Definition fin1 (now : time) (w : wl) (e : peer * peer_state) : peer * peer_state :=
  match p_ss (snd e) with
  | SsReady =>
      let '(es, wls') := if p_send_full (snd e) then wls_generate_full (p_wl (snd e)) w
                         else wls_generate_update (p_wl (snd e)) w in
      if negb (p_send_full (snd e)) && is_nil es
      then (fst e, MkPeer [CONN] SsReady wls' false)
      else (fst e, MkPeer [CONN] (SsSending now CONN) wls' false)
  | _ => e
  end.

Definition sends1 (w : wl) (e : peer * peer_state) : list (peer * conn * bool * list gen_entry) :=
  match p_ss (snd e) with
  | SsReady =>
      let '(es, wls') := if p_send_full (snd e) then wls_generate_full (p_wl (snd e)) w
                         else wls_generate_update (p_wl (snd e)) w in
      if negb (p_send_full (snd e)) && is_nil es then [] else [(fst e, CONN, p_send_full (snd e), es)]
  | _ => []
  end.

Lemma ev_wants_uh1 now w l : ev_wants (flat_map (fun e => snd (uh1 now w e)) l) = flat_map (sends1 w) l.
Proof.
  induction l as [|e l IH]; [reflexivity|]. cbn [flat_map]. unfold ev_wants in *. rewrite flat_map_app, IH. f_equal.
  unfold uh1, sends1. destruct (p_ss (snd e)); try reflexivity.
  destruct (if p_send_full (snd e) then _ else _) as [es wls']. destruct (negb (p_send_full (snd e)) && is_nil es); reflexivity.
Qed.

Lemma sends1_conn w l x : In x (flat_map (sends1 w) l) -> x_conn x = CONN /\ In (x_peer x) (map fst l).
Proof.
  intros H. apply in_flat_map in H. destruct H as (e & He & Hx). unfold sends1 in Hx.
  destruct (p_ss (snd e)); try destruct Hx.
  destruct (if p_send_full (snd e) then _ else _) as [es wls']. destruct (negb (p_send_full (snd e)) && is_nil es); [destruct Hx|]. destruct Hx as [<-|[]].
  split; [reflexivity|]. cbn [x_peer fst]. apply in_map. exact He.
Qed.

Lemma existsb_sends w l k :
  NoDup (map fst l) ->
  existsb (fun x => x_peer x =? k) (flat_map (sends1 w) l) = true <->
  exists ps, In (k, ps) l /\ sends1 w (k, ps) <> [].
Proof.
  intros Hnd. rewrite existsb_exists. split.
  - intros (x & Hx & Hk). apply N.eqb_eq in Hk. apply in_flat_map in Hx. destruct Hx as ([p ps] & He & Hx).
    assert (p = k).
    { unfold sends1 in Hx. cbn [fst snd] in Hx. destruct (p_ss ps); try destruct Hx.
      destruct (if p_send_full ps then _ else _) as [es wls']. destruct (negb (p_send_full ps) && is_nil es); [destruct Hx|]. destruct Hx as [<-|[]].
      exact Hk. }
    subst p. exists ps. split; [exact He|]. intros E. assert (Hx' : In x []) by (rewrite <- E; exact Hx). destruct Hx'.
  - intros (ps & Hin & Hne). destruct (sends1 w (k, ps)) as [|x r] eqn:E; [contradiction|]. exists x. split.
    + apply in_flat_map. exists (k, ps). split; [exact Hin|]. rewrite E. left; reflexivity.
    + unfold sends1 in E. cbn [fst snd] in E. destruct (p_ss ps); try discriminate.
      destruct (if p_send_full ps then _ else _) as [es wls']. destruct (negb (p_send_full ps) && is_nil es); [discriminate|].
      injection E as <- <-. cbn. apply N.eqb_refl.
Qed.

Lemma polled_peers now w l :
  NoDup (map fst l) -> (forall p ps, In (p, ps) l -> peer_ok w ps) ->
  map (fun e => if existsb (fun x => x_peer x =? fst e) (flat_map (sends1 w) l)
                then (fst e, f_sending now (snd e)) else e)
      (map (fun e => fst (uh1 now w e)) l) =
  map (fin1 now w) l.
Proof.
  intros Hnd Hok. rewrite map_map. apply map_ext_in. intros [p ps] Hin. rewrite uh1_key. cbn [fst].
  destruct (Hok _ _ Hin) as (_ & Hss & _).
  destruct (existsb (fun x => x_peer x =? p) (flat_map (sends1 w) l)) eqn:Ex.
  - apply (existsb_sends w l p Hnd) in Ex. destruct Ex as (ps' & Hin' & Hne).
    assert (ps' = ps) by (eapply NoDup_keys_in_eq; eassumption). subst ps'.
    unfold sends1 in Hne. unfold uh1, fin1. cbn [fst snd] in *. destruct (p_ss ps); try contradiction.
    destruct (if p_send_full ps then _ else _) as [es wls']. destruct (negb (p_send_full ps) && is_nil es); [contradiction|].
    cbn [fst snd]. unfold f_sending, report_accepted. cbn [p_ss sending_conn]. rewrite N.eqb_refl. reflexivity.
  - assert (Hs : sends1 w (p, ps) = []).
    { destruct (sends1 w (p, ps)) eqn:E; [reflexivity|]. exfalso.
      assert (existsb (fun x => x_peer x =? p) (flat_map (sends1 w) l) = true); [|congruence].
      apply (existsb_sends w l p Hnd). exists ps. split; [exact Hin|]. intros E'. unfold peer in *. congruence. }
    unfold sends1 in Hs. unfold uh1, fin1. cbn [fst snd] in *. destruct (p_ss ps); try reflexivity.
    destruct (if p_send_full ps then _ else _) as [es wls']. destruct (negb (p_send_full ps) && is_nil es); [reflexivity|discriminate].
Qed.

(* ---------- CK is kept by the other client operations ---------- *)
Section ClientOps.
  Variable G : cid * bytes -> Prop.

  Lemma CK_get c oc : CK G c -> CK G (fst (c_get c oc)).
  Proof.
    intros [H1 H2 H3 H4 H5]. unfold c_get. destruct oc as [x|]; cbn [fst]; constructor;
      cbn [set_abort push_task bump_qid set_queue cs_wl cs_peers cs_tasks cs_new_blocks]; try assumption.
    intros tid t bl Hin Hk. apply in_app_iff in Hin. destruct Hin as [Hin|[[= <- <-]|[]]]; [eapply H4; eassumption | discriminate].
  Qed.

  Lemma abort_task_kinds c tid k t' :
    In (k, t') (cs_tasks (abort_task c tid)) -> exists t, In (k, t) (cs_tasks c) /\ t_kind t' = t_kind t.
  Proof.
    unfold abort_task. destruct (al_mem N.eqb tid (cs_tasks c)); [|eauto]. cbn [set_tasks cs_tasks].
    intros H. apply in_al_modify in H. destruct H as (t & Hin & ->). exists t. split; [exact Hin|]. destruct (tid =? k); reflexivity.
  Qed.

  Lemma cancel_abort_kinds c q k t' :
    In (k, t') (cs_tasks (cancel_abort c q)) -> exists t, In (k, t) (cs_tasks c) /\ t_kind t' = t_kind t.
  Proof.
    unfold cancel_abort. destruct (al_find N.eqb q (cs_abort c)); [|eauto]. intros H. apply abort_task_kinds in H. exact H.
  Qed.

  Lemma cancel_abort_new_blocks c q : cs_new_blocks (cancel_abort c q) = cs_new_blocks c.
  Proof.
    unfold cancel_abort. destruct (al_find N.eqb q (cs_abort c)); [|reflexivity]. unfold abort_task.
    cbn [set_abort cs_tasks]. destruct (al_mem N.eqb n (cs_tasks c)); reflexivity.
  Qed.

  Lemma peer_ok_shrink w w' ps : (forall c, In c (wl_cids w') -> In c (wl_cids w)) -> peer_ok w ps -> peer_ok w' ps.
  Proof. intros Hs (A & B & C). split; [eapply st_ok_shrink; eassumption | split; assumption]. Qed.

  Lemma CK_cancel c q : CK G c -> CK G (c_cancel c q).
  Proof.
    intros [H1 H2 H3 H4 H5]. rewrite c_cancel_unfold. cbv zeta.
    destruct (cancel_abort_frame c q) as (_ & _ & _ & Ew & Ep & _).
    assert (Ht : forall tid t bl, In (tid, t) (cs_tasks (cancel_abort c q)) -> t_kind t = TPut bl -> Forall G bl).
    { intros tid t bl Hin Hk. apply cancel_abort_kinds in Hin. destruct Hin as (t0 & Hin0 & E). eapply H4; [exact Hin0 | congruence]. }
    pose proof (cancel_abort_new_blocks c q) as En.
    destruct (find_query q (cs_c2q (cancel_abort c q))) as [[x qs]|]; [destruct (swap_remove_q q qs)|];
      constructor; cbn [set_wl set_c2q cs_wl cs_peers cs_tasks cs_new_blocks]; rewrite ?Ew, ?Ep, ?En; try assumption.
    - apply wl_remove_NoDup. exact H1.
    - intros p ps Hin. eapply peer_ok_shrink; [|eapply H3, Hin]. intros y. unfold wl_remove.
      destruct (cid_mem x (wl_cids (cs_wl c))); cbn [fst wl_cids]; [|auto]. intros Hy. apply cid_remove_In in Hy. apply Hy.
  Qed.

  Lemma CK_release c call r : CK G c -> CK G (c_release c call r).
  Proof.
    intros HC. pose proof HC as [H1 H2 H3 H4 H5]. unfold c_release. destruct (find (call_is call) (cs_tasks c)) as [[tid t]|]; [|exact HC].
    constructor; cbn [set_tasks cs_wl cs_peers cs_tasks cs_new_blocks]; try assumption.
    intros k t' bl Hin Hk. apply in_al_modify in Hin. destruct Hin as (t0 & Hin0 & ->). eapply H4; [exact Hin0|].
    destruct (tid =? k); exact Hk.
  Qed.

  Lemma CK_advance c ms : CK G c -> CK G (c_advance c ms).
  Proof. apply CK_same; reflexivity. Qed.

  Lemma CK_take c : CK G c -> CK G (fst (c_take_new_blocks c)).
  Proof. intros [H1 H2 H3 H4 H5]. constructor; cbn; try assumption. constructor. Qed.

  Lemma CK_report_ready c p : CK G c -> CK G (c_report c p CONN RpReady).
  Proof.
    intros [H1 H2 H3 H4 H5]. constructor; cbn [c_report set_peers cs_wl cs_peers cs_tasks cs_new_blocks]; try assumption.
    - rewrite al_modify_keys. exact H2.
    - intros k ps' Hin. apply in_al_modify in Hin. destruct Hin as (ps & Hin & ->). destruct (H3 _ _ Hin) as (A & B & C).
      destruct (p =? k); [|split; [exact A | split; [exact B | exact C]]].
      destruct (report_accepted ps CONN); [|split; [exact A | split; [exact B | exact C]]].
      split; [exact A|]. split; [left; reflexivity | exact C].
  Qed.

  Lemma CK_new_conn c p : CK G c -> ~ In p (map fst (cs_peers c)) -> CK G (c_new_conn c p CONN).
  Proof.
    intros [H1 H2 H3 H4 H5] Hp. unfold c_new_conn.
    destruct (al_mem N.eqb p (cs_peers c)) eqn:M; [apply (al_mem_In _ Neqb_spec) in M; contradiction|].
    constructor; cbn [set_peers cs_wl cs_peers cs_tasks cs_new_blocks]; try assumption.
    - apply peers_ins_NoDup; assumption.
    - intros k ps Hin. apply in_peers_ins in Hin. destruct Hin as [[= -> ->]|Hin]; [|eapply H3, Hin].
      split; [apply st_ok_new|]. split; [left; reflexivity | reflexivity].
  Qed.

  Lemma CK_conn_closed c p : CK G c -> CK G (c_conn_closed c p CONN).
  Proof.
    intros HC. pose proof HC as [H1 H2 H3 H4 H5]. unfold c_conn_closed. destruct (al_find N.eqb p (cs_peers c)) as [ps|] eqn:E; [|exact HC].
    apply (al_find_some_in _ Neqb_spec) in E. destruct (H3 _ _ E) as (_ & _ & Hc).
    unfold remove_conn at 1. cbn [p_conns]. rewrite Hc. cbn. 
    constructor; cbn [set_peers cs_wl cs_peers cs_tasks cs_new_blocks]; try assumption.
    - apply al_remove_NoDup. exact H2.
    - intros k ps' Hin. unfold al_remove in Hin. apply filter_In in Hin. eapply H3, Hin.
  Qed.

  (* blocks from a peer, no presences *)
  Lemma inc_blocks_net bl : forall a,
    NoDup (wl_cids (ia_wl a)) -> st_ok (ia_wl a) (ia_pwl a) -> Forall G (ia_new a) -> Forall G bl ->
    let a' := fold_left inc_block bl a in
    NoDup (wl_cids (ia_wl a')) /\ st_ok (ia_wl a') (ia_pwl a') /\ Forall G (ia_new a') /\
    (forall x, In x (wl_cids (ia_wl a')) -> In x (wl_cids (ia_wl a))).
  Proof.
    induction bl as [|b bl IH]; intros a Hnd Hst Hnew Hbl; cbn [fold_left]; [auto|].
    inversion Hbl as [|? ? Hb Hbl']; subst.
    assert (Hstep : NoDup (wl_cids (ia_wl (inc_block a b))) /\ st_ok (ia_wl (inc_block a b)) (ia_pwl (inc_block a b)) /\
                    Forall G (ia_new (inc_block a b)) /\
                    (forall x, In x (wl_cids (ia_wl (inc_block a b))) -> In x (wl_cids (ia_wl a)))).
    { unfold inc_block. destruct (ia_panic a); [auto|]. destruct b as [x d]. unfold wl_remove.
      destruct (cid_mem x (wl_cids (ia_wl a))) eqn:M; cbn [negb].
      - cbn [ia_wl ia_pwl ia_new wl_cids]. split; [apply cid_remove_NoDup, Hnd|]. split; [|split].
        + apply st_ok_got_block; [|cbn [wl_cids]; intros H; apply cid_remove_In in H; tauto].
          eapply st_ok_shrink; [|exact Hst]. cbn [wl_cids]. intros y Hy. apply cid_remove_In in Hy. apply Hy.
        + apply Forall_app. split; [exact Hnew | repeat constructor; exact Hb].
        + intros y Hy. apply cid_remove_In in Hy. apply Hy.
      - destruct (al_mem cid_eqb x (ia_c2q a)); cbn [ia_wl ia_pwl ia_new]; auto. }
    destruct Hstep as (S1 & S2 & S3 & S4). destruct (IH (inc_block a b) S1 S2 S3 Hbl') as (I1 & I2 & I3 & I4).
    cbn zeta in *. split; [exact I1|]. split; [exact I2|]. split; [exact I3|]. auto.
  Qed.

  Lemma inc_blocks_removed bl : forall a,
    wlq_ok (ia_wl a) (ia_c2q a) -> ia_panic a = false ->
    forall b, In b bl -> ~ In (fst b) (wl_cids (ia_wl (fold_left inc_block bl a))).
  Proof.
    induction bl as [|b0 bl IH]; intros a Hw Hp b Hin; [destruct Hin|]. cbn [fold_left].
    destruct Hin as [<-|Hin].
    - intros H. apply cid_mem_In in H.
      assert (Hm : cid_mem (fst b0) (wl_cids (ia_wl (inc_block a b0))) = false).
      { unfold inc_block. rewrite Hp. destruct b0 as [x d]. cbn [fst]. unfold wl_remove.
        destruct (cid_mem x (wl_cids (ia_wl a))) eqn:M; cbn [negb].
        - cbn [ia_wl wl_cids]. apply cid_mem_false. intros Hx. apply cid_remove_In in Hx. tauto.
        - destruct (al_mem cid_eqb x (ia_c2q a)); exact M. }
      rewrite (inc_blocks_wl_shrinks bl _ _ Hm) in H. discriminate.
    - apply IH; [apply inc_block_wlq, Hw | apply inc_block_no_panic; assumption | exact Hin].
  Qed.

  Lemma CK_incoming c p blocks : CK G c -> Forall G blocks -> CK G (fst (c_incoming c p [] blocks)).
  Proof.
    intros HC Hbl. pose proof HC as [H1 H2 H3 H4 H5]. unfold c_incoming.
    destruct (al_find N.eqb p (cs_peers c)) as [ps|] eqn:E; [|exact HC]. cbn [fold_left].
    apply (al_find_some_in _ Neqb_spec) in E. destruct (H3 _ _ E) as (Hst & _ & _).
    set (a0 := MkInc (cs_wl c) (p_wl ps) (cs_c2q c) (cs_queue c) [] false).
    destruct (inc_blocks_net blocks a0 H1 Hst (Forall_nil _) Hbl) as (I1 & I2 & I3 & I4). cbn zeta in *.
    set (a := fold_left inc_block blocks a0) in *. cbn [a0 ia_wl] in I4.
    assert (Hbase : CK G (MkCs (ia_queue a) (ia_wl a)
                            (al_modify N.eqb p (fun ps0 => MkPeer (p_conns ps0) (p_ss ps0) (ia_pwl a) (p_send_full ps0)) (cs_peers c))
                            (ia_c2q a) (cs_tasks c) (cs_ready c) (cs_next_task c) (cs_abort c) (cs_next_qid c)
                            (cs_deadline c) (cs_new_blocks c) (cs_now c) (cs_next_call c))).
    { constructor; cbn [cs_wl cs_peers cs_tasks cs_new_blocks]; try assumption.
      - rewrite al_modify_keys. exact H2.
      - intros k ps' Hin. apply in_al_modify in Hin. destruct Hin as (ps0 & Hin0 & ->). destruct (H3 _ _ Hin0) as (A & B & C).
        destruct (p =? k) eqn:Ek.
        + split; [exact I2 | split; [exact B | exact C]].
        + split; [eapply st_ok_shrink; [exact I4 | exact A] | split; [exact B | exact C]]. }
    destruct (ia_panic a); [exact Hbase|]. destruct (ia_new a) as [|b nb] eqn:En; [exact Hbase|]. cbn [fst].
    destruct Hbase as [B1 B2 B3 B4 B5]. constructor; cbn [push_task cs_wl cs_peers cs_tasks cs_new_blocks] in *; try assumption.
    intros tid t bl Hin Hk. apply in_app_iff in Hin. destruct Hin as [Hin|[[= <- <-]|[]]]; [eapply B4; eassumption|].
    cbn in Hk. injection Hk as <-. exact I3.
  Qed.
End ClientOps.

Lemma cstep_keys c o :
  match o with CNewConn _ _ | CConnClosed _ _ | CPoll _ => False | _ => True end ->
  map fst (cs_peers (fst (cstep c o))) = map fst (cs_peers c).
Proof.
  destruct o; cbn [cstep fst]; intros Ho; try contradiction.
  - unfold c_get. destruct c0; reflexivity.
  - rewrite c_cancel_unfold. cbv zeta. destruct (cancel_abort_frame c q) as (_ & _ & _ & _ & Ep & _).
    destruct (find_query q (cs_c2q (cancel_abort c q))) as [[x qs]|]; [destruct (swap_remove_q q qs)|]; cbn; rewrite Ep; reflexivity.
  - unfold c_incoming. destruct (al_find N.eqb p (cs_peers c)); [|reflexivity].
    match goal with |- context [ia_panic ?a] => destruct (ia_panic a); [|destruct (ia_new a)] end; cbn; apply al_modify_keys.
  - cbn. apply al_modify_keys.
  - unfold c_release. destruct (find (call_is call) (cs_tasks c)) as [[tid t]|]; reflexivity.
  - reflexivity.
  - reflexivity.
Qed.

Lemma ev_levs_uh1 now w l : ev_levs (flat_map (fun e => snd (uh1 now w e)) l) = [].
Proof.
  induction l as [|e l IH]; [reflexivity|]. cbn [flat_map]. unfold ev_levs in *. rewrite flat_map_app, IH, app_nil_r.
  unfold uh1. destruct (p_ss (snd e)); try reflexivity.
  destruct (if p_send_full (snd e) then _ else _) as [es wls']. destruct (negb (p_send_full (snd e)) && is_nil es); reflexivity.
Qed.

Lemma ev_levs_no_send_calls evs : cl_calls (map out_of_event evs) = [].
Proof. apply cl_calls_events. Qed.
