(* Net_proofs11.v — package F, for the multi-hop case: a block a client accepted ends up in the node's store
   (put task -> store call -> store), provided nothing evicts it.  Needs the bookkeeping of the client's store
   call numbers. *)
From BS Require Import Wantlist_proofs Client_proofs Client_proofs2 Client_proofs3 Client_proofs4 Client_proofs6
  Net Net_proofs2 Net_proofs3 Net_proofs5 Net_proofs6 Net_proofs7 Net_proofs9 Net_proofs10.
From Coq Require Import ZArith ZifyBool ZifyN ZifyNat Lia.
Open Scope N_scope.

Local Notation cid_eqb_spec := Wantlist_proofs.cid_eqb_spec.

(* ---------- numbers of the store calls a poll starts ---------- *)
Definition out_num (o : cout) : list N := match o with Client.OGet n _ | OPut n _ => [n] | _ => [] end.
Definition out_nums (outs : list cout) : list N := flat_map out_num outs.

Lemma out_nums_app a b : out_nums (a ++ b) = out_nums a ++ out_nums b.
Proof. apply flat_map_app. Qed.

Definition in_range (lo hi : N) (l : list N) : Prop := NoDup l /\ forall m, In m l -> lo <= m < hi.

Lemma in_range_app lo mid hi a b : lo <= mid -> mid <= hi -> in_range lo mid a -> in_range mid hi b -> in_range lo hi (a ++ b).
Proof.
  intros H1 H2 [Na Ra] [Nb Rb]. split.
  - apply NoDup_app_iff. repeat split; auto. intros x Hx Hy. specialize (Ra _ Hx). specialize (Rb _ Hy). lia.
  - intros m Hm. apply in_app_iff in Hm. destruct Hm as [Hm|Hm]; [specialize (Ra _ Hm) | specialize (Rb _ Hm)]; lia.
Qed.

Lemma in_range_nil lo hi : in_range lo hi [].
Proof. split; [constructor | intros m []]. Qed.

Lemma poll_next_nums rq : forall ts nc,
  let '(ts', rq', nc', outs, res) := poll_next rq ts nc in nc <= nc' /\ in_range nc nc' (out_nums outs).
Proof.
  induction rq as [|tid rq IH]; intros ts nc; cbn [poll_next]; [split; [lia | apply in_range_nil]|].
  destruct (al_find N.eqb tid ts) as [t|]; [|apply IH].
  destruct (poll_task nc t) as [r|o|] eqn:Ep.
  - split; [lia | apply in_range_nil].
  - specialize (IH (al_modify N.eqb tid (start_task nc) ts) (nc + 1)).
    destruct (poll_next rq (al_modify N.eqb tid (start_task nc) ts) (nc + 1)) as [[[[ts' rq'] nc'] outs'] res].
    destruct IH as [Hle Hr]. split; [lia|]. rewrite out_nums_app.
    assert (Ho : out_nums o = [nc]).
    { unfold poll_task in Ep. destruct (t_kind t).
      - destruct (t_aborted t); [discriminate|]. destruct (t_call t); [destruct (t_result t); discriminate|]. injection Ep as <-. reflexivity.
      - destruct (t_call t); [destruct (t_result t) as [[]|]; discriminate|]. injection Ep as <-. reflexivity. }
    rewrite Ho. apply (in_range_app nc (nc + 1) nc'); try lia; [|exact Hr].
    split; [repeat constructor; intros [] | intros m [<-|[]]; lia].
  - apply IH.
Qed.

Definition RN (s : cstate) (outs : list cout) (s' : cstate) : Prop :=
  cs_next_call s <= cs_next_call s' /\ in_range (cs_next_call s) (cs_next_call s') (out_nums outs).

Lemma RN_refl s : RN s [] s.
Proof. split; [lia | apply in_range_nil]. Qed.

Lemma RN_trans s o1 s1 o2 s2 : RN s o1 s1 -> RN s1 o2 s2 -> RN s (o1 ++ o2) s2.
Proof. intros [A1 A2] [B1 B2]. split; [lia|]. rewrite out_nums_app. eapply in_range_app; eassumption. Qed.

Lemma RN_no_calls s outs s' : cs_next_call s' = cs_next_call s -> out_nums outs = [] -> RN s outs s'.
Proof. intros E1 E2. unfold RN. rewrite E1, E2. split; [lia | apply in_range_nil]. Qed.

Lemma handle_result_nums s r : out_nums (snd (handle_task_result s r)) = [].
Proof.
  destruct r as [q c res|ok bl|]; cbn [handle_task_result].
  - destruct res; cbn [snd]; try reflexivity.
    destruct (wl_insert (cs_wl (set_abort s (al_remove N.eqb q (cs_abort s)))) c) as [w' ins]. destruct ins; reflexivity.
  - destruct ok; reflexivity.
  - reflexivity.
Qed.

Lemma bad_nums outs : Forall (fun o => o = OBadChoice) outs -> out_nums outs = [].
Proof. induction 1 as [|o l -> _ IH]; [reflexivity | exact IH]. Qed.

Lemma RN_poll_iter ch s : RN s (snd (fst (poll_iter ch s))) (fst (fst (poll_iter ch s))).
Proof.
  destruct (poll_iter_cases ch s) as [(ev & q & Hq & ->) | [(Hq & Ht & ->) | [(r & Hq & Ht & Hr & ->) | (Hq & Ht & Hr & ->)]]];
    cbn [fst snd].
  - apply RN_no_calls; [reflexivity | destruct ev; reflexivity].
  - apply RN_no_calls; reflexivity.
  - apply (RN_trans s (tasks_outs s) (after_tasks s)).
    + unfold RN, tasks_outs, after_tasks. pose proof (poll_next_nums (cs_ready s) (cs_tasks s) (cs_next_call s)) as H.
      destruct (poll_next (cs_ready s) (cs_tasks s) (cs_next_call s)) as [[[[ts rq] nc] outs] res]. exact H.
    + apply RN_no_calls; [apply (handle_result_frame (after_tasks s) r) | apply handle_result_nums].
  - apply (RN_trans s (tasks_outs s) (after_tasks s)).
    + unfold RN, tasks_outs, after_tasks. pose proof (poll_next_nums (cs_ready s) (cs_tasks s) (cs_next_call s)) as H.
      destruct (poll_next (cs_ready s) (cs_tasks s) (cs_next_call s)) as [[[[ts rq] nc] outs] res]. exact H.
    + apply RN_no_calls; [apply (update_handlers_frame (after_tasks s) ch) | apply bad_nums, update_handlers_outs_bad].
Qed.

Lemma RN_poll s ch : RN s (snd (c_poll s ch)) (fst (c_poll s ch)).
Proof.
  unfold c_poll. apply (poll_loop_rel RN RN_trans); [|intros; apply RN_poll_iter].
  intros s0. apply RN_no_calls; reflexivity.
Qed.

Lemma cstep_next_call c o : (forall ch, o <> CPoll ch) -> cs_next_call (fst (cstep c o)) = cs_next_call c.
Proof.
  intros Hnp. destruct o; cbn [cstep fst].
  - unfold c_new_conn. destruct (al_mem N.eqb p (cs_peers c)); reflexivity.
  - unfold c_conn_closed. destruct (al_find N.eqb p (cs_peers c)); [destruct (p_conns (remove_conn c0 p0))|]; reflexivity.
  - unfold c_get. destruct c0; reflexivity.
  - rewrite c_cancel_unfold. cbv zeta.
    assert (E : cs_next_call (cancel_abort c q) = cs_next_call c).
    { unfold cancel_abort. destruct (al_find N.eqb q (cs_abort c)); [|reflexivity]. unfold abort_task. cbn [set_abort cs_tasks].
      destruct (al_mem N.eqb n (cs_tasks c)); reflexivity. }
    destruct (find_query q (cs_c2q (cancel_abort c q))) as [[x qs]|]; [destruct (swap_remove_q q qs)|]; cbn; exact E.
  - unfold c_incoming. destruct (al_find N.eqb p (cs_peers c)); [|reflexivity].
    match goal with |- context [ia_panic ?a] => destruct (ia_panic a); [|destruct (ia_new a)] end; reflexivity.
  - reflexivity.
  - unfold c_release. destruct (find (call_is call) (cs_tasks c)) as [[tid t]|]; reflexivity.
  - reflexivity.
  - exfalso. eapply Hnp. reflexivity.
  - reflexivity.
Qed.

(* ---------- every step of the net moves each node by the node-level functions ---------- *)
Section NodesMoved.
  Variables (Sz : N) (Hh : hash_fn).
  Hypothesis HSz : 32 <= Sz.
  Variable R : node -> node -> Prop.
  Variable All : Prop.                  (* False: only the schedule steps and the clock are covered *)
  Hypothesis R_refl : forall n, R n n.
  Hypothesis R_trans : forall a b c, R a b -> R b c -> R a c.
  Hypothesis R_poll : forall n, R n (fst (node_poll Sz n)).
  Hypothesis R_report : forall n p c r, R n (node_report n p c r).
  Hypothesis R_store : forall n k, R n (node_store Sz n k).
  Hypothesis R_incoming : forall n p m, R n (fst (node_incoming Sz Hh n p m)).
  Hypothesis R_advance : forall n ms, R n (node_advance n ms).
  Hypothesis R_conn : All -> forall n j, R n (node_connected Sz n j CONN).
  Hypothesis R_disc : All -> forall n j, R n (node_disconnected Sz n j CONN).
  Hypothesis R_get : All -> forall n c, wf_cid Sz c -> R n (node_get Sz n c).
  Hypothesis R_cancel : All -> forall n q, R n (node_cancel n q).
  Hypothesis R_put : All -> forall n c d, R n (node_put n c d).
  Hypothesis R_evict : All -> forall n c, R n (node_evict n c).

  Definition movedR (s s' : net) : Prop :=
    forall k n', get_node s' k = Some n' -> exists n, get_node s k = Some n /\ R n n'.

  Lemma movedR_refl s : movedR s s.
  Proof. intros k n' H. exists n'. auto. Qed.

  Lemma movedR_trans a b c : movedR a b -> movedR b c -> movedR a c.
  Proof.
    intros H1 H2 k n'' Hk. destruct (H2 _ _ Hk) as (n' & Hk' & S2). destruct (H1 _ _ Hk') as (n & Hk0 & S1). exists n. eauto.
  Qed.

  Lemma movedR_set_node s i n n' : get_node s i = Some n -> R n n' -> movedR s (set_node s i n').
  Proof.
    intros Hg Hs k nk Hk. destruct (N.eq_dec i k) as [<-|Hne].
    - rewrite (get_set_eq _ _ _ _ Hg) in Hk. injection Hk as <-. eauto.
    - rewrite get_set_neq in Hk by assumption. exists nk. auto.
  Qed.

  Lemma movedR_on_node s i f : (forall n, R n (f n)) -> movedR s (on_node s i f).
  Proof.
    intros Hf. unfold on_node. destruct (get_node s i) as [n|] eqn:E; [|apply movedR_refl]. eapply movedR_set_node; [exact E | apply Hf].
  Qed.

  Lemma movedR_nodes s s2 s' : nodes s' = nodes s2 -> movedR s s2 -> movedR s s'.
  Proof. intros E H k n' Hk. apply H. unfold get_node in *. rewrite <- E. exact Hk. Qed.

  Lemma movedR_two s i j ni nj ni' nj' :
    i <> j -> get_node s i = Some ni -> get_node s j = Some nj -> R ni ni' -> R nj nj' ->
    movedR s (set_node (set_node s i ni') j nj').
  Proof.
    intros Hij Ei Ej Si Sj. eapply movedR_trans; [exact (movedR_set_node s i ni ni' Ei Si)|].
    apply (movedR_set_node (set_node s i ni') j nj nj'); [rewrite get_set_neq by exact Hij; exact Ej | exact Sj].
  Qed.

  Lemma hand_over_R s i L : forall acc, R (fst acc) (fst (fold_left (hand_over s i) L acc)).
  Proof.
    induction L as [|x L IH]; intros acc; cbn [fold_left]; [apply R_refl|].
    eapply R_trans; [|apply IH]. destruct x as [[[p c] f] es]. unfold hand_over. destruct (Net.connected s i p); cbn [fst]; [apply R_report | apply R_refl].
  Qed.

  Definition covered (o : nop) : Prop := sched o \/ (exists ms, o = NAdvance ms) \/ All.

  Theorem nstep_movedR s o : net_ok Sz Hh s -> nop_wf Sz o -> covered o -> movedR s (fst (nstep Sz Hh s o)).
  Proof.
    intros Hok Ho Hcov.
    assert (HAll : match o with NPoll _ | NStore _ _ | NDeliverW _ _ | NDeliverB _ _ | NAdvance _ => True | _ => All end).
    { destruct o; try exact I; destruct Hcov as [Hs|[(ms & E)|Ha]]; try contradiction; try discriminate; exact Ha. }
    destruct o; cbn [nstep fst].
    - unfold do_connect. destruct (get_node s i) as [ni|] eqn:Ei; [|apply movedR_refl]. destruct (get_node s j) as [nj|] eqn:Ej; [|apply movedR_refl].
      destruct ((i =? j) || Net.connected s i j) eqn:E; [apply movedR_refl|]. apply orb_false_iff in E. destruct E as [E _]. apply N.eqb_neq in E.
      eapply movedR_nodes; [reflexivity|]. apply (movedR_two s i j ni nj); try assumption; apply R_conn; exact HAll.
    - unfold do_disconnect. destruct (get_node s i) as [ni|] eqn:Ei; [|apply movedR_refl]. destruct (get_node s j) as [nj|] eqn:Ej; [|apply movedR_refl].
      destruct (Net.connected s i j) eqn:E; [|apply movedR_refl]. destruct (connected_neq Sz Hh HSz s i j Hok E) as (Hij & _).
      eapply movedR_nodes; [reflexivity|]. apply (movedR_two s i j ni nj); try assumption; apply R_disc; exact HAll.
    - apply movedR_on_node. intros n. apply R_get; [exact HAll | exact Ho].
    - apply movedR_on_node. intros n. apply R_cancel; exact HAll.
    - apply movedR_on_node. intros n. apply R_put; exact HAll.
    - apply movedR_on_node. intros n. apply R_evict; exact HAll.
    - intros k n' Hk. unfold get_node in Hk. cbn [nodes] in Hk. rewrite nth_error_map in Hk.
      destruct (nth_error (nodes s) (N.to_nat k)) as [n|] eqn:E; [|discriminate]. injection Hk as <-. exists n. split; [exact E | apply R_advance].
    - unfold do_poll. destruct (get_node s i) as [n|] eqn:Ei; [|apply movedR_refl].
      pose proof (R_poll n) as Hp. destruct (node_poll Sz n) as [n1 o]. cbn [fst] in Hp.
      pose proof (hand_over_R s i (o_wants o) (n1, [])) as Hh1.
      destruct (fold_left (hand_over s i) (o_wants o) (n1, [])) as [n2 ws]. cbn [fst snd] in *.
      eapply movedR_nodes with (s2 := set_node s i n2); [reflexivity|]. apply (movedR_set_node s i n n2 Ei). eapply R_trans; eassumption.
    - apply movedR_on_node. intros n. apply R_store.
    - unfold do_deliver_w. destruct (take_first (w_between i j) (wire_w s)) as [[m rest]|]; [|apply movedR_refl].
      set (s0 := MkNet (nodes s) (conns s) rest (wire_b s) (now s)).
      assert (H0 : movedR s s0) by (intros k n' H; exists n'; auto).
      destruct (get_node s0 i) as [ni|] eqn:Ei; [|exact H0]. destruct (get_node s0 j) as [nj|] eqn:Ej; [|exact H0].
      pose proof (R_incoming nj i (wantlist_message (wl_sdh (cs_wl (n_client ni))) (wm_full m) (wm_entries m))) as Hm.
      destruct (node_incoming Sz Hh nj i (wantlist_message (wl_sdh (cs_wl (n_client ni))) (wm_full m) (wm_entries m))) as [nj1 evs].
      cbn [fst] in *. eapply movedR_trans; [exact H0|].
      eapply movedR_trans; [exact (movedR_set_node s0 j nj nj1 Ej Hm)|].
      apply movedR_on_node. intros n. apply R_report.
    - unfold do_deliver_b. destruct (take_first (b_between j i) (wire_b s)) as [[m rest]|]; [|apply movedR_refl].
      destruct (get_node s i) as [ni|] eqn:Ei; [|intros k n' H; exists n'; auto].
      pose proof (R_incoming ni j (blocks_message (bm_blocks m))) as Hm.
      destruct (node_incoming Sz Hh ni j (blocks_message (bm_blocks m))) as [ni1 evs]. cbn [fst] in *.
      eapply movedR_nodes with (s2 := set_node s i ni1); [reflexivity|]. exact (movedR_set_node s i ni ni1 Ei Hm).
  Qed.
End NodesMoved.

(* ---------- the client's store calls of a node: distinct numbers, all below the client's counter ---------- *)
Definition call_num (x : scall) : list N := match x with KCGet m _ | KCPut m _ => [m] | KSGet _ _ => [] end.
Definition client_nums (l : list scall) : list N := flat_map call_num l.

Definition CC (n : node) : Prop :=
  in_range 0 (cs_next_call (n_client n)) (client_nums (n_calls n)) /\ INVT (n_client n).

Lemma client_nums_app a b : client_nums (a ++ b) = client_nums a ++ client_nums b.
Proof. apply flat_map_app. Qed.

Lemma client_nums_cl outs : client_nums (cl_calls outs) = out_nums outs.
Proof.
  induction outs as [|o l IH]; [reflexivity|]. unfold client_nums, out_nums in *.
  destruct o; cbn [cl_calls flat_map out_num call_num app]; rewrite ?IH; reflexivity.
Qed.

Lemma client_nums_sv outs : client_nums (sv_calls outs) = [].
Proof. induction outs as [|o l IH]; [reflexivity|]. destruct o; cbn; exact IH. Qed.

Lemma client_nums_remove k : forall l,
  NoDup (client_nums l) -> NoDup (client_nums (remove_nth k l)) /\ (forall m, In m (client_nums (remove_nth k l)) -> In m (client_nums l)).
Proof.
  induction k as [|k IH]; intros [|x l] Hnd; cbn [remove_nth]; try (split; [exact Hnd | auto]).
  - cbn [client_nums flat_map] in *. apply NoDup_app_iff in Hnd. split; [apply Hnd|]. intros m Hm. apply in_app_iff. auto.
  - cbn [client_nums flat_map] in *. fold (client_nums l) in *. fold (client_nums (remove_nth k l)).
    apply NoDup_app_iff in Hnd. destruct Hnd as (N1 & N2 & N3). destruct (IH l N2) as [I1 I2]. split.
    + apply NoDup_app_iff. repeat split; auto. intros y Hy Hy'. eapply N3; [exact Hy | apply I2, Hy'].
    + intros m Hm. apply in_app_iff in Hm. apply in_app_iff. destruct Hm as [Hm|Hm]; auto.
Qed.

Section CallsInv.
  Variables (Sz : N) (Hh : hash_fn).
  Hypothesis HSz : 32 <= Sz.

  Lemma CC_client n c' :
    cs_next_call c' = cs_next_call (n_client n) -> INVT c' ->
    CC n -> CC (MkNode c' (n_server n) (n_store n) (n_calls n)).
  Proof. intros E HT [H1 _]. split; cbn [n_client n_calls]; [rewrite E; exact H1 | exact HT]. Qed.

  Lemma CC_cstep n o s' st' :
    (forall ch, o <> CPoll ch) -> CC n -> CC (MkNode (fst (cstep (n_client n) o)) s' st' (n_calls n)).
  Proof.
    intros Hnp [H1 H2]. split; cbn [n_client n_calls]; [rewrite cstep_next_call by exact Hnp; exact H1 | apply INVT_step, H2].
  Qed.

  Lemma CC_poll n : CC n -> CC (fst (node_poll Sz n)).
  Proof.
    intros [H1 H2]. unfold node_poll. destruct (cstep (n_client n) (CPoll [])) as [c1 o1] eqn:E1.
    pose proof (RN_poll (n_client n) []) as HR. cbn [cstep] in E1. rewrite E1 in HR. cbn [fst snd] in HR. destruct HR as [Hle Hr].
    destruct (cstep c1 CTakeNewBlocks) as [c2 o2] eqn:E2. cbn [cstep c_take_new_blocks] in E2. injection E2 as <- <-.
    destruct (srv Sz match cl_new_blocks [ONewBlocks (cs_new_blocks c1)] with [] => n_server n
                      | _ :: _ => fst (srv Sz (n_server n) (SNewBlocks (cl_new_blocks [ONewBlocks (cs_new_blocks c1)]))) end SPoll) as [s2 o3].
    cbn [fst]. split; cbn [n_client n_calls set_new_blocks cs_next_call].
    - rewrite !client_nums_app, client_nums_cl, client_nums_sv, app_nil_r.
      apply (in_range_app 0 (cs_next_call (n_client n)) (cs_next_call c1)); [lia | exact Hle | exact H1 | exact Hr].
    - assert (Hc1 : INVT c1) by (replace c1 with (fst (cstep (n_client n) (CPoll []))) by (cbn [cstep]; rewrite E1; reflexivity); apply INVT_step, H2).
      exact Hc1.
  Qed.

  Lemma CC_store n k : CC n -> CC (node_store Sz n k).
  Proof.
    intros HC. pose proof HC as [[Hnd Hr] HT]. unfold node_store. destruct (nth_error (n_calls n) (N.to_nat k)) as [call|]; [|exact HC].
    destruct (client_nums_remove (N.to_nat k) (n_calls n) Hnd) as [Hnd' Hsub].
    assert (Hnp : forall m r ch, CRelease m r <> CPoll ch) by discriminate.
    destruct call as [m c|m bl|m c]; split; cbn [n_client n_calls]; rewrite ?cstep_next_call by apply Hnp;
      try (split; [exact Hnd' | intros x Hx; apply Hr, Hsub, Hx]); try (apply INVT_step, HT); exact HT.
  Qed.

  Lemma CC_incoming n p m : CC n -> CC (fst (node_incoming Sz Hh n p m)).
  Proof.
    intros HC. unfold node_incoming. destruct (process_message Sz Hh m) as [inc| |]; cbn [fst]; try exact HC.
    destruct (in_client inc) as [cm|].
    - destruct (cstep (n_client n) (CIncoming p (map to_pres (cm_presences cm)) (cm_blocks cm))) as [c1 o1] eqn:E. cbn [fst].
      replace c1 with (fst (cstep (n_client n) (CIncoming p (map to_pres (cm_presences cm)) (cm_blocks cm)))) by (rewrite E; reflexivity).
      apply CC_cstep; [discriminate | exact HC].
    - cbn [fst]. destruct HC as [H1 H2]. split; assumption.
  Qed.

  Definition net_cc (s : net) : Prop := forall k n, get_node s k = Some n -> CC n.

  Theorem net_cc_step s o : net_ok Sz Hh s -> nop_wf Sz o -> net_cc s -> net_cc (fst (nstep Sz Hh s o)).
  Proof.
    intros Hok Ho Hcc k n' Hk.
    assert (HM : movedR (fun n n' => CC n -> CC n') s (fst (nstep Sz Hh s o))).
    { apply (nstep_movedR Sz Hh HSz (fun n n' => CC n -> CC n') True).
      - intros n H. exact H.
      - intros a b c H1 H2 H. auto.
      - intros n. apply CC_poll.
      - intros n p c r. unfold node_report. apply CC_cstep. discriminate.
      - intros n k0. apply CC_store.
      - intros n p m. apply CC_incoming.
      - intros n ms. unfold node_advance. apply CC_cstep. discriminate.
      - intros _ n j. unfold node_connected. apply CC_cstep. discriminate.
      - intros _ n j. unfold node_disconnected. apply CC_cstep. discriminate.
      - intros _ n c _. unfold node_get. apply CC_cstep. discriminate.
      - intros _ n q. unfold node_cancel. apply CC_cstep. discriminate.
      - intros _ n c d [H1 H2]. split; assumption.
      - intros _ n c [H1 H2]. split; assumption.
      - exact Hok.
      - exact Ho.
      - right. right. exact I. }
    destruct (HM k n' Hk) as (n & Hn & HR). apply HR, (Hcc _ _ Hn).
  Qed.

  Lemma net_cc_init n : net_cc (net_init n).
  Proof.
    intros i nd Hg. unfold get_node in Hg. cbn [nodes net_init] in Hg. apply nth_error_In, repeat_spec in Hg. subst nd.
    split; cbn; [apply in_range_nil | split; cbn; [constructor | intros tid []]].
  Qed.
End CallsInv.

(* ---------- an accepted block reaches the store ---------- *)
Section Held.
  Variables (Sz : N) (Hh : hash_fn).
  Hypothesis HSz : 32 <= Sz.
  Variable c : cid.

  Definition pending_put (calls : list scall) (t : Client.task) (bl : list (cid * bytes)) : Prop :=
    t_kind t = TPut bl /\ t_result t = None /\
    (t_call t = None \/ exists m, t_call t = Some m /\ In (KCPut m bl) calls).

  Definition held (n : node) : Prop :=
    (exists d, store_get (n_store n) c = SHit d) \/
    (exists tid t bl, In (tid, t) (cs_tasks (n_client n)) /\ pending_put (n_calls n) t bl /\ In c (map fst bl)).

  Definition D (n : node) : Prop := In c (wl_cids (cs_wl (n_client n))) \/ held n.

  (* D survives when client wantlist/tasks, store and calls are kept *)
  Lemma D_same n n' :
    cs_wl (n_client n') = cs_wl (n_client n) -> cs_tasks (n_client n') = cs_tasks (n_client n) ->
    n_store n' = n_store n -> (forall x, In x (n_calls n) -> In x (n_calls n')) -> D n -> D n'.
  Proof.
    intros E1 E2 E3 E4 [H|[H|(tid & t & bl & Hin & (K & Rn & Hc) & Hk)]].
    - left. rewrite E1. exact H.
    - right. left. rewrite E3. exact H.
    - right. right. exists tid, t, bl. rewrite E2. split; [exact Hin|]. split; [|exact Hk]. split; [exact K|]. split; [exact Rn|].
      destruct Hc as [Hc|(m & Hc & Hm)]; [left; exact Hc | right; exists m; auto].
  Qed.

  (* poll_next keeps an unreleased put task, possibly starting it *)
  Lemma poll_next_pending tid bl rq : forall ts nc t,
    NoDup (map fst ts) -> In (tid, t) ts -> t_kind t = TPut bl -> t_result t = None ->
    let '(ts', rq', nc', outs, res) := poll_next rq ts nc in
    exists t', In (tid, t') ts' /\ t_kind t' = TPut bl /\ t_result t' = None /\
               (t_call t' = t_call t \/ (t_call t = None /\ exists m, t_call t' = Some m /\ In (OPut m bl) outs)).
  Proof.
    induction rq as [|tid0 rq IH]; intros ts nc t Hnd Hin Hk Hr; cbn [poll_next]; [exists t; auto|].
    destruct (al_find N.eqb tid0 ts) as [t0|] eqn:Ef; [|apply IH; assumption].
    pose proof (al_find_some_in _ Client_proofs.Neqb_spec _ _ _ Ef) as Hin0.
    destruct (poll_task nc t0) as [r|o|] eqn:Ep.
    - destruct (N.eq_dec tid0 tid) as [->|Hne].
      + assert (t0 = t) by (eapply NoDup_keys_in_eq; eassumption). subst t0. exfalso.
        unfold poll_task in Ep. rewrite Hk, Hr in Ep. destruct (t_call t); discriminate.
      + exists t. split; [|auto]. unfold al_remove. apply filter_In. split; [exact Hin|]. cbn [fst]. apply negb_true_iff, N.eqb_neq. exact Hne.
    - destruct (N.eq_dec tid0 tid) as [->|Hne].
      + assert (t0 = t) by (eapply NoDup_keys_in_eq; eassumption). subst t0.
        assert (Ho : t_call t = None /\ o = [OPut nc bl]).
        { unfold poll_task in Ep. rewrite Hk, Hr in Ep. destruct (t_call t); [discriminate|]. injection Ep as <-. auto. }
        destruct Ho as [Hcall ->].
        assert (Hin1 : In (tid, start_task nc t) (al_modify N.eqb tid (start_task nc) ts)).
        { unfold al_modify. apply in_map_iff. exists (tid, t). cbn [fst snd]. rewrite N.eqb_refl. auto. }
        specialize (IH (al_modify N.eqb tid (start_task nc) ts) (nc + 1) (start_task nc t)).
        rewrite al_modify_keys in IH. specialize (IH Hnd Hin1 Hk Hr).
        destruct (poll_next rq (al_modify N.eqb tid (start_task nc) ts) (nc + 1)) as [[[[ts' rq'] nc'] outs'] res].
        destruct IH as (t' & Hin' & K' & R' & Hc'). exists t'. split; [exact Hin'|]. split; [exact K'|]. split; [exact R'|].
        right. split; [exact Hcall|]. cbn [start_task t_call] in Hc'.
        destruct Hc' as [Hc'|[Hc' _]]; [|discriminate]. exists nc. split; [exact Hc' | left; reflexivity].
      + assert (Hin1 : In (tid, t) (al_modify N.eqb tid0 (start_task nc) ts)).
        { unfold al_modify. apply in_map_iff. exists (tid, t). cbn [fst snd]. apply N.eqb_neq in Hne. rewrite Hne. auto. }
        specialize (IH (al_modify N.eqb tid0 (start_task nc) ts) (nc + 1) t).
        rewrite al_modify_keys in IH. specialize (IH Hnd Hin1 Hk Hr).
        destruct (poll_next rq (al_modify N.eqb tid0 (start_task nc) ts) (nc + 1)) as [[[[ts' rq'] nc'] outs'] res].
        destruct IH as (t' & Hin' & K' & R' & Hc'). exists t'. split; [exact Hin'|]. split; [exact K'|]. split; [exact R'|].
        destruct Hc' as [Hc'|(Hn & m & Hm & Ho)]; [left; exact Hc'|]. right. split; [exact Hn|]. exists m. split; [exact Hm|].
        apply in_app_iff. right. exact Ho.
    - apply IH; assumption.
  Qed.

  (* the same through a whole poll *)
  Definition RW (tid : N) (bl : list (cid * bytes)) (s : cstate) (outs : list cout) (s' : cstate) : Prop :=
    INVT s -> INVT s' /\
    forall t, In (tid, t) (cs_tasks s) -> t_kind t = TPut bl -> t_result t = None ->
      exists t', In (tid, t') (cs_tasks s') /\ t_kind t' = TPut bl /\ t_result t' = None /\
                 (t_call t' = t_call t \/ (t_call t = None /\ exists m, t_call t' = Some m /\ In (OPut m bl) outs)).

  Lemma RW_same tid bl s outs s' : cs_tasks s' = cs_tasks s -> cs_next_task s' = cs_next_task s -> RW tid bl s outs s'.
  Proof. intros E1 E2 HT. split; [eapply INVT_same; eassumption|]. intros t Hin K Rn. exists t. rewrite E1. auto. Qed.

  Lemma RW_trans tid bl s o1 s1 o2 s2 : RW tid bl s o1 s1 -> RW tid bl s1 o2 s2 -> RW tid bl s (o1 ++ o2) s2.
  Proof.
    intros H1 H2 HT. destruct (H1 HT) as [HT1 A]. destruct (H2 HT1) as [HT2 B]. split; [exact HT2|].
    intros t Hin K Rn. destruct (A t Hin K Rn) as (t1 & Hin1 & K1 & R1 & C1). destruct (B t1 Hin1 K1 R1) as (t2 & Hin2 & K2 & R2 & C2).
    exists t2. split; [exact Hin2|]. split; [exact K2|]. split; [exact R2|].
    destruct C1 as [C1|(N1 & m & M1 & O1)].
    - destruct C2 as [C2|(N2 & m & M2 & O2)]; [left; congruence|]. right. split; [congruence|]. exists m. split; [exact M2 | apply in_app_iff; auto].
    - right. split; [exact N1|]. exists m. destruct C2 as [C2|(N2 & _)]; [|congruence]. split; [congruence | apply in_app_iff; auto].
  Qed.

  Lemma RW_after_tasks tid bl s : RW tid bl s (tasks_outs s) (after_tasks s).
  Proof.
    intros HT. split; [apply INVT_after_tasks, HT|]. intros t Hin K Rn. unfold after_tasks, tasks_outs.
    pose proof (poll_next_pending tid bl (cs_ready s) (cs_tasks s) (cs_next_call s) t (proj1 HT) Hin K Rn) as H.
    destruct (poll_next (cs_ready s) (cs_tasks s) (cs_next_call s)) as [[[[ts rq] nc] outs] res]. exact H.
  Qed.

  Lemma RW_poll_iter tid bl ch s : RW tid bl s (snd (fst (poll_iter ch s))) (fst (fst (poll_iter ch s))).
  Proof.
    destruct (poll_iter_cases ch s) as [(ev & q & Hq & ->) | [(Hq & Ht & ->) | [(r & Hq & Ht & Hr & ->) | (Hq & Ht & Hr & ->)]]];
      cbn [fst snd].
    - apply RW_same; reflexivity.
    - apply RW_same; reflexivity.
    - apply (RW_trans tid bl s (tasks_outs s) (after_tasks s)); [apply RW_after_tasks|].
      destruct (handle_result_frame (after_tasks s) r) as (E1 & _ & _ & _ & _ & E2 & _). apply RW_same; assumption.
    - apply (RW_trans tid bl s (tasks_outs s) (after_tasks s)); [apply RW_after_tasks|].
      destruct (update_handlers_frame (after_tasks s) ch) as (E1 & _ & _ & _ & _ & _ & _ & _ & _ & E2 & _). apply RW_same; assumption.
  Qed.

  Lemma RW_poll tid bl s ch : RW tid bl s (snd (c_poll s ch)) (fst (c_poll s ch)).
  Proof.
    unfold c_poll. apply (poll_loop_rel (RW tid bl) (RW_trans tid bl)); [|intros; apply RW_poll_iter].
    intros s0. apply RW_same; reflexivity.
  Qed.

  Lemma poll_wl_mono s ch : In c (wl_cids (cs_wl s)) -> In c (wl_cids (cs_wl (fst (c_poll s ch)))).
  Proof.
    unfold c_poll. apply (poll_loop_inv (fun s => In c (wl_cids (cs_wl s)))). clear. intros ch s H.
    destruct (poll_iter_cases ch s) as [(ev & q & Hq & ->) | [(Hq & Ht & ->) | [(r & Hq & Ht & Hr & ->) | (Hq & Ht & Hr & ->)]]];
      cbn [fst snd]; try exact H.
    - destruct (after_tasks_frame s) as (_ & Ew & _). rewrite <- Ew in H. revert H. generalize (after_tasks s). intros s1 H.
      destruct r as [q x res|ok bl|]; cbn [handle_task_result].
      + destruct res; cbn [fst]; try exact H. cbn [set_abort cs_wl]. unfold wl_insert.
        destruct (cid_mem x (wl_cids (cs_wl s1))); cbn [fst set_c2q set_peers set_wl cs_wl wl_cids]; [exact H|]. apply in_app_iff. auto.
      + destruct ok; exact H.
      + exact H.
    - destruct (update_handlers_frame (after_tasks s) ch) as (_ & _ & _ & -> & _). destruct (after_tasks_frame s) as (_ & -> & _). exact H.
  Qed.

  Definition RD (n n' : node) : Prop := INVB (n_client n) -> CC n -> D n -> D n'.

  (* --- poll --- *)
  Lemma cl_calls_In outs m bl : In (OPut m bl) outs -> In (KCPut m bl) (cl_calls outs).
  Proof. induction outs as [|o l IH]; [intros []|]. intros [->|H]; [left; reflexivity|]. destruct o; cbn; auto. Qed.

  Lemma RD_poll n : RD n (fst (node_poll Sz n)).
  Proof.
    intros _ [_ HT] HD. unfold node_poll. destruct (cstep (n_client n) (CPoll [])) as [c1 o1] eqn:E1. cbn [cstep] in E1.
    destruct (cstep c1 CTakeNewBlocks) as [c2 o2] eqn:E2. cbn [cstep c_take_new_blocks] in E2. injection E2 as <- <-.
    destruct (srv Sz match cl_new_blocks [ONewBlocks (cs_new_blocks c1)] with [] => n_server n
                      | _ :: _ => fst (srv Sz (n_server n) (SNewBlocks (cl_new_blocks [ONewBlocks (cs_new_blocks c1)]))) end SPoll) as [s2 o3].
    cbn [fst]. destruct HD as [H|[H|(tid & t & bl & Hin & (K & Rn & Hc) & Hk)]].
    - left. cbn [n_client set_new_blocks cs_wl]. pose proof (poll_wl_mono (n_client n) [] H) as Hm. rewrite E1 in Hm. exact Hm.
    - right. left. exact H.
    - right. right. pose proof (RW_poll tid bl (n_client n) [] HT) as [_ HW]. rewrite E1 in HW. cbn [fst snd] in HW.
      destruct (HW t Hin K Rn) as (t' & Hin' & K' & R' & Hc'). exists tid, t', bl. cbn [n_client n_calls set_new_blocks cs_tasks].
      split; [exact Hin'|]. split; [|exact Hk]. split; [exact K'|]. split; [exact R'|].
      destruct Hc' as [Hc'|(_ & m & Hm & Ho)].
      + rewrite Hc'. destruct Hc as [Hc|(m & Hc & Hm)]; [left; exact Hc|]. right. exists m. split; [exact Hc|]. apply in_app_iff. auto.
      + right. exists m. split; [exact Hm|]. apply in_app_iff. right. apply in_app_iff. left. apply cl_calls_In, Ho.
  Qed.

  (* --- client steps that keep wantlist and tasks --- *)
  Lemma RD_report n p cn r : RD n (node_report n p cn r).
  Proof. intros _ _. apply D_same; auto. Qed.

  Lemma RD_advance n ms : RD n (node_advance n ms).
  Proof. intros _ _. apply D_same; auto. Qed.

  (* --- incoming message --- *)
  Lemma inc_block_new_keys a b x : In x (map fst (ia_new a)) -> In x (map fst (ia_new (inc_block a b))).
  Proof.
    intros H. unfold inc_block. destruct (ia_panic a); [exact H|]. destruct b as [y d].
    destruct (wl_remove (ia_wl a) y) as [w' removed]. destruct removed; cbn [negb].
    - cbn [ia_new]. rewrite map_app. apply in_app_iff. auto.
    - destruct (al_mem cid_eqb y (ia_c2q a)); exact H.
  Qed.

  Lemma inc_blocks_accepts bl : forall a,
    wlq_ok (ia_wl a) (ia_c2q a) -> ia_panic a = false ->
    (In c (wl_cids (ia_wl a)) \/ In c (map fst (ia_new a))) ->
    (In c (wl_cids (ia_wl (fold_left inc_block bl a))) \/ In c (map fst (ia_new (fold_left inc_block bl a)))).
  Proof.
    induction bl as [|b bl IH]; intros a Hw Hp H; cbn [fold_left]; [exact H|].
    apply IH; [apply inc_block_wlq, Hw | apply inc_block_no_panic; assumption|].
    destruct H as [H|H]; [|right; apply inc_block_new_keys, H].
    unfold inc_block. rewrite Hp. destruct b as [y d]. unfold wl_remove. destruct (cid_mem y (wl_cids (ia_wl a))) eqn:M; cbn [negb].
    - cbn [ia_wl ia_new wl_cids]. destruct (cid_eqb y c) eqn:E.
      + apply cid_eqb_spec in E. subst y. right. rewrite map_app. apply in_app_iff. right. left. reflexivity.
      + left. apply cid_remove_In. split; [exact H|]. intros ->. rewrite Wantlist_proofs.cid_eqb_refl in E. discriminate.
    - destruct (al_mem cid_eqb y (ia_c2q a)); left; exact H.
  Qed.

  Lemma D_incoming n p pres blocks :
    INVB (n_client n) -> D n -> D (MkNode (fst (c_incoming (n_client n) p pres blocks)) (n_server n) (n_store n) (n_calls n)).
  Proof.
    intros HB HD. unfold c_incoming. destruct (al_find N.eqb p (cs_peers (n_client n))) as [ps|]; [|cbn [fst]; revert HD; apply D_same; auto].
    set (a0 := MkInc (cs_wl (n_client n)) (fold_left apply_presence pres (p_wl ps)) (cs_c2q (n_client n)) (cs_queue (n_client n)) [] false).
    pose proof (inc_blocks_accepts blocks a0 HB eq_refl) as Hacc. cbn [a0 ia_wl ia_new] in Hacc. fold a0 in Hacc.
    pose proof (inc_blocks_no_panic blocks a0 HB eq_refl) as Hnp. set (a := fold_left inc_block blocks a0) in *. rewrite Hnp.
    assert (Htasks : forall tid t bl, In (tid, t) (cs_tasks (n_client n)) -> pending_put (n_calls n) t bl -> In c (map fst bl) ->
              forall cl', (forall x, In x (cs_tasks (n_client n)) -> In x (cs_tasks cl')) -> held (MkNode cl' (n_server n) (n_store n) (n_calls n))).
    { intros tid t bl Hin Hp Hk cl' Hsub. right. exists tid, t, bl. cbn [n_client n_calls]. auto. }
    destruct HD as [H|[H|(tid & t & bl & Hin & Hp & Hk)]].
    - destruct (Hacc (or_introl H)) as [Hw|Hn].
      + left. destruct (ia_new a); cbn [fst n_client push_task cs_wl]; exact Hw.
      + right. right. destruct (ia_new a) as [|b nb] eqn:En; [destruct Hn|]. cbn [fst n_client n_calls push_task cs_tasks].
        exists (cs_next_task (n_client n)), (Client.MkTask (TPut (b :: nb)) None None false), (b :: nb).
        split; [apply in_app_iff; right; left; reflexivity|]. split; [|exact Hn]. split; [reflexivity|]. split; [reflexivity | left; reflexivity].
    - right. left. destruct (ia_new a); exact H.
    - right. destruct (ia_new a); cbn [fst]; eapply Htasks; try eassumption; cbn [push_task cs_tasks]; auto. intros x Hx. apply in_app_iff. auto.
  Qed.

  Lemma RD_incoming n p m : RD n (fst (node_incoming Sz Hh n p m)).
  Proof.
    intros HB _ HD. unfold node_incoming. destruct (process_message Sz Hh m) as [inc| |]; cbn [fst]; try exact HD.
    destruct (in_client inc) as [cm|].
    - cbn [cstep]. pose proof (D_incoming n p (map to_pres (cm_presences cm)) (cm_blocks cm) HB HD) as H.
      destruct (c_incoming (n_client n) p (map to_pres (cm_presences cm)) (cm_blocks cm)) as [c1 o1]. cbn [fst] in *.
      revert H. apply D_same; auto.
    - cbn [fst]. revert HD. apply D_same; auto.
  Qed.

  (* --- completion of a store call --- *)
  Lemma remove_nth_keeps {A} k : forall (l : list A) y z, In y l -> nth_error l k = Some z -> y <> z -> In y (remove_nth k l).
  Proof.
    induction k as [|k IH]; intros [|x l] y z Hin Hn Hne; cbn in *; try discriminate.
    - injection Hn as ->. destruct Hin as [->|Hin]; [contradiction | exact Hin].
    - destruct Hin as [->|Hin]; [left; reflexivity | right; eapply IH; eassumption].
  Qed.

  Lemma store_put_many_has bl : forall st x, In x (map fst bl) -> exists d, store_get (store_put_many st bl) x = SHit d.
  Proof.
    induction bl as [|b bl IH]; intros st x Hin; [destruct Hin|]. cbn [store_put_many fold_left]. fold (store_put_many (store_put st b) bl).
    destruct Hin as [<-|Hin]; [|apply IH, Hin]. destruct b as [y d]. cbn [fst].
    eapply store_put_many_keeps. apply store_get_put_same.
  Qed.

  Lemma release_other cl m r tid t :
    NoDup (map fst (cs_tasks cl)) -> In (tid, t) (cs_tasks cl) -> call_is m (tid, t) = false ->
    In (tid, t) (cs_tasks (c_release cl m r)).
  Proof.
    intros Hnd Hin Hc. unfold c_release. destruct (find (call_is m) (cs_tasks cl)) as [[tid0 t0]|] eqn:Ef; [|exact Hin].
    apply find_some in Ef. destruct Ef as [Hin0 Hc0]. cbn [set_tasks cs_tasks]. unfold al_modify. apply in_map_iff. exists (tid, t).
    split; [|exact Hin]. cbn [fst snd]. destruct (tid0 =? tid) eqn:E; [|reflexivity]. apply N.eqb_eq in E. subst tid0.
    assert (t0 = t) by (eapply NoDup_keys_in_eq; eassumption). subst t0. congruence.
  Qed.

  Lemma RD_store n k : RD n (node_store Sz n k).
  Proof.
    intros _ [[Hnd _] [HT _]] HD. unfold node_store. destruct (nth_error (n_calls n) (N.to_nat k)) as [call|] eqn:Ec; [|exact HD].
    pose proof (nth_error_In _ _ Ec) as Hcall.
    (* a pending put task survives the completion of any other client call *)
    assert (Hsurv : forall tid t bl m r,
              In (tid, t) (cs_tasks (n_client n)) -> pending_put (n_calls n) t bl ->
              In m (call_num call) -> (t_call t = Some m -> call <> KCPut m bl) ->
              In (tid, t) (cs_tasks (c_release (n_client n) m r)) /\ pending_put (remove_nth (N.to_nat k) (n_calls n)) t bl).
    { intros tid t bl m r Hin (K & Rn & Hc) Hm Hne.
      assert (Hci : call_is m (tid, t) = false).
      { unfold call_is. cbn [snd]. destruct (t_call t) as [m'|] eqn:Et; [|reflexivity]. rewrite Rn. apply N.eqb_neq. intros ->.
        destruct Hc as [Hc|(m2 & Hc & Hk)]; [discriminate|]. injection Hc as <-. apply (Hne eq_refl).
        symmetry. eapply (NoDup_flat_map_unique call_num (n_calls n) _ _ m Hnd Hk Hcall); [left; reflexivity | exact Hm]. }
      split; [apply release_other; assumption|]. split; [exact K|]. split; [exact Rn|].
      destruct Hc as [Hc|(m2 & Hc & Hk)]; [left; exact Hc|]. right. exists m2. split; [exact Hc|].
      eapply remove_nth_keeps; [exact Hk | exact Ec|]. intros E. rewrite <- E in Hm. cbn in Hm. destruct Hm as [<-|[]].
      apply (Hne Hc). symmetry. exact E. }
    destruct call as [m x|m bl'|m x].
    - (* a client get completes *)
      destruct HD as [H|[H|(tid & t & bl & Hin & Hp & Hk)]].
      + left. cbn [n_client cstep fst]. unfold c_release. destruct (find (call_is m) (cs_tasks (n_client n))) as [[tid0 t0]|]; exact H.
      + right. left. exact H.
      + right. right. destruct (Hsurv tid t bl m (store_get (n_store n) x) Hin Hp (or_introl eq_refl)) as [Hin' Hp']; [discriminate|].
        exists tid, t, bl. cbn [n_client n_calls cstep fst]. auto.
    - (* a client put completes: the store is written *)
      destruct HD as [H|[(d & H)|(tid & t & bl & Hin & Hp & Hk)]].
      + left. cbn [n_client cstep fst]. unfold c_release. destruct (find (call_is m) (cs_tasks (n_client n))) as [[tid0 t0]|]; exact H.
      + right. left. cbn [n_store]. eapply store_put_many_keeps, H.
      + right. pose proof Hp as (_ & _ & Hc).
        assert (Hcase : (exists m2, t_call t = Some m2 /\ m2 = m /\ In (KCPut m2 bl) (n_calls n)) \/ (t_call t = Some m -> False)).
        { destruct Hc as [Hc|(m2 & Hc & Hk2)]; [right; congruence|]. destruct (N.eq_dec m2 m) as [->|Hne]; [left; eauto | right; congruence]. }
        destruct Hcase as [(m2 & Hc2 & -> & Hk2)|Hno].
        * left. cbn [n_store].
          assert (E : KCPut m bl = KCPut m bl') by (eapply (NoDup_flat_map_unique call_num (n_calls n) _ _ m Hnd Hk2 Hcall); left; reflexivity).
          injection E as <-. apply store_put_many_has, Hk.
        * right. destruct (Hsurv tid t bl m (SHit []) Hin Hp (or_introl eq_refl)) as [Hin' Hp']; [intros E; destruct (Hno E)|].
          exists tid, t, bl. cbn [n_client n_calls cstep fst]. auto.
    - (* a server get completes *)
      destruct HD as [H|[H|(tid & t & bl & Hin & (K & Rn & Hc) & Hk)]].
      + left. exact H.
      + right. left. exact H.
      + right. right. exists tid, t, bl. cbn [n_client n_calls]. split; [exact Hin|]. split; [|exact Hk]. split; [exact K|]. split; [exact Rn|].
        destruct Hc as [Hc|(m2 & Hc & Hk2)]; [left; exact Hc|]. right. exists m2. split; [exact Hc|].
        eapply remove_nth_keeps; [exact Hk2 | exact Ec | discriminate].
  Qed.
End Held.

Section HeldNet.
  Variables (Sz : N) (Hh : hash_fn).
  Hypothesis HSz : 32 <= Sz.
  Variable c : cid.

  Definition PRE (n : node) : Prop := INVB (n_client n) /\ CC n.
  Definition RP (n n' : node) : Prop := PRE n -> PRE n' /\ (D c n -> D c n').

  Lemma INVB_node_poll n : INVB (n_client n) -> INVB (n_client (fst (node_poll Sz n))).
  Proof.
    intros HB. unfold node_poll. destruct (cstep (n_client n) (CPoll [])) as [c1 o1] eqn:E1.
    destruct (cstep c1 CTakeNewBlocks) as [c2 o2] eqn:E2.
    destruct (srv Sz match cl_new_blocks o2 with [] => n_server n | _ :: _ => fst (srv Sz (n_server n) (SNewBlocks (cl_new_blocks o2))) end SPoll) as [s2 o3].
    cbn [fst n_client]. replace c2 with (fst (cstep c1 CTakeNewBlocks)) by (rewrite E2; reflexivity).
    replace c1 with (fst (cstep (n_client n) (CPoll []))) by (rewrite E1; reflexivity). apply INVB_step, INVB_step, HB.
  Qed.

  Lemma INVB_node_store n k : INVB (n_client n) -> INVB (n_client (node_store Sz n k)).
  Proof.
    intros HB. unfold node_store. destruct (nth_error (n_calls n) (N.to_nat k)) as [[m x|m bl|m x]|]; cbn [n_client]; try exact HB; apply INVB_step, HB.
  Qed.

  Lemma INVB_node_incoming n p m : INVB (n_client n) -> INVB (n_client (fst (node_incoming Sz Hh n p m))).
  Proof.
    intros HB. unfold node_incoming. destruct (process_message Sz Hh m) as [inc| |]; cbn [fst]; try exact HB.
    destruct (in_client inc) as [cm|]; [|exact HB].
    destruct (cstep (n_client n) (CIncoming p (map to_pres (cm_presences cm)) (cm_blocks cm))) as [c1 o1] eqn:E. cbn [fst n_client].
    replace c1 with (fst (cstep (n_client n) (CIncoming p (map to_pres (cm_presences cm)) (cm_blocks cm)))) by (rewrite E; reflexivity).
    apply INVB_step, HB.
  Qed.

  Theorem D_step s o h :
    net_ok Sz Hh s -> net_cc s -> nop_wf Sz o -> (sched o \/ exists ms, o = NAdvance ms) ->
    (forall n, get_node s h = Some n -> D c n) ->
    forall n', get_node (fst (nstep Sz Hh s o)) h = Some n' -> D c n'.
  Proof.
    intros Hok Hcc Hwf Ho HD n' Hn'.
    assert (HM : movedR RP s (fst (nstep Sz Hh s o))).
    { apply (nstep_movedR Sz Hh HSz RP False).
      - intros n H. auto.
      - intros a b d H1 H2 Ha. destruct (H1 Ha) as [Hb Hab]. destruct (H2 Hb) as [Hd Hbd]. auto.
      - intros n [HB HC]. split; [split; [apply INVB_node_poll, HB | apply (CC_poll Sz HSz), HC]|]. apply (RD_poll Sz c n HB HC).
      - intros n p cn r [HB HC]. split; [split; [unfold node_report; cbn [n_client]; apply INVB_step, HB | unfold node_report; apply CC_cstep; [discriminate | exact HC]]|].
        apply (RD_report c n p cn r HB HC).
      - intros n k [HB HC]. split; [split; [apply INVB_node_store, HB | apply CC_store, HC]|]. apply (RD_store Sz c n k HB HC).
      - intros n p m [HB HC]. split; [split; [apply INVB_node_incoming, HB | apply CC_incoming, HC]|]. apply (RD_incoming Sz Hh c n p m HB HC).
      - intros n ms [HB HC]. split; [split; [unfold node_advance; cbn [n_client]; apply INVB_step, HB | unfold node_advance; apply CC_cstep; [discriminate | exact HC]]|].
        apply (RD_advance c n ms HB HC).
      - intros [].
      - intros [].
      - intros [].
      - intros [].
      - intros [].
      - intros [].
      - exact Hok.
      - exact Hwf.
      - destruct Ho as [Ho|Ho]; [left; exact Ho | right; left; exact Ho]. }
    destruct (HM h n' Hn') as (n & Hn & HR). destruct HR as [_ HR].
    - split; [apply (nk_invb _ _ _ _ _ (no_nodes _ _ _ Hok _ _ Hn)) | apply (Hcc _ _ Hn)].
    - apply HR, HD, Hn.
  Qed.
End HeldNet.
