(* Client_proofs14.v — package N, part 5: histories that name only the single connection `K p` of each peer (the
   histories of Net.v) keep every entry at exactly that connection, are fault-free in the sense of `churn_ok`, and are
   fixed points of the projection as far as states and outputs go. *)
From BS Require Import Types Wantlist Wantlist_proofs Client Client_proofs Client_proofs3 Client_proofs4
  Client_proofs10 Client_proofs11 Client_proofs12 Client_proofs13.
From Coq Require Import ZArith ZifyBool ZifyN ZifyNat Lia.
Open Scope N_scope.

Section Single.
Variable K : peer -> conn.

Definition SCP (p : peer) (ps : peer_state) : Prop := p_conns ps = [K p] /\ names_only (K p) (p_ss ps).

(* ---------- update_handlers keeps entries single ---------- *)
Lemma uh_gate_single now ps ps1 k :
  uh_gate now ps = Some ps1 -> p_conns ps = [k] -> p_conns ps1 <> [] -> p_conns ps1 = [k] /\ p_ss ps1 = SsReady.
Proof.
  unfold uh_gate. intros Hg Hc Hne. destruct (p_ss ps) as [|t c|t c|t c|c] eqn:Ess; try discriminate.
  - injection Hg as <-. auto.
  - destruct (now - t <? RECEIVE_REQUEST_TIMEOUT); [discriminate|]. injection Hg as <-. cbn [p_conns p_ss] in *. split; [|reflexivity].
    rewrite Hc in *. unfold n_remove in *. cbn [filter] in *. destruct (negb (c =? k)); [reflexivity | exfalso; apply Hne; reflexivity].
  - injection Hg as <-. cbn [p_conns p_ss] in *. split; [|reflexivity].
    rewrite Hc in *. unfold n_remove in *. cbn [filter] in *. destruct (negb (c =? k)); [reflexivity | exfalso; apply Hne; reflexivity].
Qed.

Lemma uh_keep_single now w ch p ps q ps' :
  SCP p ps -> In (q, ps') (uh_keep now w ch (p, ps)) -> SCP q ps'.
Proof.
  intros [Hc Hn] Hin. unfold uh_keep in Hin. cbn [fst snd] in Hin. pose proof (uh_peer_case now w ch p ps) as Hcase.
  destruct (uh_peer now w ch p ps) as [[[a b] c'] d].
  inversion Hcase as [Hg1 | ps1 Hg1 Hcn1 | ps1 wls' conns Hg1 Hcn1 Hne1 Hsf Hgen | ps1 es0 wls' c1 bad conns sf Hg1 Hcn1 Hsf Hgen Hsend' Hin1 Hbad Hch]; subst.
  - destruct Hin as [[= <- <-] | []]. split; assumption.
  - destruct Hin.
  - destruct Hin as [[= <- <-] | []]. destruct (uh_gate_single _ _ _ _ Hg1 Hc Hne1) as [E _]. split; [exact E | exact I].
  - destruct Hin as [[= <- <-] | []].
    assert (Hne1 : p_conns ps1 <> []) by (intros E; rewrite E in Hin1; destruct Hin1).
    destruct (uh_gate_single _ _ _ _ Hg1 Hc Hne1) as [E _]. split; [exact E|]. cbn [p_ss names_only]. rewrite E in Hin1.
    destruct Hin1 as [<- | []]. reflexivity.
Qed.

Definition SC (s : cstate) : Prop := forall p ps, In (p, ps) (cs_peers s) -> SCP p ps.

Lemma SC_iff s : SC s <-> single_conn_state K s.
Proof. split; intros H p ps Hin; exact (H p ps Hin). Qed.

Lemma poll_iter_SC ch s : SC s -> SC (fst (fst (poll_iter ch s))).
Proof.
  intros HS. destruct (poll_iter_cases ch s) as [(ev & q & _ & ->) | [(_ & _ & ->) | [(r & _ & _ & _ & ->) | (_ & _ & _ & ->)]]]; cbn [fst].
  - exact HS.
  - intros p ps Hin. cbn [fire_timer cs_peers] in Hin. apply in_map_iff in Hin. destruct Hin as ([p0 ps0] & [= <- <-] & Hin). exact (HS _ _ Hin).
  - assert (HS1 : SC (after_tasks s)).
    { unfold after_tasks. destruct (poll_next (cs_ready s) (cs_tasks s) (cs_next_call s)) as [[[[ts rq] nc] outs] res]. exact HS. }
    revert HS1. generalize (after_tasks s). intros s1 HS1.
    destruct r as [q c res|ok bl|]; cbn [handle_task_result]; [destruct res| destruct ok |]; try exact HS1.
    destruct (wl_insert (cs_wl (set_abort s1 (al_remove N.eqb q (cs_abort s1)))) c) as [w' ins]. destruct ins; cbn [fst]; [|exact HS1].
    intros p ps Hin. cbn [set_c2q set_peers set_wl set_abort cs_peers] in Hin. unfold wanted_again_all in Hin.
    apply in_map_iff in Hin. destruct Hin as ([p0 ps0] & [= <- <-] & Hin). exact (HS1 _ _ Hin).
  - assert (HS1 : SC (after_tasks s)).
    { unfold after_tasks. destruct (poll_next (cs_ready s) (cs_tasks s) (cs_next_call s)) as [[[[ts rq] nc] outs] res]. exact HS. }
    revert HS1. generalize (after_tasks s). intros s1 HS1. unfold update_handlers. rewrite uh_loop_flat. cbn [fst].
    intros q ps' Hin. cbn [set_queue set_peers cs_peers] in Hin. apply in_flat_map in Hin. destruct Hin as ([p ps] & Hin0 & Hin).
    exact (uh_keep_single _ _ _ _ _ _ _ (HS1 _ _ Hin0) Hin).
Qed.

Lemma c_poll_SC s ch : SC s -> SC (fst (c_poll s ch)).
Proof. intros HS. unfold c_poll. apply (poll_loop_inv SC); [intros ch0 s0; apply poll_iter_SC | exact HS]. Qed.

(* ---------- one step ---------- *)
Lemma names_only_report now k r : rp_single k r = true -> names_only k (state_of_report now r).
Proof. destruct r; cbn; intros H; try exact I; apply N.eqb_eq in H; exact H. Qed.

Lemma step_SC s o : NoDup (map fst (cs_peers s)) -> SC s -> op_single K o = true -> SC (fst (cstep s o)).
Proof.
  intros Hnd HS Ho. destruct o as [p c|p c|oc|q|p pres blocks|p c r|call r|ms|ch|]; cbn [cstep fst op_single] in *.
  - (* CNewConn *)
    apply N.eqb_eq in Ho. subst c. unfold c_new_conn. destruct (al_mem N.eqb p (cs_peers s)) eqn:M; intros q ps' Hin; cbn [set_peers cs_peers] in Hin.
    + apply in_al_modify in Hin. destruct Hin as (v & Hin & ->). specialize (HS _ _ Hin). destruct (p =? q) eqn:E; [|exact HS].
      apply N.eqb_eq in E. subst q. destruct HS as [Hc Hn]. unfold add_conn. rewrite Hc. unfold n_mem. cbn [existsb]. rewrite N.eqb_refl. cbn [orb].
      split; [reflexivity | exact Hn].
    + apply in_peers_ins in Hin. destruct Hin as [[= -> ->] | Hin]; [|exact (HS _ _ Hin)]. split; [reflexivity | exact I].
  - (* CConnClosed *)
    apply N.eqb_eq in Ho. subst c. unfold c_conn_closed. destruct (al_find N.eqb p (cs_peers s)) as [ps|] eqn:Ef; [|exact HS].
    destruct (HS _ _ (al_find_some_in _ Neqb_spec _ _ _ Ef)) as [Hc _]. cbn [remove_conn p_conns]. rewrite Hc, n_remove_self.
    intros q ps' Hin. cbn [set_peers cs_peers] in Hin. unfold al_remove in Hin. apply filter_In in Hin. exact (HS _ _ (proj1 Hin)).
  - unfold c_get. destruct oc; exact HS.
  - rewrite c_cancel_unfold. cbv zeta. destruct (cancel_abort_frame s q) as (_ & _ & _ & _ & E5 & _).
    destruct (find_query q (cs_c2q (cancel_abort s q))) as [[c1 qs]|]; [destruct (swap_remove_q q qs)|];
      intros p ps Hin; cbn [set_wl set_c2q cs_peers] in Hin; rewrite E5 in Hin; exact (HS _ _ Hin).
  - (* CIncoming *)
    unfold c_incoming. destruct (al_find N.eqb p (cs_peers s)) as [ps|]; [|exact HS].
    match goal with |- context [ia_panic ?a] => destruct (ia_panic a); [|destruct (ia_new a)] end;
      intros q ps' Hin; cbn [fst push_task cs_peers] in Hin; apply in_al_modify in Hin; destruct Hin as (v & Hin & ->);
      specialize (HS _ _ Hin); destruct (p =? q); exact HS.
  - (* CReport *)
    apply Bool.andb_true_iff in Ho. destruct Ho as [Hc Hr]. apply N.eqb_eq in Hc. subst c.
    intros q ps' Hin. cbn [c_report set_peers cs_peers] in Hin. apply in_al_modify in Hin. destruct Hin as (v & Hin & ->).
    specialize (HS _ _ Hin). destruct (p =? q) eqn:E; [|exact HS]. apply N.eqb_eq in E. subst q.
    destruct (report_accepted v (K p)); [|exact HS]. destruct HS as [Hcn _]. split; [exact Hcn|]. cbn [p_ss]. apply names_only_report, Hr.
  - unfold c_release. destruct (find (call_is call) (cs_tasks s)) as [[tid t]|]; exact HS.
  - exact HS.
  - apply c_poll_SC, HS.
  - exact HS.
Qed.

Lemma SC_run sdh ops : forallb (op_single K) ops = true -> SC (st_after sdh ops).
Proof.
  induction ops as [|o ops IH] using rev_ind; intros H; [intros p ps []|].
  rewrite forallb_app in H. apply Bool.andb_true_iff in H. destruct H as [H1 H2]. cbn [forallb] in H2. rewrite Bool.andb_true_r in H2.
  rewrite st_after_snoc. apply step_SC; [apply (INVS_run sdh ops) | apply IH, H1 | exact H2].
Qed.

(* ---------- consequences ---------- *)
Lemma ren_ss_names k ss : names_only k ss -> ren_ss k ss = ss.
Proof. destruct ss; cbn; intros H; subst; reflexivity. Qed.

Lemma SC_norm s : SC s -> (forall p c f es, ~ In (EvSend p c f es) (cs_queue s)) -> norm K s = s.
Proof.
  intros HS Hq. destruct s as [q w ps c2q ts rq nt ab nq dl nb now nc]. unfold norm.
  cbn [cs_queue cs_wl cs_peers cs_c2q cs_tasks cs_ready cs_next_task cs_abort cs_next_qid cs_deadline cs_new_blocks cs_now cs_next_call] in *.
  rewrite (norm_ev_plain K _ Hq). f_equal. unfold SC in HS. cbn [cs_peers] in HS.
  induction ps as [|[p v] l IH]; [reflexivity|]. cbn [map]. rewrite IH by (intros p0 v0 Hin; apply HS; right; exact Hin). f_equal.
  destruct (HS p v (or_introl eq_refl)) as [Hc Hn]. unfold norm_entry, norm_ps. cbn [fst snd]. rewrite (ren_ss_names _ _ Hn), <- Hc.
  destruct v; reflexivity.
Qed.

Lemma SC_peers_ok s : SC s -> peers_ok s = true.
Proof.
  intros HS. unfold peers_ok. rewrite forallb_forall. intros [p ps] Hin. cbn [snd]. destruct (HS _ _ Hin) as [Hc Hn].
  unfold peer_ok, fault_conn. destruct (p_ss ps) as [|t c|t c|t c|c]; try reflexivity; cbn [names_only] in Hn; subst c.
  - destruct (cs_now s - t <? RECEIVE_REQUEST_TIMEOUT); [reflexivity|]. rewrite Hc, n_remove_self. reflexivity.
  - rewrite Hc, n_remove_self. reflexivity.
Qed.

Lemma single_churn_ok sdh ops : forallb (op_single K) ops = true -> churn_ok sdh ops = true.
Proof.
  induction ops as [|o ops IH] using rev_ind; intros H; [reflexivity|].
  rewrite forallb_app in H. apply Bool.andb_true_iff in H. destruct H as [H1 H2].
  unfold churn_ok in *. rewrite churn_ok_from_app, (IH H1). cbn [andb churn_ok_from]. rewrite Bool.andb_true_r.
  rewrite run_st_init. destruct o; try reflexivity. cbn [op_ok]. apply SC_peers_ok, SC_run, H1.
Qed.

(* the outputs of a one-connection history name only the single connections *)
Lemma step_sends_poll s o p c f es : In (OSendWantlist p c f es) (snd (cstep s o)) -> exists ch, o = CPoll ch.
Proof.
  destruct o as [p0 c0|p0 c0|oc|q|p0 pres blocks|p0 c0 r|call r|ms|ch|]; cbn [cstep snd]; try (intros []; fail).
  - unfold c_get. destruct oc; cbn [snd]; intros [[=] | []].
  - unfold c_incoming. destruct (al_find N.eqb p0 (cs_peers s)); [|intros []].
    match goal with |- context [ia_panic ?a] => destruct (ia_panic a); [|destruct (ia_new a)] end; cbn [snd]; try (intros []; fail).
    intros [[=] | []].
  - eauto.
  - cbn [c_take_new_blocks snd]. intros [[=] | []].
Qed.

Lemma single_outs_plain sdh ops o :
  forallb (op_single K) ops = true -> In o (outs_after sdh ops) -> norm_out K o = o.
Proof.
  induction ops as [|o1 ops IH] using rev_ind; intros H Hin; [destruct Hin|].
  rewrite forallb_app in H. apply Bool.andb_true_iff in H. destruct H as [H1 H2].
  rewrite outs_after_snoc in Hin. apply in_app_iff in Hin. destruct Hin as [Hin | Hin]; [exact (IH H1 Hin)|].
  destruct o as [| | |p c f es| | | | | |]; try reflexivity. cbn [norm_out].
  destruct (step_sends_poll _ _ _ _ _ _ Hin) as (ch & ->). cbn [cstep] in Hin.
  destruct (C15_one_connection_per_wantlist sdh ops ch p c f es Hin) as ((ps & Hf & Hc) & _).
  destruct (SC_run sdh ops H1 _ _ (al_find_some_in _ Neqb_spec _ _ _ Hf)) as [E _]. rewrite E in Hc. destruct Hc as [<- | []]. reflexivity.
Qed.

Lemma map_id_in {A} (f : A -> A) l : (forall x, In x l -> f x = x) -> map f l = l.
Proof. intros H. induction l as [|x l IH]; [reflexivity|]. cbn [map]. rewrite H by (left; reflexivity). rewrite IH; [reflexivity|]. intros y Hy. apply H. right. exact Hy. Qed.

End Single.

(* ---------- Corollary: one-connection histories ---------- *)
Theorem C15_one_connection_histories K sdh ops :
  forallb (op_single K) ops = true ->
  single_conn_state K (st_after sdh ops) /\
  churn_ok sdh ops = true /\
  st_after sdh (project K sdh ops) = st_after sdh ops /\
  filter not_bad (outs_after sdh (project K sdh ops)) = filter not_bad (outs_after sdh ops) /\
  (forall p c f es, In (OSendWantlist p c f es) (outs_after sdh ops) -> c = K p).
Proof.
  intros H. pose proof (SC_run K sdh ops H) as HS. pose proof (single_churn_ok K sdh ops H) as Hok.
  destruct (C15_trace_connection_independence K sdh ops Hok) as (E1 & _ & _ & _ & E5 & _).
  split; [apply SC_iff, HS|]. split; [exact Hok|]. split; [|split].
  - rewrite E1. apply SC_norm; [exact HS | apply (INVS_run sdh ops)].
  - rewrite E5. apply map_id_in. intros o Hin. apply filter_In in Hin. apply (single_outs_plain K sdh ops o H), Hin.
  - intros p c f es Hin. pose proof (single_outs_plain K sdh ops _ H Hin) as E. cbn [norm_out] in E. injection E as E. symmetry. exact E.
Qed.

(* Corollary for Net.v, client level: whatever the number of connections per peer, as long as the churn is fault-free the
   wantlists handed to connections (peer, full flag, entries, in order) and all other outputs are those of a history
   that names exactly one connection per peer, keeps exactly that connection in every entry, and is itself fault-free *)
Theorem C15_one_connection_suffices K sdh ops :
  churn_ok sdh ops = true ->
  exists ops1,
    forallb (op_single K) ops1 = true /\ churn_ok sdh ops1 = true /\
    single_conn_state K (st_after sdh ops1) /\ sim (st_after sdh ops) (st_after sdh ops1) /\
    sent (outs_after sdh ops1) = sent (outs_after sdh ops) /\
    filter other_out (outs_after sdh ops1) = filter other_out (outs_after sdh ops) /\
    (forall p c f es, In (OSendWantlist p c f es) (outs_after sdh ops1) -> c = K p).
Proof.
  intros Hok. exists (project K sdh ops).
  destruct (C15_trace_connection_independence K sdh ops Hok) as (_ & E2 & E3 & E4 & _ & E6 & E7).
  destruct (C15_one_connection_histories K sdh _ E4) as (_ & F2 & _ & _ & F5).
  split; [exact E4|]. split; [exact F2|]. split; [exact E3|]. split; [exact E2|]. split; [exact E6|]. split; [exact E7 | exact F5].
Qed.
