//! Minimal JSON term writer. Terms map one-to-one to Coq terms (see tools/coqterm.py):
//!   N(u128)        -> N literal          B(bool) -> true/false
//!   Bytes(vec)     -> {"b":"hex"}        -> list of N
//!   L(items)       -> [ .. ]             -> list
//!   C(name, args)  -> {"c":name,"a":[..]} -> (name a1 a2 ..)
//!   T(items)       -> {"t":[..]}         -> (a, b, ..)
//!   O(opt)         -> {"o":null|v}       -> None | (Some v)
//!   S(string)      -> "..."              (only for tags/metadata, never converted to Coq)
use std::fmt::Write;

#[derive(Clone, Debug, PartialEq)]
pub enum J {
    N(u128),
    B(bool),
    Bytes(Vec<u8>),
    L(Vec<J>),
    C(&'static str, Vec<J>),
    T(Vec<J>),
    O(Option<Box<J>>),
    S(String),
}

impl J {
    pub fn n<T: Into<u128>>(v: T) -> J {
        J::N(v.into())
    }
    pub fn us(v: usize) -> J {
        J::N(v as u128)
    }
    pub fn c0(name: &'static str) -> J {
        J::C(name, vec![])
    }
    pub fn some(v: J) -> J {
        J::O(Some(Box::new(v)))
    }
    pub fn none() -> J {
        J::O(None)
    }
    pub fn opt(v: Option<J>) -> J {
        J::O(v.map(Box::new))
    }
    pub fn bytes(v: &[u8]) -> J {
        J::Bytes(v.to_vec())
    }

    pub fn write(&self, out: &mut String) {
        match self {
            J::N(n) => write!(out, "{n}").unwrap(),
            J::B(b) => out.push_str(if *b { "true" } else { "false" }),
            J::Bytes(b) => {
                out.push_str("{\"b\":\"");
                out.push_str(&hex::encode(b));
                out.push_str("\"}");
            }
            J::L(items) => {
                out.push('[');
                for (i, it) in items.iter().enumerate() {
                    if i > 0 {
                        out.push(',');
                    }
                    it.write(out);
                }
                out.push(']');
            }
            J::C(name, args) => {
                write!(out, "{{\"c\":\"{name}\",\"a\":[").unwrap();
                for (i, it) in args.iter().enumerate() {
                    if i > 0 {
                        out.push(',');
                    }
                    it.write(out);
                }
                out.push_str("]}");
            }
            J::T(items) => {
                out.push_str("{\"t\":[");
                for (i, it) in items.iter().enumerate() {
                    if i > 0 {
                        out.push(',');
                    }
                    it.write(out);
                }
                out.push_str("]}");
            }
            J::O(None) => out.push_str("{\"o\":null}"),
            J::O(Some(v)) => {
                out.push_str("{\"o\":");
                v.write(out);
                out.push('}');
            }
            J::S(s) => {
                out.push('"');
                for ch in s.chars() {
                    match ch {
                        '"' => out.push_str("\\\""),
                        '\\' => out.push_str("\\\\"),
                        '\n' => out.push_str("\\n"),
                        c if (c as u32) < 0x20 => write!(out, "\\u{:04x}", c as u32).unwrap(),
                        c => out.push(c),
                    }
                }
                out.push('"');
            }
        }
    }

    pub fn to_string(&self) -> String {
        let mut s = String::new();
        self.write(&mut s);
        s
    }
}

/// One correspondence case: input term, observed output term, tags for the distribution report,
/// and whether the case is non-trivial by the engine's stated rule.
pub struct Case {
    pub input: J,
    pub output: J,
    pub tags: Vec<String>,
    pub nontrivial: bool,
}

impl Case {
    pub fn print(&self) {
        let mut s = String::with_capacity(256);
        s.push_str("{\"i\":");
        self.input.write(&mut s);
        s.push_str(",\"o\":");
        self.output.write(&mut s);
        s.push_str(",\"tags\":[");
        for (i, t) in self.tags.iter().enumerate() {
            if i > 0 {
                s.push(',');
            }
            J::S(t.clone()).write(&mut s);
        }
        s.push_str("],\"nt\":");
        s.push_str(if self.nontrivial { "true" } else { "false" });
        s.push('}');
        println!("{s}");
    }
}
