//! Engines `handler` (client half of ConnHandler) and `srvhandler` (server half) over a scripted
//! substream that follows the convention S1-S6 written at the top of coq/theories/FramedWrite.v.
use std::cell::RefCell;
use std::collections::VecDeque;
use std::io;
use std::pin::Pin;
use std::rc::Rc;
use std::task::{Context, Poll};

use beetswap::verif::clock;
use beetswap::verif::{
    client_handler_snapshot, handler_client_stream_failed, handler_set_client_stream, handler_set_server_stream,
    server_handler_snapshot, ConnHandler, SendingState, StreamRequester, ToBehaviourEvent, ToHandlerEvent,
};
use futures::io::{AsyncRead, AsyncWrite};
use futures::task::noop_waker;
use libp2p_swarm::{ConnectionHandler, ConnectionHandlerEvent};

use crate::e_codec::gen_entry;
use crate::e_incoming::wantlist_j;
use crate::gen::*;
use crate::json::{Case, J};
use crate::node::*;
use crate::rng::Rng;

#[derive(Clone, Copy, Debug)]
pub enum Io {
    WAccept(usize),
    WZero,
    IoErr,
    IoPending,
    FlushOk,
    CloseOk,
}

fn io_j(x: &Io) -> J {
    match x {
        Io::WAccept(n) => J::C("WAccept", vec![J::us(*n)]),
        Io::WZero => J::c0("WZero"),
        Io::IoErr => J::c0("IoErr"),
        Io::IoPending => J::c0("IoPending"),
        Io::FlushOk => J::c0("FlushOk"),
        Io::CloseOk => J::c0("CloseOk"),
    }
}

/// What the harness and all streams of one handler half share: the script of the current op and the
/// log of everything observable, in program order.
#[derive(Default)]
pub struct Shared {
    pub script: VecDeque<Io>,
    pub log: Vec<J>,
    pub wrote: &'static str,
    pub closed: &'static str,
    pub dropped: &'static str,
}

thread_local! {
    // RawStream must be Send; the harness is single threaded, so the shared state lives in a thread local
    static SHARED: RefCell<Vec<Rc<RefCell<Shared>>>> = const { RefCell::new(Vec::new()) };
}

pub struct ScriptStream {
    slot: usize,
    id: usize,
}

fn with<R>(slot: usize, f: impl FnOnce(&mut Shared) -> R) -> R {
    SHARED.with(|v| {
        let v = v.borrow();
        let mut s = v[slot].borrow_mut();
        f(&mut s)
    })
}

fn new_slot(wrote: &'static str, closed: &'static str, dropped: &'static str) -> usize {
    SHARED.with(|v| {
        let mut v = v.borrow_mut();
        v.push(Rc::new(RefCell::new(Shared { wrote, closed, dropped, ..Default::default() })));
        v.len() - 1
    })
}

impl AsyncRead for ScriptStream {
    fn poll_read(self: Pin<&mut Self>, _cx: &mut Context<'_>, _buf: &mut [u8]) -> Poll<io::Result<usize>> {
        Poll::Pending
    }
}

impl AsyncWrite for ScriptStream {
    fn poll_write(self: Pin<&mut Self>, _cx: &mut Context<'_>, buf: &[u8]) -> Poll<io::Result<usize>> {
        let (slot, id) = (self.slot, self.id);
        with(slot, |s| match s.script.pop_front() {
            Some(Io::WAccept(n)) => {
                let k = n.min(buf.len());
                if k > 0 {
                    let name = s.wrote;
                    s.log.push(J::C(name, vec![J::us(id), J::bytes(&buf[..k])]));
                }
                Poll::Ready(Ok(k))
            }
            Some(Io::WZero) => Poll::Ready(Ok(0)),
            Some(Io::IoErr) => Poll::Ready(Err(io::Error::other("scripted"))),
            _ => Poll::Pending,
        })
    }

    fn poll_flush(self: Pin<&mut Self>, _cx: &mut Context<'_>) -> Poll<io::Result<()>> {
        with(self.slot, |s| match s.script.pop_front() {
            Some(Io::FlushOk) => Poll::Ready(Ok(())),
            Some(Io::IoErr) => Poll::Ready(Err(io::Error::other("scripted"))),
            _ => Poll::Pending,
        })
    }

    fn poll_close(self: Pin<&mut Self>, _cx: &mut Context<'_>) -> Poll<io::Result<()>> {
        let (slot, id) = (self.slot, self.id);
        with(slot, |s| match s.script.pop_front() {
            Some(Io::CloseOk) => {
                let name = s.closed;
                if !name.is_empty() {
                    s.log.push(J::C(name, vec![J::us(id)]));
                }
                Poll::Ready(Ok(()))
            }
            Some(Io::IoErr) => Poll::Ready(Err(io::Error::other("scripted"))),
            _ => Poll::Pending,
        })
    }
}

impl Drop for ScriptStream {
    fn drop(&mut self) {
        let (slot, id) = (self.slot, self.id);
        with(slot, |s| {
            let name = s.dropped;
            s.log.push(J::C(name, vec![J::us(id)]));
        })
    }
}

fn gen_script(rng: &mut Rng, progress: bool) -> Vec<Io> {
    let n = rng.usize(7);
    (0..n)
        .map(|_| {
            if progress {
                match rng.below(8) {
                    0 => Io::WAccept(1 + rng.usize(3)),
                    1..=3 => Io::WAccept(1 << 20),
                    4 | 5 => Io::FlushOk,
                    6 => Io::CloseOk,
                    _ => Io::IoPending,
                }
            } else {
                match rng.below(12) {
                    0 => Io::WAccept(1 + rng.usize(5)),
                    1 | 2 => Io::WAccept(1 << 20),
                    3 => Io::WAccept(0),
                    4 => Io::WZero,
                    5 => Io::IoErr,
                    6 | 7 => Io::IoPending,
                    8 | 9 => Io::FlushOk,
                    _ => Io::CloseOk,
                }
            }
        })
        .collect()
}

fn ss_j(s: &SendingState) -> J {
    match s {
        SendingState::Ready => J::c0("SsReady"),
        SendingState::Requested(t, c) => J::C("SsRequested", vec![J::n(t.0), J::us(conn_number(*c))]),
        SendingState::RequestReceived(t, c) => J::C("SsRequestReceived", vec![J::n(t.0), J::us(conn_number(*c))]),
        SendingState::Sending(t, c) => J::C("SsSending", vec![J::n(t.0), J::us(conn_number(*c))]),
        SendingState::Failed(c) => J::C("SsFailed", vec![J::us(conn_number(*c))]),
    }
}

fn report_j(s: &SendingState) -> J {
    match s {
        SendingState::Ready => J::c0("RpReady"),
        SendingState::Requested(_, c) => J::C("RpRequested", vec![J::us(conn_number(*c))]),
        SendingState::RequestReceived(_, c) => J::C("RpRequestReceived", vec![J::us(conn_number(*c))]),
        SendingState::Sending(_, c) => J::C("RpSending", vec![J::us(conn_number(*c))]),
        SendingState::Failed(c) => J::C("RpFailed", vec![J::us(conn_number(*c))]),
    }
}

struct HRun {
    h: ConnHandler<64>,
    slot: usize,
    next_stream: usize,
    ops: Vec<J>,
    obs: Vec<J>,
    /// an OutboundSubstreamRequest is unanswered
    open_request: bool,
    last_report_ready: bool,
    closed: bool,
}

impl HRun {
    fn take_log(&mut self) -> Vec<J> {
        with(self.slot, |s| std::mem::take(&mut s.log))
    }

    fn snap(&self) -> J {
        let s = client_handler_snapshot(&self.h);
        J::C(
            "HSnap",
            vec![J::us(s.queue_len), J::B(s.has_msg), J::n(s.sink_state), ss_j(&s.sending_state), J::B(s.closing), J::B(s.halted), J::B(s.has_timeout)],
        )
    }

    fn record(&mut self, op: J) {
        let outs = self.take_log();
        self.ops.push(op);
        let snap = self.snap();
        self.obs.push(J::T(vec![J::L(outs), snap]));
    }

    fn set_script(&mut self, script: &[Io]) {
        with(self.slot, |s| s.script = script.iter().copied().collect());
    }

    fn clear_script(&mut self) {
        with(self.slot, |s| s.script.clear());
    }

    fn log(&mut self, j: J) {
        with(self.slot, |s| s.log.push(j));
    }

    fn handle_event(&mut self, ev: ConnectionHandlerEvent<libp2p_core::upgrade::ReadyUpgrade<libp2p_swarm::StreamProtocol>, StreamRequester, ToBehaviourEvent<64>>) {
        match ev {
            ConnectionHandlerEvent::NotifyBehaviour(ToBehaviourEvent::SendingStateChanged(_, st)) => {
                self.last_report_ready = matches!(st, SendingState::Ready);
                self.log(J::C("HReport", vec![report_j(&st)]));
            }
            ConnectionHandlerEvent::NotifyBehaviour(ToBehaviourEvent::ClientClosingConnection(_, _)) => self.log(J::c0("HClosing")),
            ConnectionHandlerEvent::OutboundSubstreamRequest { .. } => {
                self.open_request = true;
                self.log(J::c0("HOpenStream"));
            }
            _ => self.log(J::c0("HPanic")),
        }
    }

    fn poll(&mut self, script: Vec<Io>) {
        self.set_script(&script);
        let waker = noop_waker();
        let mut cx = Context::from_waker(&waker);
        for _ in 0..1000 {
            match self.h.poll(&mut cx) {
                Poll::Ready(ev) => self.handle_event(ev),
                Poll::Pending => break,
            }
        }
        self.clear_script();
        self.record(J::C("HPoll", vec![J::L(script.iter().map(io_j).collect())]));
    }

    fn poll_close(&mut self, script: Vec<Io>) {
        self.set_script(&script);
        let waker = noop_waker();
        let mut cx = Context::from_waker(&waker);
        for _ in 0..1000 {
            match self.h.poll_close(&mut cx) {
                Poll::Ready(Some(ToBehaviourEvent::SendingStateChanged(_, st))) => self.log(J::C("HReport", vec![report_j(&st)])),
                Poll::Ready(Some(ToBehaviourEvent::ClientClosingConnection(_, _))) => self.log(J::c0("HClosing")),
                Poll::Ready(Some(_)) => self.log(J::c0("HPanic")),
                Poll::Ready(None) | Poll::Pending => break,
            }
        }
        self.clear_script();
        self.closed = true;
        self.record(J::C("HPollClose", vec![J::L(script.iter().map(io_j).collect())]));
    }
}

fn client_history(rng: &mut Rng, len: usize, disciplined: bool) -> Case {
    let conn = 1 + rng.usize(5);
    let mut node = Node::new(|b| b, 1);
    let h = node.new_conn(0, conn);
    let slot = new_slot("HWrote", "HStreamClosed", "HDropped");
    let mut run = HRun { h, slot, next_stream: 0, ops: vec![], obs: vec![], open_request: false, last_report_ready: true, closed: false };
    let cids: Vec<Cid64> = (0..3).map(|i| { let d = vec![i as u8]; honest_cid::<64>(rng, &d) }).collect();
    let mut tags = vec![if disciplined { "client/disciplined".to_string() } else { "client/any".to_string() }];
    for _ in 0..len {
        if run.closed && disciplined {
            break;
        }
        match rng.below(20) {
            0..=3 => {
                if disciplined && !run.last_report_ready {
                    continue;
                }
                let n = rng.usize(3);
                let mut w = beetswap::verif::proto::mod_Message::Wantlist { entries: (0..n).map(|_| gen_entry(rng)).collect(), full: rng.chance(1, 2) };
                for e in w.entries.iter_mut() {
                    e.block = rng.pick(&cids).to_bytes();
                }
                run.last_report_ready = false;
                let wj = wantlist_j(&w);
                // a panic (debug_assert) is an outcome
                let r = std::panic::catch_unwind(std::panic::AssertUnwindSafe(|| run.h.on_behaviour_event(ToHandlerEvent::SendWantlist(w))));
                if r.is_err() {
                    run.log(J::c0("HPanic"));
                }
                run.record(J::C("HSendWantlist", vec![wj]));
                tags.push("op/send_wantlist".into());
                if r.is_err() {
                    break;
                }
            }
            4..=6 => {
                if disciplined && !run.open_request {
                    continue;
                }
                run.open_request = false;
                let id = run.next_stream;
                run.next_stream += 1;
                handler_set_client_stream(&mut run.h, Box::new(ScriptStream { slot, id }));
                run.record(J::c0("HSetStream"));
                tags.push("op/set_stream".into());
            }
            7 => {
                if disciplined && !run.open_request {
                    continue;
                }
                run.open_request = false;
                let r = std::panic::catch_unwind(std::panic::AssertUnwindSafe(|| handler_client_stream_failed(&mut run.h)));
                if r.is_err() {
                    run.log(J::c0("HPanic"));
                }
                run.record(J::c0("HAllocFailed"));
                tags.push("op/alloc_failed".into());
                if r.is_err() {
                    break;
                }
            }
            8 | 9 => {
                let ms = *rng.pick(&[100u64, 1000, 4999, 5000, 5001, 30000]);
                clock::set_now_ms(clock::now_ms() + ms);
                run.record(J::C("HAdvance", vec![J::n(ms)]));
                tags.push("op/advance".into());
            }
            10 => {
                let s = gen_script(rng, false);
                run.poll_close(s);
                tags.push("op/poll_close".into());
            }
            _ => {
                let progress = rng.chance(2, 3);
                let s = gen_script(rng, progress);
                run.poll(s);
                tags.push("op/poll".into());
            }
        }
    }
    tags.sort();
    tags.dedup();
    Case { input: J::T(vec![J::us(conn), J::L(run.ops)]), output: J::L(run.obs), tags, nontrivial: true }
}

// ------------------------------------------------------------------------------------------ server half

struct SRun {
    h: ConnHandler<64>,
    slot: usize,
    next_stream: usize,
    ops: Vec<J>,
    obs: Vec<J>,
    open_request: bool,
}

impl SRun {
    fn record(&mut self, op: J) {
        let outs = with(self.slot, |s| std::mem::take(&mut s.log));
        let s = server_handler_snapshot(&self.h);
        let snap = J::C(
            "SHSnap",
            vec![J::n(s.sink_state), J::opt(s.pending.map(|v| J::L(v.iter().map(|(a, b)| J::T(vec![J::us(*a), J::us(*b)])).collect())))],
        );
        self.ops.push(op);
        self.obs.push(J::T(vec![J::L(outs), snap]));
    }

    fn poll(&mut self, script: Vec<Io>) {
        with(self.slot, |s| s.script = script.iter().copied().collect());
        let waker = noop_waker();
        let mut cx = Context::from_waker(&waker);
        for _ in 0..1000 {
            match self.h.poll(&mut cx) {
                Poll::Ready(ConnectionHandlerEvent::OutboundSubstreamRequest { .. }) => {
                    self.open_request = true;
                    with(self.slot, |s| s.log.push(J::c0("SHOpenStream")));
                }
                Poll::Ready(_) => {}
                Poll::Pending => break,
            }
        }
        with(self.slot, |s| s.script.clear());
        self.record(J::C("SHPoll", vec![J::L(script.iter().map(io_j).collect())]));
    }
}

fn server_history(rng: &mut Rng, len: usize) -> Case {
    let mut node = Node::new(|b| b, 1);
    let h = node.new_conn(0, 1);
    let slot = new_slot("SHWrote", "", "SHDropped");
    let mut run = SRun { h, slot, next_stream: 0, ops: vec![], obs: vec![], open_request: false };
    let mut tags = vec!["server".to_string()];
    for _ in 0..len {
        match rng.below(10) {
            0..=2 => {
                let n = 1 + rng.usize(3);
                let blocks: Vec<(Vec<u8>, Vec<u8>)> = (0..n).map(|_| (rng.bytes(rng.clone().usize(5)), rng.bytes(rng.clone().usize(12)))).collect();
                let j = J::L(blocks.iter().map(|(p, d)| J::T(vec![J::bytes(p), J::bytes(d)])).collect());
                run.h.on_behaviour_event(ToHandlerEvent::QueueOutgoingMessages(blocks));
                run.record(J::C("SHQueue", vec![j]));
                tags.push("op/queue".into());
            }
            3 | 4 => {
                if !run.open_request && !rng.chance(1, 6) {
                    continue;
                }
                run.open_request = false;
                let id = run.next_stream;
                run.next_stream += 1;
                handler_set_server_stream(&mut run.h, Box::new(ScriptStream { slot, id }));
                run.record(J::c0("SHSetStream"));
                tags.push("op/set_stream".into());
            }
            _ => {
                let progress = rng.chance(2, 3);
                let s = gen_script(rng, progress);
                run.poll(s);
                tags.push("op/poll".into());
            }
        }
    }
    tags.sort();
    tags.dedup();
    Case { input: J::L(run.ops), output: J::L(run.obs), tags, nontrivial: true }
}

pub fn run_client(seed: u64, n: usize, _tier: &str) {
    let mut rng = Rng::new(seed);
    for i in 0..n {
        let len = 6 + rng.usize(30);
        client_history(&mut rng, len, i % 4 != 0).print();
    }
}

pub fn run_server(seed: u64, n: usize, _tier: &str) {
    let mut rng = Rng::new(seed);
    for _ in 0..n {
        let len = 6 + rng.usize(30);
        server_history(&mut rng, len).print();
    }
}
