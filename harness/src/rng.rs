//! splitmix64 / xoshiro-free tiny PRNG: every random choice of a run derives from one seed.
#[derive(Clone)]
pub struct Rng(u64);

impl Rng {
    pub fn new(seed: u64) -> Rng {
        Rng(seed ^ 0x9E37_79B9_7F4A_7C15)
    }
    pub fn next(&mut self) -> u64 {
        self.0 = self.0.wrapping_add(0x9E37_79B9_7F4A_7C15);
        let mut z = self.0;
        z = (z ^ (z >> 30)).wrapping_mul(0xBF58_476D_1CE4_E5B9);
        z = (z ^ (z >> 27)).wrapping_mul(0x94D0_49BB_1331_11EB);
        z ^ (z >> 31)
    }
    /// uniform in 0..n (n > 0)
    pub fn below(&mut self, n: u64) -> u64 {
        self.next() % n
    }
    pub fn usize(&mut self, n: usize) -> usize {
        self.below(n as u64) as usize
    }
    pub fn chance(&mut self, num: u64, den: u64) -> bool {
        self.below(den) < num
    }
    pub fn pick<'a, T>(&mut self, items: &'a [T]) -> &'a T {
        &items[self.usize(items.len())]
    }
    pub fn bytes(&mut self, n: usize) -> Vec<u8> {
        (0..n).map(|_| self.next() as u8).collect()
    }
    /// a u64 biased towards varint boundaries
    pub fn boundary_u64(&mut self) -> u64 {
        match self.below(8) {
            0 => self.below(4),
            1 => {
                let k = self.below(10) * 7;
                let base = if k >= 64 { u64::MAX } else { 1u64 << k };
                base.wrapping_add(self.below(3)).wrapping_sub(1)
            }
            2 => self.below(128),
            3 => self.below(1 << 14),
            4 => u64::MAX - self.below(3),
            5 => {
                let k = self.below(64);
                (1u64 << k).wrapping_add(self.below(3)).wrapping_sub(1)
            }
            _ => self.next() >> self.below(64),
        }
    }
}
