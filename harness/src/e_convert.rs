//! Engine `convert`: utils::convert_cid / convert_multihash over a compiled grid of capacity pairs.
use beetswap::utils::{convert_cid, convert_multihash};
use cid::CidGeneric;

use crate::gen::*;
use crate::json::{Case, J};
use crate::rng::Rng;

fn mh_j<const S: usize>(mh: &multihash::Multihash<S>) -> J {
    J::C("MkMh", vec![J::n(mh.code()), J::bytes(mh.digest())])
}

fn one<const S: usize, const T: usize>(cid: &CidGeneric<S>) -> Case {
    let r: Option<CidGeneric<T>> = convert_cid(cid);
    let back: Option<Option<CidGeneric<S>>> = r.as_ref().map(|c| convert_cid(c));
    let mh: Option<multihash::Multihash<T>> = convert_multihash(cid.hash());
    Case {
        input: J::C("VConvert", vec![J::us(S), J::us(T), cid_j(cid)]),
        output: J::C(
            "VOut",
            vec![
                J::opt(r.as_ref().map(cid_j)),
                J::opt(back.map(|b| J::opt(b.as_ref().map(cid_j)))),
                J::opt(mh.as_ref().map(mh_j)),
            ],
        ),
        tags: vec![format!("S{}->S{}/{}", S, T, if r.is_some() { "fits" } else { "too_big" })],
        nontrivial: true,
    }
}

/// a CID<S> with a digest of exactly `len` bytes (len <= S)
fn cid_len<const S: usize>(rng: &mut Rng, len: usize) -> CidGeneric<S> {
    if len == 32 && rng.chance(1, 4) {
        let d = rng.bytes(32);
        return CidGeneric::new_v0(multihash::Multihash::<S>::wrap(0x12, &d).unwrap()).unwrap();
    }
    let code = if rng.chance(1, 2) { *rng.pick(TABLE_CODES) } else { rng.boundary_u64() };
    let codec = if rng.chance(1, 2) { *rng.pick(CODECS) } else { rng.boundary_u64() };
    let d = rng.bytes(len);
    CidGeneric::new_v1(codec, multihash::Multihash::<S>::wrap(code, &d).unwrap())
}

macro_rules! targets {
    ($s:literal, $cid:expr, $($t:literal),*) => {{ $( one::<$s, $t>($cid).print(); )* }};
}

macro_rules! sources {
    ($rng:expr, $len:expr, $($s:literal),*) => {{
        $( if $len <= $s {
            let cid: CidGeneric<$s> = cid_len(&mut $rng, $len);
            targets!($s, &cid, 0, 1, 16, 20, 31, 32, 33, 48, 63, 64, 65, 128, 255, 256, 257, 300, 512, 1024);
        } )*
    }};
}

pub fn run(seed: u64, n: usize, _tier: &str) {
    let mut rng = Rng::new(seed);
    // exhaustive over digest lengths 0..=64 x the capacity grid
    for len in 0..=64usize {
        sources!(rng, len, 16, 32, 64, 128);
    }
    // random beyond
    for _ in 0..n / 48 + 1 {
        let len = match rng.below(4) {
            0 => *rng.pick(&[0usize, 1, 15, 16, 17, 20, 31, 32, 33, 63, 64, 65, 127, 128]),
            _ => rng.usize(129),
        };
        sources!(rng, len, 16, 32, 64, 128);
    }
}
