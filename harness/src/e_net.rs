//! Engine `net`: 2-4 complete nodes (real `Behaviour` + real `ConnHandler`s + real codec) wired by a
//! harness-level mini swarm over in-memory pipes: the harness chooses which component is polled next, how
//! many bytes a read returns, when each blockstore call completes, and injects connect / disconnect / get /
//! cancel / local put / evict / clock advances.  What libp2p-swarm, yamux and multistream-select do is
//! replaced by this file (assumptions A-SWARM, A-STREAM, A-MSS); everything of beetswap is the real code.
//! End-to-end oracles (Corr_net.v): C02 completion, C14 records-agree, C20 isolation, C01/C03 sanity.
use std::collections::{HashMap, VecDeque};
use std::io;
use std::pin::Pin;
use std::sync::{Arc, Mutex};
use std::task::{Context, Poll};

use beetswap::verif::clock;
use beetswap::verif::{
    client_snapshot, handler_client_stream_failed, handler_push_inbound_stream, handler_set_client_stream,
    handler_set_server_stream, server_snapshot, ConnHandler, StreamRequester, ToHandlerEvent,
};
use beetswap::Event;
use futures::io::{AsyncRead, AsyncWrite};
use futures::task::noop_waker;
use libp2p_core::upgrade::UpgradeInfo;
use libp2p_identity::PeerId;
use libp2p_swarm::{ConnectionHandler, ConnectionHandlerEvent};

use crate::gen::*;
use crate::json::{Case, J};
use crate::node::*;
use crate::rng::Rng;

macro_rules! trace {
    ($($a:tt)*) => { if std::env::var("BSVERIF_TRACE").is_ok() { eprintln!($($a)*); } };
}

// ---------------------------------------------------------------------------------------------- pipes
#[derive(Default)]
struct PipeState {
    buf: VecDeque<u8>,
    closed: bool,
    moved: u64,
    /// the reading side is parked inside a SelectAll / FuturesUnordered: it is polled again only when woken
    waker: Option<std::task::Waker>,
}

impl PipeState {
    fn wake(&mut self) {
        if let Some(w) = self.waker.take() {
            w.wake();
        }
    }
}

struct PipeWriter(Arc<Mutex<PipeState>>);
struct PipeReader(Arc<Mutex<PipeState>>, Arc<Mutex<Rng>>);

impl AsyncRead for PipeWriter {
    fn poll_read(self: Pin<&mut Self>, _: &mut Context<'_>, _: &mut [u8]) -> Poll<io::Result<usize>> {
        Poll::Pending
    }
}
impl AsyncWrite for PipeWriter {
    fn poll_write(self: Pin<&mut Self>, _: &mut Context<'_>, buf: &[u8]) -> Poll<io::Result<usize>> {
        let mut s = self.0.lock().unwrap();
        if s.closed {
            return Poll::Ready(Err(io::Error::other("closed")));
        }
        s.buf.extend(buf.iter());
        s.moved += buf.len() as u64;
        s.wake();
        Poll::Ready(Ok(buf.len()))
    }
    fn poll_flush(self: Pin<&mut Self>, _: &mut Context<'_>) -> Poll<io::Result<()>> {
        Poll::Ready(Ok(()))
    }
    fn poll_close(self: Pin<&mut Self>, _: &mut Context<'_>) -> Poll<io::Result<()>> {
        let mut s = self.0.lock().unwrap();
        s.closed = true;
        s.wake();
        Poll::Ready(Ok(()))
    }
}
impl Drop for PipeWriter {
    fn drop(&mut self) {
        let mut s = self.0.lock().unwrap();
        s.closed = true;
        s.wake();
    }
}
impl AsyncRead for PipeReader {
    fn poll_read(self: Pin<&mut Self>, cx: &mut Context<'_>, out: &mut [u8]) -> Poll<io::Result<usize>> {
        let mut s = self.0.lock().unwrap();
        if s.buf.is_empty() {
            if s.closed {
                return Poll::Ready(Ok(0));
            }
            s.waker = Some(cx.waker().clone());
            return Poll::Pending;
        }
        // arbitrary chunking of the byte stream
        let max = s.buf.len().min(out.len());
        let n = 1 + self.1.lock().unwrap().usize(max);
        for slot in out.iter_mut().take(n) {
            *slot = s.buf.pop_front().unwrap();
        }
        s.moved += 1;
        Poll::Ready(Ok(n))
    }
}
impl AsyncWrite for PipeReader {
    fn poll_write(self: Pin<&mut Self>, _: &mut Context<'_>, _: &[u8]) -> Poll<io::Result<usize>> {
        Poll::Pending
    }
    fn poll_flush(self: Pin<&mut Self>, _: &mut Context<'_>) -> Poll<io::Result<()>> {
        Poll::Ready(Ok(()))
    }
    fn poll_close(self: Pin<&mut Self>, _: &mut Context<'_>) -> Poll<io::Result<()>> {
        Poll::Ready(Ok(()))
    }
}

// ------------------------------------------------------------------------------------------------ net
struct Conn {
    id: usize,
    a: usize,
    b: usize,
    ha: ConnHandler<64>,
    hb: ConnHandler<64>,
    pipes: Vec<Arc<Mutex<PipeState>>>,
}

struct Query {
    node: usize,
    qid: u64,
    cid: usize,
    cancelled: bool,
    events: Vec<(bool, Vec<u8>)>, // (is_response, data)
}

struct Net {
    nodes: Vec<Node>,
    prefixes: Vec<Option<&'static str>>,
    content: Vec<HashMap<Vec<u8>, Vec<u8>>>,
    open_calls: Vec<Vec<(usize, CallKind)>>,
    conns: Vec<Conn>,
    next_conn: usize,
    queries: Vec<Query>,
    rng: Arc<Mutex<Rng>>,
    progress: u64,
    foreign_events: usize,
    /// substream requests whose negotiation has not finished yet: (connection id, requested by side a, requester)
    pending_neg: Vec<(usize, bool, bool)>,
}

impl Net {
    fn new(n: usize, prefixes: Vec<Option<&'static str>>, seed: u64) -> Net {
        let peers: Vec<PeerId> = (0..n).map(|_| PeerId::random()).collect();
        clock::set_now_ms(0);
        let nodes = (0..n)
            .map(|i| {
                let p = prefixes[i];
                let mut node = Node::new(move |b| match p { Some(p) => b.protocol_prefix(p).unwrap(), None => b }, 0);
                node.peers = peers.clone();
                node
            })
            .collect();
        clock::set_now_ms(0);
        Net {
            nodes,
            prefixes,
            content: vec![HashMap::new(); n],
            open_calls: vec![vec![]; n],
            conns: vec![],
            next_conn: 1,
            queries: vec![],
            rng: Arc::new(Mutex::new(Rng::new(seed ^ 0xabcdef))),
            progress: 0,
            foreign_events: 0,
            pending_neg: vec![],
        }
    }

    fn connect(&mut self, a: usize, b: usize) {
        let id = self.next_conn;
        self.next_conn += 1;
        trace!("  connect conn{id} ({a}-{b})");
        let ha = self.nodes[a].new_conn(b, id);
        let hb = self.nodes[b].new_conn(a, id);
        self.conns.push(Conn { id, a, b, ha, hb, pipes: vec![] });
        self.progress += 1;
    }

    fn disconnect(&mut self, idx: usize) {
        let mut c = self.conns.remove(idx);
        trace!("  disconnect conn{} ({}-{})", c.id, c.a, c.b);
        let waker = noop_waker();
        let mut cx = Context::from_waker(&waker);
        // the connection task drains poll_close of the handler, then the behaviour is told
        for (node, peer, h) in [(c.a, c.b, &mut c.ha), (c.b, c.a, &mut c.hb)] {
            for _ in 0..100 {
                match h.poll_close(&mut cx) {
                    Poll::Ready(Some(ev)) => self.nodes[node].handler_event(peer, c.id, ev),
                    _ => break,
                }
            }
        }
        let remaining_ab = self.conns.iter().filter(|x| (x.a == c.a && x.b == c.b) || (x.a == c.b && x.b == c.a)).count();
        self.nodes[c.a].conn_closed(c.b, c.id, remaining_ab);
        self.nodes[c.b].conn_closed(c.a, c.id, remaining_ab);
        for p in &c.pipes {
            let mut s = p.lock().unwrap();
            s.closed = true;
            s.wake();
        }
        self.progress += 1;
    }

    fn poll_behaviour(&mut self, i: usize) {
        let outs = self.nodes[i].poll_all();
        for o in outs {
            self.progress += 1;
            match &o {
                Out::Event(e) => trace!("  node{i} event {e:?}"),
                Out::SendWantlist { peer, conn, wantlist } => trace!("  node{i} SendWantlist to {peer} conn {conn} full={} n={}", wantlist.full, wantlist.entries.len()),
                Out::SendBlocks { peer, blocks, .. } => trace!("  node{i} SendBlocks to {peer} n={}", blocks.len()),
                Out::Other => {}
            }
            match o {
                Out::Event(Event::GetQueryResponse { query_id, data }) => self.query_event(i, beetswap::verif::client::query_id(query_id), true, data),
                Out::Event(Event::GetQueryError { query_id, .. }) => self.query_event(i, beetswap::verif::client::query_id(query_id), false, vec![]),
                Out::SendWantlist { peer, conn, wantlist } => {
                    // NotifyHandler::One(conn): dropped if the connection is gone
                    if let Some(c) = self.conns.iter_mut().find(|c| c.id == conn) {
                        let h = if c.a == i && c.b == peer { Some(&mut c.ha) } else if c.b == i && c.a == peer { Some(&mut c.hb) } else { None };
                        if let Some(h) = h {
                            h.on_behaviour_event(ToHandlerEvent::SendWantlist(wantlist));
                        }
                    }
                }
                Out::SendBlocks { peer, blocks, .. } => {
                    // NotifyHandler::Any: some connection to that peer, dropped if there is none
                    if let Some(c) = self.conns.iter_mut().find(|c| (c.a == i && c.b == peer) || (c.b == i && c.a == peer)) {
                        trace!("      -> handler of conn{}", c.id);
                        let h = if c.a == i { &mut c.ha } else { &mut c.hb };
                        h.on_behaviour_event(ToHandlerEvent::QueueOutgoingMessages(blocks));
                    }
                }
                Out::Other => {}
            }
        }
        for (id, kind) in self.nodes[i].store.take_new_calls() {
            self.open_calls[i].push((id, kind));
            self.progress += 1;
        }
    }

    fn query_event(&mut self, node: usize, qid: u64, resp: bool, data: Vec<u8>) {
        match self.queries.iter_mut().find(|q| q.node == node && q.qid == qid) {
            Some(q) => q.events.push((resp, data)),
            None => self.foreign_events += 1,
        }
    }

    /// complete one blockstore call of node i against its (healthy) store
    fn release(&mut self, i: usize, k: usize) {
        let (id, kind) = self.open_calls[i].remove(k);
        let r = match kind {
            CallKind::Get(c) => match self.content[i].get(&c.to_bytes()) {
                Some(d) => Release::Hit(d.clone()),
                None => Release::Miss,
            },
            CallKind::PutMany(blocks) => {
                for (c, d) in blocks {
                    self.content[i].insert(c.to_bytes(), d);
                }
                Release::Hit(vec![])
            }
        };
        self.nodes[i].store.release(id, r);
        self.progress += 1;
    }

    fn poll_handler(&mut self, idx: usize, side_a: bool) {
        let waker = noop_waker();
        let mut cx = Context::from_waker(&waker);
        let before: u64 = self.conns[idx].pipes.iter().map(|p| p.lock().unwrap().moved).sum();
        for _ in 0..200 {
            let c = &mut self.conns[idx];
            let (me, other) = if side_a { (c.a, c.b) } else { (c.b, c.a) };
            let id = c.id;
            let h = if side_a { &mut c.ha } else { &mut c.hb };
            match h.poll(&mut cx) {
                Poll::Ready(ConnectionHandlerEvent::NotifyBehaviour(ev)) => {
                    self.progress += 1;
                    trace!("  handler node{me} conn{id} -> behaviour: {}", { let d = format!("{ev:?}"); d[..d.len().min(60)].to_string() });
                    if let beetswap::verif::ToBehaviourEvent::IncomingMessage(_, m) = &ev {
                        let parts = beetswap::verif::incoming_parts(m);
                        trace!("      blocks={:?} presences={:?} wantlist={:?}", parts.blocks.as_ref().map(|b| b.iter().map(|(c, d)| (c.to_string(), d.len())).collect::<Vec<_>>()), parts.presences.as_ref().map(|p| p.len()), parts.wantlist.as_ref().map(|w| (w.full, w.entries.len())));
                    }
                    self.nodes[me].handler_event(other, id, ev);
                }
                Poll::Ready(ConnectionHandlerEvent::OutboundSubstreamRequest { protocol }) => {
                    let (_up, info) = protocol.into_upgrade();
                    let is_client = matches!(info, StreamRequester::Client);
                    trace!("  handler node{me} conn{id} requests a {} stream", if is_client { "client" } else { "server" });
                    // the negotiation takes a round trip: it completes at a later scheduling step
                    self.pending_neg.push((id, side_a, is_client));
                }
                Poll::Ready(_) => {}
                Poll::Pending => break,
            }
        }
        let after: u64 = self.conns[idx].pipes.iter().map(|p| p.lock().unwrap().moved).sum();
        if after != before {
            self.progress += 1;
        }
        // a handler that gave up lets the connection close
        let c = &self.conns[idx];
        let keep = if side_a { c.ha.connection_keep_alive() } else { c.hb.connection_keep_alive() };
        if !keep {
            self.disconnect(idx);
        }
    }

    /// finish the oldest (or the k-th) pending substream negotiation
    fn complete_negotiation(&mut self, k: usize) {
        let (id, side_a, is_client) = self.pending_neg.remove(k);
        let Some(idx) = self.conns.iter().position(|c| c.id == id) else { return };
        let c = &mut self.conns[idx];
        let (local, remote) = if side_a { (&mut c.ha, &mut c.hb) } else { (&mut c.hb, &mut c.ha) };
        let wanted: Vec<String> = local.listen_protocol().upgrade().protocol_info().map(|p| p.as_ref().to_string()).collect();
        let offered: Vec<String> = remote.listen_protocol().upgrade().protocol_info().map(|p| p.as_ref().to_string()).collect();
        // (a node requests the same protocol name it listens on: C20_single_name, observed by the builder engine)
        if wanted == offered {
            let st = Arc::new(Mutex::new(PipeState::default()));
            handler_push_inbound_stream(remote, Box::new(PipeReader(st.clone(), self.rng.clone())));
            if is_client {
                handler_set_client_stream(local, Box::new(PipeWriter(st.clone())));
            } else {
                handler_set_server_stream(local, Box::new(PipeWriter(st.clone())));
            }
            c.pipes.push(st);
            self.progress += 1;
        } else if is_client {
            // multistream-select finds no common protocol: DialUpgradeError; a failed negotiation is not progress
            // (the handler retries until its 5 s start timeout, which needs time to pass)
            handler_client_stream_failed(local);
        }
    }

    fn step(&mut self, rng: &mut Rng) {
        if !self.pending_neg.is_empty() && rng.chance(1, 3) {
            let k = rng.usize(self.pending_neg.len());
            self.complete_negotiation(k);
            return;
        }
        match rng.below(4) {
            0 => {
                let i = rng.usize(self.nodes.len());
                self.poll_behaviour(i);
            }
            1 | 2 => {
                if !self.conns.is_empty() {
                    let idx = rng.usize(self.conns.len());
                    self.poll_handler(idx, rng.chance(1, 2));
                }
            }
            _ => {
                let i = rng.usize(self.nodes.len());
                if !self.open_calls[i].is_empty() {
                    let k = rng.usize(self.open_calls[i].len());
                    self.release(i, k);
                }
            }
        }
    }

    /// deterministic fair rounds until nothing moves any more
    fn quiesce(&mut self) -> bool {
        for _ in 0..400 {
            let before = self.progress;
            for i in 0..self.nodes.len() {
                self.poll_behaviour(i);
                while !self.open_calls[i].is_empty() {
                    self.release(i, 0);
                }
                self.poll_behaviour(i);
            }
            while !self.pending_neg.is_empty() {
                self.complete_negotiation(0);
            }
            let mut k = 0;
            while k < self.conns.len() {
                let id = self.conns[k].id;
                self.poll_handler(k, true);
                if k < self.conns.len() && self.conns[k].id == id {
                    self.poll_handler(k, false);
                }
                if k < self.conns.len() && self.conns[k].id == id {
                    k += 1;
                }
            }
            if self.progress == before {
                return true;
            }
        }
        false
    }
}

fn history(rng: &mut Rng, len: usize, seed: u64) -> Case {
    let n = 2 + rng.usize(3);
    let mixed_prefixes = rng.chance(1, 5);
    let prefixes: Vec<Option<&'static str>> = (0..n)
        .map(|_| if mixed_prefixes { *rng.pick(&[None, Some("/a"), Some("/b")]) } else { None })
        .collect();
    let mut net = Net::new(n, prefixes.clone(), seed);
    let ncids = 2 + rng.usize(3);
    let cids: Vec<(Cid64, Vec<u8>)> = (0..ncids).map(|i| { let d = vec![i as u8, 42, 7]; (honest_cid::<64>(rng, &d), d) }).collect();
    let mut tags = vec![format!("nodes{n}"), if mixed_prefixes { "prefixes/mixed".into() } else { "prefixes/none".into() }];
    // initial placement of blocks
    for (c, d) in &cids {
        for i in 0..n {
            if rng.chance(1, 3) {
                net.content[i].insert(c.to_bytes(), d.clone());
            }
        }
    }
    for _ in 0..len {
        match rng.below(30) {
            0..=2 => {
                let a = rng.usize(n);
                let b = rng.usize(n);
                if a != b && net.conns.iter().filter(|c| (c.a == a && c.b == b) || (c.a == b && c.b == a)).count() < 3 {
                    net.connect(a, b);
                    tags.push("op/connect".into());
                }
            }
            3 => {
                if !net.conns.is_empty() && rng.chance(1, 2) {
                    let k = rng.usize(net.conns.len());
                    net.disconnect(k);
                    tags.push("op/disconnect".into());
                }
            }
            4..=7 => {
                let i = rng.usize(n);
                let ci = rng.usize(ncids);
                let q = beetswap::verif::client::query_id(net.nodes[i].b.get(&cids[ci].0));
                trace!("  node{i} get cid{ci} -> q{q}");
                net.queries.push(Query { node: i, qid: q, cid: ci, cancelled: false, events: vec![] });
                tags.push("op/get".into());
            }
            8 => {
                if !net.queries.is_empty() {
                    let k = rng.usize(net.queries.len());
                    let q = &mut net.queries[k];
                    if q.events.is_empty() {
                        q.cancelled = true;
                    }
                    let (node, qid) = (q.node, q.qid);
                    net.nodes[node].b.cancel(beetswap::verif::client::query_id_from(qid));
                    tags.push("op/cancel".into());
                }
            }
            9 => {
                let i = rng.usize(n);
                let ci = rng.usize(ncids);
                net.content[i].insert(cids[ci].0.to_bytes(), cids[ci].1.clone());
                tags.push("op/local_put".into());
            }
            10 => {
                let i = rng.usize(n);
                let ci = rng.usize(ncids);
                if net.content[i].remove(&cids[ci].0.to_bytes()).is_some() {
                    tags.push("op/evict".into());
                }
            }
            11 => {
                // time passes only between task switches that have all happened: no component is starved for
                // a second or more (such timing faults are the business of the client / handler engines, C05)
                net.quiesce();
                let ms = *rng.pick(&[200u64, 1000, 5000, 30000]);
                clock::set_now_ms(clock::now_ms() + ms);
                tags.push("op/advance".into());
            }
            _ => net.step(rng),
        }
    }
    // fault-free continuation: settle, one refresh period, settle (twice: a full wantlist may be held back by a
    // transmission that was still outstanding when the timer fired)
    trace!("== final settle");
    let mut settled = net.quiesce();
    for _ in 0..2 {
        clock::set_now_ms(clock::now_ms() + 30_000);
        trace!("== +30s");
        settled &= net.quiesce();
    }

    // ---- the observation handed to the oracle
    let nodes_j: Vec<J> = (0..n)
        .map(|i| {
            let held: Vec<J> = cids.iter().enumerate().filter(|(_, (c, _))| net.content[i].contains_key(&c.to_bytes())).map(|(k, _)| J::us(k)).collect();
            let cs = client_snapshot(&net.nodes[i].b);
            let wants: Vec<J> = cs.wantlist.cids.iter().map(|c| J::us(cids.iter().position(|(x, _)| x == c).unwrap())).collect();
            let ss = server_snapshot(&net.nodes[i].b);
            let records: Vec<J> = ss
                .peers_wantlists
                .iter()
                .map(|(p, l)| {
                    J::T(vec![J::us(net.nodes[i].peer_index(p)), J::L(l.iter().map(|c| J::us(cids.iter().position(|(x, _)| x == c).unwrap())).collect())])
                })
                .collect();
            J::C(
                "NNode",
                vec![J::us(match net.prefixes[i] { None => 0, Some("/a") => 1, _ => 2 }), J::L(held), J::L(wants), J::L(records), J::us(cs.tasks_len + ss.tasks_len)],
            )
        })
        .collect();
    let conns_j: Vec<J> = net.conns.iter().map(|c| J::T(vec![J::us(c.a), J::us(c.b)])).collect();
    let queries_j: Vec<J> = net
        .queries
        .iter()
        .map(|q| {
            J::C(
                "NQuery",
                vec![
                    J::us(q.node),
                    J::n(q.qid),
                    J::us(q.cid),
                    J::B(q.cancelled),
                    J::L(q.events.iter().map(|(r, d)| J::T(vec![J::B(*r), J::B(*d == cids[q.cid].1)])).collect()),
                ],
            )
        })
        .collect();
    tags.sort();
    tags.dedup();
    Case {
        input: J::T(vec![J::us(n), J::us(ncids)]),
        output: J::C("NObs", vec![J::B(settled), J::L(nodes_j), J::L(conns_j), J::L(queries_j), J::us(net.foreign_events)]),
        tags,
        nontrivial: !net.queries.is_empty(),
    }
}

pub fn run(seed: u64, n: usize, _tier: &str) {
    let mut rng = Rng::new(seed);
    let only: Option<usize> = std::env::var("BSVERIF_ONLY").ok().and_then(|s| s.parse().ok());
    for i in 0..n {
        let len = 20 + rng.usize(if i % 4 == 0 { 200 } else { 80 });
        if only.is_some() && only != Some(i) {
            // keep the PRNG stream aligned: run silently
            let saved = std::env::var("BSVERIF_TRACE").ok();
            std::env::remove_var("BSVERIF_TRACE");
            let _ = history(&mut rng, len, seed.wrapping_add(i as u64));
            if let Some(v) = saved { std::env::set_var("BSVERIF_TRACE", v); }
            continue;
        }
        history(&mut rng, len, seed.wrapping_add(i as u64)).print();
    }
}
