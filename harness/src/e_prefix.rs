//! Engine `prefix`: CidPrefix::{from_bytes, to_bytes, from_cid, to_cid} against the Coq model
//! (Corr_prefix.v).  Serves C12 (and the prefix part of C08).
use std::panic::{catch_unwind, AssertUnwindSafe};

use beetswap::multihasher::{MultihasherError, StandardMultihasher};
use beetswap::verif::{HasherTable, Prefix};
use cid::CidGeneric;

use crate::gen::*;
use crate::json::{Case, J};
use crate::rng::Rng;

fn prefix_j(p: &Prefix) -> J {
    // CidPrefix { version: V1, codec: 85, multihash_code: 18, multihash_size: 32 }
    let d = p.debug();
    let field = |name: &str| -> u128 {
        let at = d.find(name).unwrap_or_else(|| panic!("no field {name} in {d}")) + name.len();
        let rest = &d[at..];
        let end = rest
            .find(|c: char| !c.is_ascii_digit())
            .unwrap_or(rest.len());
        rest[..end].parse().unwrap()
    };
    let ver = if d.contains("version: V0") {
        J::c0("V0")
    } else {
        J::c0("V1")
    };
    J::C(
        "MkPrefix",
        vec![
            ver,
            J::N(field("codec: ")),
            J::N(field("multihash_code: ")),
            J::N(field("multihash_size: ")),
        ],
    )
}

fn err_j(e: &MultihasherError) -> J {
    match e {
        MultihasherError::UnknownMultihashCode => J::c0("UnknownMultihashCode"),
        MultihasherError::InvalidMultihashSize => J::c0("InvalidMultihashSize"),
        MultihasherError::Custom(_) => J::c0("CustomErr"),
        MultihasherError::CustomFatal(_) => J::c0("CustomFatalErr"),
    }
}

fn to_cid_case<const S: usize>(pbytes: &[u8], data: &[u8]) -> (J, J) {
    // digests of the candidate codes, for the model's hash oracle
    let mut codes = vec![0x12u64];
    if let Some((_, r)) = leb128_read(pbytes) {
        if let Some((_, r)) = leb128_read(r) {
            if let Some((code, _)) = leb128_read(r) {
                codes.push(code);
            }
        }
    }
    codes.dedup();
    let raw: Vec<J> = codes
        .iter()
        .filter_map(|c| table_digest(*c, data).map(|d| J::T(vec![J::n(*c), J::bytes(&d)])))
        .collect();
    let input = J::C(
        "PToCid",
        vec![J::us(S), J::bytes(pbytes), J::bytes(data), J::L(raw)],
    );

    let out = match Prefix::from_bytes(pbytes) {
        None => J::c0("ToNoPrefix"),
        Some(p) => {
            let table = HasherTable::<S>::new(Vec::<StandardMultihasher>::new());
            let res = catch_unwind(AssertUnwindSafe(|| block_on(p.to_cid(&table, data))));
            match res {
                Err(_) => J::c0("ToPanic"),
                Ok(Ok(cid)) => J::C("ToOk", vec![cid_j(&cid)]),
                Ok(Err(e)) => J::C("ToErr", vec![err_j(&e)]),
            }
        }
    };
    (input, J::C("PoToCid", vec![out]))
}

const ALPHABET: &[u8] = &[0x00, 0x01, 0x02, 0x12, 0x20, 0x55, 0x70, 0x7f, 0x80, 0xff];

fn from_bytes_case(bs: &[u8]) -> Case {
    let out = catch_unwind(|| Prefix::from_bytes(bs));
    let (o, nt) = match out {
        Err(_) => (J::c0("PoPanic"), true),
        Ok(None) => (J::C("PoPrefix", vec![J::none()]), false),
        Ok(Some(p)) => (J::C("PoPrefix", vec![J::some(prefix_j(&p))]), true),
    };
    Case {
        input: J::C("PFromBytes", vec![J::bytes(bs)]),
        output: o,
        tags: vec![format!("from_bytes/len{}", bs.len().min(12))],
        nontrivial: nt,
    }
}

fn roundtrip_case<const S: usize>(cid: &CidGeneric<S>) -> Case {
    let p = Prefix::from_cid(cid);
    let bytes = p.to_bytes();
    let back = Prefix::from_bytes(&bytes);
    Case {
        input: J::C("PRoundtrip", vec![cid_j(cid)]),
        output: J::C(
            "PoRound",
            vec![
                prefix_j(&p),
                J::bytes(&bytes),
                J::opt(back.as_ref().map(prefix_j)),
            ],
        ),
        tags: vec![format!(
            "roundtrip/v{}/prefixlen{}",
            cid.version() as u64,
            bytes.len()
        )],
        nontrivial: true,
    }
}

pub fn run(seed: u64, n: usize, tier: &str) {
    let mut rng = Rng::new(seed);

    // exhaustive short strings over the boundary alphabet
    let depth = if tier == "thorough" { 5 } else { 4 };
    let mut stack: Vec<Vec<u8>> = vec![vec![]];
    while let Some(s) = stack.pop() {
        from_bytes_case(&s).print();
        // whatever parses also goes through to_cid (that is where an ill-formed prefix would panic)
        if Prefix::from_bytes(&s).is_some() {
            let (i, o) = to_cid_case::<64>(&s, &[1, 2, 3]);
            Case { input: i, output: o, tags: vec!["to_cid/exhaustive".into()], nontrivial: true }.print();
        }
        if s.len() < depth {
            for b in ALPHABET {
                let mut t = s.clone();
                t.push(*b);
                stack.push(t);
            }
        }
    }

    // every code of the table x v0/v1: honest cids, roundtrip and rebuild
    for code in TABLE_CODES {
        let data = small_data(&mut rng);
        let digest = table_digest(*code, &data).unwrap();
        if let Ok(mh) = multihash::Multihash::<64>::wrap(*code, &digest) {
            let cid = CidGeneric::<64>::new_v1(0x55, mh);
            roundtrip_case(&cid).print();
            let pb = Prefix::from_cid(&cid).to_bytes();
            let (i, o) = to_cid_case::<64>(&pb, &data);
            Case { input: i, output: o, tags: vec![format!("to_cid/table/{code:#x}")], nontrivial: true }.print();
            let (i, o) = to_cid_case::<32>(&pb, &data);
            Case { input: i, output: o, tags: vec![format!("to_cid/table32/{code:#x}")], nontrivial: true }.print();
        }
    }

    // grid: version x codec x every table code x declared size, through from_bytes + to_cid
    for ver in [0u64, 1, 2, 0x12] {
        for codec in [0x70u64, 0x55, 0x20] {
            for code in TABLE_CODES {
                for size in [0u64, 20, 32, 64, 65, 255, 256, 288, 65568, 1 << 32, u64::MAX] {
                    let mut bs = leb128(ver);
                    bs.extend(leb128(codec));
                    bs.extend(leb128(*code));
                    bs.extend(leb128(size));
                    let (i, o) = to_cid_case::<64>(&bs, &[9, 9]);
                    let nt = !matches!(&o, J::C(_, a) if a[0] == J::c0("ToNoPrefix"));
                    Case { input: i, output: o, tags: vec![format!("to_cid/grid/v{ver}")], nontrivial: nt }.print();
                }
            }
        }
    }

    // roundtrip grid: every version x codec x hash code x digest length around the special CIDv0 form
    // (dag-pb, sha2-256, 32 bytes), which only a CIDv0 may use
    for codec in [0x55u64, 0x70, 0x71, 0, 0x80] {
        for code in [0x12u64, 0x13, 0x11, 0x1b, 0] {
            for len in [0usize, 20, 31, 32, 33, 64] {
                let d: Vec<u8> = (0..len).map(|i| (i as u8).wrapping_mul(7).wrapping_add(code as u8)).collect();
                let cid = CidGeneric::<64>::new_v1(codec, multihash::Multihash::<64>::wrap(code, &d).unwrap());
                roundtrip_case(&cid).print();
            }
        }
    }
    {
        let d: Vec<u8> = (0..32u8).collect();
        let cid = CidGeneric::<64>::new_v0(multihash::Multihash::<64>::wrap(0x12, &d).unwrap()).unwrap();
        roundtrip_case(&cid).print();
    }

    for _ in 0..n {
        match rng.below(10) {
            0..=2 => {
                let cid: CidGeneric<64> = if rng.chance(1, 2) {
                    let data = small_data(&mut rng);
                    honest_cid(&mut rng, &data)
                } else {
                    arbitrary_cid(&mut rng)
                };
                roundtrip_case(&cid).print();
            }
            3 => {
                let n = rng.usize(14);
                let mut bs = rng.bytes(n);
                // bias towards varint-like shapes
                for b in bs.iter_mut() {
                    if rng.chance(1, 2) {
                        *b = *rng.pick(ALPHABET);
                    }
                }
                from_bytes_case(&bs).print();
            }
            4 | 5 => {
                // structured prefix: four varints with boundary values, maybe truncated/extended
                let ver = *rng.pick(&[0u64, 1, 1, 1, 2, 0x12, 66]);
                let mut bs = leb128(ver);
                bs.extend(leb128(match rng.below(8) { 0 | 1 => 0x20, 2 | 3 => 0x70, 4 => 0x55, _ => rng.boundary_u64() }));
                bs.extend(leb128(if rng.chance(1, 2) { *rng.pick(TABLE_CODES) } else { rng.boundary_u64() }));
                bs.extend(leb128(if rng.chance(1, 2) { rng.below(70) } else { rng.boundary_u64() }));
                if rng.chance(1, 5) {
                    let cut = rng.usize(bs.len() + 1);
                    bs.truncate(cut);
                }
                if rng.chance(1, 5) {
                    bs.extend(rng.bytes(3));
                }
                if rng.chance(1, 2) {
                    from_bytes_case(&bs).print();
                } else {
                    let data = small_data(&mut rng);
                    let (i, o) = if rng.chance(1, 2) { to_cid_case::<64>(&bs, &data) } else { to_cid_case::<32>(&bs, &data) };
                    let nt = !matches!(&o, J::C(_, a) if a[0] == J::c0("ToNoPrefix"));
                    Case { input: i, output: o, tags: vec!["to_cid/structured".into()], nontrivial: nt }.print();
                }
            }
            _ => {
                // rebuild: prefix of an honest cid, with right or wrong data
                let data = small_data(&mut rng);
                let cid: CidGeneric<64> = honest_cid(&mut rng, &data);
                let pb = Prefix::from_cid(&cid).to_bytes();
                let other = if rng.chance(1, 2) { data.clone() } else { small_data(&mut rng) };
                let tag = if other == data { "to_cid/right_data" } else { "to_cid/wrong_data" };
                let (i, o) = match rng.below(3) {
                    0 => to_cid_case::<64>(&pb, &other),
                    1 => to_cid_case::<32>(&pb, &other),
                    _ => to_cid_case::<20>(&pb, &other),
                };
                Case { input: i, output: o, tags: vec![tag.into()], nontrivial: true }.print();
            }
        }
    }
}
