//! Engine `connhandler`: ONE real `ConnHandler` (lib.rs) as a whole — client half, server half and the inbound
//! `SelectAll<IncomingStream>` at the same time — against coq/theories/ConnHandler.v (Corr_connhandler.v).
//!
//! * the two halves write to two different scripted substreams (convention S1-S6 of FramedWrite.v); a `KPoll`
//!   carries one script per half, neither is reset between the successive calls of `ConnectionHandler::poll`
//!   inside the op;
//! * inbound streams are scripted readers (read events as in e_conn.rs); a reader never wakes by itself, the
//!   engine wakes every reader that returned Pending at the START of each `KPoll`;
//! * one `KPoll` = `ConnectionHandler::poll` until it returns Pending (wake-ups during the op are ignored);
//! * everything observable goes to ONE log in program order: handler -> behaviour events, substream requests
//!   with their requester, bytes accepted per stream, streams closed / dropped;
//! * after every op: both `HandlerSnapshot`s, the number of live inbound streams, `connection_keep_alive()`.
use std::cell::RefCell;
use std::collections::VecDeque;
use std::io;
use std::panic::{catch_unwind, AssertUnwindSafe};
use std::pin::Pin;
use std::sync::{Arc, Mutex};
use std::task::{Context, Poll, Waker};

use beetswap::verif::clock;
use beetswap::verif::proto::mod_Message::mod_Wantlist::{Entry, WantType};
use beetswap::verif::proto::mod_Message::{Block, BlockPresence, BlockPresenceType, Wantlist};
use beetswap::verif::proto::Message;
use beetswap::verif::{
    client_handler_snapshot, handler_inbound_streams, handler_push_inbound_stream, handler_set_client_stream,
    handler_set_server_stream, incoming_parts, server_handler_snapshot, ConnHandler, HasherTable, Prefix, SendingState,
    StreamRequester, ToBehaviourEvent, ToHandlerEvent,
};
use futures::io::{AsyncRead, AsyncWrite};
use futures::task::noop_waker;
use libp2p_core::upgrade::ReadyUpgrade;
use libp2p_swarm::handler::{ConnectionEvent, DialUpgradeError};
use libp2p_swarm::{ConnectionHandler, ConnectionHandlerEvent, StreamProtocol, StreamUpgradeError};

use crate::e_codec::{chk, encode, gen_entry};
use crate::e_handler::Io;
use crate::e_hasher::hres_j;
use crate::e_incoming::wantlist_j;
use crate::gen::*;
use crate::json::{Case, J};
use crate::node::*;
use crate::rng::Rng;

const CLIENT: usize = 0;
const SERVER: usize = 1;

fn io_j(x: &Io) -> J {
    match x {
        Io::WAccept(n) => J::C("WAccept", vec![J::us(*n)]),
        Io::WZero => J::c0("WZero"),
        Io::IoErr => J::c0("IoErr"),
        Io::IoPending => J::c0("IoPending"),
        Io::FlushOk => J::c0("FlushOk"),
        Io::CloseOk => J::c0("CloseOk"),
    }
}

fn script_j(s: &[Io]) -> J {
    J::L(s.iter().map(io_j).collect())
}

/// The scripts of the current op (one per half) and the single log of everything observable.
#[derive(Default)]
struct Shared {
    scripts: [VecDeque<Io>; 2],
    log: Vec<J>,
}

thread_local! {
    // RawStream must be Send; the harness is single threaded, so the shared state lives in a thread local
    static SHARED: RefCell<Shared> = RefCell::new(Shared::default());
}

fn with<R>(f: impl FnOnce(&mut Shared) -> R) -> R {
    SHARED.with(|s| f(&mut s.borrow_mut()))
}

fn ev_client(o: J) -> J {
    J::C("EClient", vec![o])
}
fn ev_server(o: J) -> J {
    J::C("EServer", vec![o])
}

/// outbound substream of one half
struct OutStream {
    half: usize,
    id: usize,
}

impl AsyncRead for OutStream {
    fn poll_read(self: Pin<&mut Self>, _cx: &mut Context<'_>, _buf: &mut [u8]) -> Poll<io::Result<usize>> {
        Poll::Pending
    }
}

impl AsyncWrite for OutStream {
    fn poll_write(self: Pin<&mut Self>, _cx: &mut Context<'_>, buf: &[u8]) -> Poll<io::Result<usize>> {
        let (half, id) = (self.half, self.id);
        with(|s| match s.scripts[half].pop_front() {
            Some(Io::WAccept(n)) => {
                let k = n.min(buf.len());
                if k > 0 {
                    let w = vec![J::us(id), J::bytes(&buf[..k])];
                    s.log.push(if half == CLIENT { ev_client(J::C("HWrote", w)) } else { ev_server(J::C("SHWrote", w)) });
                }
                Poll::Ready(Ok(k))
            }
            Some(Io::WZero) => Poll::Ready(Ok(0)),
            Some(Io::IoErr) => Poll::Ready(Err(io::Error::other("scripted"))),
            _ => Poll::Pending,
        })
    }

    fn poll_flush(self: Pin<&mut Self>, _cx: &mut Context<'_>) -> Poll<io::Result<()>> {
        let half = self.half;
        with(|s| match s.scripts[half].pop_front() {
            Some(Io::FlushOk) => Poll::Ready(Ok(())),
            Some(Io::IoErr) => Poll::Ready(Err(io::Error::other("scripted"))),
            _ => Poll::Pending,
        })
    }

    fn poll_close(self: Pin<&mut Self>, _cx: &mut Context<'_>) -> Poll<io::Result<()>> {
        let (half, id) = (self.half, self.id);
        with(|s| match s.scripts[half].pop_front() {
            Some(Io::CloseOk) => {
                if half == CLIENT {
                    s.log.push(ev_client(J::C("HStreamClosed", vec![J::us(id)])));
                }
                Poll::Ready(Ok(()))
            }
            Some(Io::IoErr) => Poll::Ready(Err(io::Error::other("scripted"))),
            _ => Poll::Pending,
        })
    }
}

impl Drop for OutStream {
    fn drop(&mut self) {
        let (half, id) = (self.half, self.id);
        with(|s| {
            s.log.push(if half == CLIENT {
                ev_client(J::C("HDropped", vec![J::us(id)]))
            } else {
                ev_server(J::C("SHDropped", vec![J::us(id)]))
            })
        })
    }
}

fn gen_script(rng: &mut Rng, progress: bool) -> Vec<Io> {
    let n = rng.usize(7);
    (0..n)
        .map(|_| {
            if progress {
                match rng.below(8) {
                    0 => Io::WAccept(1 + rng.usize(3)),
                    1..=3 => Io::WAccept(1 << 20),
                    4 | 5 => Io::FlushOk,
                    6 => Io::CloseOk,
                    _ => Io::IoPending,
                }
            } else {
                match rng.below(12) {
                    0 => Io::WAccept(1 + rng.usize(5)),
                    1 | 2 => Io::WAccept(1 << 20),
                    3 => Io::WAccept(0),
                    4 => Io::WZero,
                    5 => Io::IoErr,
                    6 | 7 => Io::IoPending,
                    8 | 9 => Io::FlushOk,
                    _ => Io::CloseOk,
                }
            }
        })
        .collect()
}

// ------------------------------------------------------------------------------------------ inbound side

#[derive(Clone, Debug)]
enum Ev {
    Chunk(Vec<u8>),
    Eof,
    Err,
    Pending,
}

type Wakers = Arc<Mutex<Vec<Waker>>>;

/// scripted inbound substream: never wakes by itself; every Pending leaves its waker with the engine
struct Reader {
    q: Arc<Mutex<VecDeque<Ev>>>,
    wakers: Wakers,
}

impl AsyncRead for Reader {
    fn poll_read(self: Pin<&mut Self>, cx: &mut Context<'_>, out: &mut [u8]) -> Poll<io::Result<usize>> {
        let mut q = self.q.lock().unwrap();
        match q.pop_front() {
            None | Some(Ev::Pending) => {
                self.wakers.lock().unwrap().push(cx.waker().clone());
                Poll::Pending
            }
            Some(Ev::Eof) => Poll::Ready(Ok(0)),
            Some(Ev::Err) => Poll::Ready(Err(io::Error::other("scripted"))),
            Some(Ev::Chunk(b)) => {
                let n = b.len().min(out.len());
                out[..n].copy_from_slice(&b[..n]);
                if n < b.len() {
                    q.push_front(Ev::Chunk(b[n..].to_vec()));
                }
                Poll::Ready(Ok(n))
            }
        }
    }
}

impl AsyncWrite for Reader {
    fn poll_write(self: Pin<&mut Self>, _: &mut Context<'_>, _: &[u8]) -> Poll<io::Result<usize>> {
        Poll::Pending
    }
    fn poll_flush(self: Pin<&mut Self>, _: &mut Context<'_>) -> Poll<io::Result<()>> {
        Poll::Ready(Ok(()))
    }
    fn poll_close(self: Pin<&mut Self>, _: &mut Context<'_>) -> Poll<io::Result<()>> {
        Poll::Ready(Ok(()))
    }
}

/// a message of stream k: every element names one of the stream's own CIDs (that is how an IncomingMessage
/// event is attributed to its stream)
fn gen_msg(rng: &mut Rng, k: usize, pool: &[(Cid64, Vec<u8>)], tags: &mut Vec<String>) -> Message {
    let mut m = Message::default();
    let what = rng.below(7);
    if what <= 2 || what == 6 {
        let n = 1 + rng.usize(3);
        m.wantlist = Some(Wantlist {
            entries: (0..n)
                .map(|_| Entry {
                    block: rng.pick(pool).0.to_bytes(),
                    priority: 1,
                    cancel: rng.chance(1, 4),
                    wantType: if rng.chance(1, 2) { WantType::Have } else { WantType::Block },
                    sendDontHave: rng.chance(1, 2),
                })
                .collect(),
            full: rng.chance(1, 3),
        });
    }
    if (2..=5).contains(&what) {
        for _ in 0..1 + rng.usize(2) {
            let (c, d) = rng.pick(pool).clone();
            m.payload.push(match rng.below(8) {
                0 => {
                    tags.push("blk/unknown_code".into());
                    Block { prefix: vec![1, 0x55, 0x77, 4], data: d }
                }
                1 => {
                    tags.push("blk/wrong_data".into());
                    Block { prefix: Prefix::from_cid(&c).to_bytes(), data: vec![9, 9, k as u8] }
                }
                _ => Block { prefix: Prefix::from_cid(&c).to_bytes(), data: d },
            });
        }
    }
    if what >= 4 {
        for _ in 0..1 + rng.usize(2) {
            m.blockPresences.push(BlockPresence {
                cid: rng.pick(pool).0.to_bytes(),
                type_pb: if rng.chance(1, 2) { BlockPresenceType::Have } else { BlockPresenceType::DontHave },
            });
        }
    }
    m
}

fn stream_events(rng: &mut Rng, k: usize, pool: &[(Cid64, Vec<u8>)], tags: &mut Vec<String>) -> (Vec<Ev>, Vec<u8>) {
    let nmsgs = 1 + rng.usize(4);
    let mut bytes = Vec::new();
    for i in 0..nmsgs {
        let m = gen_msg(rng, k, pool, tags);
        let mut f = encode(&m).unwrap();
        if rng.chance(1, 8) {
            match rng.below(5) {
                0 => {
                    f = vec![0x81, 0x80, 0x80, 0x02, 1, 2];
                    tags.push(format!("bad/oversize@{i}"));
                }
                1 => {
                    f = vec![0x81, 0x00, 7];
                    tags.push(format!("bad/varint@{i}"));
                }
                2 => {
                    let mut m2 = m.clone();
                    m2.blockPresences.push(BlockPresence { cid: vec![1, 2], type_pb: BlockPresenceType::Have });
                    f = encode(&m2).unwrap();
                    tags.push(format!("bad/presence@{i}"));
                }
                3 => {
                    let mut m2 = m.clone();
                    m2.payload.push(Block { prefix: vec![7], data: vec![1] });
                    f = encode(&m2).unwrap();
                    tags.push(format!("bad/prefix@{i}"));
                }
                _ => {
                    f = vec![3, 0xff, 0xff, 0xff];
                    tags.push(format!("bad/protobuf@{i}"));
                }
            }
        }
        bytes.extend(f);
    }
    if rng.chance(1, 8) && bytes.len() > 2 {
        let cut = 1 + rng.usize(bytes.len() - 1);
        bytes.truncate(cut);
        tags.push("truncated".into());
    }
    let mut evs = Vec::new();
    let mut rest = &bytes[..];
    while !rest.is_empty() {
        let n = match rng.below(4) {
            0 => 1,
            1 => 1 + rng.usize(3),
            _ => 1 + rng.usize(rest.len()),
        }
        .min(rest.len());
        evs.push(Ev::Chunk(rest[..n].to_vec()));
        rest = &rest[n..];
        if rng.chance(1, 4) {
            evs.push(Ev::Pending);
        }
    }
    match rng.below(6) {
        0 => tags.push("end/none".into()),
        1 => {
            evs.push(Ev::Err);
            tags.push("end/err".into());
        }
        _ => {
            evs.push(Ev::Eof);
            tags.push("end/eof".into());
        }
    }
    (evs, bytes)
}

fn evs_j(evs: &[Ev]) -> J {
    J::L(evs
        .iter()
        .map(|e| match e {
            Ev::Chunk(b) => J::C("Chunk", vec![J::bytes(b)]),
            Ev::Eof => J::c0("Eof"),
            Ev::Err => J::c0("ReadErr"),
            Ev::Pending => J::c0("ReadPending"),
        })
        .collect())
}

/// the message as a Corr_incoming.iout term and the byte strings by which it is attributed to a stream
fn msg_j(parts: beetswap::verif::IncomingParts<64>) -> (J, Vec<Vec<u8>>) {
    let mut cids: Vec<Vec<u8>> = Vec::new();
    let client = match (parts.presences, parts.blocks) {
        (Some(mut p), Some(mut b)) => {
            p.sort_by_key(|(c, _)| c.to_bytes());
            b.sort_by_key(|(c, _)| c.to_bytes());
            cids.extend(p.iter().map(|(c, _)| c.to_bytes()));
            cids.extend(b.iter().map(|(c, _)| c.to_bytes()));
            cids.extend(b.iter().map(|(_, d)| d.clone()));
            J::some(J::T(vec![
                J::L(p.iter().map(|(c, h)| J::T(vec![cid_j(c), J::B(*h)])).collect()),
                J::L(b.iter().map(|(c, d)| J::T(vec![cid_j(c), J::bytes(d)])).collect()),
            ]))
        }
        _ => J::none(),
    };
    if let Some(w) = &parts.wantlist {
        cids.extend(w.entries.iter().map(|e| e.block.clone()));
    }
    (J::C("IoOk", vec![client, J::opt(parts.wantlist.as_ref().map(wantlist_j))]), cids)
}

/// answers of the built-in multihasher table on everything the streams' frames can make it hash
fn table_answers(bytes: &[u8], answers: &mut Vec<J>) {
    let table = HasherTable::<64>::new(Vec::<crate::e_hasher::ScriptHasher>::new());
    let mut buf = bytes::BytesMut::from(bytes);
    for _ in 0..16 {
        match catch_unwind(AssertUnwindSafe(|| beetswap::verif::codec_decode(&mut buf))) {
            Ok(Ok(Some(m))) => {
                for b in &m.payload {
                    let guessed = leb128_read(&b.prefix).and_then(|(_, r)| leb128_read(r)).and_then(|(_, r)| leb128_read(r)).map(|(c, _)| c);
                    for code in [0x12u64, 0x77].into_iter().chain(guessed) {
                        let r = block_on(table.hash(code, &b.data));
                        answers.push(J::T(vec![J::n(code), J::bytes(&b.data), hres_j(&r)]));
                    }
                }
            }
            _ => break,
        }
    }
}

// ------------------------------------------------------------------------------------------ the run

fn ss_j(s: &SendingState) -> J {
    match s {
        SendingState::Ready => J::c0("SsReady"),
        SendingState::Requested(t, c) => J::C("SsRequested", vec![J::n(t.0), J::us(conn_number(*c))]),
        SendingState::RequestReceived(t, c) => J::C("SsRequestReceived", vec![J::n(t.0), J::us(conn_number(*c))]),
        SendingState::Sending(t, c) => J::C("SsSending", vec![J::n(t.0), J::us(conn_number(*c))]),
        SendingState::Failed(c) => J::C("SsFailed", vec![J::us(conn_number(*c))]),
    }
}

fn report_j(s: &SendingState) -> J {
    match s {
        SendingState::Ready => J::c0("RpReady"),
        SendingState::Requested(_, c) => J::C("RpRequested", vec![J::us(conn_number(*c))]),
        SendingState::RequestReceived(_, c) => J::C("RpRequestReceived", vec![J::us(conn_number(*c))]),
        SendingState::Sending(_, c) => J::C("RpSending", vec![J::us(conn_number(*c))]),
        SendingState::Failed(c) => J::C("RpFailed", vec![J::us(conn_number(*c))]),
    }
}

type HEvent = ConnectionHandlerEvent<ReadyUpgrade<StreamProtocol>, StreamRequester, ToBehaviourEvent<64>>;

struct Run {
    h: ConnHandler<64>,
    ops: Vec<J>,
    obs: Vec<J>,
    next_stream: [usize; 2],
    /// an OutboundSubstreamRequest of that half is unanswered
    open_request: [bool; 2],
    last_report_ready: bool,
    closed: bool,
    wakers: Wakers,
    /// per inbound stream: its pool of CIDs (attribution)
    pools: Vec<Vec<(Cid64, Vec<u8>)>>,
    n_incoming: usize,
    unattributed: bool,
    server_opened_after_client_pending: bool,
}

impl Run {
    fn log(&mut self, j: J) {
        with(|s| s.log.push(j));
    }

    fn snap(&self) -> J {
        let c = client_handler_snapshot(&self.h);
        let s = server_handler_snapshot(&self.h);
        J::T(vec![
            J::C(
                "HSnap",
                vec![J::us(c.queue_len), J::B(c.has_msg), J::n(c.sink_state), ss_j(&c.sending_state), J::B(c.closing), J::B(c.halted), J::B(c.has_timeout)],
            ),
            J::C(
                "SHSnap",
                vec![J::n(s.sink_state), J::opt(s.pending.map(|v| J::L(v.iter().map(|(a, b)| J::T(vec![J::us(*a), J::us(*b)])).collect())))],
            ),
            J::us(handler_inbound_streams(&self.h)),
            J::B(self.h.connection_keep_alive()),
        ])
    }

    fn record(&mut self, op: J) {
        let outs = with(|s| std::mem::take(&mut s.log));
        self.ops.push(op);
        let snap = self.snap();
        self.obs.push(J::T(vec![J::L(outs), snap]));
    }

    fn attribute(&self, cids: &[Vec<u8>]) -> usize {
        self.pools
            .iter()
            .enumerate()
            .position(|(k, p)| p.iter().any(|(c, _)| cids.iter().any(|x| *x == c.to_bytes() || *x == vec![9u8, 9, k as u8])))
            .unwrap_or(usize::MAX)
    }

    fn handle_event(&mut self, ev: HEvent) {
        match ev {
            ConnectionHandlerEvent::NotifyBehaviour(ToBehaviourEvent::IncomingMessage(_, m)) => {
                let (j, cids) = msg_j(incoming_parts(&m));
                let k = self.attribute(&cids);
                if k == usize::MAX {
                    self.unattributed = true;
                }
                self.n_incoming += 1;
                self.log(J::C("EIncoming", vec![J::us(if k == usize::MAX { 999 } else { k }), j]));
            }
            ConnectionHandlerEvent::NotifyBehaviour(ToBehaviourEvent::SendingStateChanged(_, st)) => {
                self.last_report_ready = matches!(st, SendingState::Ready);
                self.log(ev_client(J::C("HReport", vec![report_j(&st)])));
            }
            ConnectionHandlerEvent::NotifyBehaviour(ToBehaviourEvent::ClientClosingConnection(_, _)) => self.log(ev_client(J::c0("HClosing"))),
            ConnectionHandlerEvent::OutboundSubstreamRequest { protocol } => match protocol.info() {
                StreamRequester::Client => {
                    self.open_request[CLIENT] = true;
                    self.log(ev_client(J::c0("HOpenStream")));
                }
                StreamRequester::Server => {
                    self.open_request[SERVER] = true;
                    self.log(ev_server(J::c0("SHOpenStream")));
                }
            },
            // nothing else is ever produced by this handler
            _ => self.log(J::c0("EUnexpected")),
        }
    }

    /// false: the poll panicked, the run is over
    fn poll(&mut self, sc: Vec<Io>, ss: Vec<Io>) -> bool {
        with(|s| {
            s.scripts[CLIENT] = sc.iter().copied().collect();
            s.scripts[SERVER] = ss.iter().copied().collect();
        });
        // "more data may have arrived": every reader that returned Pending is woken
        let ws: Vec<Waker> = std::mem::take(&mut *self.wakers.lock().unwrap());
        for w in ws {
            w.wake();
        }
        let waker = noop_waker();
        let mut cx = Context::from_waker(&waker);
        let mut ok = true;
        for _ in 0..10_000 {
            let r = catch_unwind(AssertUnwindSafe(|| self.h.poll(&mut cx)));
            match r {
                Ok(Poll::Ready(ev)) => self.handle_event(ev),
                Ok(Poll::Pending) => break,
                Err(_) => {
                    self.log(J::c0("EInFatal"));
                    ok = false;
                    break;
                }
            }
        }
        with(|s| {
            s.scripts[CLIENT].clear();
            s.scripts[SERVER].clear();
        });
        self.record(J::C("KPoll", vec![script_j(&sc), script_j(&ss)]));
        ok
    }

    fn poll_close(&mut self, sc: Vec<Io>) {
        with(|s| s.scripts[CLIENT] = sc.iter().copied().collect());
        let waker = noop_waker();
        let mut cx = Context::from_waker(&waker);
        for _ in 0..1000 {
            match self.h.poll_close(&mut cx) {
                Poll::Ready(Some(ToBehaviourEvent::SendingStateChanged(_, st))) => self.log(ev_client(J::C("HReport", vec![report_j(&st)]))),
                Poll::Ready(Some(ToBehaviourEvent::ClientClosingConnection(_, _))) => self.log(ev_client(J::c0("HClosing"))),
                Poll::Ready(Some(_)) => self.log(J::c0("EUnexpected")),
                Poll::Ready(None) | Poll::Pending => break,
            }
        }
        with(|s| s.scripts[CLIENT].clear());
        self.closed = true;
        self.record(J::C("KPollClose", vec![script_j(&sc)]));
    }
}

fn history(rng: &mut Rng, len: usize, disciplined: bool) -> Case {
    let conn = 1 + rng.usize(5);
    let mut node = Node::new(|b| b, 1);
    let h = node.new_conn(0, conn);
    with(|s| *s = Shared::default());
    let mut run = Run {
        h,
        ops: vec![],
        obs: vec![],
        next_stream: [0, 0],
        open_request: [false, false],
        last_report_ready: true,
        closed: false,
        wakers: Arc::new(Mutex::new(Vec::new())),
        pools: vec![],
        n_incoming: 0,
        unattributed: false,
        server_opened_after_client_pending: false,
    };
    let cids: Vec<Cid64> = (0..3)
        .map(|i| {
            let d = vec![100 + i as u8];
            honest_cid::<64>(rng, &d)
        })
        .collect();
    let mut tags = vec![if disciplined { "disciplined".to_string() } else { "any".to_string() }];
    let mut answers: Vec<J> = Vec::new();
    let mut halves_busy_polls = 0usize;
    for _ in 0..len {
        if run.closed && disciplined {
            break;
        }
        let roll = {
            let c0 = client_handler_snapshot(&run.h);
            let s0 = server_handler_snapshot(&run.h);
            if c0.sink_state == 2 && s0.sink_state == 0 && s0.pending.is_none() && rng.chance(1, 2) {
                3 // the client half holds a stream and the server half has neither stream nor work: give it work
            } else if c0.sink_state == 2 && s0.sink_state == 0 && s0.pending.is_some() && rng.chance(2, 3) {
                20 // ... and poll both
            } else if run.open_request[CLIENT] && !run.closed && rng.chance(1, 2) {
                7 // answer the client half's request
            } else if run.open_request[SERVER] && rng.chance(1, 3) {
                9 // answer the server half's request
            } else if (c0.sink_state == 2 || s0.sink_state == 2) && rng.chance(1, 3) {
                20 // a half holds a stream: let it write
            } else {
                rng.below(26)
            }
        };
        match roll {
            0..=2 => {
                if !run.last_report_ready && (disciplined || rng.chance(3, 4)) {
                    continue;
                }
                let n = rng.usize(3);
                let mut w = Wantlist { entries: (0..n).map(|_| gen_entry(rng)).collect(), full: rng.chance(1, 2) };
                for e in w.entries.iter_mut() {
                    e.block = rng.pick(&cids).to_bytes();
                }
                run.last_report_ready = false;
                let wj = wantlist_j(&w);
                // a panic (debug_assert) is an outcome
                let r = catch_unwind(AssertUnwindSafe(|| run.h.on_behaviour_event(ToHandlerEvent::SendWantlist(w))));
                if r.is_err() {
                    run.log(ev_client(J::c0("HPanic")));
                }
                run.record(J::C("KSendWantlist", vec![wj]));
                tags.push("op/send_wantlist".into());
                if r.is_err() {
                    tags.push("client_panic".into());
                    break;
                }
            }
            3 | 4 => {
                let n = 1 + rng.usize(3);
                let blocks: Vec<(Vec<u8>, Vec<u8>)> = (0..n).map(|_| (rng.bytes(rng.clone().usize(5)), rng.bytes(rng.clone().usize(12)))).collect();
                let j = J::L(blocks.iter().map(|(p, d)| J::T(vec![J::bytes(p), J::bytes(d)])).collect());
                run.h.on_behaviour_event(ToHandlerEvent::QueueOutgoingMessages(blocks));
                run.record(J::C("KQueue", vec![j]));
                tags.push("op/queue".into());
            }
            5 | 6 => {
                let k = run.pools.len();
                if k >= 4 {
                    continue;
                }
                let pool: Vec<(Cid64, Vec<u8>)> = (0..2)
                    .map(|i| {
                        let d = vec![k as u8, i as u8, 5];
                        (honest_cid::<64>(rng, &d), d)
                    })
                    .collect();
                let (evs, bytes) = stream_events(rng, k, &pool, &mut tags);
                table_answers(&bytes, &mut answers);
                run.pools.push(pool);
                let q = Arc::new(Mutex::new(evs.iter().cloned().collect::<VecDeque<Ev>>()));
                handler_push_inbound_stream(&mut run.h, Box::new(Reader { q, wakers: run.wakers.clone() }));
                run.record(J::C("KInbound", vec![evs_j(&evs)]));
                tags.push("op/inbound".into());
            }
            7 | 8 => {
                if !run.open_request[CLIENT] && (disciplined || rng.chance(2, 3)) {
                    continue;
                }
                run.open_request[CLIENT] = false;
                let id = run.next_stream[CLIENT];
                run.next_stream[CLIENT] += 1;
                handler_set_client_stream(&mut run.h, Box::new(OutStream { half: CLIENT, id }));
                run.record(J::C("KSetStream", vec![J::c0("RqClient")]));
                tags.push("op/set_stream_client".into());
            }
            9 | 10 => {
                if !run.open_request[SERVER] && !rng.chance(1, 6) {
                    continue;
                }
                run.open_request[SERVER] = false;
                let id = run.next_stream[SERVER];
                run.next_stream[SERVER] += 1;
                handler_set_server_stream(&mut run.h, Box::new(OutStream { half: SERVER, id }));
                run.record(J::C("KSetStream", vec![J::c0("RqServer")]));
                tags.push("op/set_stream_server".into());
            }
            11 => {
                if !run.open_request[CLIENT] && (disciplined || rng.chance(3, 4)) {
                    continue;
                }
                run.open_request[CLIENT] = false;
                // through the real on_connection_event
                let r = catch_unwind(AssertUnwindSafe(|| {
                    run.h.on_connection_event(ConnectionEvent::DialUpgradeError(DialUpgradeError::<StreamRequester, ReadyUpgrade<StreamProtocol>> {
                        info: StreamRequester::Client,
                        error: StreamUpgradeError::Timeout,
                    }))
                }));
                if r.is_err() {
                    run.log(ev_client(J::c0("HPanic")));
                }
                run.record(J::C("KAllocFailed", vec![J::c0("RqClient")]));
                tags.push("op/alloc_failed_client".into());
                if r.is_err() {
                    tags.push("client_panic".into());
                    break;
                }
            }
            12 => {
                if !run.open_request[SERVER] && !rng.chance(1, 6) {
                    continue;
                }
                // the request stays unanswered as far as the handler is concerned (lib.rs: "TODO")
                run.h.on_connection_event(ConnectionEvent::DialUpgradeError(DialUpgradeError::<StreamRequester, ReadyUpgrade<StreamProtocol>> {
                    info: StreamRequester::Server,
                    error: StreamUpgradeError::Timeout,
                }));
                run.record(J::C("KAllocFailed", vec![J::c0("RqServer")]));
                tags.push("op/alloc_failed_server".into());
            }
            13 | 14 => {
                let ms = *rng.pick(&[100u64, 1000, 4999, 5000, 5001, 30000]);
                clock::set_now_ms(clock::now_ms() + ms);
                run.record(J::C("KAdvance", vec![J::n(ms)]));
                tags.push("op/advance".into());
            }
            15 => {
                // closing ends a disciplined history: keep most of them going
                if !rng.chance(1, 3) {
                    continue;
                }
                let s = gen_script(rng, false);
                run.poll_close(s);
                tags.push("op/poll_close".into());
            }
            _ => {
                let pc = rng.chance(3, 4);
                let mut sc = gen_script(rng, pc);
                let ps = rng.chance(2, 3);
                let ss = gen_script(rng, ps);
                let before = run.n_incoming;
                let c0 = client_handler_snapshot(&run.h);
                let s0 = server_handler_snapshot(&run.h);
                if s0.sink_state == 0 && s0.pending.is_some() && c0.sink_state == 2 && rng.chance(2, 3) {
                    // the server half is about to ask for a stream while the client half holds one: let the client's
                    // stream return Pending in the middle of its script, so that the second round of client polls
                    // (after the server's request) finds the REST of the script
                    let mut head: Vec<Io> = (0..rng.usize(3)).map(|_| if rng.chance(1, 2) { Io::WAccept(1 + rng.usize(3)) } else { Io::FlushOk }).collect();
                    head.push(Io::IoPending);
                    head.extend(gen_script(rng, true));
                    head.push(Io::WAccept(1 << 20));
                    head.push(Io::FlushOk);
                    sc = head;
                    tags.push("poll/client_script_split".into());
                }
                let busy = (c0.sink_state == 2 || c0.has_msg || c0.queue_len > 0) && (s0.sink_state == 2 || s0.pending.is_some());
                let server_will_open = s0.sink_state == 0 && s0.pending.is_some();
                if server_will_open && c0.sink_state == 2 {
                    run.server_opened_after_client_pending = true;
                }
                let ok = run.poll(sc, ss);
                tags.push("op/poll".into());
                if busy {
                    halves_busy_polls += 1;
                }
                if busy && run.n_incoming > before {
                    tags.push("poll/all_three_parts".into());
                }
                if !ok {
                    tags.push("inbound_panic".into());
                    break;
                }
            }
        }
    }
    if halves_busy_polls > 0 {
        tags.push("poll/both_halves".into());
    }
    if run.server_opened_after_client_pending {
        tags.push("poll/server_open_repolls_client".into());
    }
    if run.unattributed {
        tags.push("unattributed".into());
    }
    if run.pools.len() > 1 {
        tags.push("inbound/several".into());
    }
    tags.sort();
    tags.dedup();
    let nontrivial = halves_busy_polls > 0 || run.n_incoming > 0;
    // take what is left in the log away before the handler (and with it the streams) is dropped
    let Run { h, ops, obs, .. } = run;
    drop(h);
    with(|s| *s = Shared::default());
    Case {
        input: J::C("KIn", vec![J::us(conn), J::us(64usize), J::B(chk()), J::L(ops), J::L(answers)]),
        output: J::L(obs),
        tags,
        nontrivial,
    }
}

pub fn run(seed: u64, n: usize, _tier: &str) {
    let mut rng = Rng::new(seed);
    for i in 0..n {
        let len = 8 + rng.usize(34);
        history(&mut rng, len, i % 5 != 0).print();
    }
}
