//! Engine `builder`: BehaviourBuilder::protocol_prefix / build and the protocol names a node uses.
use std::panic::{catch_unwind, AssertUnwindSafe};
use std::sync::Arc;
use std::task::{Context, Poll};

use beetswap::verif::{proto, ToHandlerEvent};
use beetswap::Behaviour;
use blockstore::InMemoryBlockstore;
use futures::task::noop_waker;
use libp2p_core::upgrade::UpgradeInfo;
use libp2p_core::Multiaddr;
use libp2p_identity::PeerId;
use libp2p_swarm::{ConnectionHandler, ConnectionHandlerEvent, ConnectionId, NetworkBehaviour};

use crate::json::{Case, J};
use crate::rng::Rng;

type B = Behaviour<64, InMemoryBlockstore<64>>;

fn names(mut b: B) -> Vec<Vec<u8>> {
    let addr: Multiaddr = "/memory/1".parse().unwrap();
    let peer = PeerId::random();
    let mut out = vec![beetswap::verif::behaviour_protocol(&b).into_bytes()];
    let mut h = b
        .handle_established_inbound_connection(ConnectionId::new_unchecked(1), peer, &addr, &addr)
        .unwrap();
    let listen = h.listen_protocol();
    let info: Vec<_> = listen.upgrade().protocol_info().collect();
    out.push(info[0].as_ref().as_bytes().to_vec());

    let waker = noop_waker();
    let mut cx = Context::from_waker(&waker);
    let mut request = |h: &mut beetswap::verif::ConnHandler<64>, ev: ToHandlerEvent| -> Vec<u8> {
        h.on_behaviour_event(ev);
        for _ in 0..8 {
            match h.poll(&mut cx) {
                Poll::Ready(ConnectionHandlerEvent::OutboundSubstreamRequest { protocol }) => {
                    let info: Vec<_> = protocol.upgrade().protocol_info().collect();
                    return info[0].as_ref().as_bytes().to_vec();
                }
                Poll::Ready(_) => continue,
                Poll::Pending => break,
            }
        }
        b"<no request>".to_vec()
    };
    out.push(request(
        &mut h,
        ToHandlerEvent::SendWantlist(proto::mod_Message::Wantlist::default()),
    ));
    // a fresh handler for the server side request (the client one is now waiting for its stream)
    let mut h2 = b
        .handle_established_inbound_connection(ConnectionId::new_unchecked(2), peer, &addr, &addr)
        .unwrap();
    out.push(request(
        &mut h2,
        ToHandlerEvent::QueueOutgoingMessages(vec![(vec![1], vec![2])]),
    ));
    out
}

fn one(prefix: Option<&str>) -> Case {
    let store = Arc::new(InMemoryBlockstore::<64>::new());
    let res = catch_unwind(AssertUnwindSafe(|| {
        let builder = B::builder(store);
        let builder = match prefix {
            None => builder,
            Some(p) => match builder.protocol_prefix(p) {
                Ok(b) => b,
                Err(_) => return None,
            },
        };
        Some(names(builder.build()))
    }));
    let output = match res {
        Err(_) => J::c0("BPanicked"),
        Ok(None) => J::c0("BRejected"),
        Ok(Some(n)) => J::C("BBuilt", n.iter().map(|x| J::bytes(x)).collect()),
    };
    let nt = !matches!(output, J::C("BRejected", _));
    Case {
        input: match prefix {
            None => J::c0("BNoPrefix"),
            Some(p) => J::C("BPrefix", vec![J::bytes(p.as_bytes())]),
        },
        output,
        tags: vec![match prefix {
            None => "none".into(),
            Some(p) => format!("len{}/{}", p.chars().count().min(8), if p.starts_with('/') { "slash" } else { "other" }),
        }],
        nontrivial: nt,
    }
}

const ALPHABET: &[char] = &['/', 'a', 'é', ' ', '\0'];

pub fn run(seed: u64, n: usize, tier: &str) {
    let mut rng = Rng::new(seed);
    one(None).print();
    let depth = if tier == "thorough" { 5 } else { 4 };
    let mut stack = vec![String::new()];
    while let Some(s) = stack.pop() {
        one(Some(&s)).print();
        if s.chars().count() < depth {
            for c in ALPHABET {
                let mut t = s.clone();
                t.push(*c);
                stack.push(t);
            }
        }
    }
    let pool: Vec<char> = "/ab.-_ZéЖ漢\0 \t%".chars().collect();
    for _ in 0..n {
        let len = rng.usize(24);
        let mut s = String::new();
        if rng.chance(1, 2) {
            s.push('/');
        }
        for _ in 0..len {
            s.push(*rng.pick(&pool));
        }
        one(Some(&s)).print();
    }
}
