//! Engine `stream`: the real IncomingStream (FramedRead<_, Codec> + process_message) over a scripted reader.
use std::collections::VecDeque;
use std::io;
use std::panic::{catch_unwind, AssertUnwindSafe};
use std::pin::Pin;
use std::sync::{Arc, Mutex};
use std::task::{Context, Poll};

use beetswap::verif::proto::mod_Message::{Block, BlockPresence, BlockPresenceType};
use beetswap::verif::proto::Message;
use beetswap::verif::{incoming_parts, incoming_stream, HasherTable, Prefix};
use futures::io::{AsyncRead, AsyncWrite};
use futures::stream::StreamExt;

use crate::e_codec::{chk, encode};
use crate::e_hasher::{hres_j, Kind, ScriptHasher};
use crate::e_incoming::{gen_wantlist, wantlist_j};
use crate::gen::*;
use crate::json::{Case, J};
use crate::node::Cid64;
use crate::rng::Rng;

struct WakeFlag(std::sync::atomic::AtomicBool);
impl std::task::Wake for WakeFlag {
    fn wake(self: Arc<Self>) {
        self.0.store(true, std::sync::atomic::Ordering::SeqCst);
    }
}

#[derive(Clone, Debug)]
enum Ev {
    Chunk(Vec<u8>),
    Eof,
    Err,
    Pending,
}

struct Reader(Arc<Mutex<VecDeque<Ev>>>);
impl AsyncRead for Reader {
    fn poll_read(self: Pin<&mut Self>, cx: &mut Context<'_>, out: &mut [u8]) -> Poll<io::Result<usize>> {
        let mut q = self.0.lock().unwrap();
        match q.pop_front() {
            None => Poll::Pending,
            Some(Ev::Pending) => {
                cx.waker().wake_by_ref();
                Poll::Pending
            }
            Some(Ev::Eof) => Poll::Ready(Ok(0)),
            Some(Ev::Err) => Poll::Ready(Err(io::Error::other("scripted"))),
            Some(Ev::Chunk(b)) => {
                let n = b.len().min(out.len());
                out[..n].copy_from_slice(&b[..n]);
                if n < b.len() {
                    q.push_front(Ev::Chunk(b[n..].to_vec()));
                }
                Poll::Ready(Ok(n))
            }
        }
    }
}
impl AsyncWrite for Reader {
    fn poll_write(self: Pin<&mut Self>, _: &mut Context<'_>, _: &[u8]) -> Poll<io::Result<usize>> {
        Poll::Pending
    }
    fn poll_flush(self: Pin<&mut Self>, _: &mut Context<'_>) -> Poll<io::Result<()>> {
        Poll::Ready(Ok(()))
    }
    fn poll_close(self: Pin<&mut Self>, _: &mut Context<'_>) -> Poll<io::Result<()>> {
        Poll::Ready(Ok(()))
    }
}

fn run_impl(table: &HasherTable<64>, evs: &[Ev]) -> J {
    let q = Arc::new(Mutex::new(evs.iter().cloned().collect::<VecDeque<_>>()));
    // what was delivered before a panic stays delivered
    let out: Arc<Mutex<Vec<J>>> = Arc::new(Mutex::new(Vec::new()));
    let out2 = out.clone();
    let res = catch_unwind(AssertUnwindSafe(|| {
        let mut st = incoming_stream(Box::new(Reader(q.clone())), table);
        // a flag waker: a Pending that woke itself (scripted read Pending, asynchronous hasher) is polled again
        let flag = Arc::new(WakeFlag(std::sync::atomic::AtomicBool::new(false)));
        let waker = std::task::Waker::from(flag.clone());
        let mut cx = Context::from_waker(&waker);
        let mut fin = "SPending";
        for _ in 0..10_000 {
            match st.poll_next_unpin(&mut cx) {
                Poll::Ready(Some(m)) => {
                    let parts = incoming_parts(&m);
                    let client = match (parts.presences, parts.blocks) {
                        (Some(mut p), Some(mut b)) => {
                            p.sort_by_key(|(c, _)| c.to_bytes());
                            b.sort_by_key(|(c, _)| c.to_bytes());
                            J::some(J::T(vec![
                                J::L(p.iter().map(|(c, h)| J::T(vec![cid_j(c), J::B(*h)])).collect()),
                                J::L(b.iter().map(|(c, d)| J::T(vec![cid_j(c), J::bytes(d)])).collect()),
                            ]))
                        }
                        _ => J::none(),
                    };
                    out2.lock().unwrap().push(J::C("IoOk", vec![client, J::opt(parts.wantlist.as_ref().map(wantlist_j))]));
                }
                Poll::Ready(None) => {
                    fin = "SEnded";
                    break;
                }
                Poll::Pending => {
                    let woken = flag.0.swap(false, std::sync::atomic::Ordering::SeqCst);
                    if !woken && q.lock().unwrap().is_empty() {
                        break;
                    }
                }
            }
        }
        fin
    }));
    let delivered = out.lock().unwrap().clone();
    match res {
        Ok(fin) => J::T(vec![J::L(delivered), J::c0(fin)]),
        Err(_) => J::T(vec![J::L(delivered), J::c0("SPanicked")]),
    }
}

fn gen_msg(rng: &mut Rng, pool: &[(Cid64, Vec<u8>)], scripted: bool) -> Message {
    let nb = rng.usize(3);
    let payload = (0..nb)
        .map(|_| {
            let (c, d) = rng.pick(pool).clone();
            if scripted && rng.chance(1, 2) {
                // a block under a scripted hasher whose answer takes 0-3 extra polls (first data byte mod 4)
                let mut p = vec![1u8, 0x55];
                p.extend(leb128(*rng.pick(&[0x99u64, 0x9a])));
                p.push(8);
                return Block { prefix: p, data: vec![rng.below(8) as u8, d[0], 7] };
            }
            match rng.below(6) {
                0 => Block { prefix: vec![1, 0x55, 0x77, 4], data: d },            // unknown code: skipped
                1 => Block { prefix: Prefix::from_cid(&c).to_bytes(), data: vec![9, 9] }, // wrong data
                _ => Block { prefix: Prefix::from_cid(&c).to_bytes(), data: d },
            }
        })
        .collect();
    let np = rng.usize(3);
    let presences = (0..np)
        .map(|_| BlockPresence {
            cid: rng.pick(pool).0.to_bytes(),
            type_pb: if rng.chance(1, 2) { BlockPresenceType::Have } else { BlockPresenceType::DontHave },
        })
        .collect();
    let cids: Vec<Cid64> = pool.iter().map(|(c, _)| *c).collect();
    Message {
        wantlist: if rng.chance(1, 2) { Some(gen_wantlist::<64>(rng, &cids)) } else { None },
        payload,
        blockPresences: presences,
        pendingBytes: 0,
    }
}

fn one(rng: &mut Rng) -> Case {
    let pool: Vec<(Cid64, Vec<u8>)> = (0..3).map(|i| { let d = vec![i as u8, 5]; (honest_cid::<64>(rng, &d), d) }).collect();
    // half of the cases: an asynchronous scripted hasher for two more codes, so that process_message is really Pending
    // while the next frame is already readable
    let scripted = rng.chance(1, 2);
    let table = if scripted {
        let log = Arc::new(Mutex::new(Vec::new()));
        HasherTable::<64>::new(vec![ScriptHasher { id: 0, answers: vec![(0x99, Kind::Ok(rng.bytes(8))), (0x9a, Kind::Validating(rng.bytes(8)))], log }])
    } else {
        HasherTable::<64>::new(Vec::<ScriptHasher>::new())
    };
    let nmsgs = 1 + rng.usize(4);
    let msgs: Vec<Message> = (0..nmsgs).map(|_| gen_msg(rng, &pool, scripted)).collect();
    let mut bytes = Vec::new();
    let mut tags = vec![format!("msgs{nmsgs}")];
    if scripted {
        tags.push("async_hasher".into());
    }
    for (i, m) in msgs.iter().enumerate() {
        let mut f = encode(m).unwrap();
        // a bad frame somewhere: invalid presence CID, corrupted byte, oversize announcement, bad varint
        if rng.chance(1, 8) {
            match rng.below(4) {
                0 => { let k = rng.usize(f.len()); f[k] ^= 0x40; tags.push(format!("bad/corrupt@{i}")); }
                1 => { f = vec![0x81, 0x80, 0x80, 0x02, 1, 2]; tags.push(format!("bad/oversize@{i}")); }
                2 => { f = vec![0x81, 0x00, 7]; tags.push(format!("bad/varint@{i}")); }
                _ => { let mut m2 = m.clone(); m2.blockPresences.push(BlockPresence { cid: vec![1, 2], type_pb: BlockPresenceType::Have }); f = encode(&m2).unwrap(); tags.push(format!("bad/presence@{i}")); }
            }
        }
        bytes.extend(f);
    }
    // truncated tail?
    if rng.chance(1, 6) && bytes.len() > 2 {
        let cut = 1 + rng.usize(bytes.len() - 1);
        bytes.truncate(cut);
        tags.push("truncated".into());
    }
    // cut into chunks
    let mut evs = Vec::new();
    let mut rest = &bytes[..];
    while !rest.is_empty() {
        let n = match rng.below(4) { 0 => 1, 1 => 1 + rng.usize(3), _ => 1 + rng.usize(rest.len()) }.min(rest.len());
        evs.push(Ev::Chunk(rest[..n].to_vec()));
        rest = &rest[n..];
        if rng.chance(1, 5) {
            evs.push(Ev::Pending);
        }
    }
    match rng.below(6) {
        0 => { tags.push("end/none".into()); }
        1 => { evs.push(Ev::Err); tags.push("end/err".into()); }
        _ => { evs.push(Ev::Eof); tags.push("end/eof".into()); }
    }
    if rng.chance(1, 15) && evs.len() > 2 {
        let k = rng.usize(evs.len());
        evs.insert(k, Ev::Err);
        tags.push("mid/err".into());
    }

    // table answers for every (code, data) that can be asked
    let mut answers = Vec::new();
    // the blocks that can reach the hasher are those of the frames as they are on the wire (after corruption)
    let mut wire_msgs: Vec<Message> = msgs.clone();
    {
        let mut buf = bytes::BytesMut::from(&bytes[..]);
        for _ in 0..16 {
            match catch_unwind(AssertUnwindSafe(|| beetswap::verif::codec_decode(&mut buf))) {
                Ok(Ok(Some(m))) => wire_msgs.push(m),
                _ => break,
            }
        }
    }
    for m in &wire_msgs {
        for b in &m.payload {
            for code in [0x12u64, 0x77].into_iter().chain(leb128_read(&b.prefix).and_then(|(_, r)| leb128_read(r)).and_then(|(_, r)| leb128_read(r)).map(|(c, _)| c)) {
                let r = block_on(table.hash(code, &b.data));
                answers.push(J::T(vec![J::n(code), J::bytes(&b.data), hres_j(&r)]));
            }
        }
    }

    let o1 = run_impl(&table, &evs);
    let ended = evs.iter().any(|e| matches!(e, Ev::Eof | Ev::Err));
    let mut whole = vec![];
    if !bytes.is_empty() {
        whole.push(Ev::Chunk(bytes.clone()));
    }
    if ended {
        whole.push(Ev::Eof);
    }
    let o2 = run_impl(&table, &whole);
    let evs_j = J::L(evs
        .iter()
        .map(|e| match e {
            Ev::Chunk(b) => J::C("Chunk", vec![J::bytes(b)]),
            Ev::Eof => J::c0("Eof"),
            Ev::Err => J::c0("ReadErr"),
            Ev::Pending => J::c0("ReadPending"),
        })
        .collect());
    Case {
        input: J::C("StIn", vec![J::us(64usize), J::B(chk()), evs_j, J::L(answers)]),
        output: J::T(vec![o1, o2]),
        tags,
        nontrivial: evs.len() > 2,
    }
}

pub fn run(seed: u64, n: usize, _tier: &str) {
    let mut rng = Rng::new(seed);
    for _ in 0..n {
        one(&mut rng).print();
    }
}
