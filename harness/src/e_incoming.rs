//! Engine `incoming`: incoming_stream::process_message on adversarial message values, with optional
//! scripted hashers registered in front of the built-in table.
use std::panic::{catch_unwind, AssertUnwindSafe};
use std::sync::{Arc, Mutex};

use beetswap::verif::proto::mod_Message::mod_Wantlist::{Entry, WantType};
use beetswap::verif::proto::mod_Message::{Block, BlockPresence, BlockPresenceType, Wantlist};
use beetswap::verif::proto::Message;
use beetswap::verif::{incoming_parts, process_message, HasherTable, Prefix};
use cid::CidGeneric;

use crate::e_hasher::{hres_j, Kind, ScriptHasher};
use crate::gen::*;
use crate::json::{Case, J};
use crate::rng::Rng;

pub fn entry_j(e: &Entry) -> J {
    J::C(
        "MkEntry",
        vec![
            J::bytes(&e.block),
            J::n(e.priority as u32),
            J::B(e.cancel),
            J::c0(if e.wantType == WantType::Block { "WTBlock" } else { "WTHave" }),
            J::B(e.sendDontHave),
        ],
    )
}

pub fn wantlist_j(w: &Wantlist) -> J {
    J::C("MkWantlist", vec![J::L(w.entries.iter().map(entry_j).collect()), J::B(w.full)])
}

pub fn message_j(m: &Message) -> J {
    J::C(
        "MkMessage",
        vec![
            J::opt(m.wantlist.as_ref().map(wantlist_j)),
            J::L(m.payload.iter().map(|b| J::C("MkBlock", vec![J::bytes(&b.prefix), J::bytes(&b.data)])).collect()),
            J::L(m
                .blockPresences
                .iter()
                .map(|p| {
                    J::C(
                        "MkPresence",
                        vec![
                            J::bytes(&p.cid),
                            J::c0(if p.type_pb == BlockPresenceType::Have { "PHave" } else { "PDontHave" }),
                        ],
                    )
                })
                .collect()),
            J::n(m.pendingBytes as u32),
        ],
    )
}

fn lenient_code(prefix: &[u8]) -> Vec<u64> {
    let mut codes = vec![0x12u64];
    if let Some((_, r)) = leb128_read(prefix) {
        if let Some((_, r)) = leb128_read(r) {
            if let Some((code, _)) = leb128_read(r) {
                codes.push(code);
            }
        }
    }
    codes
}

fn run_impl<const S: usize>(table: &HasherTable<S>, m: &Message) -> J {
    let res = catch_unwind(AssertUnwindSafe(|| block_on(process_message(table, m.clone()))));
    match res {
        Err(_) => J::c0("IoPanicked"),
        Ok(None) => J::c0("IoClosed"),
        Ok(Some(inc)) => {
            let parts = incoming_parts(&inc);
            let client = match (parts.presences, parts.blocks) {
                (Some(mut p), Some(mut b)) => {
                    p.sort_by_key(|(c, _)| c.to_bytes());
                    b.sort_by_key(|(c, _)| c.to_bytes());
                    J::some(J::T(vec![
                        J::L(p.iter().map(|(c, h)| J::T(vec![cid_j(c), J::B(*h)])).collect()),
                        J::L(b.iter().map(|(c, d)| J::T(vec![cid_j(c), J::bytes(d)])).collect()),
                    ]))
                }
                _ => J::none(),
            };
            J::C("IoOk", vec![client, J::opt(parts.wantlist.as_ref().map(wantlist_j))])
        }
    }
}

fn gen_block<const S: usize>(rng: &mut Rng, tags: &mut Vec<String>) -> Block {
    let data = small_data(rng);
    let cid: CidGeneric<S> = honest_cid(rng, &data);
    let good = Prefix::from_cid(&cid).to_bytes();
    match rng.below(12) {
        0..=3 => {
            tags.push("blk/honest".into());
            Block { prefix: good, data }
        }
        4 => {
            tags.push("blk/wrong_data".into());
            Block { prefix: good, data: small_data(rng) }
        }
        5 => {
            tags.push("blk/unknown_code".into());
            let mut p = vec![1u8];
            p.extend(leb128(*rng.pick(CODECS)));
            p.extend(leb128(if rng.chance(1, 2) { 0x77 } else { rng.boundary_u64() }));
            p.extend(leb128(rng.below(70)));
            Block { prefix: p, data }
        }
        6 => {
            tags.push("blk/unparsable".into());
            let p = match rng.below(4) {
                0 => vec![],
                1 => vec![0, 0x55, 0x12, 0x20],
                2 => vec![1, 0x55],
                _ => rng.bytes(3),
            };
            Block { prefix: p, data }
        }
        7 => {
            tags.push("blk/oversize_declared".into());
            let mut p = vec![1u8, 0x55];
            p.extend(leb128(*rng.pick(TABLE_CODES)));
            p.extend(leb128(S as u64 + 1 + rng.below(300)));
            Block { prefix: p, data }
        }
        8 => {
            tags.push("blk/other_codec_version".into());
            let mut p = vec![1u8];
            p.extend(leb128(rng.boundary_u64()));
            p.extend(leb128(cid.hash().code()));
            p.extend(leb128(rng.below(S as u64 + 1)));
            Block { prefix: p, data }
        }
        9 => {
            tags.push("blk/v0".into());
            Block { prefix: vec![0x12, 0x20], data }
        }
        10 => {
            tags.push("blk/scripted_code".into());
            let mut p = vec![1u8, 0x55];
            p.extend(leb128(*rng.pick(&[0x99u64, 0x9a, 0x9b, 0x9c])));
            p.extend(leb128(8));
            Block { prefix: p, data }
        }
        _ => {
            tags.push("blk/big_hash".into());
            // a table code whose digest is 64 bytes: does not fit S=32
            let mut p = vec![1u8, 0x55];
            p.extend(leb128(0x13));
            p.extend(leb128(rng.below(65)));
            Block { prefix: p, data }
        }
    }
}

fn gen_presence<const S: usize>(rng: &mut Rng, tags: &mut Vec<String>, pool: &[CidGeneric<S>]) -> BlockPresence {
    let t = if rng.chance(1, 2) { BlockPresenceType::Have } else { BlockPresenceType::DontHave };
    match rng.below(8) {
        0 => {
            tags.push("pres/invalid".into());
            let bad = match rng.below(4) {
                0 => vec![],
                1 => vec![0, 0x55, 0x12, 0x20],
                2 => { let mut b = pool[0].to_bytes(); b.truncate(b.len() - 1); b }
                _ => rng.bytes(5),
            };
            BlockPresence { cid: bad, type_pb: t }
        }
        1 => {
            tags.push("pres/trailing".into());
            let mut b = rng.pick(pool).to_bytes();
            b.extend(rng.bytes(2));
            BlockPresence { cid: b, type_pb: t }
        }
        _ => {
            tags.push("pres/valid".into());
            BlockPresence { cid: rng.pick(pool).to_bytes(), type_pb: t }
        }
    }
}

pub fn gen_wantlist<const S: usize>(rng: &mut Rng, pool: &[CidGeneric<S>]) -> Wantlist {
    let n = match rng.below(4) { 0 => 0, _ => rng.usize(4) };
    let entries = (0..n)
        .map(|_| Entry {
            block: if rng.chance(1, 8) { rng.bytes(3) } else { rng.pick(pool).to_bytes() },
            priority: if rng.chance(1, 4) { rng.next() as i32 } else { 1 },
            cancel: rng.chance(1, 4),
            wantType: if rng.chance(1, 2) { WantType::Have } else { WantType::Block },
            sendDontHave: rng.chance(1, 2),
        })
        .collect();
    Wantlist { entries, full: rng.chance(1, 3) }
}

/// What the table has to answer by the documented order (C18): the most recently registered hasher that does not say
/// unknown-code decides, the built-in table comes last.  Computed from the individual hashers, NOT by asking the table under
/// test, so that a table that consults them differently disagrees with the model instead of feeding it.
fn reference_hash<const S: usize>(hashers: &[ScriptHasher], std_only: &HasherTable<S>, code: u64, data: &[u8]) -> Result<multihash::Multihash<S>, beetswap::multihasher::MultihasherError> {
    use beetswap::multihasher::{Multihasher, MultihasherError};
    for h in hashers.iter().rev() {
        match block_on(<ScriptHasher as Multihasher<S>>::hash(h, code, data)) {
            Err(MultihasherError::UnknownMultihashCode) => continue,
            r => return r,
        }
    }
    block_on(std_only.hash(code, data))
}

fn one<const S: usize>(rng: &mut Rng) -> Case {
    let mut tags = vec![format!("S{S}")];
    let pool: Vec<CidGeneric<S>> = (0..3).map(|i| { let d = vec![i as u8]; honest_cid(rng, &d) }).collect();

    // scripted hashers for codes 0x99..0x9c, sometimes overriding a table code
    let log = Arc::new(Mutex::new(Vec::new()));
    let nh = rng.usize(3);
    let hashers: Vec<ScriptHasher> = (0..nh)
        .map(|id| {
            let mut answers = Vec::new();
            for code in [0x99u64, 0x9a, 0x9b, 0x9c] {
                let k = match rng.below(8) {
                    0 => Kind::Ok(rng.bytes(8)),
                    6 | 7 => Kind::Validating(rng.bytes(8)),
                    1 => Kind::Custom,
                    2 => Kind::Fatal,
                    3 => Kind::Invalid,
                    _ => Kind::Unknown,
                };
                answers.push((code, k));
            }
            if rng.chance(1, 6) {
                answers.push((0x12, Kind::Custom));
            }
            ScriptHasher { id, answers, log: log.clone() }
        })
        .collect();
    if nh > 0 {
        tags.push(format!("hashers{nh}"));
    }
    let reference = hashers.clone();
    let std_only = HasherTable::<S>::new(Vec::<ScriptHasher>::new());
    let table = HasherTable::<S>::new(hashers);

    let nb = match rng.below(5) { 0 => 0, _ => rng.usize(4) };
    let mut payload: Vec<Block> = (0..nb).map(|_| gen_block::<S>(rng, &mut tags)).collect();
    if nb > 0 && rng.chance(1, 5) {
        tags.push("blk/duplicate".into());
        let d = payload[rng.usize(nb)].clone();
        payload.push(d);
    }
    if nh > 0 && rng.chance(1, 4) {
        // several blocks under one scripted code: the answer for one must not decide the others
        tags.push("blk/same_code_run".into());
        let code = *rng.pick(&[0x99u64, 0x9a, 0x9b, 0x9c, 0x12]);
        for _ in 0..2 + rng.usize(2) {
            let mut p = vec![1u8, 0x55];
            p.extend(leb128(code));
            p.extend(leb128(if code == 0x12 { 32 } else { 8 }));
            let mut data = small_data(rng);
            if data.is_empty() { data.push(rng.below(4) as u8); }
            let at = rng.usize(payload.len() + 1);
            payload.insert(at, Block { prefix: p, data });
        }
    }
    let np = match rng.below(4) { 0 => 0, _ => rng.usize(4) };
    let presences: Vec<BlockPresence> = (0..np).map(|_| gen_presence::<S>(rng, &mut tags, &pool)).collect();
    let wantlist = if rng.chance(1, 2) { Some(gen_wantlist::<S>(rng, &pool)) } else { None };
    tags.push(format!("parts/w{}b{}p{}", wantlist.is_some() as u8, (nb > 0) as u8, (np > 0) as u8));
    let m = Message { wantlist, payload, blockPresences: presences, pendingBytes: if rng.chance(1, 8) { rng.next() as i32 } else { 0 } };

    finish::<S>(m, &reference, &std_only, &table, tags)
}

/// Big blocks (MiB size): an honest one, and the same bytes followed by a few more under the CID of the honest one — every
/// byte of a payload must enter the hash.  Runs of equal bytes keep the Coq literal small (tools/coqterm.py run-length form).
fn big<const S: usize>(n: usize, pad: usize) -> Case {
    let tags = vec![format!("S{S}"), format!("big/{n}+{pad}")];
    let mut x = vec![0u8; n];
    x[0] = 7;
    x[n - 1] = 9;
    let digest = table_digest(0x12, &x).expect("sha2-256");
    let mut prefix = vec![1u8, 0x55, 0x12, 0x20];
    let _ = &digest;
    let mut padded = x.clone();
    padded.extend(std::iter::repeat(0xAAu8).take(pad));
    if pad == 0 {
        prefix = vec![1u8, 0x70, 0x12, 0x20];
    }
    let payload = vec![Block { prefix: prefix.clone(), data: x }, Block { prefix, data: padded }];
    let m = Message { wantlist: None, payload, blockPresences: vec![], pendingBytes: 0 };
    let reference: Vec<ScriptHasher> = Vec::new();
    let std_only = HasherTable::<S>::new(Vec::<ScriptHasher>::new());
    let table = HasherTable::<S>::new(Vec::<ScriptHasher>::new());
    finish::<S>(m, &reference, &std_only, &table, tags)
}

fn finish<const S: usize>(m: Message, reference: &[ScriptHasher], std_only: &HasherTable<S>, table: &HasherTable<S>, mut tags: Vec<String>) -> Case {
    // the table's answer for every (code, data) that can be asked
    let mut answers = Vec::new();
    let mut skippable = vec![false; m.payload.len()];
    for (i, b) in m.payload.iter().enumerate() {
        for code in lenient_code(&b.prefix) {
            let r = reference_hash(reference, std_only, code, &b.data);
            answers.push(J::T(vec![J::n(code), J::bytes(&b.data), hres_j(&r)]));
        }
        // harness's own opinion on "skippable": prefix parses and the table says unknown / custom
        if let Some(p) = Prefix::from_bytes(&b.prefix) {
            let r = reference_hash(reference, std_only, p.multihash_code(), &b.data);
            // a declared size above the capacity is fatal before the table is asked
            let declared_too_big = { let pb = p.to_bytes(); pb.len() > 2 && leb128_read(&pb).and_then(|(_, r)| leb128_read(r)).and_then(|(_, r)| leb128_read(r)).and_then(|(_, r)| leb128_read(r)).map(|(s, _)| s > S as u64).unwrap_or(false) };
            if !declared_too_big {
                skippable[i] = matches!(r, Err(beetswap::multihasher::MultihasherError::UnknownMultihashCode) | Err(beetswap::multihasher::MultihasherError::Custom(_)));
            }
        }
    }
    let m2 = Message { payload: m.payload.iter().zip(&skippable).filter(|(_, s)| !**s).map(|(b, _)| b.clone()).collect(), ..m.clone() };
    if skippable.iter().any(|s| *s) {
        tags.push("has_skippable".into());
    }

    let o1 = run_impl(table, &m);
    let o2 = run_impl(table, &m2);
    tags.push(match &o1 { J::C(n, _) => format!("out/{n}"), _ => String::new() });
    let nt = !m.payload.is_empty() || !m.blockPresences.is_empty();
    Case {
        input: J::C("IMsg", vec![J::us(S), message_j(&m), message_j(&m2), J::L(answers)]),
        output: J::T(vec![o1, o2]),
        tags,
        nontrivial: nt,
    }
}

pub fn run(seed: u64, n: usize, tier: &str) {
    let mut rng = Rng::new(seed);
    let sizes: &[(usize, usize)] = if tier == "thorough" {
        &[(1 << 16, 1), (1 << 20, 63), (1 << 21, 1), (1 << 21, 63), ((1 << 21) + 1, 5), (3 << 20, 63), (1 << 21, 0)]
    } else {
        &[(1 << 21, 63)]
    };
    for &(sz, pad) in sizes {
        big::<64>(sz, pad).print();
    }
    for i in 0..n {
        match i % 4 {
            0 | 1 => one::<64>(&mut rng).print(),
            2 => one::<32>(&mut rng).print(),
            _ => one::<48>(&mut rng).print(),
        }
    }
}
