//! bsverif — differential harness: runs the beetswap implementation (built with
//! `--cfg beetswap_verif`) on generated inputs and prints one JSON case per line
//! (`{"i": input term, "o": observed output term, "tags": [...], "nt": bool}`).
//! The Coq side (theories/Corr_*.v) evaluates the model on the same inputs and compares.
mod e_builder;
mod e_client;
mod e_conn;
mod e_connhandler;
mod e_codec;
mod e_convert;
mod e_handler;
mod e_hasher;
mod e_incoming;
mod e_net;
mod e_node;
mod e_prefix;
mod e_server;
mod e_srvsplit;
mod e_stream;
mod e_wantlist;
mod node;
mod gen;
mod json;
mod rng;

fn main() {
    let args: Vec<String> = std::env::args().collect();
    if args.len() < 5 {
        eprintln!("usage: bsverif <engine> <seed> <n> <tier>");
        std::process::exit(2);
    }
    let engine = args[1].as_str();
    let seed: u64 = args[2].parse().expect("seed");
    let n: usize = args[3].parse().expect("n");
    let tier = args[4].as_str();

    // panics are outcomes, not noise: engines catch the ones they expect; remember the last message for the rest
    std::panic::set_hook(Box::new(|info| {
        if let Ok(mut m) = LAST_PANIC.lock() {
            *m = info.to_string();
        }
    }));

    let res = std::panic::catch_unwind(|| run_engine(engine, seed, n, tier));
    if res.is_err() {
        // the implementation panicked where the harness did not expect it: the run is over
        let msg = LAST_PANIC.lock().map(|m| m.clone()).unwrap_or_default();
        eprintln!("ENGINE-PANIC engine={engine} seed={seed} n={n} tier={tier}: {}", msg.replace('\n', " "));
        std::process::exit(3);
    }
}

static LAST_PANIC: std::sync::Mutex<String> = std::sync::Mutex::new(String::new());

fn run_engine(engine: &str, seed: u64, n: usize, tier: &str) {
    match engine {
        "prefix" => e_prefix::run(seed, n, tier),
        "convert" => e_convert::run(seed, n, tier),
        "builder" => e_builder::run(seed, n, tier),
        "hasher" => e_hasher::run(seed, n, tier),
        "codec" => e_codec::run(seed, n, tier),
        "server" => e_server::run(seed, n, tier),
        "client" => e_client::run(seed, n, tier),
        "net" => e_net::run(seed, n, tier),
        "node" => e_node::run(seed, n, tier),
        "conn" => e_conn::run(seed, n, tier),
        "connhandler" => e_connhandler::run(seed, n, tier),
        "stream" => e_stream::run(seed, n, tier),
        "srvsplit" => e_srvsplit::run(seed, n, tier),
        "handler" => e_handler::run_client(seed, n, tier),
        "srvhandler" => e_handler::run_server(seed, n, tier),
        "wantlist" => e_wantlist::run(seed, n, tier),
        "decodeserver" => e_codec::decode_server(),
        "incoming" => e_incoming::run(seed, n, tier),
        _ => {
            eprintln!("unknown engine {engine}");
            std::process::exit(2);
        }
    }
}
