//! Engine `srvsplit`: batching of block replies at the 4 MiB boundary, observed at the level of sizes
//! (Corr_srvsplit.v): real ServerConnectionHandler, all-accepting stream, blocks of up to a few MiB.
use std::io;
use std::pin::Pin;
use std::sync::{Arc, Mutex};
use std::task::{Context, Poll};

use beetswap::verif::{handler_set_server_stream, ToHandlerEvent, MAX_MESSAGE_SIZE};
use futures::io::{AsyncRead, AsyncWrite};
use futures::task::noop_waker;
use libp2p_swarm::{ConnectionHandler, ConnectionHandlerEvent};

use crate::gen::*;
use crate::json::{Case, J};
use crate::node::*;
use crate::rng::Rng;

struct Sink(Arc<Mutex<Vec<u8>>>);
impl AsyncRead for Sink {
    fn poll_read(self: Pin<&mut Self>, _: &mut Context<'_>, _: &mut [u8]) -> Poll<io::Result<usize>> {
        Poll::Pending
    }
}
impl AsyncWrite for Sink {
    fn poll_write(self: Pin<&mut Self>, _: &mut Context<'_>, buf: &[u8]) -> Poll<io::Result<usize>> {
        self.0.lock().unwrap().extend_from_slice(buf);
        Poll::Ready(Ok(buf.len()))
    }
    fn poll_flush(self: Pin<&mut Self>, _: &mut Context<'_>) -> Poll<io::Result<()>> {
        Poll::Ready(Ok(()))
    }
    fn poll_close(self: Pin<&mut Self>, _: &mut Context<'_>) -> Poll<io::Result<()>> {
        Poll::Ready(Ok(()))
    }
}

fn field(len: usize) -> usize {
    if len == 0 { 0 } else { 1 + leb128(len as u64).len() + len }
}
fn block_entry_size(pl: usize, dl: usize) -> usize {
    let inner = field(pl) + field(dl);
    1 + leb128(inner as u64).len() + inner
}

fn one(sizes: &[(usize, usize)], tag: &str, warm: bool) -> Case {
    let mut node = Node::new(|b| b, 1);
    let mut h = node.new_conn(0, 1);
    let out = Arc::new(Mutex::new(Vec::new()));
    // distinct contents so that order / duplication is visible
    let blocks: Vec<(Vec<u8>, Vec<u8>)> = sizes
        .iter()
        .enumerate()
        .map(|(i, (pl, dl))| (vec![i as u8 + 1; *pl], vec![(i as u8).wrapping_mul(7).wrapping_add(3); *dl]))
        .collect();
    let waker = noop_waker();
    let mut cx = Context::from_waker(&waker);
    if warm {
        // the reply substream is already open and idle when the batch arrives: one tiny reply first
        h.on_behaviour_event(ToHandlerEvent::QueueOutgoingMessages(vec![(vec![9u8], vec![9u8])]));
        for _ in 0..20 {
            match h.poll(&mut cx) {
                Poll::Ready(ConnectionHandlerEvent::OutboundSubstreamRequest { .. }) => {
                    handler_set_server_stream(&mut h, Box::new(Sink(out.clone())));
                }
                Poll::Ready(_) => {}
                Poll::Pending => break,
            }
        }
    }
    let skip = out.lock().unwrap().len();
    h.on_behaviour_event(ToHandlerEvent::QueueOutgoingMessages(blocks.clone()));
    for _ in 0..200 {
        match h.poll(&mut cx) {
            Poll::Ready(ConnectionHandlerEvent::OutboundSubstreamRequest { .. }) => {
                handler_set_server_stream(&mut h, Box::new(Sink(out.clone())));
            }
            Poll::Ready(_) => {}
            Poll::Pending => break,
        }
    }
    // cut the written bytes into frames; per frame: number of blocks, frame length; check the contents
    let bytes = out.lock().unwrap()[skip..].to_vec();
    let mut frames = Vec::new();
    let mut rest: &[u8] = &bytes;
    let mut next_block = 0usize;
    let mut content_ok = true;
    while !rest.is_empty() {
        let Some((len, body_and_rest)) = leb128_read(rest) else { content_ok = false; break };
        let len = len as usize;
        if body_and_rest.len() < len {
            content_ok = false;
            break;
        }
        let frame_len = rest.len() - body_and_rest.len() + len;
        let mut body = &body_and_rest[..len];
        let mut n = 0usize;
        while !body.is_empty() {
            if body[0] != 0x1a { content_ok = false; break; }
            let Some((bl, r)) = leb128_read(&body[1..]) else { content_ok = false; break };
            let bl = bl as usize;
            let entry = &r[..bl];
            // entry = [0x0a len prefix] [0x12 len data]
            let (p, d) = blocks.get(next_block).cloned().unwrap_or_default();
            let mut expect = Vec::new();
            if !p.is_empty() { expect.push(0x0a); expect.extend(leb128(p.len() as u64)); expect.extend(&p); }
            if !d.is_empty() { expect.push(0x12); expect.extend(leb128(d.len() as u64)); expect.extend(&d); }
            if entry != expect.as_slice() { content_ok = false; }
            next_block += 1;
            n += 1;
            body = &r[bl..];
        }
        frames.push((if content_ok { n } else { 0 }, frame_len));
        rest = &body_and_rest[len..];
    }
    Case {
        input: J::L(sizes.iter().map(|(p, d)| J::T(vec![J::us(*p), J::us(*d)])).collect()),
        output: J::L(frames.iter().map(|(n, l)| J::T(vec![J::us(*n), J::us(*l)])).collect()),
        tags: vec![tag.to_string(), if warm { "open_idle_stream".to_string() } else { "fresh_handler".to_string() }],
        nontrivial: sizes.len() > 1,
    }
}

pub fn run(seed: u64, n: usize, _tier: &str) {
    let mut rng = Rng::new(seed);
    let max = MAX_MESSAGE_SIZE;
    // k equal blocks whose entries add up to max + delta, delta around 0 and around the per-block overheads
    for k in 1..=6usize {
        for delta in -8i64..=8 {
            let target = (max as i64 + delta) as usize;
            // choose data lengths so that the sum of entry sizes is exactly `target` when possible
            let pl = 4usize;
            let mut sizes = vec![(pl, 0usize); k];
            let per = target / k;
            for s in sizes.iter_mut() {
                // entry size grows by 1 per data byte in this range: solve by search
                let mut dl = per.saturating_sub(16);
                while block_entry_size(pl, dl) < per { dl += 1; }
                s.1 = dl;
            }
            // fix up the last one to hit the target exactly
            let sum: usize = sizes.iter().map(|(p, d)| block_entry_size(*p, *d)).sum();
            if sum > target { let d = sum - target; if sizes[k - 1].1 > d { sizes[k - 1].1 -= d; } }
            if sum < target { sizes[k - 1].1 += target - sum; }
            one(&sizes, &format!("boundary/k{k}"), false).print();
            one(&sizes, &format!("boundary/k{k}"), true).print();
        }
    }
    // a block larger than the limit, alone and inside a batch
    for warm in [false, true] {
        one(&[(4, max + 10)], "oversize/alone", warm).print();
        one(&[(4, 100), (4, max + 10), (4, 100)], "oversize/in_batch", warm).print();
    }
    for _ in 0..n {
        let k = 1 + rng.usize(7);
        let sizes: Vec<(usize, usize)> = (0..k)
            .map(|_| {
                let dl = match rng.below(6) {
                    0 => rng.usize(200),
                    1 => max / 2 + rng.usize(64) - 32,
                    2 => max / 3 + rng.usize(64) - 32,
                    3 => max / 4 + rng.usize(64) - 32,
                    4 => max - 40 + rng.usize(80),
                    _ => rng.usize(max / 2),
                };
                (rng.usize(6), dl)
            })
            .collect();
        let warm = rng.chance(1, 2);
        one(&sizes, "random", warm).print();
    }
}
