//! A `Behaviour<64, ScriptStore>` under full control of the harness: scripted blockstore whose every
//! call completes only when released, flag waker, virtual clock, numbered peers and connections.
use std::future::Future;
use std::pin::Pin;
use std::sync::atomic::{AtomicBool, Ordering};
use std::sync::{Arc, Mutex};
use std::task::{Context, Poll, Wake, Waker};

use beetswap::verif::{ToHandlerEvent};
use beetswap::{Behaviour, Event};
use blockstore::Blockstore;
use cid::CidGeneric;
use libp2p_core::{ConnectedPoint, Endpoint, Multiaddr};
use libp2p_identity::PeerId;
use libp2p_swarm::{ConnectionClosed, ConnectionId, FromSwarm, NetworkBehaviour, ToSwarm};

pub type Cid64 = CidGeneric<64>;

#[derive(Clone, Debug)]
pub enum CallKind {
    Get(Cid64),
    PutMany(Vec<(Cid64, Vec<u8>)>),
}

#[derive(Clone, Debug)]
pub enum Release {
    Hit(Vec<u8>),
    Miss,
    Fail,
}

struct Call {
    result: Option<Release>,
    waker: Option<Waker>,
    dropped: bool,
}

#[derive(Default)]
pub struct StoreInner {
    calls: Vec<Call>,
    /// calls started since the last `take_new_calls`
    new_calls: Vec<(usize, CallKind)>,
}

#[derive(Clone, Default)]
pub struct ScriptStore(pub Arc<Mutex<StoreInner>>);

pub struct CallFuture {
    store: Arc<Mutex<StoreInner>>,
    id: usize,
}

impl Future for CallFuture {
    type Output = Release;
    fn poll(self: Pin<&mut Self>, cx: &mut Context<'_>) -> Poll<Release> {
        let mut s = self.store.lock().unwrap();
        let call = &mut s.calls[self.id];
        match call.result.take() {
            Some(r) => Poll::Ready(r),
            None => {
                call.waker = Some(cx.waker().clone());
                Poll::Pending
            }
        }
    }
}

impl Drop for CallFuture {
    fn drop(&mut self) {
        if let Ok(mut s) = self.store.lock() {
            s.calls[self.id].dropped = true;
        }
    }
}

impl ScriptStore {
    fn start(&self, kind: CallKind) -> CallFuture {
        let mut s = self.0.lock().unwrap();
        let id = s.calls.len();
        s.calls.push(Call { result: None, waker: None, dropped: false });
        s.new_calls.push((id, kind));
        CallFuture { store: self.0.clone(), id }
    }

    pub fn take_new_calls(&self) -> Vec<(usize, CallKind)> {
        std::mem::take(&mut self.0.lock().unwrap().new_calls)
    }

    /// complete call `id`; false if there is no such pending call
    pub fn release(&self, id: usize, r: Release) -> bool {
        let waker = {
            let mut s = self.0.lock().unwrap();
            let Some(call) = s.calls.get_mut(id) else { return false };
            if call.result.is_some() || call.dropped {
                // already released (and not yet consumed) or abandoned
                if call.dropped {
                    return false;
                }
            }
            call.result = Some(r);
            call.waker.take()
        };
        if let Some(w) = waker {
            w.wake();
        }
        true
    }

    pub fn n_calls(&self) -> usize {
        self.0.lock().unwrap().calls.len()
    }
}

/// A scripted failure takes every variant of `blockstore::Error` in turn (the model knows only "failure": the code must not
/// treat one kind of failed lookup differently from another).
fn scripted_error() -> blockstore::Error {
    static ROT: std::sync::atomic::AtomicUsize = std::sync::atomic::AtomicUsize::new(0);
    match ROT.fetch_add(1, std::sync::atomic::Ordering::Relaxed) % 6 {
        0 => blockstore::Error::StoredDataError("scripted".into()),
        1 => blockstore::Error::CidTooLarge,
        2 => blockstore::Error::ValueTooLarge,
        3 => blockstore::Error::ExecutorError("scripted".into()),
        4 => blockstore::Error::FatalDatabaseError("scripted".into()),
        _ => blockstore::Error::CidError(blockstore::block::CidError::InvalidMultihashLength(65)),
    }
}

fn to64<const S: usize>(cid: &CidGeneric<S>) -> Cid64 {
    Cid64::try_from(cid.to_bytes().as_slice()).expect("cid fits 64")
}

impl Blockstore for ScriptStore {
    async fn get<const S: usize>(&self, cid: &CidGeneric<S>) -> blockstore::Result<Option<Vec<u8>>> {
        match self.start(CallKind::Get(to64(cid))).await {
            Release::Hit(d) => Ok(Some(d)),
            Release::Miss => Ok(None),
            Release::Fail => Err(scripted_error()),
        }
    }

    async fn put_keyed<const S: usize>(&self, cid: &CidGeneric<S>, data: &[u8]) -> blockstore::Result<()> {
        match self.start(CallKind::PutMany(vec![(to64(cid), data.to_vec())])).await {
            Release::Fail => Err(scripted_error()),
            _ => Ok(()),
        }
    }

    async fn put_many_keyed<const S: usize, D, I>(&self, blocks: I) -> blockstore::Result<()>
    where
        D: AsRef<[u8]> + Send + Sync,
        I: IntoIterator<Item = (CidGeneric<S>, D)> + Send,
        <I as IntoIterator>::IntoIter: Send,
    {
        let blocks: Vec<(Cid64, Vec<u8>)> = blocks.into_iter().map(|(c, d)| (to64(&c), d.as_ref().to_vec())).collect();
        match self.start(CallKind::PutMany(blocks)).await {
            Release::Fail => Err(scripted_error()),
            _ => Ok(()),
        }
    }

    async fn remove<const S: usize>(&self, _cid: &CidGeneric<S>) -> blockstore::Result<()> {
        Ok(())
    }

    async fn close(self) -> blockstore::Result<()> {
        Ok(())
    }
}

struct FlagWaker(AtomicBool);
impl Wake for FlagWaker {
    fn wake(self: Arc<Self>) {
        self.0.store(true, Ordering::SeqCst);
    }
}

pub struct Node {
    pub b: Behaviour<64, ScriptStore>,
    pub store: ScriptStore,
    pub peers: Vec<PeerId>,
    flag: Arc<FlagWaker>,
    pub addr: Multiaddr,
}

pub enum Out {
    Event(Event),
    SendWantlist { peer: usize, conn: usize, wantlist: beetswap::verif::proto::mod_Message::Wantlist },
    SendBlocks { peer: usize, any: bool, blocks: Vec<(Vec<u8>, Vec<u8>)> },
    Other,
}

impl Node {
    pub fn new(builder: impl FnOnce(beetswap::BehaviourBuilder<64, ScriptStore>) -> beetswap::BehaviourBuilder<64, ScriptStore>, npeers: usize) -> Node {
        beetswap::verif::clock::set_now_ms(0);
        let store = ScriptStore::default();
        let b = builder(Behaviour::<64, _>::builder(Arc::new(store.clone()))).build();
        Node {
            b,
            store,
            peers: (0..npeers).map(|_| PeerId::random()).collect(),
            flag: Arc::new(FlagWaker(AtomicBool::new(false))),
            addr: "/memory/1".parse().unwrap(),
        }
    }

    pub fn peer_index(&self, p: &PeerId) -> usize {
        self.peers.iter().position(|x| x == p).expect("known peer")
    }

    pub fn new_conn(&mut self, peer: usize, conn: usize) -> beetswap::verif::ConnHandler<64> {
        let addr = self.addr.clone();
        self.b
            .handle_established_inbound_connection(ConnectionId::new_unchecked(conn), self.peers[peer], &addr, &addr)
            .unwrap()
    }

    pub fn conn_closed(&mut self, peer: usize, conn: usize, remaining: usize) {
        let endpoint = ConnectedPoint::Dialer {
            address: self.addr.clone(),
            role_override: Endpoint::Dialer,
            port_use: libp2p_core::transport::PortUse::Reuse,
        };
        self.b.on_swarm_event(FromSwarm::ConnectionClosed(ConnectionClosed {
            peer_id: self.peers[peer],
            connection_id: ConnectionId::new_unchecked(conn),
            endpoint: &endpoint,
            cause: None,
            remaining_established: remaining,
        }));
    }

    pub fn handler_event(&mut self, peer: usize, conn: usize, ev: beetswap::verif::ToBehaviourEvent<64>) {
        self.b.on_connection_handler_event(self.peers[peer], ConnectionId::new_unchecked(conn), ev);
    }

    /// poll until Pending (and not woken meanwhile)
    pub fn poll_all(&mut self) -> Vec<Out> {
        let waker = Waker::from(self.flag.clone());
        let mut cx = Context::from_waker(&waker);
        let mut outs = Vec::new();
        let mut guard = 0;
        loop {
            guard += 1;
            if guard > 100_000 {
                panic!("poll_all does not quiesce");
            }
            self.flag.0.store(false, Ordering::SeqCst);
            match self.b.poll(&mut cx) {
                Poll::Ready(ev) => outs.push(self.convert(ev)),
                Poll::Pending => {
                    if !self.flag.0.swap(false, Ordering::SeqCst) {
                        break;
                    }
                }
            }
        }
        outs
    }

    fn convert(&self, ev: ToSwarm<Event, ToHandlerEvent>) -> Out {
        match ev {
            ToSwarm::GenerateEvent(e) => Out::Event(e),
            ToSwarm::NotifyHandler { peer_id, handler, event } => {
                let peer = self.peer_index(&peer_id);
                match event {
                    ToHandlerEvent::SendWantlist(wantlist) => {
                        let conn = match handler {
                            libp2p_swarm::NotifyHandler::One(c) => conn_number(c),
                            libp2p_swarm::NotifyHandler::Any => usize::MAX,
                        };
                        Out::SendWantlist { peer, conn, wantlist }
                    }
                    ToHandlerEvent::QueueOutgoingMessages(blocks) => Out::SendBlocks {
                        peer,
                        any: matches!(handler, libp2p_swarm::NotifyHandler::Any),
                        blocks,
                    },
                }
            }
            _ => Out::Other,
        }
    }
}

pub fn conn_number(c: ConnectionId) -> usize {
    // ConnectionId's Display prints the number
    format!("{c}").parse().unwrap()
}
