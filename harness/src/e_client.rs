//! Engine `client`: the client half of `Behaviour` driven op by op (Corr_client.v).
use std::sync::atomic::Ordering;
use std::task::{Context, Poll, Waker};

use beetswap::verif::clock::{self, Instant};
use beetswap::verif::proto::mod_Message::mod_Wantlist::WantType;
use beetswap::verif::{client_get_new_blocks, client_poll, client_snapshot, incoming_from_parts, IncomingParts, SendingState, ToBehaviourEvent, ToHandlerEvent};
use beetswap::Event;
use cid::CidGeneric;
use libp2p_swarm::{ConnectionId, NotifyHandler, ToSwarm};
use multihash::Multihash;

use crate::gen::*;
use crate::json::{Case, J};
use crate::node::*;
use crate::rng::Rng;

fn ss_j(s: &SendingState) -> J {
    match s {
        SendingState::Ready => J::c0("SsReady"),
        SendingState::Requested(t, c) => J::C("SsRequested", vec![J::n(t.0), J::us(conn_number(*c))]),
        SendingState::RequestReceived(t, c) => J::C("SsRequestReceived", vec![J::n(t.0), J::us(conn_number(*c))]),
        SendingState::Sending(t, c) => J::C("SsSending", vec![J::n(t.0), J::us(conn_number(*c))]),
        SendingState::Failed(c) => J::C("SsFailed", vec![J::us(conn_number(*c))]),
    }
}

pub fn csnap_j(node: &Node) -> J {
    let s = client_snapshot(&node.b);
    let mut peers: Vec<(usize, J)> = s
        .peers
        .iter()
        .map(|p| {
            let i = node.peer_index(&p.peer);
            (
                i,
                J::C(
                    "PSnap",
                    vec![
                        J::us(i),
                        J::L(p.established_connections.iter().map(|c| J::us(conn_number(*c))).collect()),
                        ss_j(&p.sending_state),
                        J::L(p.wantlist.req_state.iter().map(|(c, st)| J::T(vec![cid_j(c), J::n(*st)])).collect()),
                        J::B(p.wantlist.force_update),
                        J::n(p.wantlist.synced_revision),
                        J::B(p.send_full),
                    ],
                ),
            )
        })
        .collect();
    peers.sort_by_key(|(i, _)| *i);
    J::C(
        "CSnap",
        vec![
            J::us(s.queue_len),
            J::L(s.wantlist.cids.iter().map(cid_j).collect()),
            J::n(s.wantlist.revision),
            J::L(peers.into_iter().map(|(_, j)| j).collect()),
            J::L(s.cid_to_queries.iter().map(|(c, qs)| J::T(vec![cid_j(c), J::L(qs.iter().map(|q| J::n(*q)).collect())])).collect()),
            J::us(s.tasks_len),
            J::L(s.query_abort_handle.iter().map(|q| J::n(*q)).collect()),
            J::n(s.next_query_id),
            J::us(s.new_blocks_len),
        ],
    )
}

pub fn gen_entries_j(w: &beetswap::verif::proto::mod_Message::Wantlist) -> J {
    J::L(w
        .entries
        .iter()
        .map(|e| {
            let cid = Cid64::try_from(e.block.as_slice()).expect("generated entry holds a cid");
            let kind = if e.cancel { "KCancel" } else if e.wantType == WantType::Have { "KWantHave" } else { "KWantBlock" };
            J::T(vec![J::c0(kind), cid_j(&cid)])
        })
        .collect())
}

pub struct CRun {
    pub node: Node,
    pub ops: Vec<J>,
    pub obs: Vec<J>,
    pub open_calls: Vec<(usize, CallKind)>,
    pub conns: Vec<Vec<usize>>,
    pub next_conn: usize,
    pub queries: u64,
    /// last SendWantlist per peer that has not been answered by a final report: (conn)
    pub sending: Vec<Option<usize>>,
    pub flagw: std::sync::Arc<Flag>,
}

pub struct Flag(pub std::sync::atomic::AtomicBool);
impl std::task::Wake for Flag {
    fn wake(self: std::sync::Arc<Self>) {
        self.0.store(true, Ordering::SeqCst);
    }
}

impl CRun {
    pub fn new(npeers: usize, sdh: bool) -> CRun {
        CRun {
            node: Node::new(move |b| b.client_set_send_dont_have(sdh), npeers),
            ops: vec![],
            obs: vec![],
            open_calls: vec![],
            conns: vec![vec![]; npeers],
            next_conn: 1,
            queries: 0,
            sending: vec![None; npeers],
            flagw: std::sync::Arc::new(Flag(std::sync::atomic::AtomicBool::new(false))),
        }
    }

    fn record(&mut self, op: J, outs: Vec<J>) {
        self.ops.push(op);
        self.obs.push(J::T(vec![J::L(outs), csnap_j(&self.node)]));
    }

    pub fn new_conn(&mut self, p: usize) -> usize {
        let c = self.next_conn;
        self.next_conn += 1;
        let _h = self.node.new_conn(p, c);
        self.conns[p].push(c);
        self.record(J::C("CNewConn", vec![J::us(p), J::us(c)]), vec![]);
        c
    }

    pub fn conn_closed(&mut self, p: usize, c: usize, via_handler: bool) {
        self.conns[p].retain(|x| *x != c);
        if via_handler {
            let peer = self.node.peers[p];
            self.node.handler_event(p, c, ToBehaviourEvent::ClientClosingConnection(peer, ConnectionId::new_unchecked(c)));
        } else {
            let remaining = self.conns[p].len();
            // only the client half is under test: keep the server half connected (remaining > 0)
            self.node.conn_closed(p, c, remaining.max(1));
        }
        self.record(J::C("CConnClosed", vec![J::us(p), J::us(c)]), vec![]);
    }

    pub fn get(&mut self, cid: Option<&Cid64>) -> u64 {
        let (q, j) = match cid {
            Some(c) => (self.node.b.get(c), J::some(cid_j(c))),
            None => {
                // a CID whose digest does not fit Multihash<64>
                let big = CidGeneric::<128>::new_v1(0x55, Multihash::<128>::wrap(0x1234, &[7u8; 100]).unwrap());
                (self.node.b.get(&big), J::none())
            }
        };
        let q = beetswap::verif::client::query_id(q);
        self.queries += 1;
        self.record(J::C("CGet", vec![j]), vec![J::C("OQuery", vec![J::n(q)])]);
        q
    }

    pub fn cancel(&mut self, q: u64) {
        self.node.b.cancel(beetswap::verif::client::query_id_from(q));
        self.record(J::C("CCancel", vec![J::n(q)]), vec![]);
    }

    pub fn incoming(&mut self, p: usize, pres: Vec<(Cid64, bool)>, blocks: Vec<(Cid64, Vec<u8>)>) {
        let pj = J::L(pres.iter().map(|(c, h)| J::T(vec![cid_j(c), J::B(*h)])).collect());
        let bj = J::L(blocks.iter().map(|(c, d)| J::T(vec![cid_j(c), J::bytes(d)])).collect());
        let inc = incoming_from_parts::<64>(IncomingParts { presences: Some(pres), blocks: Some(blocks), wantlist: None });
        let peer = self.node.peers[p];
        let c = self.conns[p].first().copied().unwrap_or(0);
        self.node.handler_event(p, c, ToBehaviourEvent::IncomingMessage(peer, inc));
        self.record(J::C("CIncoming", vec![J::us(p), pj, bj]), vec![]);
    }

    pub fn report(&mut self, p: usize, c: usize, kind: u8) {
        let now = Instant(clock::now_ms());
        let cid = ConnectionId::new_unchecked(c);
        let (state, j) = match kind {
            0 => (SendingState::Ready, J::c0("RpReady")),
            1 => (SendingState::RequestReceived(now, cid), J::C("RpRequestReceived", vec![J::us(c)])),
            2 => (SendingState::Sending(now, cid), J::C("RpSending", vec![J::us(c)])),
            _ => (SendingState::Failed(cid), J::C("RpFailed", vec![J::us(c)])),
        };
        let peer = self.node.peers[p];
        self.node.handler_event(p, c, ToBehaviourEvent::SendingStateChanged(peer, state));
        self.record(J::C("CReport", vec![J::us(p), J::us(c), j]), vec![]);
    }

    pub fn release(&mut self, call: usize, r: Release) {
        let rj = match &r {
            Release::Hit(d) => J::C("SHit", vec![J::bytes(d)]),
            Release::Miss => J::c0("SMiss"),
            Release::Fail => J::c0("SFail"),
        };
        if let Some(pos) = self.open_calls.iter().position(|(k, _)| *k == call) {
            self.open_calls.remove(pos);
        }
        self.node.store.release(call, r);
        self.record(J::C("CRelease", vec![J::us(call), rj]), vec![]);
    }

    pub fn advance(&mut self, ms: u64) {
        clock::set_now_ms(clock::now_ms() + ms);
        self.record(J::C("CAdvance", vec![J::n(ms)]), vec![]);
    }

    pub fn poll(&mut self) -> Vec<(usize, usize, bool)> {
        let waker = Waker::from(self.flagw.clone());
        let mut cx = Context::from_waker(&waker);
        let mut events: Vec<J> = Vec::new();
        let mut sends: Vec<(usize, usize, bool, J)> = Vec::new();
        let mut guard = 0;
        loop {
            guard += 1;
            assert!(guard < 100_000, "client poll does not quiesce");
            self.flagw.0.store(false, Ordering::SeqCst);
            match client_poll(&mut self.node.b, &mut cx) {
                Poll::Ready(ToSwarm::GenerateEvent(Event::GetQueryResponse { query_id, data })) => {
                    events.push(J::C("OResponse", vec![J::n(beetswap::verif::client::query_id(query_id)), J::bytes(&data)]));
                }
                Poll::Ready(ToSwarm::GenerateEvent(Event::GetQueryError { query_id, error })) => {
                    let kind = match error {
                        beetswap::Error::InvalidMultihashSize => 0u32,
                        beetswap::Error::Blockstore(_) => 1,
                        _ => 2,
                    };
                    events.push(J::C("OError", vec![J::n(beetswap::verif::client::query_id(query_id)), J::n(kind)]));
                }
                Poll::Ready(ToSwarm::NotifyHandler { peer_id, handler, event: ToHandlerEvent::SendWantlist(w) }) => {
                    let p = self.node.peer_index(&peer_id);
                    let c = match handler {
                        NotifyHandler::One(c) => conn_number(c),
                        NotifyHandler::Any => usize::MAX,
                    };
                    sends.push((p, c, w.full, J::C("OSendWantlist", vec![J::us(p), J::us(c), J::B(w.full), gen_entries_j(&w)])));
                }
                Poll::Ready(_) => events.push(J::c0("OPanic")),
                Poll::Pending => {
                    if !self.flagw.0.swap(false, Ordering::SeqCst) {
                        break;
                    }
                }
            }
        }
        sends.sort_by_key(|(p, _, _, _)| *p);
        let choice = J::L(sends.iter().map(|(p, c, _, _)| J::T(vec![J::us(*p), J::us(*c)])).collect());
        let ret: Vec<(usize, usize, bool)> = sends.iter().map(|(p, c, f, _)| (*p, *c, *f)).collect();
        events.extend(sends.into_iter().map(|(_, _, _, j)| j));
        for (id, kind) in self.node.store.take_new_calls() {
            match &kind {
                CallKind::Get(c) => events.push(J::C("OGet", vec![J::us(id), cid_j(c)])),
                CallKind::PutMany(bl) => {
                    events.push(J::C("OPut", vec![J::us(id), J::L(bl.iter().map(|(c, d)| J::T(vec![cid_j(c), J::bytes(d)])).collect())]))
                }
            }
            self.open_calls.push((id, kind));
        }
        for (p, c, _) in &ret {
            self.sending[*p] = Some(*c);
        }
        self.record(J::C("CPoll", vec![choice]), events);
        ret
    }

    pub fn take_new_blocks(&mut self) {
        let bl = client_get_new_blocks(&mut self.node.b);
        let j = J::L(bl.iter().map(|(c, d)| J::T(vec![cid_j(c), J::bytes(d)])).collect());
        self.record(J::c0("CTakeNewBlocks"), vec![J::C("ONewBlocks", vec![j])]);
    }

    pub fn finish(self, sdh: bool, tags: Vec<String>) -> Case {
        Case { input: J::T(vec![J::B(sdh), J::L(self.ops)]), output: J::L(self.obs), tags, nontrivial: true }
    }
}

fn history(rng: &mut Rng, len: usize) -> Case {
    let npeers = 1 + rng.usize(3);
    let sdh = rng.chance(1, 2);
    let mut run = CRun::new(npeers, sdh);
    let ncids = 2 + rng.usize(3);
    let cids: Vec<(Cid64, Vec<u8>)> = (0..ncids).map(|i| { let d = vec![i as u8, 9]; (honest_cid::<64>(rng, &d), d) }).collect();
    let mut tags = vec![format!("hist/peers{npeers}")];
    let mut issued: Vec<u64> = Vec::new();
    if rng.chance(1, 3) {
        // several queries for ONE CID whose lookups all miss (in any completion order), some of them cancelled in any
        // order, then the block arrives: the per-CID query list is exercised with insertions and removals in the middle
        tags.push("prelude/shared_cid_burst".into());
        run.new_conn(0);
        let (c, d) = cids[rng.usize(ncids)].clone();
        let k = 3 + rng.usize(3);
        let mut mine: Vec<u64> = (0..k).map(|_| run.get(Some(&c))).collect();
        issued.extend(mine.iter().copied());
        run.poll();
        while !run.open_calls.is_empty() {
            let (id, _) = run.open_calls[rng.usize(run.open_calls.len())].clone();
            run.release(id, Release::Miss);
            if rng.chance(1, 3) {
                run.poll();
            }
        }
        run.poll();
        for _ in 0..1 + rng.usize(3) {
            if mine.is_empty() {
                break;
            }
            let q = mine.remove(rng.usize(mine.len()));
            run.cancel(q);
            if rng.chance(1, 4) {
                run.poll();
            }
        }
        if rng.chance(2, 3) {
            run.incoming(0, vec![], vec![(c, d)]);
            run.poll();
        }
    }
    if rng.chance(1, 4) {
        // presences flipping around a cancel / re-request of one CID, ending with a refresh: HAVE -> WANT_BLOCK sent ->
        // cancel -> DONT_HAVE (or HAVE again) -> wanted again before the next wantlist is generated -> full wantlist
        tags.push("prelude/presence_flip".into());
        if run.conns[0].is_empty() {
            run.new_conn(0);
        }
        let (c, _) = cids[rng.usize(ncids)].clone();
        let q = run.get(Some(&c));
        issued.push(q);
        for (p, conn, _) in run.poll() {
            run.report(p, conn, 0);
        }
        while let Some((id, _)) = run.open_calls.first().cloned() {
            run.release(id, Release::Miss);
        }
        for (p, conn, _) in run.poll() {
            run.report(p, conn, 0);
        }
        run.incoming(0, vec![(c, true)], vec![]);
        // the update carrying the WANT_BLOCK: either completes at once or stays in flight (acknowledged, not finished)
        // while the query is cancelled, the peer answers again and the CID is asked for again
        let blocked = rng.chance(1, 2);
        let mut in_flight = vec![];
        for (p, conn, _) in run.poll() {
            if blocked {
                run.report(p, conn, 1);
                in_flight.push((p, conn));
            } else {
                run.report(p, conn, 0);
            }
        }
        if blocked {
            tags.push("prelude/presence_flip_in_flight".into());
            run.cancel(q);
            run.incoming(0, vec![(c, rng.chance(1, 4))], vec![]);
            let q3 = run.get(Some(&c));
            issued.push(q3);
            run.poll();
            while let Some((id, _)) = run.open_calls.first().cloned() {
                run.release(id, Release::Miss);
            }
            run.poll();
            for (p, conn) in in_flight {
                run.report(p, conn, if rng.chance(1, 5) { 3 } else { 0 });
            }
            run.advance(if rng.chance(2, 3) { 30_000 } else { 10 });
            for (p, conn, _) in run.poll() {
                run.report(p, conn, 0);
            }
        }
        if rng.chance(3, 4) {
            run.cancel(q);
        }
        if rng.chance(1, 3) {
            for (p, conn, _) in run.poll() {
                run.report(p, conn, 0);
            }
        }
        run.incoming(0, vec![(c, rng.chance(1, 4))], vec![]);
        let q2 = run.get(Some(&c));
        issued.push(q2);
        if rng.chance(1, 2) {
            run.poll();
            while let Some((id, _)) = run.open_calls.first().cloned() {
                run.release(id, Release::Miss);
            }
        }
        if rng.chance(2, 3) {
            run.advance(30_000);
        }
        for (p, conn, _) in run.poll() {
            run.report(p, conn, 0);
        }
        run.poll();
    }
    for _ in 0..len {
        match rng.below(40) {
            0..=3 => {
                let p = rng.usize(npeers);
                if run.conns[p].len() < 3 {
                    run.new_conn(p);
                    tags.push("op/newconn".into());
                }
            }
            4 | 5 => {
                let p = rng.usize(npeers);
                if let Some(c) = run.conns[p].get(rng.usize(3)).copied() {
                    run.conn_closed(p, c, rng.chance(1, 2));
                    tags.push("op/connclosed".into());
                } else if rng.chance(1, 4) {
                    run.conn_closed(p, 77, true);
                    tags.push("op/connclosed_unknown".into());
                }
            }
            6..=10 => {
                let q = if rng.chance(1, 10) { run.get(None) } else { let c = cids[rng.usize(ncids)].0; run.get(Some(&c)) };
                issued.push(q);
                tags.push("op/get".into());
            }
            11 | 12 => {
                let q = if issued.is_empty() || rng.chance(1, 8) { rng.below(12) } else { *rng.pick(&issued) };
                run.cancel(q);
                tags.push("op/cancel".into());
            }
            13..=18 => {
                let p = rng.usize(npeers);
                let mut pres = Vec::new();
                let mut blocks = Vec::new();
                for (i, (c, d)) in cids.iter().enumerate() {
                    if rng.chance(1, 4) {
                        pres.push((*c, rng.chance(1, 2)));
                    }
                    if rng.chance(1, 4) {
                        let _ = i;
                        blocks.push((*c, d.clone()));
                    }
                }
                tags.push(format!("op/incoming/p{}b{}", pres.len().min(2), blocks.len().min(2)));
                run.incoming(p, pres, blocks);
            }
            19..=24 => {
                // reports: mostly the protocol of the connection that was asked to send, sometimes anything
                let p = rng.usize(npeers);
                if rng.chance(1, 5) || run.sending[p].is_none() {
                    let c = if rng.chance(1, 2) { run.conns[p].first().copied().unwrap_or(50) } else { 1 + rng.usize(8) };
                    run.report(p, c, rng.below(4) as u8);
                    tags.push("op/report_any".into());
                } else {
                    let c = run.sending[p].unwrap();
                    let kind = rng.below(8);
                    let kind = match kind { 0 => 3u8, 1 | 2 => 1, 3 | 4 => 2, _ => 0 };
                    if kind == 0 || kind == 3 {
                        run.sending[p] = None;
                    }
                    run.report(p, c, kind);
                    tags.push("op/report_protocol".into());
                }
            }
            25..=29 => {
                if run.open_calls.is_empty() || rng.chance(1, 12) {
                    let k = run.node.store.n_calls() + rng.usize(3);
                    run.release(k, Release::Miss);
                    tags.push("op/release_unknown".into());
                } else {
                    let (k, kind) = run.open_calls[rng.usize(run.open_calls.len())].clone();
                    let r = match kind {
                        CallKind::Get(c) => {
                            let d = cids.iter().find(|(x, _)| *x == c).map(|(_, d)| d.clone()).unwrap_or_default();
                            match rng.below(10) { 0 => Release::Fail, 1..=3 => Release::Hit(d), _ => Release::Miss }
                        }
                        CallKind::PutMany(_) => if rng.chance(1, 6) { Release::Fail } else { Release::Hit(vec![]) },
                    };
                    tags.push(match r { Release::Hit(_) => "op/release_hit".into(), Release::Miss => "op/release_miss".into(), Release::Fail => "op/release_fail".into() });
                    run.release(k, r);
                }
            }
            30 | 31 => {
                let ms = *rng.pick(&[100u64, 400, 999, 1000, 1001, 5000, 29000, 30000, 31000]);
                run.advance(ms);
                tags.push("op/advance".into());
            }
            32 => {
                run.take_new_blocks();
                tags.push("op/take_new_blocks".into());
            }
            _ => {
                run.poll();
                tags.push("op/poll".into());
            }
        }
    }
    run.poll();
    run.take_new_blocks();
    tags.sort();
    tags.dedup();
    run.finish(sdh, tags)
}

pub fn run(seed: u64, n: usize, _tier: &str) {
    let mut rng = Rng::new(seed);
    for i in 0..n {
        let len = if i % 5 == 0 { 70 } else { 10 + rng.usize(30) };
        history(&mut rng, len).print();
    }
}
