//! Engine `hasher`: MultihasherTable with recording scripted hashers.
use std::panic::{catch_unwind, AssertUnwindSafe};
use std::sync::{Arc, Mutex};

use beetswap::multihasher::{Multihasher, MultihasherError};
use beetswap::verif::HasherTable;
use multihash::Multihash;

use crate::gen::*;
use crate::json::{Case, J};
use crate::rng::Rng;

#[derive(Clone, Debug, PartialEq)]
pub enum Kind {
    Unknown,
    /// accepts (like Ok) data whose first byte is even, answers Custom for the rest: a validating hasher
    Validating(Vec<u8>),
    Ok(Vec<u8>),
    Custom,
    Fatal,
    Invalid,
}

/// A multihasher whose answer per code is scripted and which records that it was consulted.
#[derive(Clone)]
pub struct ScriptHasher {
    pub id: usize,
    pub answers: Vec<(u64, Kind)>,
    pub log: Arc<Mutex<Vec<usize>>>,
}

impl ScriptHasher {
    pub fn answer(&self, code: u64, input: &[u8]) -> Kind {
        for (c, k) in &self.answers {
            if *c == code {
                let k = match k {
                    Kind::Validating(d) => {
                        if input.first().copied().unwrap_or(0) % 2 == 1 { &Kind::Custom } else { &Kind::Ok(d.clone()) }
                    }
                    k => k,
                };
                let k: Kind = k.clone();
                return match &k {
                    // make the digest depend on the data so that wrong data is distinguishable
                    Kind::Ok(d) => {
                        let mut d = d.clone();
                        for (i, b) in input.iter().enumerate() {
                            let n = d.len().max(1);
                            if !d.is_empty() {
                                d[i % n] ^= *b;
                            }
                        }
                        Kind::Ok(d)
                    }
                    k => k.clone(),
                };
            }
        }
        Kind::Unknown
    }
}

/// Pending once, then ready (wakes itself): an asynchronous hasher whose latency depends on its input
pub struct YieldNow(bool);
impl std::future::Future for YieldNow {
    type Output = ();
    fn poll(mut self: std::pin::Pin<&mut Self>, cx: &mut std::task::Context<'_>) -> std::task::Poll<()> {
        if self.0 {
            std::task::Poll::Ready(())
        } else {
            self.0 = true;
            cx.waker().wake_by_ref();
            std::task::Poll::Pending
        }
    }
}

impl<const S: usize> Multihasher<S> for ScriptHasher {
    async fn hash(&self, code: u64, input: &[u8]) -> Result<Multihash<S>, MultihasherError> {
        // input-dependent latency: 0..3 extra polls
        for _ in 0..(input.first().copied().unwrap_or(0) % 4) {
            YieldNow(false).await;
        }
        self.log.lock().unwrap().push(self.id);
        match self.answer(code, input) {
            Kind::Unknown => Err(MultihasherError::UnknownMultihashCode),
            Kind::Validating(_) => unreachable!("answer() resolves Validating"),
            Kind::Ok(d) => Multihash::wrap(code, &d).map_err(|_| MultihasherError::InvalidMultihashSize),
            Kind::Custom => Err(MultihasherError::custom("scripted")),
            Kind::Fatal => Err(MultihasherError::custom_fatal("scripted")),
            Kind::Invalid => Err(MultihasherError::InvalidMultihashSize),
        }
    }
}

pub fn kind_j(k: &Kind, code: u64) -> J {
    match k {
        Kind::Unknown => J::c0("KUnknown"),
        Kind::Validating(_) => unreachable!("answer() resolves Validating"),
        Kind::Ok(d) => J::C("KOk", vec![J::C("MkMh", vec![J::n(code), J::bytes(d)])]),
        Kind::Custom => J::c0("KCustom"),
        Kind::Fatal => J::c0("KFatal"),
        Kind::Invalid => J::c0("KInvalid"),
    }
}

pub fn hres_j<const S: usize>(r: &Result<Multihash<S>, MultihasherError>) -> J {
    match r {
        Ok(mh) => J::C("HOk", vec![J::C("MkMh", vec![J::n(mh.code()), J::bytes(mh.digest())])]),
        Err(MultihasherError::UnknownMultihashCode) => J::C("HErr", vec![J::c0("UnknownMultihashCode")]),
        Err(MultihasherError::InvalidMultihashSize) => J::C("HErr", vec![J::c0("InvalidMultihashSize")]),
        Err(MultihasherError::Custom(_)) => J::C("HErr", vec![J::c0("CustomErr")]),
        Err(MultihasherError::CustomFatal(_)) => J::C("HErr", vec![J::c0("CustomFatalErr")]),
    }
}

fn one<const S: usize>(kinds: &[Kind], code: u64, data: &[u8], other_codes: &[(usize, u64, Kind)]) -> Case {
    let log = Arc::new(Mutex::new(Vec::new()));
    let hashers: Vec<ScriptHasher> = kinds
        .iter()
        .enumerate()
        .map(|(id, k)| {
            let mut answers = vec![(code, k.clone())];
            // overlapping code sets: answers for other codes must not matter
            for (hid, c, k2) in other_codes {
                if *hid == id {
                    answers.push((*c, k2.clone()));
                }
            }
            ScriptHasher { id, answers, log: log.clone() }
        })
        .collect();
    // what each hasher answers for (code, data), for the model
    let scripted: Vec<J> = hashers
        .iter()
        .map(|h| match h.answer(code, data) {
            // the scripted hasher itself fails when its digest does not fit Multihash<S>
            Kind::Ok(d) if d.len() > S => kind_j(&Kind::Invalid, code),
            k => kind_j(&k, code),
        })
        .collect();
    let raw = table_digest(code, data);
    let res = catch_unwind(AssertUnwindSafe(|| {
        let table = HasherTable::<S>::new(hashers);
        block_on(table.hash(code, data))
    }));
    let consulted: Vec<J> = log.lock().unwrap().iter().map(|i| J::us(*i)).collect();
    let output = match res {
        Err(_) => J::c0("HPanicked"),
        Ok(r) => J::C("HOut", vec![hres_j(&r), J::L(consulted)]),
    };
    Case {
        input: J::C(
            "HTable",
            vec![J::us(S), J::L(scripted), J::n(code), J::bytes(data), J::opt(raw.as_deref().map(J::bytes))],
        ),
        output,
        tags: vec![format!("n{}/{}", kinds.len(), if raw.is_some() { "table_code" } else { "custom_code" })],
        nontrivial: !kinds.is_empty(),
    }
}

fn all_kinds(rng: &mut Rng) -> Vec<Kind> {
    vec![
        Kind::Unknown,
        Kind::Ok(rng.bytes(8)),
        Kind::Custom,
        Kind::Fatal,
        Kind::Invalid,
    ]
}

pub fn run(seed: u64, n: usize, tier: &str) {
    let mut rng = Rng::new(seed);
    let kinds = all_kinds(&mut rng);
    // every registration order of up to 4 hashers x 5 answer kinds, for a table code and a custom code
    let max = if tier == "thorough" { 5 } else { 4 };
    for code in [0x12u64, 0x1234_5678, 0xb220] {
        let mut stack: Vec<Vec<Kind>> = vec![vec![]];
        while let Some(s) = stack.pop() {
            let data = small_data(&mut rng);
            one::<64>(&s, code, &data, &[]).print();
            if s.len() < max {
                for k in &kinds {
                    let mut t = s.clone();
                    t.push(k.clone());
                    stack.push(t);
                }
            }
        }
    }
    // random: overlapping code sets, other capacities, oversized digests
    for _ in 0..n {
        let len = rng.usize(5);
        let ks: Vec<Kind> = (0..len)
            .map(|_| match rng.below(6) {
                0 | 1 => Kind::Unknown,
                2 => Kind::Ok(rng.bytes(rng.clone().usize(70))),
                3 => Kind::Custom,
                4 => Kind::Fatal,
                _ => Kind::Invalid,
            })
            .collect();
        let code = if rng.chance(1, 2) { *rng.pick(TABLE_CODES) } else { rng.boundary_u64() };
        let others: Vec<(usize, u64, Kind)> = (0..rng.usize(4))
            .map(|_| (rng.usize(len.max(1)), *rng.pick(TABLE_CODES), Kind::Fatal))
            .filter(|(_, c, _)| *c != code)
            .collect();
        let data = small_data(&mut rng);
        match rng.below(3) {
            0 => one::<64>(&ks, code, &data, &others).print(),
            1 => one::<32>(&ks, code, &data, &others).print(),
            _ => one::<20>(&ks, code, &data, &others).print(),
        }
    }
}
