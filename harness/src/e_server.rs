//! Engine `server`: the server half of `Behaviour` driven op by op (Corr_server.v).
use std::collections::HashMap;

use beetswap::verif::proto::mod_Message::mod_Wantlist::{Entry, WantType};
use beetswap::verif::proto::mod_Message::Wantlist;
use beetswap::verif::{incoming_from_parts, server_snapshot, IncomingParts, ToBehaviourEvent};
use multihash::Multihash;

use crate::e_incoming::wantlist_j;
use crate::gen::*;
use crate::json::{Case, J};
use crate::node::*;
use crate::rng::Rng;

fn snap_j(node: &Node) -> J {
    let s = server_snapshot(&node.b);
    let mut wants: Vec<(usize, Vec<Cid64>)> = s.peers_wantlists.iter().map(|(p, c)| (node.peer_index(p), c.clone())).collect();
    wants.sort_by_key(|(p, _)| *p);
    let mut waiting: Vec<(Cid64, Vec<usize>)> = s
        .peers_waiting_for_cid
        .iter()
        .map(|(c, ps)| (*c, ps.iter().map(|p| node.peer_index(p)).collect()))
        .collect();
    waiting.sort_by_key(|(c, _)| c.to_bytes());
    J::C(
        "Snap",
        vec![
            J::L(wants.iter().map(|(p, cs)| J::T(vec![J::us(*p), J::L(cs.iter().map(cid_j).collect())])).collect()),
            J::L(waiting.iter().map(|(c, ps)| J::T(vec![cid_j(c), J::L(ps.iter().map(|p| J::us(*p)).collect())])).collect()),
            J::us(s.outgoing_queue.len()),
            J::us(s.tasks_len),
        ],
    )
}

fn want_order(node: &Node, peer: usize) -> Vec<Cid64> {
    let s = server_snapshot(&node.b);
    s.peers_wantlists
        .iter()
        .find(|(p, _)| node.peer_index(p) == peer)
        .map(|(_, c)| c.clone())
        .unwrap_or_default()
}

struct Run {
    node: Node,
    ops: Vec<J>,
    obs: Vec<J>,
    open_calls: Vec<(usize, Cid64)>,
    connected: Vec<bool>,
    conns: usize,
}

impl Run {
    fn new(npeers: usize) -> Run {
        Run { node: Node::new(|b| b, npeers), ops: vec![], obs: vec![], open_calls: vec![], connected: vec![false; npeers], conns: 0 }
    }

    fn record(&mut self, op: J, outs: Vec<J>) {
        self.ops.push(op);
        self.obs.push(J::T(vec![J::L(outs), snap_j(&self.node)]));
    }

    fn new_conn(&mut self, p: usize) {
        self.conns += 1;
        let _h = self.node.new_conn(p, self.conns);
        self.connected[p] = true;
        self.record(J::C("SNewConn", vec![J::us(p)]), vec![]);
    }

    fn disconnected(&mut self, p: usize) {
        self.node.conn_closed(p, 0, 0);
        self.connected[p] = false;
        self.record(J::C("SDisconnected", vec![J::us(p)]), vec![]);
    }

    fn msg(&mut self, p: usize, w: Wantlist) {
        let full = w.full;
        let inc = incoming_from_parts::<64>(IncomingParts { presences: None, blocks: None, wantlist: Some(w.clone()) });
        self.node.handler_event(p, 1, ToBehaviourEvent::IncomingMessage(self.node.peers[p], inc));
        let order = if full { want_order(&self.node, p) } else { vec![] };
        self.record(J::C("SMsg", vec![J::us(p), wantlist_j(&w), J::L(order.iter().map(cid_j).collect())]), vec![]);
    }

    fn new_blocks(&mut self, bl: Vec<(Cid64, Vec<u8>)>) {
        let j = J::L(bl.iter().map(|(c, d)| J::T(vec![cid_j(c), J::bytes(d)])).collect());
        self.node.handler_event(0, 1, ToBehaviourEvent::NewBlocksAvailable(bl));
        self.record(J::C("SNewBlocks", vec![j]), vec![]);
    }

    fn release(&mut self, call: usize, r: Release) {
        let rj = match &r {
            Release::Hit(d) => J::C("SHit", vec![J::bytes(d)]),
            Release::Miss => J::c0("SMiss"),
            Release::Fail => J::c0("SFail"),
        };
        if let Some(pos) = self.open_calls.iter().position(|(k, _)| *k == call) {
            self.open_calls.remove(pos);
            self.node.store.release(call, r);
        }
        self.record(J::C("SRelease", vec![J::us(call), rj]), vec![]);
    }

    fn poll(&mut self) {
        let outs = self.node.poll_all();
        let mut gets = Vec::new();
        for (id, kind) in self.node.store.take_new_calls() {
            if let CallKind::Get(c) = kind {
                gets.push(J::C("OGet", vec![J::us(id), cid_j(&c)]));
                self.open_calls.push((id, c));
            }
        }
        let mut sends: Vec<(usize, J)> = Vec::new();
        for o in outs {
            if let Out::SendBlocks { peer, blocks, .. } = o {
                sends.push((
                    peer,
                    J::C("OSend", vec![J::us(peer), J::L(blocks.iter().map(|(p, d)| J::T(vec![J::bytes(p), J::bytes(d)])).collect())]),
                ));
            }
        }
        sends.sort_by_key(|(p, _)| *p);
        gets.extend(sends.into_iter().map(|(_, j)| j));
        self.record(J::c0("SPoll"), gets);
    }

    fn finish(self, tags: Vec<String>) -> Case {
        Case {
            input: J::T(vec![J::us(64usize), J::L(self.ops)]),
            output: J::L(self.obs),
            tags,
            nontrivial: true,
        }
    }
}

fn tiny_cid(i: u32) -> Cid64 {
    Cid64::new_v1(0x55, Multihash::<64>::wrap(0x00, &i.to_le_bytes()[..2]).unwrap())
}

fn entry(c: &Cid64, cancel: bool, rng: &mut Rng) -> Entry {
    Entry {
        block: c.to_bytes(),
        priority: 1,
        cancel,
        wantType: if rng.chance(1, 2) { WantType::Have } else { WantType::Block },
        sendDontHave: rng.chance(1, 2),
    }
}

fn history(rng: &mut Rng, len: usize) -> Case {
    let npeers = 1 + rng.usize(3);
    let mut run = Run::new(npeers);
    let ncids = 2 + rng.usize(3);
    let cids: Vec<(Cid64, Vec<u8>)> = (0..ncids).map(|i| { let d = vec![i as u8, 7]; (honest_cid::<64>(rng, &d), d) }).collect();
    let data: HashMap<Vec<u8>, Vec<u8>> = cids.iter().map(|(c, d)| (c.to_bytes(), d.clone())).collect();
    let mut stored: Vec<bool> = (0..ncids).map(|_| rng.chance(1, 2)).collect();
    let mut tags = vec![format!("hist/peers{npeers}")];
    run.new_conn(0);
    for _ in 0..len {
        match rng.below(20) {
            0 => {
                let p = rng.usize(npeers);
                run.new_conn(p);
                tags.push("op/newconn".into());
            }
            1 => {
                let p = rng.usize(npeers);
                if run.connected[p] && rng.chance(1, 2) {
                    run.disconnected(p);
                    tags.push("op/disconnect".into());
                }
            }
            2..=8 => {
                let p = rng.usize(npeers);
                let n = match rng.below(5) { 0 => 0, 1 => 1, _ => 1 + rng.usize(3) };
                let mut entries: Vec<Entry> = (0..n)
                    .map(|_| {
                        let c = &cids[rng.usize(ncids)].0;
                        entry(c, rng.chance(1, 3), rng)
                    })
                    .collect();
                if n > 0 && rng.chance(1, 4) {
                    // cancel + want of one CID in the same message, either order
                    let c = cids[rng.usize(ncids)].0;
                    let first_cancel = rng.chance(1, 2);
                    entries.push(entry(&c, first_cancel, rng));
                    entries.push(entry(&c, !first_cancel, rng));
                    tags.push("msg/cancel+want".into());
                }
                if rng.chance(1, 8) {
                    entries.push(Entry { block: rng.bytes(3), ..Default::default() });
                    tags.push("msg/undecodable".into());
                }
                if n > 1 && rng.chance(1, 5) {
                    let d = entries[0].clone();
                    entries.push(d);
                    tags.push("msg/duplicate".into());
                }
                let full = rng.chance(1, 3);
                tags.push(if full { "msg/full".into() } else { "msg/update".into() });
                run.msg(p, Wantlist { entries, full });
            }
            9 | 10 => {
                let i = rng.usize(ncids);
                stored[i] = true;
                run.new_blocks(vec![(cids[i].0, cids[i].1.clone())]);
                tags.push("op/newblocks".into());
            }
            11..=15 => {
                if run.open_calls.is_empty() || rng.chance(1, 12) {
                    let k = run.node.store.n_calls() + rng.usize(3);
                    run.release(k, Release::Miss);
                    tags.push("op/release_unknown".into());
                } else {
                    let (k, c) = run.open_calls[rng.usize(run.open_calls.len())];
                    let i = cids.iter().position(|(x, _)| *x == c).unwrap();
                    let r = if rng.chance(1, 10) {
                        Release::Fail
                    } else if stored[i] || rng.chance(1, 6) {
                        Release::Hit(data[&c.to_bytes()].clone())
                    } else {
                        Release::Miss
                    };
                    tags.push(match r { Release::Hit(_) => "op/release_hit".into(), Release::Miss => "op/release_miss".into(), Release::Fail => "op/release_fail".into() });
                    run.release(k, r);
                }
            }
            _ => {
                run.poll();
                tags.push("op/poll".into());
            }
        }
    }
    // drive to quiescence: release everything, poll, repeat
    for _ in 0..40 {
        run.poll();
        if run.open_calls.is_empty() {
            break;
        }
        while let Some((k, c)) = run.open_calls.first().cloned() {
            let i = cids.iter().position(|(x, _)| *x == c).unwrap();
            let r = if stored[i] { Release::Hit(data[&c.to_bytes()].clone()) } else { Release::Miss };
            run.release(k, r);
        }
    }
    tags.sort();
    tags.dedup();
    run.finish(tags)
}

/// wantlists of n entries, full or update, twice (C13 cap)
fn big(rng: &mut Rng, n: usize, full: bool) -> Case {
    let mut run = Run::new(1);
    run.new_conn(0);
    let entries: Vec<Entry> = (0..n as u32).map(|i| entry(&tiny_cid(i), false, rng)).collect();
    run.msg(0, Wantlist { entries, full });
    // a second message on top: more entries of the other form
    let entries2: Vec<Entry> = (0..40u32).map(|i| entry(&tiny_cid(100_000 + i), false, rng)).collect();
    run.msg(0, Wantlist { entries: entries2, full: !full });
    run.disconnected(0);
    run.finish(vec![format!("big/{}{}", if full { "full" } else { "update" }, n)])
}

/// near the cap, then updates mixing cancels (of wanted CIDs, of CIDs never wanted, repeated) with more new wants than fit (C13 cap)
fn big_mixed(rng: &mut Rng, n0: usize, bogus: usize, real: usize, new: usize, cancels_first: bool, rounds: usize) -> Case {
    let mut run = Run::new(1);
    run.new_conn(0);
    let entries: Vec<Entry> = (0..n0 as u32).map(|i| entry(&tiny_cid(i), false, rng)).collect();
    run.msg(0, Wantlist { entries, full: rng.chance(1, 2) });
    for r in 0..rounds as u32 {
        let mut cancels: Vec<Entry> = Vec::new();
        let repeated = tiny_cid(200_000);
        for i in 0..bogus as u32 {
            let c = if rng.chance(1, 2) { repeated } else { tiny_cid(300_000 + 1000 * r + i) };
            cancels.push(entry(&c, true, rng));
        }
        for i in 0..real as u32 {
            cancels.push(entry(&tiny_cid(r * real as u32 + i), true, rng));
        }
        let wants: Vec<Entry> = (0..new as u32).map(|i| entry(&tiny_cid(400_000 + 1000 * r + i), false, rng)).collect();
        let entries = if cancels_first { cancels.into_iter().chain(wants).collect() } else { wants.into_iter().chain(cancels).collect() };
        run.msg(0, Wantlist { entries, full: false });
    }
    run.poll();
    run.disconnected(0);
    run.finish(vec![format!("bigmixed/{n0}+{bogus}b{real}r{new}n x{rounds}")])
}

/// at the cap, one more want (does not fit), optionally cancelled again; then its block becomes available: a want that never
/// entered the want set (or was withdrawn) must not be served (C07), and nothing about it may be on record (C13)
fn over_cap_then_available(rng: &mut Rng, cancel: bool, full_first: bool) -> Case {
    let mut run = Run::new(1);
    run.new_conn(0);
    let entries: Vec<Entry> = (0..1024u32).map(|i| entry(&tiny_cid(i), false, rng)).collect();
    run.msg(0, Wantlist { entries, full: full_first });
    let x = tiny_cid(500_000);
    let y = tiny_cid(7);
    run.msg(0, Wantlist { entries: vec![entry(&x, false, rng)], full: false });
    if cancel {
        run.msg(0, Wantlist { entries: vec![entry(&x, true, rng)], full: false });
    }
    run.poll();
    run.new_blocks(vec![(x, vec![1, 2, 3]), (y, vec![4, 5])]);
    run.poll();
    run.disconnected(0);
    run.finish(vec![format!("overcap/cancel{}", cancel as u8)])
}

pub fn run(seed: u64, n: usize, tier: &str) {
    let mut rng = Rng::new(seed);
    let sizes: &[usize] = if tier == "thorough" { &[0, 1, 1023, 1024, 1025, 2048, 5000] } else { &[0, 1, 1023, 1024, 1025, 1300] };
    for s in sizes {
        big(&mut rng, *s, true).print();
        big(&mut rng, *s, false).print();
    }
    for (n0, bogus, real, new, first, rounds) in [(1020usize, 8usize, 0usize, 60usize, true, 1usize), (1024, 20, 3, 30, false, 2), (1000, 5, 5, 40, true, 2), (1024, 0, 10, 25, rng.chance(1, 2), 1)] {
        big_mixed(&mut rng, n0, bogus, real, new, first, rounds).print();
    }
    over_cap_then_available(&mut rng, true, false).print();
    over_cap_then_available(&mut rng, false, true).print();
    for i in 0..n {
        let len = if i % 5 == 0 { 60 } else { 8 + rng.usize(24) };
        history(&mut rng, len).print();
    }
}
