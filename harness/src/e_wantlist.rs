//! Engine `wantlist`: raw API histories on one Wantlist + one WantlistState (Corr_wantlist.v).
use beetswap::verif::wantlist::{VWantlist, VWantlistState};
use cid::CidGeneric;
use multihash::Multihash;

use crate::e_incoming::entry_j;
use crate::gen::*;
use crate::json::{Case, J};
use crate::node::Cid64;
use crate::rng::Rng;

#[derive(Clone, Copy, Debug)]
enum Op {
    Insert(usize),
    Remove(usize),
    Have(usize),
    DontHave(usize),
    Block(usize),
    WantedAgain(usize),
    GenUpdate,
    GenFull,
}

fn run_history(cids: &[Cid64], sdh: bool, events: &[Ev], tags: Vec<String>) -> Case {
    let mut wl = VWantlist::<64>::new(sdh);
    let mut st = VWantlistState::<64>::new();
    let mut ops = Vec::new();
    let mut outs = Vec::new();
    let mut step = |op: Op, wl: &mut VWantlist<64>, st: &mut VWantlistState<64>| -> Option<bool> {
        let (oj, out, ret) = match op {
            Op::Insert(i) => { let b = wl.insert(cids[i]); (J::C("WInsert", vec![cid_j(&cids[i])]), J::C("IoBool", vec![J::B(b)]), Some(b)) }
            Op::Remove(i) => { let b = wl.remove(&cids[i]); (J::C("WRemove", vec![cid_j(&cids[i])]), J::C("IoBool", vec![J::B(b)]), Some(b)) }
            Op::Have(i) => { st.got_have(&cids[i]); (J::C("WHave", vec![cid_j(&cids[i])]), J::c0("IoNone"), None) }
            Op::DontHave(i) => { st.got_dont_have(&cids[i]); (J::C("WDontHave", vec![cid_j(&cids[i])]), J::c0("IoNone"), None) }
            Op::Block(i) => { st.got_block(&cids[i]); (J::C("WBlock", vec![cid_j(&cids[i])]), J::c0("IoNone"), None) }
            Op::WantedAgain(i) => { st.wanted_again(&cids[i]); (J::C("WWantedAgain", vec![cid_j(&cids[i])]), J::c0("IoNone"), None) }
            Op::GenUpdate => {
                let w = st.generate_proto_update(wl);
                (J::c0("WGenUpdate"), J::C("IoEntries", vec![J::B(w.full), J::L(w.entries.iter().map(entry_j).collect())]), None)
            }
            Op::GenFull => {
                let w = st.generate_proto_full(wl);
                (J::c0("WGenFull"), J::C("IoEntries", vec![J::B(w.full), J::L(w.entries.iter().map(entry_j).collect())]), None)
            }
        };
        ops.push(oj);
        outs.push(out);
        ret
    };
    for ev in events {
        match *ev {
            Ev::Raw(op) => { step(op, &mut wl, &mut st); }
            // the discipline of client.rs
            Ev::Insert(i) => { if step(Op::Insert(i), &mut wl, &mut st) == Some(true) { step(Op::WantedAgain(i), &mut wl, &mut st); } }
            Ev::BlockFromPeer(i) => { if step(Op::Remove(i), &mut wl, &mut st) == Some(true) { step(Op::Block(i), &mut wl, &mut st); } }
        }
    }
    let ws = wl.snapshot();
    let ss = st.snapshot();
    let snap = J::C(
        "WSnap",
        vec![
            J::L(ws.cids.iter().map(cid_j).collect()),
            J::n(ws.revision),
            J::L(ss.req_state.iter().map(|(c, s)| J::T(vec![cid_j(c), J::n(*s)])).collect()),
            J::B(ss.force_update),
            J::n(ss.synced_revision),
        ],
    );
    Case {
        input: J::T(vec![J::B(sdh), J::L(ops)]),
        output: J::T(vec![J::L(outs), snap]),
        tags,
        nontrivial: events.len() > 1,
    }
}

#[derive(Clone, Copy, Debug)]
enum Ev {
    Raw(Op),
    Insert(usize),
    BlockFromPeer(usize),
}

fn alphabet(ncids: usize) -> Vec<Ev> {
    let mut a = vec![Ev::Raw(Op::GenUpdate), Ev::Raw(Op::GenFull)];
    for i in 0..ncids {
        a.push(Ev::Insert(i));
        a.push(Ev::Raw(Op::Remove(i)));
        a.push(Ev::Raw(Op::Have(i)));
        a.push(Ev::Raw(Op::DontHave(i)));
        a.push(Ev::BlockFromPeer(i));
    }
    a
}

fn exhaustive(cids: &[Cid64], ncids: usize, depth: usize) {
    let alpha = alphabet(ncids);
    let mut idx = vec![0usize; depth];
    loop {
        let evs: Vec<Ev> = idx.iter().map(|i| alpha[*i]).collect();
        // sdh alternates with the first symbol
        run_history(cids, idx[0] % 2 == 0, &evs, vec![format!("exhaustive/cids{ncids}/depth{depth}")]).print();
        let mut k = depth;
        loop {
            if k == 0 {
                return;
            }
            k -= 1;
            idx[k] += 1;
            if idx[k] < alpha.len() {
                break;
            }
            idx[k] = 0;
        }
    }
}

pub fn run(seed: u64, n: usize, tier: &str) {
    let mut rng = Rng::new(seed);
    let cids: Vec<Cid64> = (0..4).map(|i| { let d = vec![i as u8]; honest_cid::<64>(&mut rng, &d) }).collect();
    if tier == "thorough" {
        exhaustive(&cids, 1, 5);
        exhaustive(&cids, 2, 4);
    } else {
        exhaustive(&cids, 1, 4);
        exhaustive(&cids, 2, 3);
    }
    // bursts: more wantlist changes between two transmissions than any bound a single update might assume
    // (short identity-hash CIDs keep the case small): k inserts, update, update again, a few removals, update, full
    {
        let big: Vec<Cid64> = (0..1400u32)
            .map(|i| CidGeneric::new_v1(0x55, Multihash::<64>::wrap(0, &[(i >> 8) as u8, i as u8]).unwrap()))
            .collect();
        let sizes: &[usize] = if tier == "thorough" { &[1023, 1024, 1025, 1400] } else { &[1100] };
        for &k in sizes {
            let mut evs: Vec<Ev> = (0..k).map(Ev::Insert).collect();
            evs.push(Ev::Raw(Op::GenUpdate));
            evs.push(Ev::Raw(Op::GenUpdate));
            for _ in 0..5 {
                evs.push(Ev::Raw(Op::Remove(rng.usize(k))));
            }
            evs.push(Ev::Raw(Op::GenUpdate));
            evs.push(Ev::Raw(Op::GenFull));
            run_history(&big, rng.chance(1, 2), &evs, vec![format!("burst/{k}")]).print();
        }
    }
    let alpha = alphabet(4);
    for i in 0..n {
        let len = 5 + rng.usize(if i % 4 == 0 { 76 } else { 25 });
        let ncids = 2 + rng.usize(3);
        if i % 3 == 0 {
            // raw API calls in any order (not what the client does; correspondence only)
            let evs: Vec<Ev> = (0..len)
                .map(|_| {
                    let c = rng.usize(ncids);
                    Ev::Raw(match rng.below(9) {
                        0 => Op::Insert(c),
                        1 => Op::Remove(c),
                        2 => Op::Have(c),
                        3 => Op::DontHave(c),
                        4 => Op::Block(c),
                        5 => Op::WantedAgain(c),
                        6 | 7 => Op::GenUpdate,
                        _ => Op::GenFull,
                    })
                })
                .collect();
            run_history(&cids, rng.chance(1, 2), &evs, vec!["random/raw".into()]).print();
        } else {
            let evs: Vec<Ev> = (0..len)
                .map(|_| loop {
                    let e = *rng.pick(&alpha);
                    let ok = match e {
                        Ev::Insert(c) | Ev::BlockFromPeer(c) => c < ncids,
                        Ev::Raw(Op::Remove(c)) | Ev::Raw(Op::Have(c)) | Ev::Raw(Op::DontHave(c)) => c < ncids,
                        _ => true,
                    };
                    if ok {
                        break e;
                    }
                })
                .collect();
            run_history(&cids, rng.chance(1, 2), &evs, vec!["random/disciplined".into()]).print();
        }
    }
}
