//! Shared generators and conversions to JSON terms.
use cid::CidGeneric;
use multihash::Multihash;
use multihash_codetable::{Code, MultihashDigest};

use crate::json::J;
use crate::rng::Rng;

pub fn block_on<F: std::future::Future>(f: F) -> F::Output {
    futures::executor::block_on(f)
}

pub fn cid_j<const S: usize>(cid: &CidGeneric<S>) -> J {
    let ver = match cid.version() {
        cid::Version::V0 => J::c0("V0"),
        cid::Version::V1 => J::c0("V1"),
    };
    J::C(
        "MkCid",
        vec![
            ver,
            J::n(cid.codec()),
            J::C(
                "MkMh",
                vec![J::n(cid.hash().code()), J::bytes(cid.hash().digest())],
            ),
        ],
    )
}

/// Codes of the built-in table that are compiled in (features of multihash-codetable).
pub const TABLE_CODES: &[u64] = &[
    0x12, 0x13, 0x14, 0x15, 0x16, 0x17, 0x1a, 0x1b, 0x1c, 0x1d, 0x1e, 0xb220, 0xb240, 0xb250,
    0xb260, 0x1053, 0x1054, 0x1055,
];

/// Digest of `data` under the built-in table, `None` if the code is not in the table.
pub fn table_digest(code: u64, data: &[u8]) -> Option<Vec<u8>> {
    let c = Code::try_from(code).ok()?;
    Some(c.digest(data).digest().to_vec())
}

pub const CODECS: &[u64] = &[0x55, 0x70, 0x71, 0, 1, 127, 128, 0x3fff, 0x4000, u64::MAX];

/// A CID over the data `data`: honest digest of a table code, random version/codec.
pub fn honest_cid<const S: usize>(rng: &mut Rng, data: &[u8]) -> CidGeneric<S> {
    loop {
        let v0 = rng.chance(1, 5);
        if v0 {
            let mh = Code::Sha2_256.digest(data);
            let mh = Multihash::<S>::wrap(mh.code(), mh.digest());
            if let Ok(mh) = mh {
                return CidGeneric::new_v0(mh).unwrap();
            }
            continue;
        }
        let code = *rng.pick(TABLE_CODES);
        let digest = table_digest(code, data).unwrap();
        if let Ok(mh) = Multihash::<S>::wrap(code, &digest) {
            let codec = if rng.chance(1, 3) {
                rng.boundary_u64()
            } else {
                *rng.pick(CODECS)
            };
            return CidGeneric::new_v1(codec, mh);
        }
    }
}

/// A CID with arbitrary (not necessarily honest) digest bytes and arbitrary code.
pub fn arbitrary_cid<const S: usize>(rng: &mut Rng) -> CidGeneric<S> {
    if rng.chance(1, 6) {
        let d = rng.bytes(32);
        return CidGeneric::new_v0(Multihash::<S>::wrap(0x12, &d).unwrap()).unwrap();
    }
    let len = match rng.below(5) {
        0 => 0,
        1 => S.min(255),
        2 => 32.min(S),
        _ => rng.usize(S.min(255) + 1),
    };
    let code = if rng.chance(1, 2) {
        *rng.pick(TABLE_CODES)
    } else {
        rng.boundary_u64()
    };
    let codec = if rng.chance(1, 2) {
        *rng.pick(CODECS)
    } else {
        rng.boundary_u64()
    };
    let d = rng.bytes(len);
    CidGeneric::new_v1(codec, Multihash::<S>::wrap(code, &d).unwrap())
}

pub fn small_data(rng: &mut Rng) -> Vec<u8> {
    let n = match rng.below(6) {
        0 => 0,
        1 => 1,
        _ => rng.usize(12),
    };
    rng.bytes(n)
}

/// unsigned-varint encoding of a u64 (independent of the crate: plain LEB128)
pub fn leb128(mut n: u64) -> Vec<u8> {
    let mut out = Vec::new();
    loop {
        let b = (n & 0x7f) as u8;
        n >>= 7;
        if n == 0 {
            out.push(b);
            return out;
        }
        out.push(b | 0x80);
    }
}

/// lenient LEB128 reader (no minimality/overflow checks) used only to guess interesting codes
pub fn leb128_read(bs: &[u8]) -> Option<(u64, &[u8])> {
    let mut n: u64 = 0;
    for (i, b) in bs.iter().enumerate() {
        if i < 10 {
            n |= ((b & 0x7f) as u64).wrapping_shl((i * 7) as u32);
        }
        if b & 0x80 == 0 {
            return Some((n, &bs[i + 1..]));
        }
    }
    None
}
