//! Engine `codec`: Codec::{encode, decode} on message values, malformed frames, the harness's own
//! non-canonical protobuf encodings, and every proper prefix of valid frames.
//!
//! Decoding attacker-shaped frames can loop forever allocating memory in a release build (known
//! finding F2), so in the release profile every decode of a generated frame runs in a confined child
//! process (`bsverif decodeserver`, address-space limit + per-input timeout); a hang or a death of the
//! child is the outcome `DrHang`.
use std::io::{BufRead, BufReader, Write};
use std::panic::{catch_unwind, AssertUnwindSafe};
use std::process::{Child, Command, Stdio};
use std::sync::mpsc::{channel, Receiver};
use std::time::Duration;

use beetswap::verif::proto::mod_Message::mod_Wantlist::{Entry, WantType};
use beetswap::verif::proto::mod_Message::{Block, BlockPresence, BlockPresenceType, Wantlist};
use beetswap::verif::proto::Message;
use beetswap::verif::{codec_decode, codec_encode};
use bytes::BytesMut;

use crate::e_incoming::message_j;
use crate::gen::*;
use crate::json::{Case, J};
use crate::rng::Rng;

pub fn chk() -> bool {
    cfg!(debug_assertions)
}

/// decode in this process; panics are caught
pub fn decode_here(buf: &[u8]) -> J {
    let mut b = BytesMut::from(buf);
    let res = catch_unwind(AssertUnwindSafe(|| codec_decode(&mut b)));
    match res {
        Err(_) => J::c0("DrPanic"),
        Ok(Err(_)) => J::c0("DrErr"),
        Ok(Ok(None)) => J::c0("DrNeedMore"),
        Ok(Ok(Some(m))) => J::C("DrItem", vec![message_j(&m), J::us(b.len())]),
    }
}

/// `bsverif decodeserver`: one hex line in, one JSON line out
pub fn decode_server() {
    let stdin = std::io::stdin();
    let mut out = std::io::stdout();
    for line in stdin.lock().lines() {
        let line = line.unwrap();
        let buf = hex::decode(line.trim()).unwrap();
        let r = decode_here(&buf);
        writeln!(out, "{}", r.to_string()).unwrap();
        out.flush().unwrap();
    }
}

struct Server {
    child: Child,
    rx: Receiver<String>,
}

impl Server {
    fn start() -> Server {
        let exe = std::env::current_exe().unwrap();
        let mut child = Command::new("bash")
            .arg("-c")
            .arg(format!("ulimit -v 1500000; exec {} decodeserver 0 0 x", exe.display()))
            .stdin(Stdio::piped())
            .stdout(Stdio::piped())
            .stderr(Stdio::null())
            .spawn()
            .expect("spawn decodeserver");
        let stdout = child.stdout.take().unwrap();
        let (tx, rx) = channel();
        std::thread::spawn(move || {
            for line in BufReader::new(stdout).lines() {
                match line {
                    Ok(l) => {
                        if tx.send(l).is_err() {
                            break;
                        }
                    }
                    Err(_) => break,
                }
            }
        });
        Server { child, rx }
    }
}

pub struct Decoder {
    server: Option<Server>,
}

/// raw JSON text of a `dres`
pub enum Dres {
    Here(J),
    Raw(String),
}

impl Decoder {
    pub fn new() -> Decoder {
        Decoder { server: None }
    }

    pub fn decode(&mut self, buf: &[u8]) -> Dres {
        if chk() {
            return Dres::Here(decode_here(buf));
        }
        if self.server.is_none() {
            self.server = Some(Server::start());
        }
        let s = self.server.as_mut().unwrap();
        let ok = s
            .child
            .stdin
            .as_mut()
            .map(|i| writeln!(i, "{}", hex::encode(buf)).and_then(|_| i.flush()).is_ok())
            .unwrap_or(false);
        let res = if ok { s.rx.recv_timeout(Duration::from_secs(4)).ok() } else { None };
        match res {
            Some(line) => Dres::Raw(line),
            None => {
                let _ = s.child.kill();
                let _ = s.child.wait();
                self.server = None;
                Dres::Here(J::c0("DrHang"))
            }
        }
    }
}

impl Drop for Decoder {
    fn drop(&mut self) {
        if let Some(s) = self.server.as_mut() {
            let _ = s.child.kill();
            let _ = s.child.wait();
        }
    }
}

fn print_case(input: J, out_ctor: &str, r: Dres, tags: Vec<String>, nt: bool) {
    match r {
        Dres::Here(j) => Case { input, output: J::C(leak(out_ctor), vec![j]), tags, nontrivial: nt }.print(),
        Dres::Raw(raw) => {
            // splice the child's JSON in without re-parsing it
            let mut s = String::new();
            s.push_str("{\"i\":");
            input.write(&mut s);
            s.push_str(&format!(",\"o\":{{\"c\":\"{out_ctor}\",\"a\":[{raw}]}},\"tags\":["));
            for (i, t) in tags.iter().enumerate() {
                if i > 0 {
                    s.push(',');
                }
                J::S(t.clone()).write(&mut s);
            }
            s.push_str(&format!("],\"nt\":{}}}", nt));
            println!("{s}");
        }
    }
}

fn leak(s: &str) -> &'static str {
    match s {
        "CoDec" => "CoDec",
        _ => "CoDec",
    }
}

// ------------------------------------------------------------------------------------ generators

fn gen_i32(rng: &mut Rng) -> i32 {
    match rng.below(8) {
        0 => 0,
        1 => 1,
        2 => -1,
        3 => i32::MAX,
        4 => i32::MIN,
        5 => rng.below(300) as i32,
        _ => rng.next() as i32,
    }
}

fn gen_bytes(rng: &mut Rng) -> Vec<u8> {
    let n = match rng.below(10) {
        0 | 1 => 0,
        2 => 1,
        3 => 127,
        4 => 128,
        5 => 300,
        _ => rng.usize(40),
    };
    rng.bytes(n)
}

pub fn gen_entry(rng: &mut Rng) -> Entry {
    Entry {
        block: gen_bytes(rng),
        priority: gen_i32(rng),
        cancel: rng.chance(1, 3),
        wantType: if rng.chance(1, 2) { WantType::Have } else { WantType::Block },
        sendDontHave: rng.chance(1, 2),
    }
}

pub fn gen_message(rng: &mut Rng) -> Message {
    let many = rng.chance(1, 12);
    let wantlist = if rng.chance(1, 2) {
        let n = if many { 40 + rng.usize(100) } else { rng.usize(4) };
        Some(Wantlist { entries: (0..n).map(|_| gen_entry(rng)).collect(), full: rng.chance(1, 2) })
    } else {
        None
    };
    let nb = if rng.chance(1, 2) { rng.usize(4) } else { 0 };
    let np = if rng.chance(1, 2) { rng.usize(4) } else { 0 };
    Message {
        wantlist,
        payload: (0..nb).map(|_| Block { prefix: gen_bytes(rng), data: gen_bytes(rng) }).collect(),
        blockPresences: (0..np)
            .map(|_| BlockPresence {
                cid: gen_bytes(rng),
                type_pb: if rng.chance(1, 2) { BlockPresenceType::Have } else { BlockPresenceType::DontHave },
            })
            .collect(),
        pendingBytes: if rng.chance(1, 3) { gen_i32(rng) } else { 0 },
    }
}

pub fn encode(m: &Message) -> Option<Vec<u8>> {
    let mut b = BytesMut::new();
    catch_unwind(AssertUnwindSafe(|| codec_encode(m, &mut b))).ok()?.ok()?;
    Some(b.to_vec())
}

// ---- the harness's own protobuf writer: schema-valid but non-canonical encodings
fn nc_varint(rng: &mut Rng, v: u64, max_pad: usize) -> Vec<u8> {
    let mut out = leb128(v);
    if rng.chance(1, 4) && out.len() < max_pad {
        // non-minimal: continuation bits and zero bytes
        let pad = 1 + rng.usize(max_pad - out.len());
        let last = out.len() - 1;
        out[last] |= 0x80;
        for _ in 0..pad - 1 {
            out.push(0x80);
        }
        out.push(0x00);
    }
    out
}

fn nc_tag(rng: &mut Rng, field: u64, wt: u64) -> Vec<u8> {
    // tags are read with read_varint32: keep them at most 5 bytes
    nc_varint(rng, field << 3 | wt, 5)
}

fn nc_unknown(rng: &mut Rng, out: &mut Vec<Vec<u8>>, used: &[u64]) {
    let n = match rng.below(4) { 0 => 1 + rng.usize(2), _ => 0 };
    for _ in 0..n {
        let field = loop {
            let f = *rng.pick(&[6u64, 7, 9, 15, 16, 100, 2047, 100000]);
            if !used.contains(&f) {
                break f;
            }
        };
        let mut f = Vec::new();
        match rng.below(4) {
            0 => {
                f.extend(nc_tag(rng, field, 0));
                f.extend(nc_varint(rng, rng.clone().boundary_u64(), 10));
            }
            1 => {
                f.extend(nc_tag(rng, field, 1));
                f.extend(rng.bytes(8));
            }
            2 => {
                f.extend(nc_tag(rng, field, 2));
                let b = rng.bytes(rng.clone().usize(6));
                f.extend(nc_varint(rng, b.len() as u64, 5));
                f.extend(b);
            }
            _ => {
                f.extend(nc_tag(rng, field, 5));
                f.extend(rng.bytes(4));
            }
        }
        out.push(f);
    }
}

fn nc_scalar(rng: &mut Rng, field: u64, v: u64, is_default: bool, out: &mut Vec<Vec<u8>>) {
    if is_default && !rng.chance(1, 3) {
        return; // canonical: default elided
    }
    let mut f = nc_tag(rng, field, 0);
    f.extend(nc_varint(rng, v, 10));
    out.push(f);
}

fn nc_bytes(rng: &mut Rng, field: u64, b: &[u8], out: &mut Vec<Vec<u8>>) {
    if b.is_empty() && !rng.chance(1, 3) {
        return;
    }
    let mut f = nc_tag(rng, field, 2);
    f.extend(nc_varint(rng, b.len() as u64, 5));
    f.extend(b);
    out.push(f);
}

/// shuffle while keeping the relative order of the fields whose tag byte sequence marks them repeated
fn nc_finish(rng: &mut Rng, mut fields: Vec<(bool, Vec<u8>)>) -> Vec<u8> {
    // (repeated?, bytes): non-repeated fields may move anywhere; repeated keep relative order
    if rng.chance(1, 2) {
        let n = fields.len();
        for _ in 0..n * 2 {
            if n < 2 {
                break;
            }
            let i = rng.usize(n - 1);
            if !(fields[i].0 && fields[i + 1].0) {
                fields.swap(i, i + 1);
            }
        }
    }
    fields.into_iter().flat_map(|(_, b)| b).collect()
}

fn i32_u64(v: i32) -> u64 {
    v as i64 as u64
}

fn nc_entry(rng: &mut Rng, e: &Entry) -> Vec<u8> {
    let mut fs = Vec::new();
    nc_bytes(rng, 1, &e.block, &mut fs);
    nc_scalar(rng, 2, i32_u64(e.priority), e.priority == 0, &mut fs);
    nc_scalar(rng, 3, e.cancel as u64, !e.cancel, &mut fs);
    nc_scalar(rng, 4, (e.wantType == WantType::Have) as u64, e.wantType == WantType::Block, &mut fs);
    nc_scalar(rng, 5, e.sendDontHave as u64, !e.sendDontHave, &mut fs);
    nc_unknown(rng, &mut fs, &[1, 2, 3, 4, 5]);
    nc_finish(rng, fs.into_iter().map(|b| (false, b)).collect())
}

fn nc_nested(rng: &mut Rng, field: u64, body: Vec<u8>) -> Vec<u8> {
    let mut f = nc_tag(rng, field, 2);
    f.extend(nc_varint(rng, body.len() as u64, 5));
    f.extend(body);
    f
}

fn nc_message(rng: &mut Rng, m: &Message) -> Vec<u8> {
    let mut fs: Vec<(bool, Vec<u8>)> = Vec::new();
    if let Some(w) = &m.wantlist {
        let mut ws: Vec<(bool, Vec<u8>)> = Vec::new();
        for e in &w.entries {
            let body = nc_entry(rng, e);
            ws.push((true, nc_nested(rng, 1, body)));
        }
        let mut sc = Vec::new();
        nc_scalar(rng, 2, w.full as u64, !w.full, &mut sc);
        nc_unknown(rng, &mut sc, &[1, 2]);
        ws.extend(sc.into_iter().map(|b| (false, b)));
        let body = nc_finish(rng, ws);
        fs.push((false, nc_nested(rng, 1, body)));
    }
    // payload (3) and blockPresences (4) are different repeated fields: each keeps its own order,
    // but they may interleave; keep it simple: mark both as repeated (relative order preserved)
    for b in &m.payload {
        let mut bs = Vec::new();
        nc_bytes(rng, 1, &b.prefix, &mut bs);
        nc_bytes(rng, 2, &b.data, &mut bs);
        nc_unknown(rng, &mut bs, &[1, 2]);
        let body = nc_finish(rng, bs.into_iter().map(|x| (false, x)).collect());
        fs.push((true, nc_nested(rng, 3, body)));
    }
    for p in &m.blockPresences {
        let mut ps = Vec::new();
        nc_bytes(rng, 1, &p.cid, &mut ps);
        nc_scalar(rng, 2, (p.type_pb == BlockPresenceType::DontHave) as u64, p.type_pb == BlockPresenceType::Have, &mut ps);
        nc_unknown(rng, &mut ps, &[1, 2]);
        let body = nc_finish(rng, ps.into_iter().map(|x| (false, x)).collect());
        fs.push((true, nc_nested(rng, 4, body)));
    }
    let mut sc = Vec::new();
    nc_scalar(rng, 5, i32_u64(m.pendingBytes), m.pendingBytes == 0, &mut sc);
    nc_unknown(rng, &mut sc, &[1, 3, 4, 5]);
    fs.extend(sc.into_iter().map(|b| (false, b)));
    nc_finish(rng, fs)
}

const FRAME_ALPHABET: &[u8] = &[0x00, 0x01, 0x02, 0x08, 0x0a, 0x10, 0x12, 0x1a, 0x22, 0x28, 0x7a, 0x7f, 0x80, 0xff];

fn mutate(rng: &mut Rng, frame: &mut Vec<u8>) {
    let k = 1 + rng.usize(3);
    for _ in 0..k {
        if frame.is_empty() {
            frame.push(rng.next() as u8);
            continue;
        }
        let i = rng.usize(frame.len());
        match rng.below(6) {
            0 => frame[i] = *rng.pick(FRAME_ALPHABET),
            1 => frame[i] = frame[i].wrapping_add(1),
            2 => frame[i] ^= 0x80,
            3 => {
                frame.remove(i);
            }
            4 => frame.insert(i, *rng.pick(FRAME_ALPHABET)),
            _ => frame[i] = rng.next() as u8,
        }
    }
    // keep the length prefix consistent half of the time so that the body parser is reached
    if rng.chance(1, 2) && frame.len() > 1 && frame.len() < 128 {
        frame[0] = (frame.len() - 1) as u8;
    }
}

pub const F2_WITNESS: &str = "110a020a021001 7af1ffffffffffffffff01";

pub fn run(seed: u64, n: usize, tier: &str) {
    let mut rng = Rng::new(seed);
    let mut dec = Decoder::new();
    let c = J::B(chk());

    // corpus first: golden strings of the test-suite, and the F2 witness (known finding)
    for (hexs, tag) in [
        ("2e0a2c0a2a0a2401551220ba7816bf8f01cfea414140de5dae2223b00361a396177a9cb410ff61f20015ad10012801", "corpus/golden_request"),
        ("0d1a0b0a04015512201203616263", "corpus/golden_response"),
        ("110a020a0210017af1ffffffffffffffff01", "known:F2"),
    ] {
        let buf = hex::decode(hexs).unwrap();
        let r = dec.decode(&buf);
        print_case(J::C("CDecode", vec![c.clone(), J::bytes(&buf)]), "CoDec", r, vec![tag.to_string()], true);
    }

    // C09: every varint byte length x boundary values x {0, 1, many} payload bytes
    let mut prefixes: Vec<Vec<u8>> = Vec::new();
    for k in 0..=64u32 {
        for d in [-1i64, 0, 1] {
            let v = if k == 64 { u64::MAX } else { 1u64 << k };
            prefixes.push(leb128(v.wrapping_add(d as u64)));
        }
    }
    for v in [4194303u64, 4194304, 4194305, 4194304 * 2, 0, 1, 127, 128] {
        prefixes.push(leb128(v));
    }
    // overlong / overflowing / non-minimal encodings, lengths 1..=11
    for l in 1..=11usize {
        let mut p = vec![0x80u8; l];
        p[l - 1] = 0x00;
        prefixes.push(p.clone());
        p[l - 1] = 0x01;
        prefixes.push(p.clone());
        p[l - 1] = 0x7f;
        prefixes.push(p.clone());
        let q = vec![0xffu8; l];
        prefixes.push(q);
    }
    for p in &prefixes {
        for extra in [0usize, 1, 3, 40] {
            let mut buf = p.clone();
            buf.extend(rng.bytes(extra));
            let r = dec.decode(&buf);
            print_case(J::C("CDecode", vec![c.clone(), J::bytes(&buf)]), "CoDec", r, vec![format!("limit/varint_len{}", p.len())], true);
        }
    }

    // exhaustive short frames over the boundary alphabet (length prefix fixed up)
    let depth = if tier == "thorough" { 4 } else { 3 };
    let mut stack: Vec<Vec<u8>> = vec![vec![]];
    while let Some(s) = stack.pop() {
        let mut buf = vec![s.len() as u8];
        buf.extend(&s);
        let r = dec.decode(&buf);
        print_case(J::C("CDecode", vec![c.clone(), J::bytes(&buf)]), "CoDec", r, vec![format!("exhaustive/len{}", s.len())], !s.is_empty());
        if s.len() < depth {
            for b in FRAME_ALPHABET {
                let mut t = s.clone();
                t.push(*b);
                stack.push(t);
            }
        }
    }

    for i in 0..n {
        match i % 10 {
            0..=2 => {
                // encode then decode
                let m = gen_message(&mut rng);
                let tags = vec![format!(
                    "encode/w{}b{}p{}",
                    m.wantlist.as_ref().map(|w| w.entries.len().min(9)).unwrap_or(0),
                    m.payload.len(),
                    m.blockPresences.len()
                )];
                let input = J::C("CEncode", vec![c.clone(), message_j(&m)]);
                match encode(&m) {
                    None => Case { input, output: J::c0("CoEncPanic"), tags, nontrivial: true }.print(),
                    Some(bs) => {
                        let back = decode_here(&bs);
                        Case { input, output: J::C("CoEnc", vec![J::bytes(&bs), back]), tags, nontrivial: true }.print();
                    }
                }
            }
            3 => {
                // every proper prefix of a small frame
                let mut m = gen_message(&mut rng);
                if let Some(w) = m.wantlist.as_mut() {
                    w.entries.truncate(2);
                }
                m.payload.truncate(1);
                for b in m.payload.iter_mut() { b.data.truncate(20); b.prefix.truncate(8); }
                if let Some(bs) = encode(&m) {
                    if bs.len() <= 200 {
                        let mut bad = Vec::new();
                        for k in 0..bs.len() {
                            if decode_here(&bs[..k]) != J::c0("DrNeedMore") {
                                bad.push(J::us(k));
                            }
                        }
                        Case {
                            input: J::C("CPrefixes", vec![c.clone(), message_j(&m)]),
                            output: J::C("CoPrefixes", vec![J::L(bad)]),
                            tags: vec![format!("prefixes/len{}", bs.len() / 20 * 20)],
                            nontrivial: bs.len() > 1,
                        }
                        .print();
                    }
                }
            }
            4..=6 => {
                // schema-valid non-canonical encoding made by the harness's own writer
                let mut m = gen_message(&mut rng);
                if let Some(w) = m.wantlist.as_mut() {
                    w.entries.truncate(4);
                }
                let body = nc_message(&mut rng, &m);
                let mut buf = leb128(body.len() as u64);
                buf.extend(&body);
                if rng.chance(1, 4) {
                    buf.extend(rng.bytes(3)); // bytes of the next frame
                }
                let r = dec.decode(&buf);
                print_case(J::C("CDecodeOf", vec![c.clone(), message_j(&m), J::bytes(&buf)]), "CoDec", r, vec!["noncanonical".into()], true);
            }
            _ => {
                // mutated valid frame
                let mut m = gen_message(&mut rng);
                if let Some(w) = m.wantlist.as_mut() {
                    w.entries.truncate(3);
                }
                let mut buf = encode(&m).unwrap_or_default();
                buf.truncate(160);
                mutate(&mut rng, &mut buf);
                if rng.chance(1, 3) {
                    buf.extend(rng.bytes(4));
                }
                let r = dec.decode(&buf);
                print_case(J::C("CDecode", vec![c.clone(), J::bytes(&buf)]), "CoDec", r, vec!["mutated".into()], true);
            }
        }
    }
}
