//! Engine `node`: one complete `Behaviour` (client + server + the glue of lib.rs) with the real
//! `process_message` in front of it and a healthy scripted blockstore, driven op by op (Corr_node.v / Node.v).
use std::collections::BTreeMap;
use std::panic::{catch_unwind, AssertUnwindSafe};

use beetswap::verif::clock::{self, Instant};
use beetswap::verif::proto::mod_Message::{Block, BlockPresence, BlockPresenceType};
use beetswap::verif::proto::Message;
use beetswap::verif::{process_message, server_snapshot, HasherTable, Prefix, SendingState, ToBehaviourEvent};
use beetswap::Event;
use libp2p_swarm::ConnectionId;

use crate::e_client::{csnap_j, gen_entries_j};
use crate::e_hasher::{hres_j, ScriptHasher};
use crate::e_incoming::{gen_wantlist, message_j};
use crate::gen::*;
use crate::json::{Case, J};
use crate::node::*;
use crate::rng::Rng;

fn ssnap_j(node: &Node) -> J {
    let s = server_snapshot(&node.b);
    let mut wants: Vec<(usize, Vec<Cid64>)> = s.peers_wantlists.iter().map(|(p, c)| (node.peer_index(p), c.clone())).collect();
    wants.sort_by_key(|(p, _)| *p);
    let mut waiting: Vec<(Cid64, Vec<usize>)> =
        s.peers_waiting_for_cid.iter().map(|(c, ps)| (*c, ps.iter().map(|p| node.peer_index(p)).collect())).collect();
    waiting.sort_by_key(|(c, _)| c.to_bytes());
    J::C(
        "Snap",
        vec![
            J::L(wants.iter().map(|(p, cs)| J::T(vec![J::us(*p), J::L(cs.iter().map(cid_j).collect())])).collect()),
            J::L(waiting.iter().map(|(c, ps)| J::T(vec![cid_j(c), J::L(ps.iter().map(|p| J::us(*p)).collect())])).collect()),
            J::us(s.outgoing_queue.len()),
            J::us(s.tasks_len),
        ],
    )
}

struct Run {
    node: Node,
    table: HasherTable<64>,
    ops: Vec<J>,
    obs: Vec<J>,
    open: Vec<(usize, CallKind)>,
    store: BTreeMap<Vec<u8>, (Cid64, Vec<u8>)>,
    /// open connections per peer
    conns: Vec<Vec<usize>>,
    next_conn: usize,
    answers: Vec<J>,
    /// outstanding SendWantlist per peer: (stage 1..3, connection)
    sending: Vec<(u8, usize)>,
}

impl Run {
    fn new(npeers: usize) -> Run {
        Run {
            node: Node::new(|b| b, npeers),
            table: HasherTable::<64>::new(Vec::<ScriptHasher>::new()),
            ops: vec![],
            obs: vec![],
            open: vec![],
            store: BTreeMap::new(),
            conns: vec![vec![]; npeers],
            next_conn: 0,
            answers: vec![],
            sending: vec![(0, 0); npeers],
        }
    }

    fn record(&mut self, op: J, processed: u32, events: Vec<J>, wants: Vec<J>, blocks: Vec<J>) {
        let mut calls = Vec::new();
        for (id, kind) in self.node.store.take_new_calls() {
            calls.push(match &kind {
                CallKind::Get(c) => J::C("DGetCall", vec![cid_j(c)]),
                CallKind::PutMany(bl) => J::C("DPutCall", vec![J::L(bl.iter().map(|(c, d)| J::T(vec![cid_j(c), J::bytes(d)])).collect())]),
            });
            self.open.push((id, kind));
        }
        let store = J::L(self.store.values().map(|(c, d)| J::T(vec![cid_j(c), J::bytes(d)])).collect());
        self.ops.push(op);
        self.obs.push(J::C(
            "DObs",
            vec![J::n(processed), J::L(events), J::L(wants), J::L(blocks), J::L(calls), csnap_j_q(&self.node), ssnap_j(&self.node), store],
        ));
    }

    fn connect(&mut self, p: usize) {
        let c = self.next_conn;
        self.next_conn += 1;
        let _h = self.node.new_conn(p, c);
        self.conns[p].push(c);
        self.record(J::C("DConnect", vec![J::us(p), J::us(c)]), 3, vec![], vec![], vec![]);
    }

    fn close(&mut self, p: usize, c: usize) {
        self.conns[p].retain(|x| *x != c);
        let remaining = self.conns[p].len();
        self.node.conn_closed(p, c, remaining);
        if self.sending[p].1 == c {
            self.sending[p] = (0, 0);
        }
        self.record(J::C("DClose", vec![J::us(p), J::us(c), J::B(remaining == 0)]), 3, vec![], vec![], vec![]);
    }

    fn get(&mut self, c: &Cid64) -> u64 {
        let q = beetswap::verif::client::query_id(self.node.b.get(c));
        self.record(J::C("DGet", vec![cid_j(c)]), 3, vec![], vec![], vec![]);
        q
    }

    fn cancel(&mut self, q: u64) {
        self.node.b.cancel(beetswap::verif::client::query_id_from(q));
        self.record(J::C("DCancel", vec![J::n(q)]), 3, vec![], vec![], vec![]);
    }

    fn put(&mut self, c: &Cid64, d: &[u8]) {
        self.store.insert(c.to_bytes(), (*c, d.to_vec()));
        self.record(J::C("DPut", vec![cid_j(c), J::bytes(d)]), 3, vec![], vec![], vec![]);
    }

    fn evict(&mut self, c: &Cid64) {
        self.store.remove(&c.to_bytes());
        self.record(J::C("DEvict", vec![cid_j(c)]), 3, vec![], vec![], vec![]);
    }

    fn advance(&mut self, ms: u64) {
        clock::set_now_ms(clock::now_ms() + ms);
        self.record(J::C("DAdvance", vec![J::n(ms)]), 3, vec![], vec![], vec![]);
    }

    fn report(&mut self, p: usize, c: usize, kind: u8) {
        let now = Instant(clock::now_ms());
        let cid = ConnectionId::new_unchecked(c);
        let (state, j) = match kind {
            0 => (SendingState::Ready, J::c0("RpReady")),
            1 => (SendingState::RequestReceived(now, cid), J::C("RpRequestReceived", vec![J::us(c)])),
            2 => (SendingState::Sending(now, cid), J::C("RpSending", vec![J::us(c)])),
            _ => (SendingState::Failed(cid), J::C("RpFailed", vec![J::us(c)])),
        };
        let peer = self.node.peers[p];
        self.node.handler_event(p, c, ToBehaviourEvent::SendingStateChanged(peer, state));
        self.record(J::C("DReport", vec![J::us(p), J::us(c), j]), 3, vec![], vec![], vec![]);
    }

    fn incoming(&mut self, p: usize, m: Message) {
        // the table's answers the model may need
        for b in &m.payload {
            let mut codes = vec![0x12u64];
            if let Some(pre) = Prefix::from_bytes(&b.prefix) {
                codes.push(pre.multihash_code());
            }
            for code in codes {
                let r = block_on(self.table.hash(code, &b.data));
                self.answers.push(J::T(vec![J::n(code), J::bytes(&b.data), hres_j(&r)]));
            }
        }
        let res = catch_unwind(AssertUnwindSafe(|| block_on(process_message(&self.table, m.clone()))));
        let mut order = vec![];
        let full = m.wantlist.as_ref().map(|w| w.full).unwrap_or(false);
        let processed = match res {
            Err(_) => 2,
            Ok(None) => 1,
            Ok(Some(inc)) => {
                let peer = self.node.peers[p];
                let via = self.conns[p].first().copied().unwrap_or(0);
                self.node.handler_event(p, via, ToBehaviourEvent::IncomingMessage(peer, inc));
                if full {
                    let s = server_snapshot(&self.node.b);
                    order = s.peers_wantlists.iter().find(|(q, _)| self.node.peer_index(q) == p).map(|(_, c)| c.clone()).unwrap_or_default();
                }
                0
            }
        };
        self.record(J::C("DIncoming", vec![J::us(p), message_j(&m), J::L(order.iter().map(cid_j).collect())]), processed, vec![], vec![], vec![]);
    }

    fn poll(&mut self) -> Vec<(usize, usize)> {
        let outs = self.node.poll_all();
        let mut events = Vec::new();
        let mut wants: Vec<(usize, J)> = Vec::new();
        let mut blocks: Vec<(usize, J)> = Vec::new();
        let mut sent_to: Vec<(usize, usize)> = Vec::new();
        for o in outs {
            match o {
                Out::Event(Event::GetQueryResponse { query_id, data }) => {
                    events.push(J::C("LResponse", vec![J::n(beetswap::verif::client::query_id(query_id)), J::bytes(&data)]))
                }
                Out::Event(Event::GetQueryError { query_id, error }) => {
                    let kind = match error {
                        beetswap::Error::InvalidMultihashSize => 0u32,
                        beetswap::Error::Blockstore(_) => 1,
                        _ => 2,
                    };
                    events.push(J::C("LError", vec![J::n(beetswap::verif::client::query_id(query_id)), J::n(kind)]))
                }
                Out::SendWantlist { peer, conn, wantlist } => {
                    sent_to.push((peer, conn));
                    wants.push((peer, J::T(vec![J::us(peer), J::us(conn), J::B(wantlist.full), gen_entries_j(&wantlist)])));
                }
                Out::SendBlocks { peer, blocks: bl, .. } => {
                    blocks.push((peer, J::T(vec![J::us(peer), J::L(bl.iter().map(|(p, d)| J::T(vec![J::bytes(p), J::bytes(d)])).collect())])));
                }
                Out::Other => events.push(J::c0("LFault")),
            }
        }
        wants.sort_by_key(|(p, _)| *p);
        blocks.sort_by_key(|(p, _)| *p);
        for (p, c) in &sent_to {
            self.sending[*p] = (1, *c);
        }
        sent_to.sort();
        let choice = J::L(sent_to.iter().map(|(p, c)| J::T(vec![J::us(*p), J::us(*c)])).collect());
        self.record(J::C("DPoll", vec![choice]), 3, events, wants.into_iter().map(|(_, j)| j).collect(), blocks.into_iter().map(|(_, j)| j).collect());
        sent_to
    }

    fn release_cid(&mut self, c: &Cid64) {
        let ids: Vec<usize> = self.open.iter().filter(|(_, k)| matches!(k, CallKind::Get(x) if x == c)).map(|(i, _)| *i).collect();
        self.open.retain(|(i, _)| !ids.contains(i));
        for id in ids {
            let r = match self.store.get(&c.to_bytes()) {
                Some((_, d)) => Release::Hit(d.clone()),
                None => Release::Miss,
            };
            self.node.store.release(id, r);
        }
        self.record(J::C("DReleaseCid", vec![cid_j(c)]), 3, vec![], vec![], vec![]);
    }

    fn release_put(&mut self) {
        if let Some(pos) = self.open.iter().position(|(_, k)| matches!(k, CallKind::PutMany(_))) {
            let (id, kind) = self.open.remove(pos);
            if let CallKind::PutMany(bl) = kind {
                for (c, d) in bl {
                    self.store.insert(c.to_bytes(), (c, d));
                }
            }
            self.node.store.release(id, Release::Hit(vec![]));
        }
        self.record(J::c0("DReleasePut"), 3, vec![], vec![], vec![]);
    }

    fn finish(self, tags: Vec<String>) -> Case {
        Case { input: J::T(vec![J::L(self.answers), J::L(self.ops)]), output: J::L(self.obs), tags, nontrivial: true }
    }
}

fn csnap_j_q(node: &Node) -> J {
    csnap_j(node)
}

fn block_for(c: &Cid64, d: &[u8]) -> Block {
    Block { prefix: Prefix::from_cid(c).to_bytes(), data: d.to_vec() }
}

fn history(rng: &mut Rng, len: usize) -> Case {
    let npeers = 1 + rng.usize(3);
    let mut run = Run::new(npeers);
    let ncids = 2 + rng.usize(3);
    let pool: Vec<(Cid64, Vec<u8>)> = (0..ncids).map(|i| { let d = vec![i as u8, 7, rng.below(256) as u8]; (honest_cid::<64>(rng, &d), d) }).collect();
    let cids: Vec<Cid64> = pool.iter().map(|(c, _)| *c).collect();
    let mut tags = vec![format!("node/peers{npeers}")];
    let mut issued: Vec<u64> = vec![];
    for _ in 0..len {
        match rng.below(44) {
            0..=4 => {
                let p = rng.usize(npeers);
                if run.conns[p].is_empty() || (run.conns[p].len() < 3 && rng.chance(1, 3)) {
                    run.connect(p);
                    tags.push(format!("op/connect{}", run.conns[p].len()));
                }
            }
            5 => {
                let p = rng.usize(npeers);
                if !run.conns[p].is_empty() {
                    let c = *rng.pick(&run.conns[p]);
                    run.close(p, c);
                    tags.push(if run.conns[p].is_empty() { "op/close_last".into() } else { "op/close_one".into() });
                }
            }
            6..=9 => {
                let c = *rng.pick(&cids);
                issued.push(run.get(&c));
                tags.push("op/get".into());
            }
            10 => {
                if let Some(q) = issued.get(rng.usize(issued.len().max(1))).copied() {
                    run.cancel(q);
                    tags.push("op/cancel".into());
                }
            }
            11 | 12 => {
                let (c, d) = rng.pick(&pool).clone();
                run.put(&c, &d);
                tags.push("op/put".into());
            }
            13 => {
                let c = *rng.pick(&cids);
                run.evict(&c);
                tags.push("op/evict".into());
            }
            14 | 15 => {
                let ms = match rng.below(4) { 0 => 30_000, 1 => 1_000, 2 => 5_000, _ => 1 + rng.below(2_000) };
                run.advance(ms);
                tags.push("op/advance".into());
            }
            16..=19 => {
                // a handler report: mostly the disciplined answer to an outstanding wantlist
                let p = rng.usize(npeers);
                if !run.conns[p].is_empty() {
                    let (stage, c) = run.sending[p];
                    let kind = match (stage, rng.below(10)) {
                        (1, 0..=6) => { run.sending[p].0 = 2; 1 }
                        (2, 0..=5) => { run.sending[p].0 = 3; 2 }
                        (2, 6 | 7) | (3, 0..=7) => { run.sending[p].0 = 0; 0 }
                        (1..=3, _) => { run.sending[p].0 = 0; 3 }
                        (_, 0) => 0,
                        _ => continue,
                    };
                    // sometimes a (late) report from another connection of the peer
                    let c = if stage == 0 || rng.chance(1, 10) { *rng.pick(&run.conns[p]) } else { c };
                    run.report(p, c, kind);
                    tags.push(format!("op/report{kind}"));
                }
            }
            20..=27 => {
                // a message from a peer: wantlist and/or blocks and/or presences
                let p = rng.usize(npeers);
                if run.conns[p].is_empty() && !rng.chance(1, 10) {
                    continue;
                }
                let mut m = Message::default();
                let what = rng.below(8);
                if what <= 3 || what == 7 {
                    m.wantlist = Some(gen_wantlist::<64>(rng, &cids));
                    tags.push("in/wantlist".into());
                }
                if what >= 3 && what <= 6 {
                    for _ in 0..1 + rng.usize(2) {
                        let (c, d) = rng.pick(&pool).clone();
                        m.payload.push(match rng.below(10) {
                            0 => { tags.push("in/wrong_data".into()); block_for(&c, &[9, 9]) }
                            1 => { tags.push("in/unknown_code".into()); Block { prefix: vec![1, 0x55, 0x77, 4], data: d } }
                            _ => block_for(&c, &d),
                        });
                    }
                    tags.push("in/blocks".into());
                }
                if what >= 5 {
                    for _ in 0..1 + rng.usize(2) {
                        let c = *rng.pick(&cids);
                        let bad = rng.chance(1, 25);
                        m.blockPresences.push(BlockPresence {
                            cid: if bad { vec![1, 2, 3] } else { c.to_bytes() },
                            type_pb: if rng.chance(2, 3) { BlockPresenceType::Have } else { BlockPresenceType::DontHave },
                        });
                        if bad { tags.push("in/bad_presence".into()); }
                    }
                    tags.push("in/presences".into());
                }
                run.incoming(p, m);
            }
            28..=35 => {
                run.poll();
                tags.push("op/poll".into());
            }
            36..=41 => {
                let outstanding: Vec<Cid64> = run.open.iter().filter_map(|(_, k)| if let CallKind::Get(c) = k { Some(*c) } else { None }).collect();
                if !outstanding.is_empty() {
                    let c = *rng.pick(&outstanding);
                    run.release_cid(&c);
                    tags.push("op/release_get".into());
                }
            }
            _ => {
                run.release_put();
                tags.push("op/release_put".into());
            }
        }
    }
    // drain: complete everything and poll, so that the end state is compared too
    for _ in 0..4 {
        let outstanding: Vec<Cid64> = run.open.iter().filter_map(|(_, k)| if let CallKind::Get(c) = k { Some(*c) } else { None }).collect();
        for c in outstanding {
            run.release_cid(&c);
        }
        run.release_put();
        run.poll();
    }
    tags.sort();
    tags.dedup();
    run.finish(tags)
}

pub fn run(seed: u64, n: usize, _tier: &str) {
    let mut rng = Rng::new(seed);
    for i in 0..n {
        let len = match i % 3 { 0 => 12, 1 => 25, _ => 45 };
        history(&mut rng, len).print();
    }
}
