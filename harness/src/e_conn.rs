//! Engine `conn`: the inbound side of ONE real ConnHandler (lib.rs: `incoming_streams: SelectAll<IncomingStream>`)
//! with several scripted inbound streams opened at different times; every IncomingMessage the handler hands to the
//! behaviour is attributed to its stream by its contents (each stream talks about its own CIDs) — Corr_conn.v / Streams.v.
use std::collections::VecDeque;
use std::io;
use std::panic::{catch_unwind, AssertUnwindSafe};
use std::pin::Pin;
use std::sync::atomic::{AtomicBool, Ordering};
use std::sync::{Arc, Mutex};
use std::task::{Context, Poll, Wake, Waker};

use beetswap::verif::proto::mod_Message::mod_Wantlist::{Entry, WantType};
use beetswap::verif::proto::mod_Message::{Block, BlockPresence, BlockPresenceType, Wantlist};
use beetswap::verif::proto::Message;
use beetswap::verif::{handler_inbound_streams, handler_push_inbound_stream, incoming_parts, HasherTable, Prefix, ToBehaviourEvent};
use futures::io::{AsyncRead, AsyncWrite};
use libp2p_swarm::{ConnectionHandler, ConnectionHandlerEvent};

use crate::e_codec::{chk, encode};
use crate::e_hasher::{hres_j, Kind, ScriptHasher};
use crate::e_incoming::wantlist_j;
use crate::gen::*;
use crate::json::{Case, J};
use crate::node::{Cid64, Node};
use crate::rng::Rng;

#[derive(Clone, Debug)]
enum Ev {
    Chunk(Vec<u8>),
    Eof,
    Err,
    Pending,
}

struct Reader(Arc<Mutex<VecDeque<Ev>>>);
impl AsyncRead for Reader {
    fn poll_read(self: Pin<&mut Self>, cx: &mut Context<'_>, out: &mut [u8]) -> Poll<io::Result<usize>> {
        let mut q = self.0.lock().unwrap();
        match q.pop_front() {
            None => Poll::Pending,
            Some(Ev::Pending) => {
                cx.waker().wake_by_ref();
                Poll::Pending
            }
            Some(Ev::Eof) => Poll::Ready(Ok(0)),
            Some(Ev::Err) => Poll::Ready(Err(io::Error::other("scripted"))),
            Some(Ev::Chunk(b)) => {
                let n = b.len().min(out.len());
                out[..n].copy_from_slice(&b[..n]);
                if n < b.len() {
                    q.push_front(Ev::Chunk(b[n..].to_vec()));
                }
                Poll::Ready(Ok(n))
            }
        }
    }
}
impl AsyncWrite for Reader {
    fn poll_write(self: Pin<&mut Self>, _: &mut Context<'_>, _: &[u8]) -> Poll<io::Result<usize>> {
        Poll::Pending
    }
    fn poll_flush(self: Pin<&mut Self>, _: &mut Context<'_>) -> Poll<io::Result<()>> {
        Poll::Ready(Ok(()))
    }
    fn poll_close(self: Pin<&mut Self>, _: &mut Context<'_>) -> Poll<io::Result<()>> {
        Poll::Ready(Ok(()))
    }
}

struct Flag(AtomicBool);
impl Wake for Flag {
    fn wake(self: Arc<Self>) {
        self.0.store(true, Ordering::SeqCst);
    }
}

/// a message of stream k: every element names one of the stream's own CIDs
fn gen_msg(rng: &mut Rng, k: usize, pool: &[(Cid64, Vec<u8>)], scripted: bool, tags: &mut Vec<String>) -> Message {
    let mut m = Message::default();
    let what = rng.below(7);
    if what <= 2 || what == 6 {
        let n = 1 + rng.usize(3);
        m.wantlist = Some(Wantlist {
            entries: (0..n)
                .map(|_| Entry {
                    block: rng.pick(pool).0.to_bytes(),
                    priority: 1,
                    cancel: rng.chance(1, 4),
                    wantType: if rng.chance(1, 2) { WantType::Have } else { WantType::Block },
                    sendDontHave: rng.chance(1, 2),
                })
                .collect(),
            full: rng.chance(1, 3),
        });
    }
    if (2..=5).contains(&what) {
        for _ in 0..1 + rng.usize(2) {
            let (c, d) = rng.pick(pool).clone();
            if scripted && rng.chance(1, 2) {
                // under the asynchronous scripted hasher (0-3 extra polls); the data names the stream (attribution)
                let mut p = vec![1u8, 0x55];
                p.extend(leb128(0x99));
                p.push(8);
                m.payload.push(Block { prefix: p, data: vec![rng.below(8) as u8, 9, 9, k as u8] });
                continue;
            }
            m.payload.push(match rng.below(8) {
                0 => { tags.push("blk/unknown_code".into()); Block { prefix: vec![1, 0x55, 0x77, 4], data: d } }
                1 => { tags.push("blk/wrong_data".into()); Block { prefix: Prefix::from_cid(&c).to_bytes(), data: vec![9, 9, k as u8] } }
                _ => Block { prefix: Prefix::from_cid(&c).to_bytes(), data: d },
            });
        }
    }
    if what >= 4 {
        for _ in 0..1 + rng.usize(2) {
            m.blockPresences.push(BlockPresence {
                cid: rng.pick(pool).0.to_bytes(),
                type_pb: if rng.chance(1, 2) { BlockPresenceType::Have } else { BlockPresenceType::DontHave },
            });
        }
    }
    m
}

fn stream_events(rng: &mut Rng, k: usize, pool: &[(Cid64, Vec<u8>)], scripted: bool, tags: &mut Vec<String>) -> (Vec<Ev>, Vec<u8>) {
    let nmsgs = 1 + rng.usize(4);
    let mut bytes = Vec::new();
    for i in 0..nmsgs {
        let m = gen_msg(rng, k, pool, scripted, tags);
        let mut f = encode(&m).unwrap();
        if rng.chance(1, 6) {
            match rng.below(5) {
                0 => { f = vec![0x81, 0x80, 0x80, 0x02, 1, 2]; tags.push(format!("bad/oversize@{i}")); }
                1 => { f = vec![0x81, 0x00, 7]; tags.push(format!("bad/varint@{i}")); }
                2 => { let mut m2 = m.clone(); m2.blockPresences.push(BlockPresence { cid: vec![1, 2], type_pb: BlockPresenceType::Have }); f = encode(&m2).unwrap(); tags.push(format!("bad/presence@{i}")); }
                3 => { let mut m2 = m.clone(); m2.payload.push(Block { prefix: vec![7], data: vec![1] }); f = encode(&m2).unwrap(); tags.push(format!("bad/prefix@{i}")); }
                _ => { f = vec![3, 0xff, 0xff, 0xff]; tags.push(format!("bad/protobuf@{i}")); }
            }
        }
        bytes.extend(f);
    }
    if rng.chance(1, 6) && bytes.len() > 2 {
        let cut = 1 + rng.usize(bytes.len() - 1);
        bytes.truncate(cut);
        tags.push("truncated".into());
    }
    let mut evs = Vec::new();
    let mut rest = &bytes[..];
    while !rest.is_empty() {
        let n = match rng.below(4) { 0 => 1, 1 => 1 + rng.usize(3), _ => 1 + rng.usize(rest.len()) }.min(rest.len());
        evs.push(Ev::Chunk(rest[..n].to_vec()));
        rest = &rest[n..];
        if rng.chance(1, 5) {
            evs.push(Ev::Pending);
        }
    }
    match rng.below(6) {
        0 => { tags.push("end/none".into()); }
        1 => { evs.push(Ev::Err); tags.push("end/err".into()); }
        _ => { evs.push(Ev::Eof); tags.push("end/eof".into()); }
    }
    (evs, bytes)
}

fn msg_j(parts: beetswap::verif::IncomingParts<64>) -> (J, Vec<Vec<u8>>) {
    let mut cids: Vec<Vec<u8>> = Vec::new();
    let client = match (parts.presences, parts.blocks) {
        (Some(mut p), Some(mut b)) => {
            p.sort_by_key(|(c, _)| c.to_bytes());
            b.sort_by_key(|(c, _)| c.to_bytes());
            cids.extend(p.iter().map(|(c, _)| c.to_bytes()));
            cids.extend(b.iter().map(|(c, _)| c.to_bytes()));
            cids.extend(b.iter().map(|(_, d)| d.clone()));
            J::some(J::T(vec![
                J::L(p.iter().map(|(c, h)| J::T(vec![cid_j(c), J::B(*h)])).collect()),
                J::L(b.iter().map(|(c, d)| J::T(vec![cid_j(c), J::bytes(d)])).collect()),
            ]))
        }
        _ => J::none(),
    };
    if let Some(w) = &parts.wantlist {
        cids.extend(w.entries.iter().map(|e| e.block.clone()));
    }
    (J::C("IoOk", vec![client, J::opt(parts.wantlist.as_ref().map(wantlist_j))]), cids)
}

fn one(rng: &mut Rng) -> Case {
    let nstreams = 1 + rng.usize(4);
    let mut tags = vec![format!("streams{nstreams}")];
    let scripted = rng.chance(1, 2);
    let hasher = ScriptHasher { id: 0, answers: vec![(0x99, Kind::Ok(rng.bytes(8)))], log: Arc::new(Mutex::new(Vec::new())) };
    let table = if scripted { HasherTable::<64>::new(vec![hasher.clone()]) } else { HasherTable::<64>::new(Vec::<ScriptHasher>::new()) };
    if scripted {
        tags.push("async_hasher".into());
    }
    let pools: Vec<Vec<(Cid64, Vec<u8>)>> =
        (0..nstreams).map(|k| (0..2).map(|i| { let d = vec![k as u8, i as u8, 5]; (honest_cid::<64>(rng, &d), d) }).collect()).collect();
    let scripts: Vec<(Vec<Ev>, Vec<u8>)> = pools.iter().enumerate().map(|(k, p)| stream_events(rng, k, p, scripted, &mut tags)).collect();
    // when each stream is opened: after how many handler polls
    let open_at: Vec<usize> = (0..nstreams).map(|k| if k == 0 { 0 } else { rng.usize(6) }).collect();

    // table answers
    let mut answers = Vec::new();
    for (_, bytes) in &scripts {
        let mut buf = bytes::BytesMut::from(&bytes[..]);
        for _ in 0..16 {
            match catch_unwind(AssertUnwindSafe(|| beetswap::verif::codec_decode(&mut buf))) {
                Ok(Ok(Some(m))) => {
                    for b in &m.payload {
                        for code in [0x12u64, 0x77].into_iter().chain(leb128_read(&b.prefix).and_then(|(_, r)| leb128_read(r)).and_then(|(_, r)| leb128_read(r)).map(|(c, _)| c)) {
                            let r = block_on(table.hash(code, &b.data));
                            answers.push(J::T(vec![J::n(code), J::bytes(&b.data), hres_j(&r)]));
                        }
                    }
                }
                _ => break,
            }
        }
    }

    let queues: Vec<Arc<Mutex<VecDeque<Ev>>>> = scripts.iter().map(|(e, _)| Arc::new(Mutex::new(e.iter().cloned().collect()))).collect();
    let observed: Arc<Mutex<Vec<(usize, J)>>> = Arc::new(Mutex::new(Vec::new()));
    let obs2 = observed.clone();
    let mut alive_end = 0usize;
    let res = catch_unwind(AssertUnwindSafe(|| {
        let h2 = hasher.clone();
        let mut node = Node::new(move |b| if scripted { b.register_multihasher(h2) } else { b }, 1);
        let mut h = node.new_conn(0, 0);
        let flag = Arc::new(Flag(AtomicBool::new(false)));
        let waker = Waker::from(flag.clone());
        let mut cx = Context::from_waker(&waker);
        let mut opened = vec![false; nstreams];
        let mut polls = 0usize;
        let mut idle_rounds = 0;
        for _ in 0..20_000 {
            for k in 0..nstreams {
                if !opened[k] && open_at[k] <= polls {
                    handler_push_inbound_stream(&mut h, Box::new(Reader(queues[k].clone())));
                    opened[k] = true;
                }
            }
            flag.0.store(false, Ordering::SeqCst);
            polls += 1;
            match h.poll(&mut cx) {
                Poll::Ready(ConnectionHandlerEvent::NotifyBehaviour(ToBehaviourEvent::IncomingMessage(_, m))) => {
                    let (j, cids) = msg_j(incoming_parts(&m));
                    let k = pools.iter().enumerate().position(|(k, p)| p.iter().any(|(c, _)| cids.iter().any(|x| *x == c.to_bytes() || *x == vec![9u8, 9, k as u8] || (x.len() == 4 && x[1..] == [9u8, 9, k as u8])))).unwrap_or(usize::MAX);
                    obs2.lock().unwrap().push((k, j));
                    idle_rounds = 0;
                }
                Poll::Ready(_) => {}
                Poll::Pending => {
                    let woken = flag.0.swap(false, Ordering::SeqCst);
                    if !woken && opened.iter().all(|o| *o) {
                        idle_rounds += 1;
                        if idle_rounds > 2 {
                            break;
                        }
                    }
                }
            }
        }
        handler_inbound_streams(&h)
    }));
    let panicked = match res {
        Ok(n) => { alive_end = n; false }
        Err(_) => true,
    };
    let obs = observed.lock().unwrap().clone();
    if obs.iter().any(|(k, _)| *k == usize::MAX) {
        tags.push("unattributed".into());
    }
    let evs_j = |evs: &Vec<Ev>| {
        J::L(evs
            .iter()
            .map(|e| match e {
                Ev::Chunk(b) => J::C("Chunk", vec![J::bytes(b)]),
                Ev::Eof => J::c0("Eof"),
                Ev::Err => J::c0("ReadErr"),
                Ev::Pending => J::c0("ReadPending"),
            })
            .collect())
    };
    Case {
        input: J::C("CnIn", vec![J::us(64usize), J::B(chk()), J::L(scripts.iter().map(|(e, _)| evs_j(e)).collect()), J::L(answers)]),
        output: J::T(vec![
            J::L(obs.iter().map(|(k, j)| J::T(vec![J::us(if *k == usize::MAX { 999 } else { *k }), j.clone()])).collect()),
            J::us(alive_end),
            J::B(panicked),
        ]),
        tags,
        nontrivial: nstreams > 1,
    }
}

pub fn run(seed: u64, n: usize, _tier: &str) {
    let mut rng = Rng::new(seed);
    for _ in 0..n {
        one(&mut rng).print();
    }
}
