#!/usr/bin/env python3
"""check.py <ID> [--tier quick|thorough] [--replay FILE]

Decides property <ID> for /repo's current working tree:
  1. sync    : regenerate coq/theories/Extracted.v from /repo, build the Coq development (full .vo),
               build the Rust harness against /repo with --cfg beetswap_verif
  2. proofs  : Props_<ID>.vo (and what it depends on, incl. Tie.vo) must build; audit for
               Admitted/Axiom...; Print Assumptions under every property theorem must be allowed
  3. corr    : corpus first, then run the implementation on generated inputs (harness), evaluate the Coq
               model on the same inputs inside Coq and compare (`corr`), and evaluate the property
               oracle on the IMPLEMENTATION's outputs (`oracle`)
  4. verdict : exit 0, or `VIOLATION property=<ID> replay=<path>[ no-failing-input-found]`, exit 1
  5. evidence/<ID>.json
"""
import argparse
import hashlib
import json
import os
import re
import subprocess
import sys
import time

ROOT = os.path.dirname(os.path.abspath(__file__))
sys.path.insert(0, os.path.join(ROOT, "tools"))
import coqeval  # noqa: E402
import props as PROPS_MOD  # noqa: E402

REPO = "/repo"
COQ = os.path.join(ROOT, "coq")
THEORIES = os.path.join(COQ, "theories")
BUILD = os.path.join(ROOT, "build")
HARNESS = os.path.join(ROOT, "harness")
TARGET = os.path.join(BUILD, "target")
FORBIDDEN = re.compile(
    r"\b(Admitted|admit|Axiom|Axioms|Parameter|Parameters|Conjecture|Conjectures|Admit Obligations|bypass_check|Unset Guard Checking|Unset Positivity Checking|Unset Universe Checking)\b|type-in-type|impredicative-set")
ALLOWED_AXIOMS = set()  # names of standard-library axioms tolerated under Print Assumptions (none so far)


def log(*a):
    print("[check]", *a, file=sys.stderr, flush=True)


def sh(cmd, cwd=None, timeout=None, env=None):
    e = dict(os.environ)
    e.update({"CARGO_NET_OFFLINE": "true"})
    if env:
        e.update(env)
    return subprocess.run(cmd, cwd=cwd, capture_output=True, text=True, timeout=timeout, env=e)


# ----------------------------------------------------------------------------------------------- sync

def strip_comments(src):
    out, depth, i = [], 0, 0
    while i < len(src):
        if src.startswith("(*", i):
            depth += 1
            i += 2
        elif src.startswith("*)", i) and depth > 0:
            depth -= 1
            i += 2
        else:
            if depth == 0:
                out.append(src[i])
            i += 1
    return "".join(out)


def coq_files():
    files = []
    for line in open(os.path.join(COQ, "_CoqProject")):
        line = line.strip()
        if line.endswith(".v"):
            files.append(line)
    return files


def sync_coq(clean=False):
    """returns (ok_files:set of module names built, log text)"""
    gen = sh([sys.executable, os.path.join(ROOT, "tools", "gen_extracted.py")], cwd=ROOT, timeout=120)
    if gen.returncode != 0:
        log("translator failed:", gen.stderr[-2000:])
    mkf, prj = os.path.join(COQ, "Makefile"), os.path.join(COQ, "_CoqProject")
    if not os.path.exists(mkf) or clean or os.path.getmtime(prj) > os.path.getmtime(mkf):
        sh(["coq_makefile", "-f", "_CoqProject", "-o", "Makefile"], cwd=COQ, timeout=60)
    if clean:
        sh(["make", "clean"], cwd=COQ, timeout=300)
    mk = sh(["make", "-k", "-j16"], cwd=COQ, timeout=3000)
    failed = set(re.findall(r"\*\*\* \[[^\]]*theories/(\w+)\.vo\] Error", mk.stdout + mk.stderr))
    mods = [os.path.basename(f)[:-2] for f in coq_files()]
    # a module is built iff it did not fail, its .vo exists, and everything it depends on is built
    built = set()
    for m in mods:
        deps = coq_deps(m)
        vo = os.path.join(THEORIES, m + ".vo")
        if deps & failed or not os.path.exists(vo):
            # drop a stale .vo left over from an earlier build so that nothing can load it
            if os.path.exists(vo):
                os.remove(vo)
            continue
        built.add(m)
    return built, gen, mk


def coq_deps(module):
    """transitive BS dependencies of a module (by scanning Require lines)"""
    seen, todo = set(), [module]
    while todo:
        m = todo.pop()
        if m in seen:
            continue
        seen.add(m)
        p = os.path.join(THEORIES, m + ".v")
        if not os.path.exists(p):
            continue
        src = strip_comments(open(p).read())
        for mm in re.finditer(r"From\s+BS\s+Require\s+(?:Import|Export)?\s*([^.]*)\.", src):
            for name in mm.group(1).split():
                todo.append(name)
    return seen


def audit(modules):
    problems = []
    for m in sorted(modules):
        p = os.path.join(THEORIES, m + ".v")
        if not os.path.exists(p):
            problems.append(f"{m}.v missing")
            continue
        src = strip_comments(open(p).read())
        for mm in FORBIDDEN.finditer(src):
            problems.append(f"{m}.v: forbidden `{mm.group(0)}`")
        # Variable/Hypothesis outside a section declare axioms
        depth = 0
        for line in src.split("\n"):
            s = line.strip()
            if re.match(r"Section\s+\w+", s):
                depth += 1
            elif re.match(r"End\s+\w+\s*\.", s) and depth > 0:
                depth -= 1
            elif depth == 0 and re.match(r"(Variable|Variables|Hypothesis|Hypotheses|Context)\b", s):
                problems.append(f"{m}.v: `{s.split()[0]}` outside a section")
    return problems


def print_assumptions(props_module):
    """compile the Props file on its own and parse the Print Assumptions blocks"""
    out_dir = os.path.join(BUILD, "props")
    os.makedirs(out_dir, exist_ok=True)
    src = os.path.join(THEORIES, props_module + ".v")
    p = sh(["coqc", "-noglob", "-Q", THEORIES, "BS", "-o", os.path.join(out_dir, props_module + ".vo"), src],
           cwd=out_dir, timeout=900)
    if p.returncode != 0:
        return None, p.stderr[-3000:]
    text = p.stdout
    blocks = re.split(r"(?=Closed under the global context|Axioms:)", text)
    closed = text.count("Closed under the global context")
    axioms = []
    for b in blocks:
        if b.startswith("Axioms:"):
            for line in b.split("\n")[1:]:
                mm = re.match(r"^(\S+)\s*:", line)
                if mm:
                    axioms.append(mm.group(1))
    return {"closed": closed, "axioms": axioms, "raw": text[-3000:]}, None


def count_obligations(props_module):
    src = strip_comments(open(os.path.join(THEORIES, props_module + ".v")).read())
    thms = re.findall(r"^\s*(?:Theorem|Lemma|Corollary|Example)\s+(\w+)", src, re.M)
    pins = re.findall(r"^\s*Check\s+(\w+)\s*:", src, re.M)
    prints = re.findall(r"^\s*Print Assumptions\s+(\w+)", src, re.M)
    return thms, pins, prints


# -------------------------------------------------------------------------------------------- harness

def repo_digest():
    h = hashlib.sha256()
    out = sh(["git", "-C", REPO, "ls-files", "-co", "--exclude-standard"]).stdout.split("\n")
    for f in sorted(out):
        p = os.path.join(REPO, f)
        if f and os.path.isfile(p) and not f.startswith("target/"):
            h.update(f.encode())
            with open(p, "rb") as fh:
                h.update(fh.read())
    return h.hexdigest()[:16]


def build_harness(profile):
    lock_src = os.path.join(REPO, "Cargo.lock")
    lock_dst = os.path.join(HARNESS, "Cargo.lock")
    if not os.path.exists(lock_dst):
        import shutil
        shutil.copy(lock_src, lock_dst)
    cmd = ["cargo", "build", "--offline"] + (["--release"] if profile == "release" else [])
    p = sh(cmd, cwd=HARNESS, timeout=3000)
    if p.returncode != 0:
        return None, p.stderr[-4000:]
    return os.path.join(TARGET, profile, "bsverif"), None


def run_engine(binary, engine, seed, n, tier, timeout=1500, mem_kb=4 * 1024 * 1024):
    cmd = f"ulimit -v {mem_kb}; exec {binary} {engine} {seed} {n} {tier}"
    try:
        p = subprocess.run(["bash", "-c", cmd], capture_output=True, text=True, timeout=timeout)
        out, rc, err = p.stdout, p.returncode, p.stderr[-2000:]
    except subprocess.TimeoutExpired as e:
        # the implementation did not return on some generated input: what was printed before it is kept
        out = e.stdout.decode("utf-8", "replace") if isinstance(e.stdout, bytes) else (e.stdout or "")
        rc, err = "hang", f"ENGINE-HANG engine={engine} seed={seed} n={n} tier={tier}: no result within {timeout} s"
    cases = []
    for line in out.split("\n"):
        if line.startswith("{") and line.rstrip().endswith("}"):
            try:
                cases.append(json.loads(line))
            except ValueError:
                pass
    return cases, rc, err


# ----------------------------------------------------------------------------------------------- main

def load_known():
    p = os.path.join(ROOT, "known_findings.json")
    if not os.path.exists(p):
        return []
    return json.load(open(p))


def write_replay(pid, seed, payload):
    os.makedirs(os.path.join(ROOT, "replays"), exist_ok=True)
    path = os.path.join(ROOT, "replays", f"{pid}-{seed}.json")
    with open(path, "w") as f:
        json.dump(payload, f, indent=1)
    return path


def main():
    ap = argparse.ArgumentParser()
    ap.add_argument("pid")
    ap.add_argument("--tier", default=os.environ.get("VERIF_TIER", "quick"))
    ap.add_argument("--replay")
    ap.add_argument("--no-build", action="store_true")
    args = ap.parse_args()
    pid = args.pid
    tier = args.tier if args.tier in ("quick", "thorough") else "quick"
    seed = int(os.environ.get("VERIF_SEED", "1"))
    spec = PROPS_MOD.PROPS[pid]
    t0 = time.time()
    os.makedirs(BUILD, exist_ok=True)
    os.makedirs(os.path.join(ROOT, "evidence"), exist_ok=True)

    replay_spec = None
    if args.replay:
        replay_spec = json.load(open(args.replay))

    # ---- 1/2. Coq: sync, proofs, audit
    built, gen, mk = sync_coq(clean=(tier == "thorough" and not args.no_build and os.environ.get("VERIF_NO_CLEAN") is None and spec.get("clean_thorough", False)))
    props_module = "Props_" + pid
    needed = coq_deps(props_module)
    missing = sorted(m for m in needed if m not in built)
    proof_problems = []
    if gen.returncode != 0:
        proof_problems.append("translator tools/gen_extracted.py failed: " + gen.stderr.strip().split("\n")[-1][:300])
    if missing:
        errs = re.findall(r'File "\./theories/(\w+)\.v", line (\d+)[^\n]*\n(Error:[^\n]*(?:\n[^\n]+){0,3})', mk.stdout + mk.stderr)
        detail = "; ".join(f"{f}.v:{ln}: {' '.join(e.split())[:200]}" for f, ln, e in errs[:4])
        proof_problems.append("modules not built: " + ", ".join(missing) + (" — " + detail if detail else ""))
    problems = audit(needed)
    proof_problems += problems
    thms, pins, prints = count_obligations(props_module) if os.path.exists(os.path.join(THEORIES, props_module + ".v")) else ([], [], [])
    pa = None
    if not missing:
        pa, err = print_assumptions(props_module)
        if pa is None:
            proof_problems.append("Props file does not compile standalone: " + err[-300:])
        else:
            bad_ax = [a for a in pa["axioms"] if a not in ALLOWED_AXIOMS]
            if bad_ax:
                proof_problems.append("axioms not in the allow-list: " + ", ".join(bad_ax))
            src_thms = re.findall(r"^\s*(?:Theorem|Corollary)\s+(\w+)", strip_comments(open(os.path.join(THEORIES, props_module + ".v")).read()), re.M)
            unprinted = [t for t in src_thms if t not in prints]
            if unprinted:
                proof_problems.append("theorems without Print Assumptions in Props file: " + ", ".join(unprinted[:5]))
            if pa["closed"] + (1 if pa["axioms"] else 0) < 1 or pa["closed"] < len(prints) - (1 if pa["axioms"] else 0):
                proof_problems.append(f"Print Assumptions: {pa['closed']} closed blocks for {len(prints)} prints")
    obligations = len(thms) + len(spec.get("tie_lemmas", []))
    coqchk_summary = None
    if tier == "thorough" and not proof_problems and spec.get("coqchk", True):
        vos = [os.path.join(THEORIES, props_module + ".vo")]
        try:
            ck = sh(["coqchk", "-silent", "-o", "-Q", THEORIES, "BS"] + ["BS." + props_module], cwd=COQ, timeout=2400)
            if ck.returncode != 0:
                proof_problems.append("coqchk failed: " + (ck.stderr or ck.stdout)[-300:])
            else:
                ckout = ck.stdout + "\n" + ck.stderr
                summary = dict(re.findall(r"^\s*\*\s*([^:\n]+):\s*(.*)$", ckout, re.M))
                log("coqchk:", "; ".join(f"{k.strip()}: {v.strip()}" for k, v in summary.items())[-400:])
                coqchk_summary = {k.strip(): v.strip() for k, v in summary.items()}
                for k, v in coqchk_summary.items():
                    if k.startswith("Theory"):
                        continue
                    if v != "<none>":
                        proof_problems.append(f"coqchk: {k}: {v[:200]}")
                if not any(k.startswith("Axioms") for k in coqchk_summary):
                    proof_problems.append("coqchk: no context summary in its output")
        except subprocess.TimeoutExpired:
            log("coqchk timed out (not counted)")
    discharged = obligations if not proof_problems else 0

    # ---- 3. correspondence + oracle on the implementation
    total_cases = 0
    distinct_nt = set()
    tag_hist = {}
    samples = []
    corr_fail, oracle_fail, harness_errors, coq_errors = [], [], [], []
    traces = 0
    engines_run = []
    known = [k for k in load_known() if k.get("property") == pid and k.get("status") == "known"]
    known_hits = {}
    counters = {}
    engine_panics = []
    for eng in spec["engines"]:
        name = eng["name"]
        if ("Corr_" + name) not in built:
            coq_errors.append(f"Corr_{name}.vo not built")
            continue
        for profile in eng.get("profiles", ["debug"]):
            if replay_spec and (replay_spec.get("engine") != name or replay_spec.get("profile", profile) != profile):
                continue
            binary, err = build_harness(profile)
            if binary is None:
                harness_errors.append(f"harness build ({profile}) failed: {err[-1500:]}")
                continue
            n = eng["n"][tier]
            eseed = seed
            if replay_spec:
                n, eseed, rtier = replay_spec["n"], replay_spec["seed"], replay_spec["tier"]
            else:
                rtier = tier
            cases, rc, stderr = run_engine(binary, name, eseed, n, rtier, timeout=(300 if rtier == "quick" else 2400))
            if rc == 3 and "ENGINE-PANIC" in stderr:
                # the implementation panicked under the harness where no panic is an expected outcome
                engine_panics.append({"engine": name, "profile": profile, "seed": eseed, "n": n, "tier": rtier, "index": len(cases),
                                      "what": "the implementation panicked while the harness drove it on the generated input with this index "
                                              "(regenerate: bsverif <engine> <seed> <index+1> <tier>, last case)",
                                      "stderr": stderr[-1500:], "cases_completed": len(cases)})
            elif rc == "hang":
                engine_panics.append({"engine": name, "profile": profile, "seed": eseed, "n": n, "tier": rtier, "index": len(cases),
                                      "what": "the implementation did not return (non-terminating loop or unbounded allocation) on the generated "
                                              "input with this index (regenerate: bsverif <engine> <seed> <index+1> <tier>, last case)",
                                      "stderr": stderr[-1500:], "cases_completed": len(cases)})
            elif rc != 0:
                harness_errors.append(f"harness {name} ({profile}) exited {rc}: {stderr[-500:]}")
            if not cases:
                continue
            engines_run.append(f"{name}/{profile}")
            oracle_fn = eng.get("oracle", spec.get("oracle", "oracle"))
            known_fns = eng.get("known", {})          # finding id -> Corr function that is true on its manifestations
            extra_fns = eng.get("count", [])           # informational counters
            funcs = ["corr", oracle_fn] + ["+" + f for f in known_fns.values()] + ["+" + f for f in extra_fns]
            res, errs = coqeval.evaluate(name, f"{pid}_{profile}", cases, funcs=tuple(funcs), shard=eng.get("shard", 400))
            bc, bo = res["corr"], res[oracle_fn]
            for kid, fn in known_fns.items():
                for i in res["+" + fn]:
                    known_hits.setdefault(kid, {"engine": name, "profile": profile, "index": i, "case": cases[i]})
            for fn in extra_fns:
                counters[fn] = counters.get(fn, 0) + len(res["+" + fn])
            for e in errs:
                coq_errors.append(f"{name}: {e['err'][-600:]}")
            total_cases += len(cases)
            traces += len(cases)
            for c in cases:
                # engines whose input term is only a size summary (net) are told apart by what was observed
                key = json.dumps(c["i"], sort_keys=True) + (json.dumps(c["o"], sort_keys=True) if eng.get("distinct_io") else "")
                if c.get("nt"):
                    distinct_nt.add(hashlib.md5(key.encode()).hexdigest())
                for t in c.get("tags", []):
                    tag_hist[t] = tag_hist.get(t, 0) + 1
            if len(samples) < 6:
                step = max(1, len(cases) // 3)
                samples += [{"engine": name, "input": abbreviate(c["i"]), "impl_output": abbreviate(c["o"])} for c in cases[::step][:3]]
            meta = {"engine": name, "profile": profile, "seed": eseed, "n": n, "tier": rtier}
            for i in bo:
                oracle_fail.append(dict(meta, index=i, case=cases[i]))
            for i in bc:
                if i not in bo:
                    corr_fail.append(dict(meta, index=i, case=cases[i]))

    # ---- 4. verdict
    wall = time.time() - t0
    violations = 0
    lines = []
    rc = 0

    def shrink_pick(fails):
        return min(fails, key=lambda f: len(json.dumps(f["case"]["i"])))

    # known findings: an oracle failure whose case is tagged with a listed finding id
    new_oracle = list(oracle_fail)   # the oracle functions already return true on the listed known classes
    for k in known:
        if k["id"] in known_hits:
            lines.append(f"KNOWN-FINDING: property={pid} {k['what']}")
        else:
            # the witness of a listed finding is in the corpus and runs first: if it no longer manifests
            # nothing is reported for it (the finding may have been repaired)
            log(f"known finding {k['id']} did not manifest in this run")

    if engine_panics:
        # a panic or a hang of the implementation on a generated input: C08 by itself, and for any other property the
        # input is one on which the property cannot hold either (no result was produced); the replay names the input
        path = write_replay(pid, seed, engine_panics[0])
        lines.append(f"VIOLATION property={pid} replay={path}")
        violations = len(engine_panics)
        rc = 1
    if rc == 1:
        pass
    elif new_oracle:
        f = shrink_pick(new_oracle)
        f["model_output"] = coqeval.model_output(f["engine"], f["case"])
        f["what"] = "property oracle is false on the implementation's output for this input"
        f["others"] = len(new_oracle) - 1
        path = write_replay(pid, seed, f)
        lines.append(f"VIOLATION property={pid} replay={path}")
        violations = len(new_oracle)
        rc = 1
    elif corr_fail or proof_problems or coq_errors:
        payload = {"what": "the property is no longer shown to hold", "proof_problems": proof_problems,
                   "coq_errors": coq_errors[:5]}
        if corr_fail:
            f = shrink_pick(corr_fail)
            f["model_output"] = coqeval.model_output(f["engine"], f["case"])
            payload["correspondence"] = f"engine {f['engine']}: model and implementation disagree on {len(corr_fail)} input(s); smallest below"
            payload.update(f)
        else:
            payload["broken"] = f"theorems of {props_module}.v / Tie.v / Corr_*.v no longer check"
        path = write_replay(pid, seed, payload)
        lines.append(f"VIOLATION property={pid} replay={path} no-failing-input-found")
        violations = max(1, len(corr_fail))
        rc = 1
    if harness_errors and rc == 0:
        for e in harness_errors:
            log(e)
        lines.append(f"BROKEN-CHECK property={pid} harness could not run (see stderr)")
        rc = 2

    # ---- 5. evidence
    ev = {
        "property_id": pid,
        "tier": tier,
        "seed": seed,
        "level": "proof",
        "coverage": {
            "obligations": max(obligations, 1),
            "discharged": discharged,
            "checker_cmd": "make -C coq (coqc 8.16.1, full .vo) + coqc Props_%s.v with Print Assumptions%s" % (pid, "; coqchk -o" if tier == "thorough" else ""),
            "trusted_base": spec.get("trusted_base", []) + PROPS_MOD.COMMON_TRUSTED,
            "theorems": thms,
            "statement_pins": pins,
            "print_assumptions": ("all closed under the global context" if pa and not pa["axioms"] else (pa or {}).get("axioms")),
            "evaluations": total_cases,
            "distinct_nontrivial": len(distinct_nt),
            "rule": spec.get("rule", ""),
            "samples": samples[:6] if samples else [{"note": "no case was run"}],
            "traces_validated_against_impl": traces,
            "engines": engines_run,
            "input_distribution": dict(sorted(tag_hist.items(), key=lambda kv: -kv[1])[:40]),
            "correspondence_disagreements": len(corr_fail),
            "oracle_failures_on_impl": len(oracle_fail),
            "known_findings_replayed": sorted(known_hits.keys()),
            "counters": counters,
            "proof_problems": proof_problems,
            "coqchk": coqchk_summary,
            "exhaustive": bool(spec.get("exhaustive_note")),
            "exhaustive_note": spec.get("exhaustive_note", ""),
        },
        "assumptions": spec.get("assumptions", []),
        "wall_s": round(wall, 2),
        "violations": violations,
    }
    write_evidence(pid, ev)
    for line in lines:
        print(line)
    log(f"{pid} {tier}: cases={total_cases} distinct_nontrivial={len(distinct_nt)} corr_fail={len(corr_fail)} oracle_fail={len(oracle_fail)} proof_problems={len(proof_problems)} wall={wall:.1f}s rc={rc}")
    for pp in proof_problems[:6]:
        log("  proof problem:", pp)
    for ce in coq_errors[:3]:
        log("  coq error:", ce[:400])
    sys.exit(rc)


def abbreviate(o, max_str=256, max_list=64):
    """A copy of a case for the evidence file: a string longer than max_str (a block of up to 16 MiB in the over-cap
    cases, hex-encoded) is replaced by its head, its length and its sha256; a list longer than max_list keeps its first
    elements and says how many were left out.  Only the evidence sample is shortened: the case evaluated in Coq and on
    the implementation, and a replay file, always hold the full input."""
    if isinstance(o, str):
        if len(o) <= max_str:
            return o
        return "%s...[%d chars in all, sha256 %s]" % (o[:64], len(o), hashlib.sha256(o.encode()).hexdigest())
    if isinstance(o, list):
        out = [abbreviate(x, max_str, max_list) for x in o[:max_list]]
        if len(o) > max_list:
            out.append("...[%d more elements]" % (len(o) - max_list))
        return out
    if isinstance(o, dict):
        return {k: abbreviate(v, max_str, max_list) for k, v in o.items()}
    return o


EVIDENCE_MAX_BYTES = 512_000


def write_evidence(pid, ev):
    """Write evidence/<pid>.json atomically and keep it small enough to be read whole: samples are shortened further,
    then dropped from the end, until the file is under EVIDENCE_MAX_BYTES (at least one sample always stays)."""
    cov = ev["coverage"]
    for max_str, max_list in ((256, 64), (128, 24), (64, 8)):
        text = json.dumps(ev, indent=1)
        if len(text.encode()) <= EVIDENCE_MAX_BYTES:
            break
        cov["samples"] = [abbreviate(x, max_str, max_list) for x in cov["samples"]]
    text = json.dumps(ev, indent=1)
    while len(text.encode()) > EVIDENCE_MAX_BYTES and len(cov["samples"]) > 1:
        cov["samples"] = cov["samples"][:-1]
        text = json.dumps(ev, indent=1)
    json.loads(text)
    path = os.path.join(ROOT, "evidence", f"{pid}.json")
    tmp = path + ".tmp"
    with open(tmp, "w") as f:
        f.write(text)
        f.write("\n")
        f.flush()
        os.fsync(f.fileno())
    os.replace(tmp, path)


if __name__ == "__main__":
    main()
