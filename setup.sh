#!/bin/bash
# Build the framework from files on disk only (offline): Coq development + Rust harness (both profiles).
set -u
cd "$(dirname "$0")"
export CARGO_NET_OFFLINE=true
mkdir -p build evidence replays
python3 tools/gen_extracted.py || echo "setup: translator failed (checks will report it)"
( cd coq && coq_makefile -f _CoqProject -o Makefile >/dev/null && timeout 3000 make -k -j16 >/dev/null 2>build_setup.log; tail -3 build_setup.log; rm -f build_setup.log )
[ -f harness/Cargo.lock ] || cp /repo/Cargo.lock harness/Cargo.lock
( cd harness && timeout 3000 cargo build --offline 2>&1 | tail -2 && timeout 3000 cargo build --offline --release 2>&1 | tail -2 )
exit 0
