#!/usr/bin/env python3
"""Translator: reads /repo's working tree and writes coq/theories/Extracted.v with the constants,
comparison operands, error mappings, protobuf tag tables, entry constructors and wantlist transition
arms that the theorems mention by value.  Tie.v then proves each of them equal to what the hand-written
models use, so a source edit that changes one of them breaks a proof obligation.

It is deliberately dumb: regular expressions over comment-stripped source; anything it cannot find is a
hard error (exit 1), it never guesses.  The output file is rewritten only if its content changed."""
import os
import re
import sys

REPO = os.environ.get("VERIF_REPO", "/repo")
ROOT = os.path.dirname(os.path.dirname(os.path.abspath(__file__)))
OUT = os.environ.get("VERIF_EXTRACTED_OUT", os.path.join(ROOT, "coq", "theories", "Extracted.v"))


def die(msg):
    print("gen_extracted: " + msg, file=sys.stderr)
    sys.exit(1)


def read(rel):
    p = os.path.join(REPO, rel)
    if not os.path.exists(p):
        die(f"missing {rel}")
    src = open(p).read()
    # strip // comments and /* */ (no string contains // in the parts we read except URLs in doc comments)
    src = re.sub(r"/\*.*?\*/", "", src, flags=re.S)
    src = re.sub(r"//[^\n]*", "", src)
    return src


def const_expr(src, name, rel):
    m = re.search(r"const\s+" + name + r"\s*:\s*[\w:<>]+\s*=\s*([^;]+);", src)
    if not m:
        die(f"constant {name} not found in {rel}")
    return m.group(1).strip()


def eval_int(expr, what):
    e = expr.replace("_", "")
    if not re.fullmatch(r"[0-9a-fA-Fx\s\*\+\-\(\)]+", e):
        die(f"cannot evaluate {what}: {expr}")
    try:
        return int(eval(e, {"__builtins__": {}}))
    except Exception as ex:  # noqa
        die(f"cannot evaluate {what}: {expr} ({ex})")


def duration_ms(expr, what):
    m = re.fullmatch(r"Duration::from_(secs|millis)\(\s*([0-9_]+)\s*\)", expr)
    if not m:
        die(f"cannot evaluate duration {what}: {expr}")
    v = int(m.group(2).replace("_", ""))
    return v * 1000 if m.group(1) == "secs" else v


def brace_block(text, start):
    """text[start] == '{' : return (inner, index after the matching '}')"""
    assert text[start] == "{"
    depth = 0
    for i in range(start, len(text)):
        if text[i] == "{":
            depth += 1
        elif text[i] == "}":
            depth -= 1
            if depth == 0:
                return text[start + 1:i], i + 1
    die("unbalanced braces")


# statement codes of the connection-handler tables (Tie_handler.v interprets them)
HSTMT = [
    (r'self\.close_sink_on_error\("[^"]*"\)', 1),
    (r"self\.change_sending_state\(SendingState::Failed\(self\.connection_id\)\)", 2),
    (r"continue", 3),
    (r"let_=sink\.poll_close_unpin\(cx\)", 4),
    (r"self\.sink_state=SinkState::None", 5),
    (r"self\.change_sending_state\(SendingState::Ready\)", 6),
    (r'letmsg=msg\.take\(\)\.expect\("[^"]*"\)', 7),
    (r"self\.msg=Some\(msg\)", 8),
    (r"self\.start_sending_timeout=None", 9),
    (r"self\.change_sending_state\(SendingState::Sending\(Instant::now\(\),self\.connection_id,?\)\)", 10),
    (r"returnPoll::Pending", 11),
    (r"returnself\.open_new_substream\(\)", 12),
    (r"self\.start_sending_timeout\.take\(\)", 13),
    (r"self\.msg\.take\(\)", 14),
    (r"self\.halted=true", 15),
    # server handler
    (r'letmutmessages=pending_messages\.take\(\)\.expect\("[^"]*"\)', 30),
    (r"letremaining=messages\.split_off\(blocks_fitting_in_message\(&messages\)\)", 31),
    (r"\*pending_messages=Some\(remaining\)", 33),
    (r"letmessage=Message\{payload:messages,\.\.Message::default\(\)\}", 34),
    # ClientBehaviour::poll, task results
    (r"returnPoll::Ready\(ToSwarm::GenerateEvent\(Event::GetQueryResponse\{query_id,data:data\.clone\(\),?\}\)\)", 40),
    (r"self\.cid_to_queries\.entry\(cid\)\.or_default\(\)\.push\(query_id\)", 41),
    (r"returnPoll::Ready\(ToSwarm::GenerateEvent\(Event::GetQueryError\{query_id,error:e\.into\(\),?\}\)\)", 42),
    (r"self\.new_blocks\.extend\(blocks\)", 43),
    (r"forstateinself\.peers\.values_mut\(\)\{state\.wantlist\.wanted_again\(&cid\);\}", 44),
]
HCOND = [
    (r"ready!\(sink\.poll_flush_unpin\(cx\)\)\.is_err\(\)", 20),
    (r"ready!\(sink\.poll_ready_unpin\(cx\)\)\.is_err\(\)", 21),
    (r"sink\.start_send_unpin\(&msg\)\.is_err\(\)", 22),
    (r"delay\.poll_unpin\(cx\)\.is_ready\(\)", 23),
    (r"!remaining\.is_empty\(\)", 24),
    (r"sink\.start_send_unpin\(&message\)\.is_err\(\)", 25),
    (r"self\.wantlist\.insert\(cid\)", 26),
]


def hstmt_code(txt):
    t = re.sub(r"\s+", "", txt)
    for pat, code in HSTMT:
        if re.fullmatch(pat, t):
            return code
    return 99


def parse_hbody(body):
    """a block body -> list of (kind, [codes]): kind 0 = one plain statement, kind 20.. = `if <cond> { stmts }` (no else)"""
    items = []
    i, n = 0, len(body)
    while i < n:
        while i < n and body[i].isspace():
            i += 1
        if i >= n:
            break
        if body.startswith("if", i) and not (body[i + 2].isalnum() or body[i + 2] == "_"):
            j = body.index("{", i)
            cond = re.sub(r"\s+", "", body[i + 2:j])
            kind = 98
            for pat, code in HCOND:
                if re.fullmatch(pat, cond):
                    kind = code
            inner, k = brace_block(body, j)
            sub = parse_hbody(inner)
            if any(kk != 0 for kk, _ in sub):
                kind = 98          # nested conditionals are not part of the table language
            rest = body[k:].lstrip()
            if rest.startswith("else"):
                kind = 98
            items.append((kind, [c for _, cs in sub for c in cs]))
            i = k
        elif body.startswith("for", i) and body[i + 3].isspace():
            j = body.index("{", i)
            _, k = brace_block(body, j)
            items.append((0, [hstmt_code(body[i:k])]))
            i = k
        else:
            j = body.find(";", i)
            if j < 0:
                j = n
            items.append((0, [hstmt_code(body[i:j])]))
            i = j + 1
    return items


def coq_string(s):
    return "[" + "; ".join(str(b) for b in s.encode()) + "]"


def main():
    out = []
    w = out.append
    w("(* GENERATED by tools/gen_extracted.py from /repo's working tree — do not edit, not committed. *)")
    w("From Coq Require Import List NArith Bool.")
    w("Import ListNotations.")
    w("Open Scope N_scope.")
    w("")

    # ---- message.rs : limit, comparison, varint error mapping
    msg = read("src/message.rs")
    w(f"Definition max_message_size : N := {eval_int(const_expr(msg, 'MAX_MESSAGE_SIZE', 'src/message.rs'), 'MAX_MESSAGE_SIZE')}.")
    dec = re.search(r"fn\s+decode\s*\(.*?\n    \}\n", msg, re.S)
    if not dec:
        die("Codec::decode not found")
    body = dec.group(0)
    m = re.search(r"if\s+(\w+)\s*(>=|>|<=|<)\s*MAX_MESSAGE_SIZE\s*\{\s*return\s+Err", body)
    if not m:
        die("limit test of Codec::decode not found")
    # 0 = the announced length `len`, 1 = the byte length of the prefix `varint_len`, 2 = something else
    var = {"len": 0, "varint_len": 1}.get(m.group(1), 2)
    op = {">": 0, ">=": 1}.get(m.group(2), 2)
    w(f"Definition limit_operand : N := {var}.   (* 0 = announced length, 1 = varint byte length *)")
    w(f"Definition limit_operator : N := {op}.  (* 0 = `>`, 1 = `>=` *)")
    # which unsigned_varint errors mean "need more bytes" (Ok(None)) and which fail the stream
    arms = re.findall(r"Err\(\s*([\w:]+)\s*\)\s*=>\s*return\s+(Ok\(None\)|Err\()", body)
    insufficient_waits = any(a.endswith("Insufficient") and r.startswith("Ok") for a, r in arms)
    catch_all_fails = any((a in ("e", "_", "err")) and r.startswith("Err") for a, r in arms)
    let_else_wait = bool(re.search(r"let\s+Ok\(.*?\)\s*=\s*unsigned_varint::decode::usize.*?else\s*\{\s*return\s+Ok\(None\)", body, re.S))
    # 0 = Insufficient waits and every other error fails; 1 = every error waits; 2 = unknown shape
    mapping = 0 if (insufficient_waits and catch_all_fails and not let_else_wait) else (1 if let_else_wait else 2)
    w(f"Definition varint_error_mapping : N := {mapping}.  (* 0 = only Insufficient waits, 1 = every error waits *)")
    m = re.search(r"src\.advance\(\s*(\w+)\s*\+\s*(\w+)\s*\)", body)
    if not m or {m.group(1), m.group(2)} != {"varint_len", "len"}:
        die("src.advance(varint_len + len) not found")
    w("")

    # ---- entry constructors (message.rs)
    def ctor(name):
        mm = re.search(r"fn\s+" + name + r"\b.*?\{\s*Entry\s*\{(.*?)\}\s*\}", msg, re.S)
        if not mm:
            die(f"{name} not found")
        fields = dict((k, v.strip()) for k, v in re.findall(r"(\w+)\s*:\s*([^,]+),", mm.group(1)))
        if "..Default::default()" not in mm.group(1):
            die(f"{name}: expected ..Default::default()")
        return fields

    def ctor_line(name, f):
        if f.get("block") != "cid.to_bytes()":
            die(f"{name}: block is not cid.to_bytes()")
        prio = int(f.get("priority", "0"))
        cancel = {"true": "true", "false": "false"}[f.get("cancel", "false")]
        wt = {"WantType::Block": 0, "WantType::Have": 1}[f.get("wantType", "WantType::Block")]
        sdh = f.get("sendDontHave", "false")
        sdh = {"set_send_dont_have": 2, "true": 1, "false": 0}.get(sdh)
        if sdh is None:
            die(f"{name}: unexpected sendDontHave")
        # (priority, cancel, want_type 0=Block 1=Have, send_dont_have 0=false 1=true 2=configured)
        w(f"Definition {name} : N * bool * N * N := ({prio}, {cancel}, {wt}, {sdh}).")

    for name in ("new_want_have_entry", "new_want_block_entry", "new_cancel_entry"):
        ctor_line(name, ctor(name))
    w("")

    # ---- server.rs, client.rs constants
    srv = read("src/server.rs")
    w(f"Definition max_wantlist_entries_per_peer : N := {eval_int(const_expr(srv, 'MAX_WANTLIST_ENTRIES_PER_PEER', 'src/server.rs'), 'MAX_WANTLIST_ENTRIES_PER_PEER')}.")
    cli = read("src/client.rs")
    for name, coqname in (("SEND_FULL_INTERVAL", "send_full_interval"), ("RECEIVE_REQUEST_TIMEOUT", "receive_request_timeout"),
                          ("START_SENDING_TIMEOUT", "start_sending_timeout")):
        w(f"Definition {coqname} : N := {duration_ms(const_expr(cli, name, 'src/client.rs'), name)}.")
    m = re.search(r"fn\s+default\(\)\s*->\s*Self\s*\{\s*ClientConfig\s*\{\s*set_send_dont_have\s*:\s*(true|false)", cli)
    bld = read("src/builder.rs")
    m2 = re.search(r"client\s*:\s*ClientConfig\s*\{\s*set_send_dont_have\s*:\s*(true|false)", bld)
    if not m or not m2:
        die("ClientConfig defaults not found")
    w(f"Definition default_send_dont_have : bool := {m2.group(1)}.")
    m = re.search(r"or_insert_with\(\|\|\s*PeerState\s*\{(.*?)\}\)", cli, re.S)
    if not m:
        die("PeerState initialiser not found")
    init = dict((k, v.strip()) for k, v in re.findall(r"(\w+)\s*:\s*([^,]+),", m.group(1)))
    if init.get("sending_state") != "SendingState::Ready":
        die("PeerState initial sending_state is not Ready")
    w(f"Definition peer_initial_send_full : bool := {init.get('send_full')}.")
    w("")

    # ---- cid_prefix.rs constants
    pre = read("src/cid_prefix.rs")
    for name, coqname in (("DAG_PB", "dag_pb"), ("SHA2_256", "sha2_256"), ("SHA2_256_SIZE", "sha2_256_size")):
        w(f"Definition {coqname} : N := {eval_int(const_expr(pre, name, 'src/cid_prefix.rs'), name)}.")
    # explicit version 0 is rejected by from_bytes
    rej = bool(re.search(r"if\s+version\s*==\s*Version::V0\s*\{\s*return\s+None;\s*\}", pre))
    w(f"Definition prefix_rejects_explicit_v0 : bool := {'true' if rej else 'false'}.")
    m = re.search(r"if\s+self\.multihash_size\s*(>=|>)\s*S\s*\{", pre)
    if not m:
        die("size check of to_cid not found")
    w(f"Definition prefix_size_check_operator : N := {0 if m.group(1) == '>' else 1}.  (* 0 = `>` *)")
    w("")

    # ---- protocol names
    names = []
    for rel, src in (("src/client.rs", cli), ("src/server.rs", srv), ("src/builder.rs", bld)):
        mm = re.findall(r'stream_protocol\(\s*\w+\s*,\s*"([^"]*)"\s*\)', src)
        if len(mm) != 1:
            die(f"expected exactly one stream_protocol(.., \"..\") in {rel}, found {len(mm)}")
        names.append(mm[0])
    w("(* protocol suffix used by the client behaviour, the server behaviour and the builder (listen protocol) *)")
    w("Definition protocol_suffixes : list (list N) := [" + "; ".join(coq_string(s) for s in names) + "].")
    m = re.search(r"if\s+(!?)\s*prefix\.starts_with\('(.)'\)\s*\{\s*return\s+Err", bld)
    if not m:
        die("protocol_prefix validation not found")
    w(f"Definition prefix_must_start_with : N := {ord(m.group(2))}.")
    w(f"Definition prefix_check_negated : bool := {'true' if m.group(1) == '!' else 'false'}.")
    w("")

    # ---- protobuf tag tables (generated reader/writer) and the schema
    pm = read("src/proto/message.rs")

    def reader_table(struct):
        mm = re.search(r"impl<'a>\s+MessageRead<'a>\s+for\s+" + struct + r"\s*\{(.*?)\n\}", pm, re.S)
        if not mm:
            die(f"reader of {struct} not found")
        arms = re.findall(r"Ok\((\d+)\)\s*=>\s*msg\.(\w+)(?:\.push\(|\s*=\s*(?:Some\()?)\s*r\.(\w+)", mm.group(1))
        if not arms:
            die(f"no reader arms for {struct}")
        if "Ok(t) => { r.read_unknown(bytes, t)?; }" not in mm.group(1):
            die(f"{struct}: unknown-field arm missing")
        return arms

    def writer_table(struct):
        mm = re.search(r"impl\s+MessageWrite\s+for\s+" + struct + r"\s*\{.*?fn\s+write_message.*?\{(.*?)Ok\(\(\)\)", pm, re.S)
        if not mm:
            die(f"writer of {struct} not found")
        arms = re.findall(r"write_with_tag\((\d+),\s*\|w\|\s*w\.(\w+)\(", mm.group(1))
        if not arms:
            die(f"no writer arms for {struct}")
        return arms

    kinds = {"read_message": 0, "read_bytes": 1, "read_int32": 2, "read_bool": 3, "read_enum": 4,
             "write_message": 0, "write_bytes": 1, "write_int32": 2, "write_bool": 3, "write_enum": 4}
    w("(* (tag, kind) with kind 0 = message, 1 = bytes, 2 = int32, 3 = bool, 4 = enum; in source order *)")
    for struct in ("Message", "Wantlist", "Entry", "Block", "BlockPresence"):
        rt = reader_table(struct)
        wt = writer_table(struct)
        for _, _, fn in rt:
            if fn not in kinds:
                die(f"{struct}: unknown reader fn {fn}")
        w(f"Definition reader_{struct} : list (N * N) := [" + "; ".join(f"({t}, {kinds[fn]})" for t, _, fn in rt) + "].")
        w(f"Definition writer_{struct} : list (N * N) := [" + "; ".join(f"({t}, {kinds[fn]})" for t, fn in wt) + "].")
    # enum conversions
    for enum in ("WantType", "BlockPresenceType"):
        mm = re.search(r"impl\s+From<i32>\s+for\s+" + enum + r"\s*\{.*?match\s+i\s*\{(.*?)\}", pm, re.S)
        if not mm:
            die(f"From<i32> for {enum} not found")
        arms = re.findall(r"(\d+|_)\s*=>\s*(?:" + enum + r"::(\w+)|Self::default\(\))", mm.group(1))
        dm = re.search(r"impl\s+Default\s+for\s+" + enum + r".*?" + enum + r"::(\w+)", pm, re.S)
        variants = re.search(r"pub\s+enum\s+" + enum + r"\s*\{(.*?)\}", pm, re.S)
        vals = dict(re.findall(r"(\w+)\s*=\s*(\d+)", variants.group(1)))
        w(f"Definition enum_{enum} : list (N * N) := [" + "; ".join(f"({a}, {vals[v]})" for a, v in arms if a != "_") + "].")
        w(f"Definition enum_{enum}_default : N := {vals[dm.group(1)]}.")
    # schema: field numbers and types from message.proto
    proto = open(os.path.join(REPO, "src/proto/message.proto")).read()
    proto = re.sub(r"//[^\n]*", "", proto)

    def schema(msgname):
        mm = re.search(r"message\s+" + msgname + r"\s*\{(.*)", proto, re.S)
        if not mm:
            die(f"schema of {msgname} not found")
        # take the body up to the matching brace, dropping nested message/enum blocks
        depth, body, i, txt = 1, [], 0, mm.group(1)
        while i < len(txt) and depth > 0:
            ch = txt[i]
            if ch == "{":
                depth += 1
            elif ch == "}":
                depth -= 1
            elif depth == 1:
                body.append(ch)
            i += 1
        body = "".join(body)
        body = re.sub(r"\b(message|enum)\s+\w+\s*", "", body)
        fields = re.findall(r"(repeated\s+)?([\w\.]+)\s+(\w+)\s*=\s*(\d+)\s*;", body)
        res = []
        for rep, ty, name, num in fields:
            kind = {"bytes": 1, "int32": 2, "bool": 3}.get(ty)
            if kind is None:
                kind = 4 if ty in ("WantType", "BlockPresenceType") else 0
            wire = 2 if kind in (0, 1) else 0
            res.append((int(num) * 8 + wire, kind))
        return res

    for struct in ("Message", "Wantlist", "Entry", "Block", "BlockPresence"):
        sc = schema(struct)
        w(f"Definition schema_{struct} : list (N * N) := [" + "; ".join(f"({t}, {k})" for t, k in sc) + "].")
    w("")

    # ---- wantlist.rs transition arms
    wl = read("src/wantlist.rs")
    full = re.search(r"fn\s+generate_proto_full.*?for\s*\(cid,\s*req_state\)\s*in\s*self\.req_state\.iter_mut\(\)\s*\{\s*match\s+\*req_state\s*\{(.*?)\n            \}\n        \}", wl, re.S)
    upd = re.search(r"fn\s+generate_proto_update.*?match\s*\(wantlist\.cids\.contains\(cid\),\s*\*req_state\)\s*\{(.*?)\n            \}\n        \}", wl, re.S)
    if not full or not upd:
        die("generate_proto_full / generate_proto_update match not found")
    states = {"SentWantHave": 0, "GotHave": 1, "GotDontHave": 2, "SentWantBlock": 3, "GotBlock": 4}

    def arm_effect(body):
        # (emitted entry: 0 none, 1 want-have, 2 want-block, 3 cancel; next state: 0..4, 5 unchanged, 6 removed)
        emit = 0
        if "new_want_have_entry" in body:
            emit = 1
        elif "new_want_block_entry" in body:
            emit = 2
        elif "new_cancel_entry" in body:
            emit = 3
        nxt = 5
        mm = re.search(r"\*req_state\s*=\s*WantReqState::(\w+)", body)
        if mm:
            nxt = states[mm.group(1)]
        if "removed.push" in body:
            nxt = 6
        return emit, nxt

    def split_arms(text, pat):
        heads = list(re.finditer(pat, text))
        res = []
        for i, h in enumerate(heads):
            end = heads[i + 1].start() if i + 1 < len(heads) else len(text)
            res.append((h, text[h.end():end]))
        return res

    rows = []
    for h, body in split_arms(full.group(1), r"WantReqState::(\w+)\s*=>"):
        rows.append((states[h.group(1)],) + arm_effect(body))
    if sorted(r[0] for r in rows) != [0, 1, 2, 3, 4]:
        die("generate_proto_full: arms do not cover the five states exactly once")
    w("(* generate_proto_full: (state, emitted 0 none 1 want-have 2 want-block 3 cancel, next state 0..4 / 5 unchanged / 6 removed) *)")
    w("Definition wl_full_table : list (N * N * N) := [" + "; ".join(f"({a}, {b}, {c})" for a, b, c in sorted(rows)) + "].")
    rows = []
    for h, body in split_arms(upd.group(1), r"\((true|false),\s*(?:WantReqState::(\w+)|_)\)\s*=>"):
        inw = 1 if h.group(1) == "true" else 0
        st = states[h.group(2)] if h.group(2) else 9  # 9 = wildcard
        rows.append((inw, st) + arm_effect(body))
    w("(* generate_proto_update: (in wantlist 0/1, state or 9 = any other, emitted, next) in source order *)")
    w("Definition wl_update_table : list (N * N * N * N) := [" + "; ".join(f"({a}, {b}, {c}, {d})" for a, b, c, d in rows) + "].")
    w("")

    # ---- server.rs : blocks_fitting_in_message (outbound split, C09)
    srv = read("src/server.rs")
    fm = re.search(r"fn\s+blocks_fitting_in_message\s*\(.*?\)\s*->\s*usize\s*\{(.*?)\n\}\n", srv, re.S)
    if not fm:
        die("blocks_fitting_in_message not found")
    fb = re.sub(r"\s+", " ", fm.group(1)).strip()
    # addend per block: 0 = `1 + sizeof_len(block.get_size())` (tag byte + length-delimited field), 2 = something else
    am = re.search(r"size\s*\+=\s*(.*?);", fb)
    addend = 0 if am and re.sub(r"\s+", "", am.group(1)) == "1+sizeof_len(block.get_size())" else 2
    cm = re.search(r"if\s+size\s*(>=|>)\s*(\w+)\s*\{\s*return\s+(.*?);\s*\}", fb)
    if not cm:
        die("blocks_fitting_in_message: limit test not found")
    sop = {">": 0, ">=": 1}[cm.group(1)]
    slim = 0 if cm.group(2) == "MAX_MESSAGE_SIZE" else 2
    sret = 0 if re.sub(r"\s+", "", cm.group(3)) == "n.max(1)" else 2
    # shape: `let mut size = 0; for (n, block) in blocks.iter().enumerate() { <addend>; <test> } blocks.len()`
    shape = 0 if re.fullmatch(r"let mut size = 0; for \(n, block\) in blocks\.iter\(\)\.enumerate\(\) \{ size \+= [^;]*; if size [^{]*\{ return [^;]*; \} \} blocks\.len\(\)", fb) else 2
    w("(* blocks_fitting_in_message: 0 = as modelled in ServerHandler.bfit_go / ServerHandler_wire.wire_block_size *)")
    w(f"Definition split_addend : N := {addend}.   (* 0 = 1 + sizeof_len(block.get_size()) *)")
    w(f"Definition split_operator : N := {sop}.  (* 0 = `>`, 1 = `>=` *)")
    w(f"Definition split_limit : N := {slim}.     (* 0 = MAX_MESSAGE_SIZE *)")
    w(f"Definition split_early_return : N := {sret}.  (* 0 = n.max(1) *)")
    w(f"Definition split_shape : N := {shape}.     (* 0 = accumulate in order from 0, test after adding, else blocks.len() *)")
    # the split itself: `messages.split_off(blocks_fitting_in_message(&messages))`
    split_call = 0 if re.search(r"messages\.split_off\(\s*blocks_fitting_in_message\(\s*&messages\s*\)\s*\)", srv) else 2
    w(f"Definition split_call : N := {split_call}.")
    w("")

    # ---- client.rs : update_handlers — what each SendingState means for a peer at a poll, and what a send leaves behind
    cl = read("src/client.rs")
    um = re.search(r"fn\s+update_handlers\s*\(&mut self\)\s*->\s*bool\s*\{(.*?)\n    \}\n", cl, re.S)
    if not um:
        die("update_handlers not found")
    ub = um.group(1)
    gm = re.search(r"match\s+state\.sending_state\s*\{(.*?)\n            \};", ub, re.S)
    if not gm:
        die("update_handlers: match on state.sending_state not found")
    gate = gm.group(1)
    sidx = {"Ready": 0, "Requested": 1, "RequestReceived": 2, "Sending": 3, "Failed": 4}
    fault_stmts = ["state.established_connections.remove(&connection_id);", "state.send_full=true;", "state.sending_state=SendingState::Ready;"]
    rows = {}
    for h, body in split_arms(gate, r"SendingState::(\w+)\s*(?:\([^)]*\))?\s*=>"):
        b = re.sub(r"\s+", "", body).strip("{},")
        has_fault = all(f.replace(" ", "") in b for f in fault_stmts)
        guard = re.match(r"ifinstant\.elapsed\(\)(<|<=)RECEIVE_REQUEST_TIMEOUT\{continue;\}", b)
        rest = b[guard.end():] if guard else b
        only_fault = rest == "".join(f.replace(" ", "") for f in fault_stmts)
        if b == "":
            code = 0                      # allowed to send
        elif b == "continue;":
            code = 2                      # transmission in progress: leave the peer alone
        elif guard and guard.group(1) == "<" and has_fault and only_fault:
            code = 1                      # in progress until the timeout, then a fault
        elif not guard and has_fault and only_fault:
            code = 3                      # fault: drop the connection, send_full, Ready
        else:
            code = 9
        rows[sidx.get(h.group(1), 9)] = code
    if sorted(rows) != [0, 1, 2, 3, 4]:
        die("update_handlers: arms do not cover the five sending states exactly once")
    w("(* update_handlers gate: (state 0 Ready 1 Requested 2 RequestReceived 3 Sending 4 Failed, effect 0 allowed 1 wait-then-fault 2 wait 3 fault 9 other) *)")
    w("Definition uh_table : list (N * N) := [" + "; ".join(f"({k}, {rows[k]})" for k in sorted(rows)) + "].")
    after = ub[gm.end():]
    flat = re.sub(r"\s+", "", after)
    conn_pick = 0 if "letSome(connection_id)=state.established_connections.iter().next().copied()else{peers_without_connection.push(*peer);continue;};" in flat else 9
    full_sel = 0 if "letwantlist=ifstate.send_full{state.wantlist.generate_proto_full(&self.wantlist)}else{state.wantlist.generate_proto_update(&self.wantlist)};" in flat else 9
    reset = 0 if "ifstate.send_full{state.send_full=false;}elseifwantlist.entries.is_empty(){continue;}" in flat else 9
    one = 0 if "handler:NotifyHandler::One(connection_id),event:ToHandlerEvent::SendWantlist(wantlist)," in flat else 9
    req = 0 if "state.sending_state=SendingState::Requested(Instant::now(),connection_id);" in flat else 9
    dead = 0 if "forpeerinpeers_without_connection{self.peers.remove(&peer);}" in flat else 9
    w(f"Definition uh_after : list N := [{conn_pick}; {full_sel}; {reset}; {one}; {req}; {dead}].  (* 0 = as modelled: pick a connection or mark the peer dead; full iff send_full; flag reset / empty update skipped; NotifyHandler::One; Requested(now, conn); dead peers removed *)")
    pm = re.search(r"pub\(crate\)\s+fn\s+poll\s*\(&mut self,\s*cx:\s*&mut Context\)[^{]*\{(.*?)\n    \}\n", cl, re.S)
    if not pm:
        die("ClientBehaviour::poll not found")
    pflat = re.sub(r"\s+", "", pm.group(1))
    timer = 0 if "ifself.send_full_timer.poll_unpin(cx).is_ready(){forstateinself.peers.values_mut(){state.send_full=true;}self.send_full_timer.reset(SEND_FULL_INTERVAL);continue;}" in pflat else 9
    w(f"Definition refresh_timer_shape : N := {timer}.  (* 0 = when the interval timer fires every peer's send_full is set and the timer is re-armed *)")
    w("")

    # ---- client.rs : ClientConnectionHandler::poll — the timeout block and the arms of the match on (msg, sink_state)
    hm = re.search(r"pub\(crate\)\s+fn\s+poll\s*\(&mut self,\s*cx:\s*&mut Context\)\s*->\s*Poll<ConnHandlerEvent<S>>\s*\{", cl)
    if not hm:
        die("ClientConnectionHandler::poll not found")
    hbody, _ = brace_block(cl, hm.end() - 1)
    lm = re.search(r"loop\s*\{", hbody)
    if not lm:
        die("ClientConnectionHandler::poll: loop not found")
    loop_body, _ = brace_block(hbody, lm.end() - 1)
    mm2 = re.search(r"match\s*\(&mut self\.msg,\s*&mut self\.sink_state\)\s*\{", loop_body)
    if not mm2:
        die("ClientConnectionHandler::poll: match on (msg, sink_state) not found")
    arms_txt, arms_end = brace_block(loop_body, mm2.end() - 1)
    if loop_body[arms_end:].strip() != "":
        die("ClientConnectionHandler::poll: code after the match")
    prelude = re.sub(r"\s+", "", loop_body[:mm2.start()])
    pre_q = "ifletSome(ev)=self.queue.pop_front(){returnPoll::Ready(ConnectionHandlerEvent::NotifyBehaviour(ev));}"
    pre_h = "ifself.halted{returnPoll::Pending;}"
    pre_t = "ifletSome(delay)=&mutself.start_sending_timeout{"
    if not (prelude.startswith(pre_q + pre_h + pre_t) and prelude.endswith("}")):
        hprelude = 9
        tmo = [(98, [])]
    else:
        hprelude = 0
        tmo = parse_hbody(loop_body[loop_body.index("{", loop_body.index("if let Some(delay)")) + 1:loop_body.rindex("}", 0, mm2.start())])
    mpat = {"None": 0, "Some(_)": 1, "msg@Some(_)": 1, "_": 9}
    spat = {"SinkState::None": 0, "SinkState::Requested": 1, "SinkState::Ready(sink)": 2, "_": 9}
    arms = []
    i = 0
    while True:
        am2 = re.compile(r"\s*\(([^,()]*(?:\([^()]*\))?[^,()]*),\s*([^()]*(?:\([^()]*\))?)\)\s*=>\s*").match(arms_txt, i)
        if not am2:
            if arms_txt[i:].strip() != "":
                die("ClientConnectionHandler::poll: cannot parse arm at: " + arms_txt[i:i + 60])
            break
        mp = mpat.get(re.sub(r"\s+", "", am2.group(1)), 99)
        sp = spat.get(re.sub(r"\s+", "", am2.group(2)), 99)
        j = am2.end()
        if arms_txt[j] == "{":
            inner, k = brace_block(arms_txt, j)
            items = parse_hbody(inner)
            i = k
            if arms_txt[i:].lstrip().startswith(","):
                i = arms_txt.index(",", i) + 1
        else:
            k = arms_txt.index(",", j)
            items = [(0, [hstmt_code(arms_txt[j:k])])]
            i = k + 1
        arms.append((mp, sp, items))

    def items_coq(items):
        return "[" + "; ".join(f"({k}, [" + "; ".join(str(c) for c in cs) + "])" for k, cs in items) + "]"

    w("(* ClientConnectionHandler::poll.  Statement codes: 1 close_sink_on_error 2 report Failed(conn) 3 continue 4 let _ = sink.poll_close 5 sink_state = None")
    w("   6 report Ready 7 msg.take().expect 8 self.msg = Some(msg) 9 timeout = None 10 report Sending(now, conn) 11 return Pending 12 return open_new_substream")
    w("   13 timeout.take() 14 self.msg.take() 15 halted = true 99 unknown.  Item (0, [c]) = statement c; (k, cs) = `if <cond k> { cs }` with")
    w("   k = 20 ready!(poll_flush).is_err() 21 ready!(poll_ready).is_err() 22 start_send(&msg).is_err() 23 delay.poll(cx).is_ready() 98 unknown *)")
    w(f"Definition hpoll_prelude : N := {hprelude}.  (* 0 = queued event first, then `if halted return Pending`, then the timeout block *)")
    w(f"Definition hpoll_timeout : list (N * list N) := {items_coq(tmo)}.")
    w("(* (msg pattern 0 None 1 Some 9 _, sink pattern 0 None 1 Requested 2 Ready(sink) 9 _, body) in source order *)")
    w("Definition hpoll_arms : list (N * N * list (N * list N)) := [" + "; ".join(f"({a}, {b}, {items_coq(c)})" for a, b, c in arms) + "].")
    w("")

    # ---- client.rs : ClientBehaviour::poll — what is done with a finished blockstore task
    tm = re.search(r"if\s+let\s+Poll::Ready\(Some\(task_result\)\)\s*=\s*self\.tasks\.poll_next_unpin\(cx\)\s*\{", pm.group(1))
    if not tm:
        die("ClientBehaviour::poll: task block not found")
    tbody, _ = brace_block(pm.group(1), tm.end() - 1)
    tmm = re.search(r"match\s+task_result\s*\{", tbody)
    if not tmm:
        die("ClientBehaviour::poll: match task_result not found")
    tarms_txt, tarms_end = brace_block(tbody, tmm.end() - 1)
    tpre = re.sub(r"\s+", "", tbody[:tmm.start()])
    tpost = re.sub(r"\s+", "", tbody[tarms_end:])
    task_prelude = 0 if tpre == "ifletTaskResult::Get(query_id,..)=&task_result{self.query_abort_handle.remove(query_id);}" and tpost == "continue;" else 9
    tpat = {"TaskResult::Get(query_id,_,Ok(Some(data)))": 0, "TaskResult::Get(query_id,cid,Ok(None))": 1, "TaskResult::Get(query_id,_,Err(e))": 2,
            "TaskResult::Set(Ok(blocks))": 3, "TaskResult::Set(Err(_e))": 4, "TaskResult::Cancelled": 5}
    tarms = []
    i = 0
    while True:
        while i < len(tarms_txt) and tarms_txt[i].isspace():
            i += 1
        if i >= len(tarms_txt):
            break
        j = tarms_txt.find("=>", i)
        if j < 0:
            die("ClientBehaviour::poll: cannot parse task arm at: " + tarms_txt[i:i + 60])
        pat = tpat.get(re.sub(r"\s+", "", tarms_txt[i:j]), 99)
        j += 2
        while tarms_txt[j].isspace():
            j += 1
        if tarms_txt[j] != "{":
            die("ClientBehaviour::poll: task arm without a block")
        inner, k = brace_block(tarms_txt, j)
        tarms.append((pat, parse_hbody(inner)))
        i = k
        while i < len(tarms_txt) and (tarms_txt[i].isspace() or tarms_txt[i] == ","):
            i += 1
    w("(* ClientBehaviour::poll, finished blockstore task.  Pattern 0 Get(_, _, Ok(Some(data))) 1 Get(_, cid, Ok(None)) 2 Get(_, _, Err(e)) 3 Set(Ok(blocks))")
    w("   4 Set(Err(_)) 5 Cancelled 99 anything else; statements 40 return GetQueryResponse{query_id, data} 41 cid_to_queries[cid].push(query_id)")
    w("   42 return GetQueryError{query_id, e} 43 new_blocks.extend(blocks) 44 for every peer: wantlist.wanted_again(&cid); condition 26 self.wantlist.insert(cid) *)")
    w(f"Definition ctask_prelude : N := {task_prelude}.  (* 0 = the abort handle of a finished Get is removed first; `continue` after the match *)")
    w("Definition ctask_arms : list (N * list (N * list N)) := [" + "; ".join(f"({a}, {items_coq(c)})" for a, c in tarms) + "].")
    w("")

    # ---- server.rs : ServerConnectionHandler::poll_outgoing — the arms of the match on (pending_outgoing_messages, sink)
    sm = re.search(r"fn\s+poll_outgoing\s*\(", srv)
    if not sm:
        die("ServerConnectionHandler::poll_outgoing not found")
    sbody, _ = brace_block(srv, srv.index("{", srv.index("->", sm.end())))
    slm = re.search(r"loop\s*\{", sbody)
    if not slm or sbody[:slm.start()].strip() != "":
        die("poll_outgoing: loop not found at the top")
    sloop, sloop_end = brace_block(sbody, slm.end() - 1)
    if sbody[sloop_end:].strip() != "":
        die("poll_outgoing: code after the loop")
    smm = re.search(r"match\s*\(&mut self\.pending_outgoing_messages,\s*&mut self\.sink\)\s*\{", sloop)
    if not smm or sloop[:smm.start()].strip() != "":
        die("poll_outgoing: match on (pending_outgoing_messages, sink) not found at the top of the loop")
    sarms_txt, sarms_end = brace_block(sloop, smm.end() - 1)
    if sloop[sarms_end:].strip() != "":
        die("poll_outgoing: code after the match")
    smpat = {"None": 0, "Some(_)": 1, "pending_messages@Some(_)": 1, "_": 9}
    sarms = []
    i = 0
    while True:
        am3 = re.compile(r"\s*\(([^,()]*(?:\([^()]*\))?[^,()]*),\s*([^()]*(?:\([^()]*\))?)\)\s*=>\s*").match(sarms_txt, i)
        if not am3:
            if sarms_txt[i:].strip() != "":
                die("poll_outgoing: cannot parse arm at: " + sarms_txt[i:i + 60])
            break
        mp = smpat.get(re.sub(r"\s+", "", am3.group(1)), 99)
        sp = spat.get(re.sub(r"\s+", "", am3.group(2)), 99)
        j = am3.end()
        if sarms_txt[j] == "{":
            inner, k = brace_block(sarms_txt, j)
            items = parse_hbody(inner)
            i = k
            if sarms_txt[i:].lstrip().startswith(","):
                i = sarms_txt.index(",", i) + 1
        else:
            k = sarms_txt.index(",", j)
            items = [(0, [hstmt_code(sarms_txt[j:k])])]
            i = k + 1
        sarms.append((mp, sp, items))
    w("(* ServerConnectionHandler::poll_outgoing: same language; further codes 30 let mut messages = pending_messages.take().expect 31 let remaining =")
    w("   messages.split_off(blocks_fitting_in_message(&messages)) 33 *pending_messages = Some(remaining) 34 let message = Message { payload: messages, .. };")
    w("   conditions 24 !remaining.is_empty() 25 sink.start_send_unpin(&message).is_err() *)")
    w("Definition shpoll_arms : list (N * N * list (N * list N)) := [" + "; ".join(f"({a}, {b}, {items_coq(c)})" for a, b, c in sarms) + "].")
    w("")

    # ---- server.rs : PeerWantlist::process_wantlist / wantlist_replace (cap, order of cancels and additions)
    pw = re.search(r"fn\s+process_wantlist\s*\(.*?\)\s*->\s*\([^)]*\)\s*\{(.*?)\n    \}\n", srv, re.S)
    if not pw:
        die("process_wantlist not found")
    pflat2 = re.sub(r"\s+", "", pw.group(1))
    full_shape = 0 if ("ifwantlist.full{letmutwanted_cids=FnvHashSet::default();foreinwantlist.entries{"
                       "ifwanted_cids.len()>=MAX_WANTLIST_ENTRIES_PER_PEER{break;}ife.cancel{continue;}"
                       "ifletOk(cid)=CidGeneric::try_from(e.block){wanted_cids.insert(cid);}}returnself.wantlist_replace(wanted_cids);}") in pflat2 else 9
    cancels_first = 0 if ("letmutremoved=Vec::with_capacity(cancels.len());for(_,cid)incancels{ifself.0.remove(&cid){removed.push(cid);}}"
                          "letmutadded=Vec::with_capacity(additions.len());for(_,cid)inadditions{"
                          "ifself.0.len()>=MAX_WANTLIST_ENTRIES_PER_PEER{break;}ifself.0.insert(cid){added.push(cid)}}(added,removed)") in pflat2 else 9
    partition = 0 if ".filter_map(|e|{CidGeneric::<S>::try_from(e.block).map(|cid|(e.cancel,cid)).ok()}).partition(|(cancel,_cid)|*cancel);" in pflat2 else 9
    wr = re.search(r"fn\s+wantlist_replace\s*\(.*?\)\s*->\s*\([^)]*\)\s*\{(.*?)\n    \}\n", srv, re.S)
    if not wr:
        die("wantlist_replace not found")
    replace = 0 if re.sub(r"\s+", "", wr.group(1)) == "letadditions=cids.difference(&self.0).copied().collect();letremovals=self.0.difference(&cids).copied().collect();self.0=cids;(additions,removals)" else 9
    w(f"Definition srv_wantlist_shape : list N := [{full_shape}; {partition}; {cancels_first}; {replace}].  (* 0 = as Server.v: full list collected up to the cap skipping cancels and undecodable CIDs; update split into cancels and additions of decodable CIDs; cancels applied first, additions while below the cap (`len >= MAX` stops); replace = set difference both ways *)")
    w("")

    # ---- lib.rs : the glue between the two halves (Node.v)
    lib = read("src/lib.rs")
    lflat = re.sub(r"\s+", "", lib)
    closed = 0 if ("FromSwarm::ConnectionClosed(ConnectionClosed{peer_id,connection_id,remaining_established,..})=>{"
                   "self.client.on_connection_closed(peer_id,connection_id);"
                   "ifremaining_established==0{self.server.on_peer_disconnected(peer_id);}}") in lflat else 9
    routing = 0 if ("ToBehaviourEvent::IncomingMessage(peer,mutmsg)=>{"
                    "ifletSome(client_msg)=msg.client.take(){self.client.process_incoming_message(peer,client_msg);}"
                    "ifletSome(server_msg)=msg.server.take(){self.server.process_incoming_message(peer,server_msg);}}") in lflat else 9
    poll_shape = 0 if ("ifletready@Poll::Ready(_)=self.client.poll(cx){returnready;}"
                       "letnew_blocks=self.client.get_new_blocks();"
                       "if!new_blocks.is_empty(){self.server.new_blocks_available(new_blocks);}"
                       "ifletready@Poll::Ready(_)=self.server.poll(cx){returnready;}"
                       "Poll::Pending") in lflat else 9
    both = 0 if lflat.count("client_handler:self.client.new_connection_handler(peer,connection_id),server_handler:self.server.new_connection_handler(peer),") == 2 else 9
    report = 0 if "ToBehaviourEvent::SendingStateChanged(peer_id,state)=>{self.client.sending_state_changed(peer_id,connection_id,state);}" in lflat else 9
    w(f"Definition lib_glue : list N := [{closed}; {routing}; {poll_shape}; {both}; {report}].  (* 0 = as Node.v: closed connection -> client always, server iff remaining == 0; message: client part then server part; poll: client, new blocks to server if any, server; both halves get a handler for every connection (either direction); reports carry the connection id *)")
    w("")

    text = "\n".join(out) + "\n"
    old = open(OUT).read() if os.path.exists(OUT) else None
    if old != text:
        with open(OUT, "w") as f:
            f.write(text)


if __name__ == "__main__":
    main()
