#!/bin/bash
# try_seed.sh <patch.diff> <check ids...> : apply a seeded change to /repo, run the given checks, undo it
patch=$(readlink -f $1); shift
cd /repo && git apply "$patch" || { echo "PATCH DOES NOT APPLY"; exit 2; }
cd /verif
for id in "$@"; do
  out=$(python3 check.py $id 2>&1)
  echo "$id: $(echo "$out" | grep -E '^(VIOLATION|KNOWN|BROKEN)' | head -2 | tr '\n' ' ') $(echo "$out" | grep -E '^\[check\] C' | tail -1 | sed 's/.*quick: //' | cut -c1-110)"
done
cd /repo && git checkout -- . && git status --short | head -3; python3 /verif/tools/gen_extracted.py
cd /verif/harness && cargo build --offline >/dev/null 2>&1; cargo build --offline --release >/dev/null 2>&1
