#!/usr/bin/env python3
"""verify_seed.py <worktree> — confirm a seeded change in the sub-agent's worktree (left in the CHANGED state with the
demonstration added): with the change every test of the pinned baseline passes and at least one other test
(the demonstration) fails; with the change reverted nothing fails.  Prints a JSON summary."""
import json, os, re, subprocess, sys
wt = sys.argv[1]
base = set(t.split("::", 1)[1] if t.startswith("beetswap::") else t for t in json.load(open("/root/.vp/BASELINE.json"))["stable_pass"])

def run_tests():
    p = subprocess.run(["cargo", "test", "--workspace", "--no-fail-fast", "--offline"], cwd=wt, capture_output=True, text=True,
                       env=dict(os.environ, CARGO_NET_OFFLINE="true"), timeout=3000)
    out = p.stdout + p.stderr
    res = {}
    for m in re.finditer(r"^test (\S+) \.\.\. (ok|FAILED|ignored)", out, re.M):
        res[m.group(1)] = m.group(2)
    compiled = "error: could not compile" not in out and "error[E" not in out
    return res, compiled, out[-1500:]

def names(res, status):
    return sorted(k for k, v in res.items() if v == status)

patch = os.path.join(wt, "OUT", "patch.diff")
a, ca, tail_a = run_tests()
subprocess.run(["git", "apply", "-R", patch], cwd=wt, check=True)
try:
    b, cb, tail_b = run_tests()
finally:
    subprocess.run(["git", "apply", patch], cwd=wt, check=True)
short = lambda n: n.split("::", 0)[0]
base_short = set(x for x in base)
def is_base(n):
    return n in base_short or any(n == x or x.endswith("::" + n) or n.endswith(x) for x in base_short)
fa, fb = names(a, "FAILED"), names(b, "FAILED")
summary = {
    "worktree": wt,
    "compiles_with_change": ca, "compiles_without": cb,
    "tests_with_change": len(a), "failed_with_change": fa,
    "baseline_failures_with_change": [n for n in fa if is_base(n)],
    "tests_without_change": len(b), "failed_without_change": fb,
    "confirmed": bool(ca and cb and fa and not [n for n in fa if is_base(n)] and not fb),
}
if not ca: summary["tail"] = tail_a
print(json.dumps(summary, indent=1))
