#!/usr/bin/env python3
"""One-off generator for Props_*.v entries: restates theorems proved elsewhere, verbatim, closed by `exact`.
usage: gen_props.py Module:Thm[:NewName] ...   (prints Coq text)"""
import os, re, sys
TH = os.path.join(os.path.dirname(os.path.dirname(os.path.abspath(__file__))), "coq", "theories")

def statement(module, name):
    src = open(os.path.join(TH, module + ".v")).read()
    m = re.search(r"^\s*(?:Theorem|Lemma|Corollary)\s+" + re.escape(name) + r"\b", src, re.M)
    if not m:
        raise SystemExit(f"{module}.{name} not found")
    i = m.end()
    # find the end of the statement: first '.' followed by whitespace at paren depth 0
    depth = 0
    j = i
    while j < len(src):
        ch = src[j]
        if src.startswith("(*", j):
            k = src.index("*)", j)
            j = k + 2
            continue
        if ch in "([{":
            depth += 1
        elif ch in ")]}":
            depth -= 1
        elif ch == "." and depth == 0 and (j + 1 == len(src) or src[j + 1] in " \n\t"):
            break
        j += 1
    body = src[i:j]
    # split header binders from the statement at the first top-level ':'
    depth = 0
    for k, ch in enumerate(body):
        if ch in "([{":
            depth += 1
        elif ch in ")]}":
            depth -= 1
        elif ch == ":" and depth == 0 and body[k:k + 2] != ":=":
            header, stmt = body[:k], body[k + 1:]
            break
    else:
        raise SystemExit("no colon in " + name)
    names = []
    for tok in re.finditer(r"\(([^():]+):[^()]*(?:\([^()]*\)[^()]*)*\)|\{[^}]*\}|([A-Za-z_][\w']*)", header):
        if tok.group(1):
            names += tok.group(1).split()
        elif tok.group(2):
            names.append(tok.group(2))
    return header.strip(), stmt.strip(), names

for spec in sys.argv[1:]:
    parts = spec.split(":")
    module, name = parts[0], parts[1]
    new = parts[2] if len(parts) > 2 else name
    header, stmt, names = statement(module, name)
    app = f"{module}.{name}" + ("" if not names else " " + " ".join(names))
    hdr = (" " + header) if header else ""
    print(f"Theorem {new}{hdr} :\n  {stmt}.\nProof. exact ({app}). Qed.\n")
