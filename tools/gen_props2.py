#!/usr/bin/env python3
"""gen_props2.py '<import line(s)>' Module.Thm[:NewName] ... : asks Coq for the elaborated statement of each theorem
(so section variables appear as explicit quantifiers) and prints `Theorem New : <type>. Proof. exact (@Module.Thm). Qed.`
Used once, by hand, when a proof file is integrated; the Props files are ordinary sources afterwards."""
import os, re, subprocess, sys, tempfile
COQ = os.path.join(os.path.dirname(os.path.dirname(os.path.abspath(__file__))), "coq")
imports = sys.argv[1]
items = [a.split(":") for a in sys.argv[2:]]
src = imports + "\nSet Printing Width 116.\nSet Printing Depth 10000.\n" + "".join(f"Check {q}.\n" for q, *_ in items)
with tempfile.NamedTemporaryFile("w", suffix=".v", delete=False) as f:
    f.write(src)
out = subprocess.run(["coqtop", "-Q", "theories", "BS", "-batch", "-l", f.name], cwd=COQ, capture_output=True, text=True)
os.unlink(f.name)
if out.returncode != 0:
    sys.exit(out.stdout + out.stderr)
text = out.stdout
names = [q.split(".")[-1] for q, *_ in items]
# split the output at the lines that start a new Check answer
chunks = re.split(r"^(?=\w[\w']*\n     : )", text, flags=re.M)
got = {}
for c in chunks:
    m = re.match(r"(\w[\w']*)\n     : (.*)", c, re.S)
    if m:
        got[m.group(1)] = "\n".join(l[7:] if l.startswith("       ") else l for l in m.group(2).rstrip().split("\n"))
for (q, *new), n in zip(items, names):
    new = new[0] if new else n
    ty = got[n]
    print(f"Theorem {new} :\n  " + ty.replace("\n", "\n  ") + f".\nProof. exact (@{q}). Qed.\n")
print("\n".join(f"Print Assumptions {(new[0] if new else q.split('.')[-1])}." for q, *new in items))
