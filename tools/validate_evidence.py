#!/usr/bin/env python3
"""Validate every evidence/<id>.json against /root/.vp/EVIDENCE.schema.json and report its size."""
import glob, json, os, sys
try:
    import jsonschema
except ImportError:
    jsonschema = None
root = os.path.dirname(os.path.dirname(os.path.abspath(__file__)))
schema = json.load(open("/root/.vp/EVIDENCE.schema.json"))
bad = 0
for p in sorted(glob.glob(os.path.join(root, "evidence", "C*.json"))):
    size = os.path.getsize(p)
    try:
        d = json.load(open(p))
        if jsonschema:
            jsonschema.validate(d, schema)
        c = d["coverage"]
        ok = c["obligations"] == c["discharged"] and size < 1_000_000
        print(os.path.basename(p), size, "ok" if ok else "PROBLEM", d["tier"], d["seed"], c["evaluations"], c["distinct_nontrivial"])
        bad += 0 if ok else 1
    except BrokenPipeError:
        raise
    except Exception as e:  # noqa: BLE001
        print(os.path.basename(p), size, "INVALID", str(e)[:200])
        bad += 1
sys.exit(1 if bad else 0)
