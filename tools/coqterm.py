"""JSON term (harness/src/json.rs) -> Coq term text."""


def _rle(bs):
    """long byte strings (MiB-size blocks) as run-length segments: (brep n v ++ [..] ++ ...); `brep` is defined in the
    header of every cases file (tools/coqeval.py)"""
    segs, lit, i, n = [], [], 0, len(bs)
    while i < n:
        k = i
        while k < n and bs[k] == bs[i]:
            k += 1
        if k - i >= 64:
            if lit:
                segs.append("[" + ";".join(map(str, lit)) + "]")
                lit = []
            segs.append(f"brep {k - i} {bs[i]}")
        else:
            lit.extend(bs[i:k])
        i = k
    if lit:
        segs.append("[" + ";".join(map(str, lit)) + "]")
    return "(" + " ++ ".join(segs) + ")"


def to_coq(j):
    if isinstance(j, bool):
        return "true" if j else "false"
    if isinstance(j, int):
        return str(j)
    if isinstance(j, list):
        return "[" + "; ".join(to_coq(x) for x in j) + "]"
    if isinstance(j, dict):
        if "b" in j:
            h = j["b"]
            if len(h) > 8192:
                return _rle(bytes.fromhex(h))
            return "[" + ";".join(str(int(h[i:i + 2], 16)) for i in range(0, len(h), 2)) + "]"
        if "c" in j:
            if not j["a"]:
                return j["c"]
            return "(" + j["c"] + " " + " ".join(to_coq(x) for x in j["a"]) + ")"
        if "t" in j:
            return "(" + ", ".join(to_coq(x) for x in j["t"]) + ")"
        if "o" in j:
            if j["o"] is None:
                return "None"
            return "(Some " + to_coq(j["o"]) + ")"
    raise ValueError(f"cannot convert {j!r}")
