"""JSON term (harness/src/json.rs) -> Coq term text."""


def to_coq(j):
    if isinstance(j, bool):
        return "true" if j else "false"
    if isinstance(j, int):
        return str(j)
    if isinstance(j, list):
        return "[" + "; ".join(to_coq(x) for x in j) + "]"
    if isinstance(j, dict):
        if "b" in j:
            h = j["b"]
            return "[" + ";".join(str(int(h[i:i + 2], 16)) for i in range(0, len(h), 2)) + "]"
        if "c" in j:
            if not j["a"]:
                return j["c"]
            return "(" + j["c"] + " " + " ".join(to_coq(x) for x in j["a"]) + ")"
        if "t" in j:
            return "(" + ", ".join(to_coq(x) for x in j["t"]) + ")"
        if "o" in j:
            if j["o"] is None:
                return "None"
            return "(Some " + to_coq(j["o"]) + ")"
    raise ValueError(f"cannot convert {j!r}")
