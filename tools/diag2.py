#!/usr/bin/env python3
"""diag2.py <engine> <n> <case idx> <flag proj e.g. o_ok13> [window] — first failing step and a window of compacted ops around it"""
import json, os, re, subprocess, sys
sys.path.insert(0, os.path.dirname(os.path.abspath(__file__)))
from coqterm import to_coq
engine, n, idx, proj = sys.argv[1], sys.argv[2], int(sys.argv[3]), sys.argv[4]
win = int(sys.argv[5]) if len(sys.argv) > 5 else 12
p = subprocess.run([f"/verif/build/target/debug/bsverif", engine, os.environ.get("VERIF_SEED", "1"), n, "quick"], capture_output=True, text=True)
cases = [json.loads(l) for l in p.stdout.split("\n") if l.startswith("{")]
c = cases[idx]
path = "/verif/build/cases/diag.v"
open(path, "w").write(f"From BS Require Import Bytes Cid Prefix Proto Types Corr_{engine}.\nOpen Scope N_scope.\nDefinition x : Corr_{engine}.case := ({to_coq(c['i'])},\n {to_coq(c['o'])}).\nEval vm_compute in (first_bad {proj} x).\n")
r = subprocess.run(["coqc", "-noglob", "-Q", "/verif/coq/theories", "BS", path], capture_output=True, text=True, cwd="/verif/build/cases")
out = " ".join(r.stdout.split())
print(out, r.stderr[-500:])
m = re.search(r"Some (\d+)", out)
k = int(m.group(1)) if m else len(c["o"]) - 1
names = {}
def short(o):
    s = json.dumps(o)
    def rep(mm):
        key = mm.group(0)
        names.setdefault(key, "cid%d" % len(names))
        return names[key]
    s = re.sub(r'\{"c": "MkCid".*?\}\]\}\]\}', rep, s)
    s = s.replace('{"c": ', "").replace('"a": ', "").replace('"t": ', "")
    return s
ops = c["i"]["t"][1]
for j in range(len(ops)):
    line = f"{j} {short(ops[j])[:150]} => {short(c['o'][j]['t'][0])[:260]}"
    if j >= k - win:
        if j > k: break
        print(line)
        if j == k or j == k - 1: print("    snap:", short(c['o'][j]['t'][1])[:700])
    else:
        short(ops[j]); short(c['o'][j]['t'][0])
