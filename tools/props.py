"""Per-property configuration of check.py: which correspondence engines serve the property, how many
cases per tier, which build profiles, and the texts that go into the evidence file."""

COMMON_TRUSTED = [
    "Coq 8.16.1 kernel and vm_compute (no native_compute); coqchk -o in the thorough tier",
    "no axioms declared; Print Assumptions under every property theorem must say `Closed under the global context`",
    "tools/gen_extracted.py (translator for constants/tables) and the tie lemmas Tie_*.v",
    "correspondence: harness/ (Rust, drives /repo built with --cfg beetswap_verif), tools/coqterm.py (JSON->Coq term printer), Corr_*.v comparison functions evaluated by vm_compute",
    "the models are hand-written; only their observable behaviour is tied to the code, by the correspondence runs",
]

PROPS = {
    "C12": {
        "engines": [{"name": "prefix", "n": {"quick": 2500, "thorough": 40000}, "profiles": ["debug"]}],
        "tie_lemmas": ["tie_dag_pb", "tie_sha2_256", "tie_sha2_256_size", "tie_prefix_rejects_explicit_v0", "tie_prefix_size_check"],
        "rule": "engine prefix: every byte string up to length 4 (quick) / 5 (thorough) over the alphabet "
                "{00,01,02,12,20,55,70,7f,80,ff} through from_bytes; every code of the built-in table x v1 and CIDv0 "
                "through from_cid/to_bytes/from_bytes and to_cid at S=64,32,20 with right and wrong data; random "
                "structured/truncated/extended prefixes with boundary varints. A case is non-trivial when from_bytes "
                "yields a prefix or to_cid is reached; distinct = distinct input terms.",
        "exhaustive_note": "from_bytes: all strings of length <= 4 (quick) / 5 (thorough) over a 10-byte boundary alphabet",
        "trusted_base": ["hash functions: multihash-codetable digests are computed by the harness and handed to the model as a finite table (A-HASH)"],
        "assumptions": ["64-bit usize", "configured multihash capacity S <= 255", "A-HASH: the model's hash oracle is the table the harness computed with multihash-codetable"],
    },
    "C19": {
        "engines": [{"name": "convert", "n": {"quick": 1500, "thorough": 40000}, "profiles": ["debug"]},
                    {"name": "client", "n": {"quick": 400, "thorough": 12000}, "profiles": ["debug"], "oracle": "oracle_C03", "shard": 15}],
        "rule": "engine convert: digest lengths 0..=64 exhaustively x source capacities {16,32,64,128} x target capacities "
                "{0,1,16,20,31,32,33,48,63,64,65,128} (const generics, compiled grid), v0/v1, boundary codecs and hash codes; random "
                "lengths up to 128 beyond. Every case is non-trivial (both convert_cid, the conversion back and convert_multihash are observed); "
                "distinct = distinct input terms.",
        "exhaustive_note": "digest lengths 0..=64 x 4 source x 12 target capacities",
        "assumptions": ["64-bit usize", "digest length <= 255 (guard stated in the theorems; C19_truncation_beyond_255_refuted shows why)",
                        "Behaviour::get half of C19: theorems in Props_C03 (get on an unconvertible CID), engine client with oracle_C03 (an InvalidMultihashSize error exactly for the queries whose CID does not convert; every store lookup is for the CID that was asked for, version included; scripted store failures take every variant of blockstore::Error)"],
    },
    "C20": {
        "engines": [{"name": "builder", "n": {"quick": 400, "thorough": 20000}, "profiles": ["debug"]}],
        "tie_lemmas": ["tie_protocol_suffixes", "tie_prefix_first_char", "tie_prefix_check_negated"],
        "rule": "engine builder: every string of <= 4 (quick) / 5 (thorough) characters over {'/','a','é',' ',NUL} and random strings through "
                "BehaviourBuilder::protocol_prefix + build; observed: acceptance, Behaviour.protocol, ConnHandler::listen_protocol, the protocol of the "
                "client handler's and of the server handler's OutboundSubstreamRequest. Non-trivial = accepted (a node is built and four names observed).",
        "exhaustive_note": "all strings of length <= 4 (quick) / 5 (thorough) over a 5-character alphabet",
        "assumptions": ["A-MSS: multistream-select negotiates a protocol iff the names are byte-equal (C20_isolation is stated under it; traffic between real swarms is not exercised by this check)"],
    },
    "C18": {
        "engines": [{"name": "hasher", "n": {"quick": 1500, "thorough": 40000}, "profiles": ["debug"]},
                    {"name": "incoming", "n": {"quick": 2000, "thorough": 40000}, "profiles": ["debug"], "oracle": "oracle"}],
        "rule": "engine hasher: every registration order of <= 4 (quick) / 5 (thorough) recording scripted hashers x 5 answer kinds "
                "(unknown-code, ok, custom, custom-fatal, invalid-size) for a built-in code, a custom code and a multi-byte code; random tables with "
                "overlapping code sets, capacities 64/32/20 and oversized digests. Observed: the result and the order in which hashers were consulted. "
                "Non-trivial = at least one registered hasher.",
        "exhaustive_note": "all sequences of <= 4 (quick) / 5 (thorough) hashers over 5 answer kinds, 3 codes",
        "assumptions": ["the error contract at message level (skip vs close) is proved about Incoming.process_message (Props_C16) and exercised by the incoming engine",
                        "engine incoming (see C16): every received block — whatever the form of its prefix, CIDv0 included — must be hashed through the table: the expected answer is combined from the individual scripted hashers and the built-in table by the documented order in the harness (reference_hash), not by the table under test"],
    },
    "C16": {
        "engines": [{"name": "incoming", "n": {"quick": 3000, "thorough": 40000}, "profiles": ["debug"]},
                    {"name": "stream", "n": {"quick": 1000, "thorough": 20000}, "profiles": ["debug"], "oracle": "oracle", "shard": 100},
                    {"name": "conn", "n": {"quick": 600, "thorough": 15000}, "profiles": ["debug"], "oracle": "oracle_C16", "shard": 40, "count": ["has_bad_and_good"]},
                    {"name": "connhandler", "n": {"quick": 400, "thorough": 15000}, "profiles": ["debug"], "oracle": "oracle_C16", "shard": 100}],
        "rule": "engine connhandler: see C14. engine conn: ONE real ConnHandler (lib.rs SelectAll<IncomingStream>, real FramedRead + Codec + process_message) with 1-4 scripted inbound streams opened at different times, each carrying 1-4 frames cut at arbitrary points with "
                "Pending / EOF / read errors, some frames bad (oversize announcement, bad varint, protobuf error, invalid presence CID, unparsable block prefix, truncated tail); every IncomingMessage event is attributed to its "
                "stream; per stream the events must equal Streams.stream_out of that stream's own read events (what precedes a bad frame is delivered, nothing after it, other streams complete), and the streams alive at the end are "
                "those the model leaves pending. Non-trivial = at least two streams. engine incoming: process_message on generated Message values (honest blocks, wrong data, unknown / scripted / oversize hash codes, "
                "unparsable prefixes, explicit v0, duplicates; valid / invalid / trailing-bytes presence CIDs with contradictory types; wantlists absent / "
                "empty / full / with entries) under capacities 64/48/32 and 0-2 scripted hashers (ok / custom / fatal / invalid-size / unknown) in front of the "
                "built-in table; each message is also processed with its skippable blocks removed. Non-trivial = the message has payload or presences.",
        "assumptions": ["32 <= S <= 255", "sha_respecting table (a hasher registered for code 0x12 returns sha2-256 multihashes)",
                        "stream level: Streams.v models IncomingStream::poll_next and the SelectAll of a connection with the polling order as an input (schedule); the conn engine cannot choose that order, it observes the order "
                        "SelectAll used and checks the per-stream projections (which Streams_proofs shows independent of the schedule once every stream is polled enough)"],
    },
    "C09": {
        "engines": [{"name": "codec", "n": {"quick": 1200, "thorough": 20000}, "profiles": ["debug", "release"], "oracle": "oracle_C09",
                     "known": {}, "count": []},
                    {"name": "srvsplit", "n": {"quick": 60, "thorough": 3000}, "profiles": ["debug"], "oracle": "oracle_C09"},
                    {"name": "srvhandler", "n": {"quick": 400, "thorough": 15000}, "profiles": ["debug"], "oracle": "oracle_C09", "shard": 60},
                    {"name": "connhandler", "n": {"quick": 400, "thorough": 15000}, "profiles": ["debug"], "oracle": "oracle_C09", "shard": 100}],
        "tie_lemmas": ["tie_max_message_size", "tie_limit_operand", "tie_limit_operator", "tie_varint_error_mapping", "tie_split_addend", "tie_split_operator", "tie_split_limit", "tie_split_early_return", "tie_split_shape", "tie_shpoll", "tie_shpoll_tables"],
        "rule": "engine connhandler: see C14. engine codec (debug = overflow-checked and release profile; in release every decode runs in a confined child process): "
                "length prefixes of every varint byte length 1..11 (values around every power of two, around the 4 MiB limit, overlong / overflowing / "
                "non-minimal encodings) followed by 0, 1, 3 and 40 payload bytes; all frames of <= 3 (quick) / 4 (thorough) bytes over a 14-byte boundary alphabet; "
                "encode/decode of generated message values; every proper prefix of small frames; the harness's own non-canonical encodings; mutated frames. "
                "Non-trivial = a non-empty frame; distinct = distinct input terms. "
                "Outbound: engine srvsplit — the real server handler over an all-accepting stream with batches of 1..6 blocks whose encoded total is 4 MiB + delta for every delta in -8..8, "
                "oversize blocks alone and inside a batch, random batches of blocks up to 4 MiB; per frame the number of blocks and the frame length are compared with the model on sizes; "
                "engine srvhandler — the server handler over a scripted stream (small blocks, every I/O outcome), bytes compared exactly.",
        "exhaustive_note": "all frame bodies of length <= 3 (quick) / 4 (thorough) over a 14-byte alphabet; varint prefixes of every byte length; every delta in -8..8 around the limit for batches of 1..6 blocks",
        "assumptions": ["64-bit usize", "outbound half (C09_outbound_split) is about the server handler model, see Props_C09.v"],
    },
    "C06": {
        "engines": [{"name": "server", "n": {"quick": 150, "thorough": 2000}, "profiles": ["debug"], "oracle": "oracle_C06", "shard": 20},
                    {"name": "srvhandler", "n": {"quick": 400, "thorough": 15000}, "profiles": ["debug"], "oracle": "oracle_C06", "shard": 60},
                    {"name": "srvsplit", "n": {"quick": 60, "thorough": 3000}, "profiles": ["debug"], "oracle": "oracle_C09"}],
        "tie_lemmas": ["tie_max_wantlist_entries", "tie_srv_wantlist_shape", "tie_shpoll", "tie_shpoll_tables", "tie_split_addend", "tie_split_operator", "tie_split_limit", "tie_split_early_return", "tie_split_shape"],
        "rule": """engine server: the server half of Behaviour driven op by op through the public NetworkBehaviour interface (new connection, wantlist message, new blocks, disconnect, release of one store.get call, poll to Pending) with a scripted blockstore whose calls complete only when released, in any order; histories over 1-3 peers x 2-4 CIDs (updates and full wantlists with wants, cancels, duplicates, cancel+want of one CID in one message, undecodable CIDs; hits, misses, failures, unknown call numbers; blocks arriving between registration and completion) driven to quiescence at the end, plus wantlists of 0..1300 (quick) / 5000 (thorough) entries, full and update. After every op the outputs (store calls started, QueueOutgoingMessages per peer) and a snapshot of the server state are compared with the model; the oracle folds the Bitswap reference view over the op history and the implementation's outputs only. Every history is non-trivial; distinct = distinct op lists.""",
        "assumptions": ["32 <= S <= 255", "A-STORE (healthy blockstore) is not needed by the theorems: store answers are inputs",
                        "the reference view contains the 1024 cap of C13 (C06_cap_refuted shows a want beyond it is dropped)",
                        "engine srvhandler (see C09): blocks the behaviour handed to the connection handler must reach the stream in order without one being skipped (fault-free runs); what a stream fault loses is outside C06's fault list",
                        "engine srvsplit (see C09): a reply message above the limit is undeliverable (every receiver fails the stream), so for C06 every batch must leave the handler in messages within the limit"],
    },
    "C07": {
        "engines": [{"name": "server", "n": {"quick": 150, "thorough": 2000}, "profiles": ["debug"], "oracle": "oracle_C07", "shard": 20}],
        "tie_lemmas": ["tie_max_wantlist_entries", "tie_srv_wantlist_shape"],
        "rule": """engine server: the server half of Behaviour driven op by op through the public NetworkBehaviour interface (new connection, wantlist message, new blocks, disconnect, release of one store.get call, poll to Pending) with a scripted blockstore whose calls complete only when released, in any order; histories over 1-3 peers x 2-4 CIDs (updates and full wantlists with wants, cancels, duplicates, cancel+want of one CID in one message, undecodable CIDs; hits, misses, failures, unknown call numbers; blocks arriving between registration and completion) driven to quiescence at the end, plus wantlists of 0..1300 (quick) / 5000 (thorough) entries, full and update. After every op the outputs (store calls started, QueueOutgoingMessages per peer) and a snapshot of the server state are compared with the model; the oracle folds the Bitswap reference view over the op history and the implementation's outputs only. Every history is non-trivial; distinct = distinct op lists.""",
        "assumptions": ["32 <= S <= 255"],
    },
    "C10": {
        "engines": [{"name": "codec", "n": {"quick": 1200, "thorough": 20000}, "profiles": ["debug", "release"], "oracle": "oracle_C10"},
                    {"name": "stream", "n": {"quick": 1200, "thorough": 20000}, "profiles": ["debug"], "oracle": "oracle_C10", "shard": 100, "count": ["known_F2"]}],
        "rule": "engine codec (debug = overflow-checked and release profile; in release every decode runs in a confined child process): "
                "length prefixes of every varint byte length 1..11 (values around every power of two, around the 4 MiB limit, overlong / overflowing / "
                "non-minimal encodings) followed by 0, 1, 3 and 40 payload bytes; all frames of <= 3 (quick) / 4 (thorough) bytes over a 14-byte boundary alphabet; "
                "encode/decode of generated message values; every proper prefix of small frames; the harness's own non-canonical encodings; mutated frames. "
                "Non-trivial = a non-empty frame; distinct = distinct input terms.",
        "exhaustive_note": "every proper prefix of each generated small frame; all frame bodies of length <= 3 (quick) / 4 (thorough) over a 14-byte alphabet",
        "assumptions": ["64-bit usize", "message values: byte strings of bytes, int32 fields as u32 bit patterns, nested messages shorter than 2^32 (wf_message)",
                        "engine stream: the real IncomingStream (FramedRead<_, Codec> + process_message) over a scripted reader: 1-4 encoded messages, sometimes with a bad frame (corrupted byte, oversize announcement, bad varint, invalid presence CID) or a truncated tail, cut into arbitrary read chunks with Pending wake-ups, ended by EOF / an error / nothing; the same bytes are also fed as one read and the delivered messages must agree (outside the known class F2, where the parser reads beyond its frame)"],
    },
    "C11": {
        "engines": [{"name": "codec", "n": {"quick": 1200, "thorough": 20000}, "profiles": ["debug", "release"], "oracle": "oracle_C11", "count": ["in_class_case"]}],
        "tie_lemmas": ["tie_reader_tables", "tie_writer_tables", "tie_tags_conform", "tie_enums"],
        "rule": "engine codec (debug = overflow-checked and release profile; in release every decode runs in a confined child process): "
                "length prefixes of every varint byte length 1..11 (values around every power of two, around the 4 MiB limit, overlong / overflowing / "
                "non-minimal encodings) followed by 0, 1, 3 and 40 payload bytes; all frames of <= 3 (quick) / 4 (thorough) bytes over a 14-byte boundary alphabet; "
                "encode/decode of generated message values; every proper prefix of small frames; the harness's own non-canonical encodings; mutated frames. "
                "Non-trivial = a non-empty frame; distinct = distinct input terms.",
        "assumptions": ["the independent implementation is RefProto.ref_decode (written from message.proto only) on the decoding side and the harness's own "
                        "non-canonical protobuf writer (harness/src/e_codec.rs nc_*) on the encoding side",
                        "class of accepted encodings (in_class): lengths < 2^32, singular wantlist field at most once, 32-bit scalars within range; "
                        "quick-protobuf silently truncates outside it"],
    },
    "C03": {
        "engines": [{"name": "client", "n": {"quick": 600, "thorough": 12000}, "profiles": ["debug"], "oracle": "oracle_C03", "shard": 15}],
        "tie_lemmas": ["tie_ctask", "tie_ctask_tables"],
        "rule": """engine client: the client half of Behaviour driven op by op (get incl. unconvertible CIDs, cancel of issued and foreign ids, connections opened/closed (via ConnectionClosed and via ClientClosingConnection), incoming client messages with presences and blocks, sending-state reports (protocol-conforming, late, from other connections), release of scripted blockstore get/put calls with hit / miss / failure in any order, virtual-clock advances around 1 s / 5 s / 30 s, ClientBehaviour::poll to Pending, get_new_blocks) over 1-3 peers x <= 3 connections x 2-4 CIDs; after every op the outputs and a full snapshot of the client state are compared with the model. The oracles are folds over the op history and the implementation's outputs/snapshots only. Every history is non-trivial; distinct = distinct op lists.""",
        "assumptions": ["u64 next_query_id / revision overflow ignored (2^64 calls)", "hash-map iteration order taken as an input (connection choice) or compared as multisets",
                        "a cancel after the answer reached the node (its event is already queued) does not retract the event: the property speaks of queries cancelled before"],
    },
    "C01": {
        "engines": [{"name": "incoming", "n": {"quick": 2000, "thorough": 40000}, "profiles": ["debug"], "oracle": "oracle"},
                    {"name": "client", "n": {"quick": 500, "thorough": 12000}, "profiles": ["debug"], "oracle": "oracle_C01", "shard": 15},
                    {"name": "node", "n": {"quick": 300, "thorough": 8000}, "profiles": ["debug"], "oracle": "oracle_C01", "shard": 25}],
        "tie_lemmas": ["tie_lib_glue"],
        "rule": "engine node: one complete Behaviour (client + server + lib.rs glue) behind the real process_message with a healthy scripted blockstore, against Node.v; oracle: every block in the store was put by the application or hashes to its CID, every response carries data hashing to its query's CID. engine incoming: see C16 (every accepted block must be keyed by the CID rebuilt from its prefix and the table's digest of its bytes). engine client: the client half of Behaviour driven op by op (get incl. unconvertible CIDs, cancel of issued and foreign ids, connections opened/closed (via ConnectionClosed and via ClientClosingConnection), incoming client messages with presences and blocks, sending-state reports (protocol-conforming, late, from other connections), release of scripted blockstore get/put calls with hit / miss / failure in any order, virtual-clock advances around 1 s / 5 s / 30 s, ClientBehaviour::poll to Pending, get_new_blocks) over 1-3 peers x <= 3 connections x 2-4 CIDs; after every op the outputs and a full snapshot of the client state are compared with the model. The oracles are folds over the op history and the implementation's outputs/snapshots only. Every history is non-trivial; distinct = distinct op lists.",
        "assumptions": ["A-HASH: the hash oracle of the model is the table of answers the harness obtained from the real MultihasherTable",
                        "the hand-over of stored blocks to the server half (lib.rs poll) is exercised by the node engine; in the client engine get_new_blocks is observed directly"],
    },
    "C17": {
        "engines": [{"name": "wantlist", "n": {"quick": 1200, "thorough": 30000}, "profiles": ["debug"], "oracle": "oracle_C17", "shard": 300},
                    {"name": "client", "n": {"quick": 500, "thorough": 12000}, "profiles": ["debug"], "oracle": "oracle_C17", "shard": 15, "count": ["sends_want_block"]}],
        "tie_lemmas": ["tie_wl_full_table", "tie_wl_update_table", "tie_wl_update_wildcard", "tie_entry_constructors", "tie_default_send_dont_have"],
        "rule": """engine wantlist: raw API histories on one Wantlist + one WantlistState: every sequence of <= 4 (quick) / 5 (thorough) client-level events over 1 CID and <= 3 / 4 over 2 CIDs ({insert(+wanted_again), remove, have, dont_have, block-from-peer, gen-update, gen-full}), random histories up to length 80 over 2-4 CIDs (2/3 following the client's discipline, 1/3 arbitrary API calls, correspondence only), both values of send_dont_have; generated entries are compared as sets of full protobuf Entry values. Non-trivial = more than one event.""",
        "assumptions": ["the builder option reaches the wantlist unchanged: exercised by the client engine (both settings) under C04/C03"],
    },
    "C04": {
        "engines": [{"name": "wantlist", "n": {"quick": 1200, "thorough": 30000}, "profiles": ["debug"], "oracle": "oracle_C04", "shard": 300, "count": ["is_disciplined"]},
                    {"name": "client", "n": {"quick": 500, "thorough": 12000}, "profiles": ["debug"], "oracle": "oracle_C04", "shard": 15}],
        "tie_lemmas": ["tie_wl_full_table", "tie_wl_update_table", "tie_wl_update_wildcard", "tie_entry_constructors", "tie_uh_gate", "tie_uh_after", "tie_refresh_timer"],
        "rule": """engine wantlist: raw API histories on one Wantlist + one WantlistState: every sequence of <= 4 (quick) / 5 (thorough) client-level events over 1 CID and <= 3 / 4 over 2 CIDs ({insert(+wanted_again), remove, have, dont_have, block-from-peer, gen-update, gen-full}), random histories up to length 80 over 2-4 CIDs (2/3 following the client's discipline, 1/3 arbitrary API calls, correspondence only), both values of send_dont_have; generated entries are compared as sets of full protobuf Entry values. Non-trivial = more than one event. engine client: the client half of Behaviour driven op by op (get incl. unconvertible CIDs, cancel of issued and foreign ids, connections opened/closed (via ConnectionClosed and via ClientClosingConnection), incoming client messages with presences and blocks, sending-state reports (protocol-conforming, late, from other connections), release of scripted blockstore get/put calls with hit / miss / failure in any order, virtual-clock advances around 1 s / 5 s / 30 s, ClientBehaviour::poll to Pending, get_new_blocks) over 1-3 peers x <= 3 connections x 2-4 CIDs; after every op the outputs and a full snapshot of the client state are compared with the model. The oracles are folds over the op history and the implementation's outputs/snapshots only. Every history is non-trivial; distinct = distinct op lists.""",
        "assumptions": ["'solicited' is read with the refinement that wanted_again forces (C04_full_exact_refuted / _partial): a CID wanted anew after this peer delivered it has to be told again",
                        "a generated wantlist is taken as delivered; when that is in doubt the next one is full (C05) and overwrites the view"],
    },
    "C15": {
        "engines": [{"name": "client", "n": {"quick": 500, "thorough": 12000}, "profiles": ["debug"], "oracle": "oracle_C15_conns", "shard": 15},
                    {"name": "server", "n": {"quick": 100, "thorough": 2000}, "profiles": ["debug"], "oracle": "oracle_C13", "shard": 20},
                    {"name": "handler", "n": {"quick": 800, "thorough": 30000}, "profiles": ["debug"], "oracle": "oracle_C05", "shard": 60},
                    {"name": "net", "n": {"quick": 2500, "thorough": 30000}, "profiles": ["debug"], "oracle": "oracle_C02", "shard": 200, "distinct_io": True},
                    {"name": "node", "n": {"quick": 500, "thorough": 8000}, "profiles": ["debug"], "oracle": "oracle_C15", "shard": 25}],
        "tie_lemmas": ["tie_uh_gate", "tie_uh_after", "tie_refresh_timer", "tie_lib_glue"],
        "rule": """engine node: one complete Behaviour (both halves + lib.rs glue) with up to three connections per peer opened and closed in any order, reports from any of them, against Node.v's steps (connection choice and "was it the last connection" taken from the implementation); oracle: after every op the server half holds a want set for exactly the peers with an open connection and the client half only for such peers. engine handler: see C05 (a closing connection must report the outcome of a transmission it held, otherwise the peer is not served through its remaining connections). engine net: see C02 (up to three connections per pair, opened and closed at any scheduling step, also while a substream negotiation is pending). engine client: the client half of Behaviour driven op by op (get incl. unconvertible CIDs, cancel of issued and foreign ids, connections opened/closed (via ConnectionClosed and via ClientClosingConnection), incoming client messages with presences and blocks, sending-state reports (protocol-conforming, late, from other connections), release of scripted blockstore get/put calls with hit / miss / failure in any order, virtual-clock advances around 1 s / 5 s / 30 s, ClientBehaviour::poll to Pending, get_new_blocks) over 1-3 peers x <= 3 connections x 2-4 CIDs; after every op the outputs and a full snapshot of the client state are compared with the model. The oracles are folds over the op history and the implementation's outputs/snapshots only. Every history is non-trivial; distinct = distinct op lists. engine server: see C06 (SNewConn on a connected peer must change nothing: compared through the per-op state snapshot).""",
        "assumptions": ["A-SWARM: libp2p-swarm reports connections and delivers NotifyHandler::One as documented; both dial directions create the same handler (lib.rs)"],
    },
    "C13": {
        "engines": [{"name": "server", "n": {"quick": 120, "thorough": 2000}, "profiles": ["debug"], "oracle": "oracle_C13", "shard": 20},
                    {"name": "client", "n": {"quick": 500, "thorough": 12000}, "profiles": ["debug"], "oracle": "oracle_C13", "shard": 15}],
        "tie_lemmas": ["tie_max_wantlist_entries", "tie_srv_wantlist_shape"],
        "rule": """engine server: see C06, incl. wantlists of 0..1300 (quick) / 5000 (thorough) entries, full and update, and disconnects. engine client: the client half of Behaviour driven op by op (get incl. unconvertible CIDs, cancel of issued and foreign ids, connections opened/closed (via ConnectionClosed and via ClientClosingConnection), incoming client messages with presences and blocks, sending-state reports (protocol-conforming, late, from other connections), release of scripted blockstore get/put calls with hit / miss / failure in any order, virtual-clock advances around 1 s / 5 s / 30 s, ClientBehaviour::poll to Pending, get_new_blocks) over 1-3 peers x <= 3 connections x 2-4 CIDs; after every op the outputs and a full snapshot of the client state are compared with the model. The oracles are folds over the op history and the implementation's outputs/snapshots only. Every history is non-trivial; distinct = distinct op lists.""",
        "assumptions": ["server store-lookup tasks outlive a disconnect until their calls complete (bounded by the messages received, not by connected peers): observation, see DESIGN.md"],
    },
    "C08": {
        "engines": [{"name": "codec", "n": {"quick": 1500, "thorough": 20000}, "profiles": ["debug", "release"], "oracle": "oracle_C08", "known": {"F2": "known_F2"}},
                    {"name": "prefix", "n": {"quick": 1500, "thorough": 20000}, "profiles": ["debug", "release"], "oracle": "oracle"},
                    {"name": "incoming", "n": {"quick": 1500, "thorough": 20000}, "profiles": ["debug", "release"], "oracle": "oracle"},
                    {"name": "client", "n": {"quick": 300, "thorough": 5000}, "profiles": ["debug", "release"], "oracle": "oracle_C03", "shard": 15},
                    {"name": "server", "n": {"quick": 60, "thorough": 800}, "profiles": ["debug", "release"], "oracle": "oracle_C07", "shard": 20},
                    {"name": "handler", "n": {"quick": 400, "thorough": 10000}, "profiles": ["debug"], "oracle": "oracle_C14", "shard": 50},
                    {"name": "node", "n": {"quick": 300, "thorough": 4000}, "profiles": ["debug", "release"], "oracle": "oracle_C08", "shard": 25},
                    {"name": "connhandler", "n": {"quick": 300, "thorough": 8000}, "profiles": ["debug"], "oracle": "oracle", "shard": 100}],
        "rule": "engine connhandler: see C14 (no panic of the whole handler). engines codec (mutated / structured / exhaustive short frames, prefixes of every varint length, non-canonical encodings), prefix (all strings of <= 4/5 "
                "bytes over a 10-byte boundary alphabet, structured prefixes), incoming (adversarial message values), client and server (behaviours under arbitrary "
                "op sequences), handler (client handler under arbitrary scripted I/O) — in the overflow-checked (debug) AND the release profile; in release every decode of a "
                "generated frame runs in a confined child process (address-space limit, per-input timeout) so that a hang or an allocation blow-up is an observed outcome. "
                "The model predicts the outcome class of every input and the implementation must match; a panic / hang outside the known class F2 is a violation.",
        "exhaustive_note": "prefix strings <= 4 (quick) / 5 (thorough) bytes over 10 byte values; frame bodies <= 3 / 4 bytes over 14 byte values",
        "assumptions": ["32 <= S <= 255; a hasher registered for code 0x12 returns sha2-256 multihashes (sha_respecting)",
                        "partial: panics inside third-party code that is not modelled (yamux, multistream-select, libp2p-swarm), unsafe code and allocation failure are outside the models",
                        "known finding F2 (class codec_overrun) is excluded and reported as KNOWN-FINDING"],
    },
    "C05": {
        "engines": [{"name": "client", "n": {"quick": 600, "thorough": 12000}, "profiles": ["debug"], "oracle": "oracle_C05", "shard": 15},
                    {"name": "handler", "n": {"quick": 1500, "thorough": 30000}, "profiles": ["debug"], "oracle": "oracle_C05", "shard": 60, "count": ["is_disciplined"]},
                    {"name": "connhandler", "n": {"quick": 400, "thorough": 15000}, "profiles": ["debug"], "oracle": "oracle_C05", "shard": 100}],
        "tie_lemmas": ["tie_send_full_interval", "tie_receive_request_timeout", "tie_start_sending_timeout", "tie_peer_initial_send_full", "tie_uh_gate", "tie_uh_after", "tie_refresh_timer", "tie_hpoll", "tie_hpoll_tables"],
        "rule": "engine connhandler: see C14. engine client: see C03 (faults: Failed reports from the sending connection, reports withheld past 1 s of virtual time, connections closed in every sending state, reports from other "
                "connections; oracle: first wantlist of a session is full, the first wantlist after a fault is full and avoids the faulty connection). engine handler: the client half of the real ConnHandler "
                "driven through the ConnectionHandler trait over a scripted substream (every poll_write / poll_flush / poll_close outcome: accept n bytes, zero, error, pending), substream allocation failures, "
                "virtual-clock advances around the 5 s start timeout, poll_close at every step; 3/4 of the histories respect the behaviour's and libp2p-swarm's side of the contract, 1/4 do not (correspondence only). "
                "Oracle: an accepted wantlist is always either being worked on (timer armed / stream held) or resolved by a Ready / Failed report; poll_close resolves it. Non-trivial: every history.",
        "assumptions": ["partial: the clock is virtual (src/verif clock replaces futures_timer::Delay and web_time::Instant under the guard); whether a needed poll is actually scheduled (wakers) is outside the models",
                        "a Sending transmission has no timeout in the behaviour (F12): the refresh does not reach a peer whose handler never reports; the fault list of C05 does not include a stalled flush",
                        "a request unacknowledged for 1 s on the only connection makes the client forget the peer until it reconnects (design of PeerState::established_connections): 'sent over a remaining connection if there is one'"],
    },
    "C14": {
        "engines": [{"name": "handler", "n": {"quick": 1500, "thorough": 30000}, "profiles": ["debug"], "oracle": "oracle_C14", "shard": 60, "count": ["is_disciplined"]},
                    {"name": "client", "n": {"quick": 500, "thorough": 12000}, "profiles": ["debug"], "oracle": "oracle_C14", "shard": 15},
                    {"name": "net", "n": {"quick": 2500, "thorough": 30000}, "profiles": ["debug"], "oracle": "oracle_C14", "shard": 200, "distinct_io": True},
                    {"name": "connhandler", "n": {"quick": 600, "thorough": 20000}, "profiles": ["debug"], "oracle": "oracle_C14", "shard": 100}],
        "tie_lemmas": ["tie_uh_gate", "tie_uh_after", "tie_refresh_timer", "tie_hpoll", "tie_hpoll_tables"],
        "rule": "engine connhandler: the WHOLE real ConnHandler of lib.rs (client half + server half + SelectAll of inbound streams under the priority order of poll, event routing of on_behaviour_event / on_connection_event incl. the ignored server DialUpgradeError) over scripted streams for both halves and scripted inbound streams, against ConnHandler.v = the composition of Handler.v, ServerHandler.v and Streams.v; events in the order returned, both handler snapshots, live inbound streams and keep-alive after every op. engine handler: see C05 (oracle: the bytes accepted by each stream are a prefix of the frame of exactly one accepted wantlist, a stream never carries more than one frame, Ready is reported iff some stream "
                "was written the complete frame). engine client: see C03 (oracle: no SendWantlist for a peer while one is outstanding). engine net: 2-4 complete nodes (real Behaviour + real ConnHandlers + real codec) wired by the "
                "harness's mini swarm over in-memory pipes with arbitrary read chunking, schedules and blockstore latencies; histories of connect / disconnect / get / cancel / local put / evict; after settle + two refresh periods the "
                "serving side's record of a requester's wants must equal the requester's live wants for every connected pair.",
        "assumptions": ["partial: A-SWARM / A-STREAM — libp2p-swarm's event plumbing and yamux streams are replaced by the harness's mini swarm and pipes (ordered, lossless until closed); real swarms are not exercised"],
    },
    "C02": {
        "engines": [{"name": "net", "n": {"quick": 3000, "thorough": 30000}, "profiles": ["debug"], "oracle": "oracle_C02", "shard": 200, "distinct_io": True},
                    {"name": "node", "n": {"quick": 400, "thorough": 8000}, "profiles": ["debug"], "oracle": "oracle_C02", "shard": 25},
                    {"name": "server", "n": {"quick": 80, "thorough": 2000}, "profiles": ["debug"], "oracle": "oracle_C06", "shard": 20},
                    {"name": "client", "n": {"quick": 300, "thorough": 12000}, "profiles": ["debug"], "oracle": "oracle_C04", "shard": 15}],
        "tie_lemmas": ["tie_lib_glue", "tie_uh_gate", "tie_uh_after", "tie_refresh_timer"],
        "rule": "engine net: 2-4 complete nodes (real Behaviour + real ConnHandlers + real codec) wired by the harness's mini swarm over in-memory pipes; random histories of connect (up to 3 connections per pair) / "
                "disconnect / get / cancel / local put / evict / clock advances, interleaved with harness-chosen scheduling steps (which behaviour or handler is polled, how many bytes a read returns, which blockstore call "
                "completes next); then the fault-free continuation: settle, two refresh periods, settle. Oracle: every uncancelled query whose block is held by a node that is connected (same protocol name) at the end got "
                "exactly one response carrying the block. engine node: one complete Behaviour behind the real process_message with a healthy scripted blockstore, op by op against Node.v — the node that Net.v composes and that C02_direct / "
                "C02_multi_hop quantify over (ties lib.rs: poll order client → new blocks → server, message routing, connection events); compared after every op: events, notifications, store calls, both snapshots, store contents; "
                "oracle: no live query is silently dropped (its CID stays in the wantlist) and none is answered twice. engines server / client: the components' own liveness oracles (C06, C04). Non-trivial = at least one query; distinct = distinct observations.",
        "assumptions": ["partial: fairness (every component is polled again and again) is built into `settle` and into the harness's quiesce loop; whether the real code registers a waker for every condition that needs a "
                        "poll is runtime behaviour outside the models", "partial: A-SWARM / A-STREAM (mini swarm and pipes instead of libp2p-swarm / yamux)", "A-STORE: healthy blockstore (get answers the last put unless evicted)",
                        "time passes only when no component is starved for >= 1 s (a handler acknowledgement withheld for 1 s is a C05 fault, after which the client forgets a peer whose only connection it was)",
                        "C02_direct / C02_multi_hop are proved for every reachable net under: blocks put by the application hash to their CID, the fair rounds ran to quiescence (checked on the result), the requester's wantlist is within the 1024 cap"],
    },
}
NOT_CLAIMED = {}
