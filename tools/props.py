"""Per-property configuration of check.py: which correspondence engines serve the property, how many
cases per tier, which build profiles, and the texts that go into the evidence file."""

COMMON_TRUSTED = [
    "Coq 8.16.1 kernel and vm_compute (no native_compute); coqchk -o in the thorough tier",
    "no axioms declared; Print Assumptions under every property theorem must say `Closed under the global context`",
    "tools/gen_extracted.py (translator for constants/tables) and the tie lemmas Tie_*.v",
    "correspondence: harness/ (Rust, drives /repo built with --cfg beetswap_verif), tools/coqterm.py (JSON->Coq term printer), Corr_*.v comparison functions evaluated by vm_compute",
    "the models are hand-written; only their observable behaviour is tied to the code, by the correspondence runs",
]

PROPS = {
    "C12": {
        "engines": [{"name": "prefix", "n": {"quick": 2500, "thorough": 60000}, "profiles": ["debug"]}],
        "tie_lemmas": ["tie_dag_pb", "tie_sha2_256", "tie_sha2_256_size", "tie_prefix_rejects_explicit_v0", "tie_prefix_size_check"],
        "rule": "engine prefix: every byte string up to length 4 (quick) / 5 (thorough) over the alphabet "
                "{00,01,02,12,20,55,70,7f,80,ff} through from_bytes; every code of the built-in table x v1 and CIDv0 "
                "through from_cid/to_bytes/from_bytes and to_cid at S=64,32,20 with right and wrong data; random "
                "structured/truncated/extended prefixes with boundary varints. A case is non-trivial when from_bytes "
                "yields a prefix or to_cid is reached; distinct = distinct input terms.",
        "exhaustive_note": "from_bytes: all strings of length <= 4 (quick) / 5 (thorough) over a 10-byte boundary alphabet",
        "trusted_base": ["hash functions: multihash-codetable digests are computed by the harness and handed to the model as a finite table (A-HASH)"],
        "assumptions": ["64-bit usize", "configured multihash capacity S <= 255", "A-HASH: the model's hash oracle is the table the harness computed with multihash-codetable"],
    },
}
NOT_CLAIMED = {}
