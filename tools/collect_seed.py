#!/usr/bin/env python3
"""collect_seed.py <id> <name> <caught-by text> : copy a confirmed seeded change from the sub-agent's worktree into /verif/seeded/<name>/"""
import json, os, shutil, sys
sid, name, caught = sys.argv[1], sys.argv[2], sys.argv[3]
SEED_ROOT = os.environ.get("SEED_ROOT", "/tmp/seed")
src = f"{SEED_ROOT}/{sid}/OUT"
dst = f"/verif/seeded/{name}"
os.makedirs(dst, exist_ok=True)
shutil.copy(os.path.join(src, "patch.diff"), os.path.join(dst, "patch.diff"))
if os.path.isdir(os.path.join(dst, "demo")):
    shutil.rmtree(os.path.join(dst, "demo"))
shutil.copytree(os.path.join(src, "demo"), os.path.join(dst, "demo"))
meta = json.load(open(os.path.join(src, "meta.json")))
ver = json.load(open(f"{SEED_ROOT}/verify_{sid}.json")) if os.path.exists(f"{SEED_ROOT}/verify_{sid}.json") else {}
out = {
    "property": meta.get("property", sid),
    "origin": "fresh sub-agent given only the property text and a scratch worktree of /repo",
    "summary": meta.get("summary"),
    "needs": meta.get("needs"),
    "agent_ran": meta.get("ran"),
    "confirmed_by_me": {
        "how": "tools/verify_seed.py in the scratch worktree: cargo test --workspace --no-fail-fast --offline with the change (+demo) and with the change reverted",
        "baseline_tests_failing_with_change": ver.get("baseline_failures_with_change"),
        "demo_tests_failing_with_change": ver.get("failed_with_change"),
        "tests_failing_without_change": ver.get("failed_without_change"),
        "confirmed": ver.get("confirmed"),
    },
    "checks": caught,
}
json.dump(out, open(os.path.join(dst, "meta.json"), "w"), indent=1)
print("collected", dst)
