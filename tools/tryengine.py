#!/usr/bin/env python3
"""developer helper: tryengine.py <engine> <n> [profile] [funcs...] — run an engine and evaluate in Coq"""
import json, os, sys, subprocess, time
sys.path.insert(0, os.path.dirname(os.path.abspath(__file__)))
import coqeval
engine, n = sys.argv[1], int(sys.argv[2])
profile = sys.argv[3] if len(sys.argv) > 3 else "debug"
funcs = tuple(sys.argv[4:]) or ("corr", "oracle")
seed = os.environ.get("VERIF_SEED", "1")
t = time.time()
p = subprocess.run(["bash", "-c", f"ulimit -v 4000000; /verif/build/target/{profile}/bsverif {engine} {seed} {n} {os.environ.get('VERIF_TIER','quick')}"], capture_output=True, text=True)
cases = [json.loads(l) for l in p.stdout.split("\n") if l.startswith("{")]
print("cases", len(cases), "harness rc", p.returncode, "t=%.1f" % (time.time() - t), p.stderr[-300:])
res, errs = coqeval.evaluate(engine, "try", cases, funcs=funcs, shard=int(os.environ.get("SHARD","400")))
print({k: len(v) for k, v in res.items()}, "errors", len(errs), "t=%.1f" % (time.time() - t))
for e in errs[:2]:
    print(e["err"][-800:])
for fn in funcs:
    if fn.startswith("+"):
        continue
    for i in res[fn][:int(os.environ.get("SHOW", "1"))]:
        print("---", fn, i, "tags", cases[i].get("tags"), json.dumps(cases[i])[:int(os.environ.get("WIDTH", "300"))])
