"""Evaluate correspondence cases inside Coq: writes cases_*.v files, runs coqc in parallel and
returns, per shard, the indices whose `corr` / `oracle` (defined in theories/Corr_<engine>.v) is false.
The comparison itself is done by Coq (vm_compute); only a short list of numbers is parsed back."""
import json
import os
import re
import subprocess
from concurrent.futures import ThreadPoolExecutor

from coqterm import to_coq

ROOT = os.path.dirname(os.path.dirname(os.path.abspath(__file__)))
THEORIES = os.path.join(ROOT, "coq", "theories")
CASEDIR = os.path.join(ROOT, "build", "cases")

SHARD = 400


def _run_shard(args):
    engine, tag, k, cases, funcs = args
    name = f"cases_{tag}_{engine}_{k}"
    path = os.path.join(CASEDIR, name + ".v")
    with open(path, "w") as f:
        f.write(f"From BS Require Import Bytes Cid Prefix Proto Types Corr_{engine}.\nOpen Scope N_scope.\n")
        f.write("Definition brep (n v : N) : list N := N.iter n (cons v) [].   (* run-length segments of long byte strings, tools/coqterm.py *)\n")
        f.write(f"Definition cases : list Corr_{engine}.case := [\n")
        f.write(";\n".join("(" + to_coq(c["i"]) + ",\n " + to_coq(c["o"]) + ")" for c in cases))
        f.write("\n].\n")
        # a function name starting with '+' is reported where it is TRUE (known-finding classes)
        terms = []
        for fn in funcs:
            if fn.startswith("+"):
                terms.append(f"bad_indices (fun x => negb (Corr_{engine}.{fn[1:]} x)) cases")
            else:
                terms.append(f"bad_indices Corr_{engine}.{fn} cases")
        f.write("Eval vm_compute in (" + ", ".join(terms) + ", 0).\n")
    try:
        p = subprocess.run(["coqc", "-noglob", "-Q", THEORIES, "BS", path], capture_output=True, text=True,
                           timeout=1500, cwd=CASEDIR)
    except subprocess.TimeoutExpired:
        return {"ok": False, "err": f"coqc timeout on {path}", "path": path}
    out = " ".join(p.stdout.split())
    if p.returncode != 0:
        return {"ok": False, "err": (p.stderr or p.stdout)[-2000:], "path": path}
    m = re.search(r"=\s*\((.*),\s*0\)\s*:", out)
    lists = re.findall(r"\[([^\]]*)\]", m.group(1)) if m else None
    if lists is None or len(lists) != len(funcs):
        return {"ok": False, "err": "unparsable coqc output: " + out[-500:], "path": path}
    for ext in (".vo", ".vok", ".vos", ".glob"):
        try:
            os.remove(os.path.join(CASEDIR, name + ext))
        except OSError:
            pass
    return {"ok": True, "lists": [[int(x) for x in re.findall(r"\d+", l)] for l in lists], "path": path}


def evaluate(engine, tag, cases, funcs=("corr", "oracle"), jobs=16, shard=SHARD, max_bytes=250000):
    """returns ({func: [indices into cases]}, errors)"""
    os.makedirs(CASEDIR, exist_ok=True)
    # consecutive cases are grouped into shards of at most `shard` cases and about `max_bytes` of JSON text
    # (elaborating the case literals dominates the cost, so big cases get shards of their own)
    shards, bases, cur, cur_bytes, start = [], [], [], 0, 0
    for i, c in enumerate(cases):
        sz = c.get("_size") or len(json.dumps(c["i"])) + len(json.dumps(c["o"]))
        if cur and (len(cur) >= shard or cur_bytes + sz > max_bytes):
            shards.append((engine, tag, len(shards), cur, funcs))
            bases.append(start)
            cur, cur_bytes, start = [], 0, i
        cur.append(c)
        cur_bytes += sz
    if cur:
        shards.append((engine, tag, len(shards), cur, funcs))
        bases.append(start)
    # biggest first so that the long ones do not end up last in the pool
    order = sorted(range(len(shards)), key=lambda k: -sum(len(json.dumps(c["i"])) for c in shards[k][3]))
    res = {fn: [] for fn in funcs}
    errors = []
    with ThreadPoolExecutor(max_workers=jobs) as ex:
        for (k, r) in zip(order, ex.map(_run_shard, [shards[k] for k in order])):
            sh = shards[k]
            base = bases[k]
            if not r["ok"]:
                errors.append(r)
                continue
            for fn, l in zip(funcs, r["lists"]):
                res[fn] += [base + i for i in l]
            try:
                os.remove(r["path"])
            except OSError:
                pass
    return res, errors


def model_output(engine, case):
    """ask Coq what the model computes for one case (for the replay file)"""
    os.makedirs(CASEDIR, exist_ok=True)
    path = os.path.join(CASEDIR, f"show_{engine}_{os.getpid()}.v")
    with open(path, "w") as f:
        f.write(f"From BS Require Import Bytes Cid Prefix Proto Types Corr_{engine}.\nOpen Scope N_scope.\n")
        f.write("Definition brep (n v : N) : list N := N.iter n (cons v) [].   (* run-length segments of long byte strings, tools/coqterm.py *)\n")
        f.write(f"Eval vm_compute in (Corr_{engine}.model {to_coq(case['i'])}).\n")
    try:
        p = subprocess.run(["coqc", "-noglob", "-Q", THEORIES, "BS", path], capture_output=True, text=True,
                           timeout=300, cwd=CASEDIR)
        return " ".join(p.stdout.split())[:4000] if p.returncode == 0 else "coqc failed: " + p.stderr[-500:]
    except subprocess.TimeoutExpired:
        return "timeout"
    finally:
        for ext in (".v", ".vo", ".vok", ".vos", ".glob"):
            try:
                os.remove(path[:-2] + ext)
            except OSError:
                pass
