"""Evaluate correspondence cases inside Coq: writes cases_*.v files, runs coqc in parallel and
returns, per shard, the indices whose `corr` / `oracle` (defined in theories/Corr_<engine>.v) is false.
The comparison itself is done by Coq (vm_compute); only a short list of numbers is parsed back."""
import os
import re
import subprocess
from concurrent.futures import ThreadPoolExecutor

from coqterm import to_coq

ROOT = os.path.dirname(os.path.dirname(os.path.abspath(__file__)))
THEORIES = os.path.join(ROOT, "coq", "theories")
CASEDIR = os.path.join(ROOT, "build", "cases")

SHARD = 400


def _run_shard(args):
    engine, tag, k, cases, extra = args
    name = f"cases_{tag}_{engine}_{k}"
    path = os.path.join(CASEDIR, name + ".v")
    with open(path, "w") as f:
        f.write(f"From BS Require Import Bytes Cid Prefix Proto Types Corr_{engine}.\nOpen Scope N_scope.\n")
        f.write(f"Definition cases : list Corr_{engine}.case := [\n")
        f.write(";\n".join("(" + to_coq(c["i"]) + ",\n " + to_coq(c["o"]) + ")" for c in cases))
        f.write("\n].\n")
        f.write(f"Eval vm_compute in (bad_indices Corr_{engine}.corr cases, bad_indices Corr_{engine}.oracle cases{extra}).\n")
    try:
        p = subprocess.run(["coqc", "-noglob", "-Q", THEORIES, "BS", path], capture_output=True, text=True,
                           timeout=900, cwd=CASEDIR)
    except subprocess.TimeoutExpired:
        return {"ok": False, "err": f"coqc timeout on {path}", "path": path}
    out = " ".join(p.stdout.split())
    if p.returncode != 0:
        return {"ok": False, "err": (p.stderr or p.stdout)[-2000:], "path": path}
    m = re.search(r"=\s*\((\[[^\]]*\]),\s*(\[[^\]]*\])(.*?)\)\s*:", out)
    if not m:
        return {"ok": False, "err": "unparsable coqc output: " + out[-500:], "path": path}

    def nums(s):
        return [int(x) for x in re.findall(r"\d+", s)]

    for ext in (".vo", ".vok", ".vos", ".glob"):
        try:
            os.remove(os.path.join(CASEDIR, name + ext))
        except OSError:
            pass
    return {"ok": True, "corr": nums(m.group(1)), "oracle": nums(m.group(2)), "extra": m.group(3), "path": path}


def evaluate(engine, tag, cases, jobs=16, extra=""):
    """returns (bad_corr_indices, bad_oracle_indices, errors) with indices into `cases`"""
    os.makedirs(CASEDIR, exist_ok=True)
    shards = [(engine, tag, k, cases[i:i + SHARD], extra) for k, i in enumerate(range(0, len(cases), SHARD))]
    bad_corr, bad_oracle, errors = [], [], []
    with ThreadPoolExecutor(max_workers=jobs) as ex:
        for (sh, res) in zip(shards, ex.map(_run_shard, shards)):
            base = sh[2] * SHARD
            if not res["ok"]:
                errors.append(res)
                continue
            bad_corr += [base + i for i in res["corr"]]
            bad_oracle += [base + i for i in res["oracle"]]
            try:
                os.remove(res["path"])
            except OSError:
                pass
    return bad_corr, bad_oracle, errors


def model_output(engine, case):
    """ask Coq what the model computes for one case (for the replay file)"""
    os.makedirs(CASEDIR, exist_ok=True)
    path = os.path.join(CASEDIR, f"show_{engine}_{os.getpid()}.v")
    with open(path, "w") as f:
        f.write(f"From BS Require Import Bytes Cid Prefix Proto Types Corr_{engine}.\nOpen Scope N_scope.\n")
        f.write(f"Eval vm_compute in (Corr_{engine}.model {to_coq(case['i'])}).\n")
    try:
        p = subprocess.run(["coqc", "-noglob", "-Q", THEORIES, "BS", path], capture_output=True, text=True,
                           timeout=300, cwd=CASEDIR)
        return " ".join(p.stdout.split())[:4000] if p.returncode == 0 else "coqc failed: " + p.stderr[-500:]
    except subprocess.TimeoutExpired:
        return "timeout"
    finally:
        for ext in (".v", ".vo", ".vok", ".vos", ".glob"):
            try:
                os.remove(path[:-2] + ext)
            except OSError:
                pass
