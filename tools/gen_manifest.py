#!/usr/bin/env python3
"""Writes MANIFEST.json from tools/props.py (claimed properties) and properties.jsonl."""
import json
import os
import subprocess
import sys

ROOT = os.path.dirname(os.path.dirname(os.path.abspath(__file__)))
sys.path.insert(0, os.path.join(ROOT, "tools"))
import props  # noqa: E402

ids = [json.loads(l)["id"] for l in open(os.path.join(ROOT, "properties.jsonl"))]
hook_commits = [l.split()[0] for l in subprocess.run(["git", "-C", "/repo", "log", "--format=%h %s"], capture_output=True, text=True).stdout.split("\n") if "verif hook" in l]

checks = []
for pid in ids:
    if pid not in props.PROPS:
        continue
    sp = props.PROPS[pid]
    checks.append({
        "property_id": pid,
        "quick_cmd": f"python3 check.py {pid} --tier quick",
        "thorough_cmd": f"python3 check.py {pid} --tier thorough",
        "evidence_file": f"/verif/evidence/{pid}.json",
        "replay_cmd_template": f"python3 check.py {pid} --replay {{path}}",
        "engine": "+".join(e["name"] for e in sp["engines"]),
        "level_claimed": {
            "category": "proof",
            "text": sp.get("level_text", "Theorems in coq/theories/Props_%s.v about an executable Gallina model, proved for all inputs/histories (no bound); "
                                         "the model is tied to /repo on every run by the translator (Extracted.v + Tie_*.v) and by a differential "
                                         "correspondence run (implementation vs model on the same generated inputs, compared inside Coq); the property "
                                         "oracle is also evaluated on the implementation's own outputs to produce a concrete replay." % pid),
            "design_ref": sp.get("design_ref", "DESIGN.md §6 " + pid),
        },
        "level_note": sp.get("level_note", "; ".join(sp.get("assumptions", [])) or "see DESIGN.md §8"),
        "technique": sp.get("technique", "machine-checked proof in Coq 8.16.1 over a hand-written model + checked correspondence (differential, vm_compute) + translator-generated tie lemmas"),
    })

na = [{"property_id": pid, "reason": props.NOT_CLAIMED.get(pid, "check not built yet (work in progress): no theorem + correspondence engine registered for it")}
      for pid in ids if pid not in props.PROPS]

manifest = {
    "version": 1,
    "setup_cmd": "./setup.sh",
    "hooks": {
        "guard": "beetswap_verif",
        "enable": "RUSTFLAGS=\"--cfg beetswap_verif\" (set in harness/.cargo/config.toml); the harness crate path-depends on /repo",
        "baseline_off_cmd": "cd /repo && cargo test --workspace --no-fail-fast --offline",
        "source_commits": hook_commits,
        "add_only": False,
    },
    "engines": [
        {"name": "coq", "path": "coq/", "serves_properties": [c["property_id"] for c in checks], "kind_free_text": "Coq 8.16.1 development (models, proofs, Props_*.v, Tie_*.v, Corr_*.v)"},
        {"name": "harness", "path": "harness/", "serves_properties": [c["property_id"] for c in checks], "kind_free_text": "Rust crate driving the implementation through the beetswap::verif facade; prints JSON cases"},
        {"name": "translator", "path": "tools/gen_extracted.py", "serves_properties": [c["property_id"] for c in checks], "kind_free_text": "regenerates coq/theories/Extracted.v from /repo on every run"},
    ],
    "checks": checks,
    "notes": "check.py <ID>: sync (translator, make, cargo) -> proofs/audit -> correspondence + oracle on implementation outputs -> verdict -> evidence. known_findings.json lists fixed and known findings.",
    "not_applicable": na,
}
json.dump(manifest, open(os.path.join(ROOT, "MANIFEST.json"), "w"), indent=1)
print("claimed:", [c["property_id"] for c in checks])
