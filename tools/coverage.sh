#!/bin/bash
# Developer aid (not a registered check): which lines of /repo/src do the engines' generators reach?
# Builds a coverage-instrumented copy of the harness against a scratch worktree of /repo HEAD with the nightly toolchain
# (llvm-tools), runs every engine once with its quick-tier size, prints llvm-cov's per-file report and the uncovered lines.
# Everything lives under /tmp/cov and is removed at the end.
set -e
T=~/.rustup/toolchains/nightly-x86_64-unknown-linux-gnu/lib/rustlib/x86_64-unknown-linux-gnu/bin
rm -rf /tmp/cov; mkdir -p /tmp/cov/prof
git -C /repo worktree add -q --detach /tmp/cov/repo HEAD
cp -r /verif/harness /tmp/cov/harness; cd /tmp/cov/harness
sed -i 's#path = "/repo"#path = "/tmp/cov/repo"#' Cargo.toml
printf '[net]\noffline = true\n\n[build]\ntarget-dir = "/tmp/cov/target"\nrustflags = ["--cfg", "beetswap_verif", "-C", "instrument-coverage"]\n' > .cargo/config.toml
cargo +nightly build --offline -j8 2>&1 | tail -1
B=/tmp/cov/target/debug/bsverif
run() { LLVM_PROFILE_FILE=/tmp/cov/prof/$1-%p.profraw timeout 900 $B $1 ${VERIF_SEED:-1} $2 quick > /dev/null 2>/tmp/cov/prof/$1.err || echo "$1 failed"; }
for e in "prefix 2500" "convert 1500" "builder 400" "hasher 1500" "incoming 3000" "conn 600" "stream 1200" "codec 1200" "srvsplit 60" \
         "srvhandler 400" "handler 800" "connhandler 400" "wantlist 1200" "client 600" "server 150" "node 300" "net 2500"; do run $e & done; wait
$T/llvm-profdata merge -sparse /tmp/cov/prof/*.profraw -o /tmp/cov/all.profdata
$T/llvm-cov report $B -instr-profile=/tmp/cov/all.profdata --sources /tmp/cov/repo/src | grep -v "verif/"
for f in lib.rs client.rs server.rs wantlist.rs incoming_stream.rs multihasher.rs message.rs cid_prefix.rs utils.rs builder.rs; do
  echo "=== uncovered lines of $f"
  $T/llvm-cov show $B -instr-profile=/tmp/cov/all.profdata --sources /tmp/cov/repo/src/$f --show-line-counts-or-regions 2>/dev/null | grep -E "^\s+[0-9]+\|\s+0\|" | cut -c1-140
done
cd /; git -C /repo worktree remove --force /tmp/cov/repo; rm -rf /tmp/cov
