#!/usr/bin/env python3
"""developer helper: diag.py <engine> <n> <case index> <coq expr using x> — evaluates an expression on one case"""
import json, os, subprocess, sys
sys.path.insert(0, os.path.dirname(os.path.abspath(__file__)))
from coqterm import to_coq
engine, n, idx, expr = sys.argv[1], sys.argv[2], int(sys.argv[3]), sys.argv[4]
profile = os.environ.get("PROFILE", "debug")
p = subprocess.run([f"/verif/build/target/{profile}/bsverif", engine, os.environ.get("VERIF_SEED", "1"), n, os.environ.get("VERIF_TIER", "quick")], capture_output=True, text=True)
cases = [json.loads(l) for l in p.stdout.split("\n") if l.startswith("{")]
c = cases[idx]
path = "/verif/build/cases/diag.v"
os.makedirs("/verif/build/cases", exist_ok=True)
open(path, "w").write(f"From BS Require Import Bytes Cid Prefix Proto Types Corr_{engine}.\nOpen Scope N_scope.\nDefinition x : Corr_{engine}.case := ({to_coq(c['i'])},\n {to_coq(c['o'])}).\nEval vm_compute in ({expr}).\n")
r = subprocess.run(["coqc", "-noglob", "-Q", "/verif/coq/theories", "BS", path], capture_output=True, text=True, cwd="/verif/build/cases")
print(" ".join(r.stdout.split())[:6000], r.stderr[-1500:])
if len(sys.argv) > 5:
    k = int(sys.argv[5])
    ops = c["i"]["t"][1] if "t" in c["i"] else c["i"]
    for j in range(max(0, k - 6), k + 1):
        print(j, json.dumps(ops[j])[:300], "=>", json.dumps(c["o"][j]["t"][0])[:400])
