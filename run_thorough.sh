#!/bin/bash
# developer aid: run every claimed property's thorough check in turn and print one line per property
cd "$(dirname "$0")"
for id in $(python3 -c "import sys;sys.path.insert(0,'tools');import props;print(' '.join(sorted(props.PROPS)))"); do
  start=$(date +%s)
  out=$(python3 check.py $id --tier thorough 2>&1)
  rc=$?
  echo "$id rc=$rc $(( $(date +%s) - start ))s $(echo "$out" | grep -E '^\[check\] C[0-9]+ thorough' | tail -1 | sed 's/.*thorough: //' | cut -c1-140)"
  echo "$out" | grep -E '^(VIOLATION|KNOWN|BROKEN)' | head -3
done
