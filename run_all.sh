#!/bin/bash
# run every claimed check (quick by default) on the current tree; used to refresh evidence/ before committing
cd "$(dirname "$0")"
tier=${1:-quick}
for id in $(python3 -c "import json;print(' '.join(c['property_id'] for c in json.load(open('MANIFEST.json'))['checks']))"); do
  out=$(python3 check.py $id --tier $tier 2>&1); rc=$?
  echo "$id rc=$rc $(echo "$out" | grep -E '^\[check\] C' | tail -1 | cut -c1-160)"
  echo "$out" | grep -E "^(VIOLATION|BROKEN)" | head -3
done
# every evidence file just written must be a valid, small record
$(command -v python3-vt || echo python3) tools/validate_evidence.py | grep -v " ok " ; true
